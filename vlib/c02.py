"""C02 — accepted responses are in the WARC, byte-exact, before the seed is finished."""
import base64, json, os
from . import core, e2e

SECTIONS = ["Archiver", "Queue"]
LEVEL = "proof"
RULE = ("whole crawls (real pipeline, synchronous WARC writing) against a scripted origin with a fake crawl HQ that records, at the very "
        "moment a seed is acknowledged, which response records are complete on disk: pages whose assets have bodies of 0 / 1 / 2047 / 2048 / "
        "2049 / 70 000 / (thorough) 2 MiB +-1 and 40 MB bytes, text / binary / empty, identity / gzip content-encoding, content-length / "
        "chunked framing, statuses 200 / 204 / 301 / 403 / 404 / 500 / 503 (retried, then failed or recovered), Cloudflare challenge pages, "
        "--warc-discard-status lists, duplicate payloads above and below the dedupe threshold, pool sizes 1..3, on-disk mode, local dedupe "
        "on / off, asset concurrency 1..4. Every record on disk is read back member by member with compress/gzip (not the WARC library) and "
        "compared with what the origin sent; the discard / retry decisions are compared with the model's tables. Non-trivial: a crawl with "
        "a retried attempt or a discarded response and >= 4 stored responses; distinct by scenario")

SIZES = [0, 1, 100, 2047, 2048, 2049, 70000]


def b32(sha1hex):
    return "sha1:" + base64.b32encode(bytes.fromhex(sha1hex)).decode()


def gen(r, k, thorough):
    discard = r.choice([[], [], [404], [503, 404], [500]])
    cfg = {"workers": 1, "maxConcurrentAssets": r.choice([1, 2, 4]), "maxRetry": r.choice([0, 1]), "httpTimeout": 10, "hqBatchSize": 1,
           "warcPoolSize": r.choice([1, 1, 3]), "warcOnDisk": r.random() < 0.2, "disableLocalDedupe": r.random() < 0.3,
           "warcDedupeSize": r.choice([1024, 100]), "discardStatus": discard}
    site, assets = {}, []
    n = r.randrange(2, 9)
    dup_seed = r.randrange(100, 200)
    for i in range(n):
        path = "/c%d/a%d.bin" % (k, i)
        kind = r.choice(["ok", "ok", "ok", "gz", "chunked", "404", "500then200", "503", "cf", "dup", "dup", "empty", "204", "403", "slow", "big503", "bigtext", "bigbin"])
        if k == 0 and i < 2:
            kind = ["bigbin", "bigtext"][i]      # always: one large binary next to small requisites fetched concurrently, one text body over the spool threshold
        size = r.choice(SIZES + ([2 * 1024 * 1024 - 1, 2 * 1024 * 1024, 2 * 1024 * 1024 + 1] if thorough and r.random() < 0.3 else []))
        body = {"kind": r.choice(["bin", "text", "png"]), "size": size, "seed": i + 17 * k}
        p = {"ctype": r.choice(["application/octet-stream", "text/plain", "image/png", "application/json"]), "body": body}
        if kind == "gz":
            p["gzip"] = True
        elif kind == "chunked":
            p["chunked"] = True
        elif kind == "404":
            p["status"] = 404
        elif kind == "500then200":
            p["attempts"] = [{"status": 500}, {}]
        elif kind == "503":
            p["status"] = 503
        elif kind == "cf":
            p["attempts"] = [{"cf": True}, {"cf": True}] if r.random() < 0.5 else [{"cf": True}, {}]
        elif kind == "dup":
            p["body"] = {"kind": "bin", "size": r.choice([50, 5000]), "seed": dup_seed}
        elif kind == "empty":
            p["body"] = {"kind": "bin", "size": 0, "seed": 1}
        elif kind == "204":
            p["status"] = 204
            p["body"] = {"kind": "bin", "size": 0, "seed": 1}
        elif kind == "403":
            p["status"] = 403
        elif kind == "slow":
            p["slowMs"] = 300
        elif kind == "bigtext":
            # a text body larger than the 2 MiB the crawler keeps in memory for post-processing
            p["ctype"] = r.choice(["text/html", "text/plain", "application/json"])
            p["body"] = {"kind": "text", "size": r.choice([2 * 1024 * 1024 + 4096, 3000000]), "seed": 9}
        elif kind == "bigbin":
            p["ctype"] = "application/octet-stream"
            p["body"] = {"kind": "bin", "size": 16000000 if thorough else 9000000, "seed": 11}
        elif kind == "big503":
            p["status"] = 503
            p["body"] = {"kind": "bin", "size": 40000000 if thorough else 12000000, "seed": 5}
        site[path] = p
        assets.append(path)
    if k == 0:
        cfg["maxConcurrentAssets"] = 4
    site["/c%d/" % k] = {"ctype": "text/html", "body": {"kind": "html", "assets": assets, "outlinks": [], "pad": r.choice([0, 0, 1900, 2100])}}
    return {"useHQ": True, "snapshotAtAck": True, "seeds": ["/c%d/" % k], "site": site, "cfg": cfg, "stop": {"when": "drain", "timeoutMs": 90000}}


def judge(ctx, scn, rep, err):
    rp = {"domain": "e2e", "scenario": scn}
    slim = {k: v for k, v in rep.items() if k not in ("requests", "warcRecords", "jobFiles", "acks")}
    if not rep.get("drained"):
        ctx.violation("the crawl did not finish: %s %s" % (slim, "" if rep.get("panic") else err[-300:]), rp); return None
    base = rep["base"]
    discard = scn["cfg"]["discardStatus"]
    reqs = rep.get("requests") or []
    recs = rep.get("warcRecords") or []
    # --- every file is a sequence of complete members
    if rep.get("warcTrailing"):
        ctx.violation("WARC file with an incomplete member after a graceful stop: %s" % rep["warcTrailing"], rp); return None
    for rc in recs:
        if not rc["complete"] or rc.get("err"):
            ctx.violation("incomplete / unreadable record on disk: %s" % rc, rp); return None
    if any(f.endswith(".open") for f in rep.get("warcFiles") or []):
        ctx.violation("a WARC file was left with its .open name: %s" % rep["warcFiles"], rp); return None
    # --- expectation, attempt by attempt
    lines, exp = [], []
    for q in reqs:
        if q["mode"] not in ("ok", "unknown"):
            continue
        spec = scn["site"].get(q["key"], {})
        att = spec.get("attempts") or [{}]
        a = dict(spec, **att[min(q["attempt"], len(att) - 1)])
        cf = bool(a.get("cf"))
        is_disc = (q["status"] == 403 and cf) or (bool(discard) and q["status"] in discard)
        exp.append((q, cf, is_disc))
    stored = [rc for rc in recs if rc["type"] in ("response", "revisit")]
    by_uri = {}
    for rc in stored:
        by_uri.setdefault(rc["uri"], []).append(rc)
    req_recs = {}
    for rc in recs:
        if rc["type"] == "request":
            req_recs[rc["uri"]] = req_recs.get(rc["uri"], 0) + 1
    n_stored = n_disc = n_retry = 0
    for q, cf, is_disc in exp:
        uri = base + q["key"]
        ctx.count("responses:" + ("discarded" if is_disc else "accepted"))
        got = by_uri.get(uri, [])
        match = [rc for rc in got if rc["status"] == q["status"] and ((rc["type"] == "response" and rc["len"] == q["len"] and rc["sha1"] == q["sha1"]) or
                                                                      (rc["type"] == "revisit" and rc.get("payloadDigest") == b32(q["sha1"])))]
        if is_disc:
            n_disc += 1
            if match:
                ctx.violation("the discarded response %d for %s (cf=%s, --warc-discard-status %s) was written: %s" % (q["status"], q["key"], cf, discard, match[0]), dict(rp, url=q["key"])); return None
            continue
        if not match:
            ctx.violation("no response / revisit record with the payload the server sent (%d bytes, sha1 %s, status %d) for %s; records for that URL: %s" % (
                q["len"], q["sha1"], q["status"], q["key"], got), dict(rp, url=q["key"])); return None
        match[0]["_used"] = True
        by_uri[uri] = [rc for rc in got if rc is not match[0]]
        n_stored += 1
        if match[0]["type"] == "revisit":
            ctx.count("revisit-records")
    for uri, left in by_uri.items():
        if left:
            ctx.violation("response record(s) on disk that correspond to nothing the origin sent: %s" % left[:2], rp); return None
    for uri, cnt in req_recs.items():
        have = sum(1 for q, cf, d in exp if base + q["key"] == uri and not d)
        if cnt != have:
            ctx.violation("%d request record(s) for %s but %d accepted exchange(s)" % (cnt, uri, have), rp); return None
    # --- stored by the time the seed was acknowledged
    acks = rep.get("acks") or []
    if len(acks) != 1:
        ctx.violation("%d acknowledgements for one seed" % len(acks), rp); return None
    on = list(acks[0].get("onDisk") or [])
    for q, cf, is_disc in exp:
        if is_disc:
            continue
        tag = "%s %d" % (base + q["key"], q["status"])
        if tag in on:
            on.remove(tag)
        else:
            ctx.violation("the seed was acknowledged as finished while the %d response for %s (%d bytes) was not yet in the WARC files on disk" % (
                q["status"], q["key"], q["len"]), dict(rp, url=q["key"])); return None
    n_retry = sum(1 for q in reqs if q["attempt"] > 0)
    ctx.case(json.dumps(scn["site"], sort_keys=True) + json.dumps(scn["cfg"]), (n_retry >= 1 or n_disc >= 1) and n_stored >= 4)
    ctx.count("crawls")
    return exp


def gen_stop(r, k):
    """several seeds behind one busy WARC writer, and a stop request in the middle: whatever is acknowledged as finished - before, during or
    after the stop - must have its records on disk at that very moment"""
    site = {"/w%d/big.bin" % k: {"ctype": "application/octet-stream", "body": {"kind": "bin", "size": r.choice([25000000, 45000000]), "seed": 3}}}
    seeds = ["/w%d/big.bin" % k]
    for i in range(r.randrange(6, 12)):
        site["/w%d/p%d" % (k, i)] = {"ctype": "text/plain", "body": {"kind": "text", "size": r.choice([300, 3000, 60000]), "seed": i}, "delayMs": r.choice([0, 0, 40])}
        seeds.append("/w%d/p%d" % (k, i))
    cfg = {"workers": r.choice([2, 4]), "maxConcurrentAssets": 1, "maxRetry": 0, "httpTimeout": 10, "hqBatchSize": 1, "warcPoolSize": 1, "discardStatus": []}
    return {"useHQ": True, "snapshotAtAck": True, "seeds": seeds, "site": site, "cfg": cfg, "kind": "stop-behind-busy-writer",
            "stop": {"when": "requests", "n": r.choice([3, 4, 5, 6]), "extraMs": r.choice([0, 0, 30]), "timeoutMs": 30000, "stopTimeoutMs": 60000}}


def judge_stop(ctx, scn, rep, err):
    rp = {"domain": "e2e", "scenario": scn}
    ctx.count("stop-crawls")
    if rep.get("died") or rep.get("harnessTimeout") or rep.get("stopPanic") or rep.get("stopHung"):
        ctx.violation("the crawl stopped behind a busy WARC writer did not end cleanly: %s" % {k: v for k, v in rep.items() if k in ("died", "panic", "stopPanic", "stopHung", "harnessTimeout")}, rp)
        return
    base = rep["base"]
    sent = {}
    for q in rep.get("requests") or []:
        if q["mode"] == "ok":
            sent[q["key"]] = q
    nack = 0
    for a in rep.get("acks") or []:
        sid = a.get("id", "")
        try:
            path = scn["seeds"][int(sid[1:])]
        except (ValueError, IndexError):
            continue
        nack += 1
        q = sent.get(path)
        if q is None:
            continue          # acknowledged without a completed exchange (failed / cut by the stop): nothing to store
        if "%s %d" % (base + path, q["status"]) not in (a.get("onDisk") or []):
            ctx.violation("seed %s (%s) was acknowledged as finished %s while its %d response (%d bytes) was not in the WARC files on disk (stop after %d requests, one "
                          "WARC writer busy with a large record)" % (sid, path, "during / after the stop request" if a.get("requestsBefore", 0) >= scn["stop"]["n"] else "",
                                                                    q["status"], q["len"], scn["stop"]["n"]), dict(rp, url=path))
            return
    for rc in rep.get("warcRecords") or []:
        if not rc["complete"] or rc.get("err"):
            ctx.violation("incomplete / unreadable record on disk after the stop: %s" % rc, rp); return
    ctx.case(json.dumps([scn["cfg"], scn["stop"], len(scn["seeds"])]), nack >= 1)
    ctx.count("stop-crawls:acks", nack)


def tables(ctx, exps):
    """the discard / retry decisions the crawl revealed, against the model's tables"""
    lines, meta = [], []
    for scn, exp, rep in exps:
        by = e2e.requests_by_key(rep)
        for key, qs in by.items():
            qs = [q for q in qs if q["mode"] in ("ok", "unknown", "reset")]
            for i, q in enumerate(qs):
                if q["mode"] == "reset":
                    continue
                spec = scn["site"].get(key, {})
                att = spec.get("attempts") or [{}]
                a = dict(spec, **att[min(q["attempt"], len(att) - 1)])
                cf = bool(a.get("cf"))
                followed = i + 1 < len(qs)
                lines.append(json.dumps({"op": "decide", "status": q["status"], "cf": cf, "discard": scn["cfg"]["discardStatus"]}))
                meta.append((scn, key, q, followed, i, scn["cfg"]["maxRetry"]))
    if not lines:
        return
    rc, model, e = core.run_model("stage", lines, timeout=300)
    for (scn, key, q, followed, i, mr), m in zip(meta, model):
        f = dict(x.split("=") for x in m.split(" "))
        ctx.count("decisions")
        # another request followed in the same visit <=> the model says "retried" and the budget was not used up
        want = f["retried"] == "true" and i < mr
        if want != followed:
            ctx.disagree({"domain": "e2e", "scenario": scn, "url": key, "attempt": i, "status": q["status"]}, "followed-by-another-attempt=%s" % followed, m + " maxRetry=%d" % mr)


def run(ctx):
    n = 120 if ctx.thorough() else 8
    d = os.path.join(core.VERIF, "corpus", "C02")
    scns = []
    for f in sorted(os.listdir(d)) if os.path.isdir(d) else []:
        scns.append(json.load(open(os.path.join(d, f)))["scenario"])
    scns += [gen(ctx.rng, k, ctx.thorough()) for k in range(n)]
    scns += [gen_stop(ctx.rng, k) for k in range(30 if ctx.thorough() else 6)]
    results = e2e.run_many(scns, timeout=180, workers=8)
    exps = []
    for scn, (rep, err) in zip(scns, results):
        if scn.get("kind") == "stop-behind-busy-writer":
            judge_stop(ctx, scn, rep, err)
            continue
        exp = judge(ctx, scn, rep, err)
        if exp is not None:
            exps.append((scn, exp, rep))
    tables(ctx, exps)
    ctx.sample({"cfg": scns[-1]["cfg"], "pages": {k: {x: y for x, y in v.items() if x != "body"} for k, v in list(scns[-1]["site"].items())[:4]}})
    ctx.assumptions += ["the WARC library's contract (records complete on disk and flushed when the feedback channel fires; DiscardHook true => nothing "
                        "written) is validated by reading the files back, not proved",
                        "the ack-time snapshot is taken inside the fake HQ's DELETE handler, i.e. after the crawler decided to report the seed",
                        "asynchronous WARC writing (--async-warc-write) is outside the property"]


def replay(ctx, doc):
    rp = doc.get("replay", doc)
    if "scenario" in rp and rp["scenario"].get("kind") == "stop-behind-busy-writer":
        rep, err = e2e.run_one(rp["scenario"], timeout=180)
        judge_stop(ctx, rp["scenario"], rep, err)
        return
    if "scenario" in rp:
        rep, err = e2e.run_one(rp["scenario"], timeout=180)
        judge(ctx, rp["scenario"], rep, err)
