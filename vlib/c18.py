"""C18 — low-disk guard: threshold semantics exact and monotone."""
import json, os
from fractions import Fraction
from . import core

SECTIONS = ["Disk", "DiskProg"]
LEVEL = "proof"
RULE = ("boundary-focused (total, free, min-space) triples: totals around 256 GiB / powers of two / 2^53 / 2^63 / 2^64, "
        "min-space from a table of awkward decimals plus random floats, free at floor/ceil(threshold)±1 and random; "
        "a case is non-trivial when free lies within 2 bytes of the exact threshold or the (total, min-space) pair exercises "
        "the scaled branch; distinct by (total, free, min-space)")

GIB = 1 << 30
U64 = (1 << 64) - 1


def spec_threshold(total, msr):
    """Written from the property text, exact rationals."""
    m = Fraction(msr)
    if m > 0:
        return m * GIB
    if total <= 256 * GIB:
        return Fraction(50 * GIB * total, 256 * GIB)
    return Fraction(50 * GIB)


def line(total, free, msr):
    return json.dumps({"total": str(total), "free": str(free), "msr": repr(float(msr)), "msrq": core.frac(float(msr))})


def gen(ctx, n):
    r = ctx.rng
    totals = [0, 1, 256 * GIB - 1, 256 * GIB, 256 * GIB + 1, 128 * GIB, 100 * GIB + 7, 5 * GIB + 123, 1 << 53, (1 << 53) + 1,
              (1 << 63) - 1, 1 << 63, U64, 10 ** 12, 3 * 10 ** 9]
    msrs = [0.0, -1.0, 0.1, 0.3, 0.7, 1.0, 1.5, 20.0, 50.0, 1e-9, 5e-324, 2.0 ** 33, 2.0 ** 34 - 1, 123456.789, 0.30000000000000004]
    cases = []
    while len(cases) < n:
        k = r.random()
        total = r.choice(totals) if k < 0.4 else (r.randrange(0, 300 * GIB) if k < 0.8 else r.randrange(0, 1 << 64))
        k = r.random()
        msr = r.choice(msrs) if k < 0.5 else (0.0 if k < 0.7 else round(r.random() * r.choice([1, 10, 1000]), r.randrange(0, 6)))
        t = spec_threshold(total, msr)
        fl = t.numerator // t.denominator
        cand = [fl - 1, fl, fl + 1, fl + 2, 0, U64, r.randrange(0, 1 << 40)]
        free = min(max(r.choice(cand), 0), U64)
        cases.append((total, free, msr))
    return cases


def judge(ctx, cases, impl, model):
    """Correspondence + the property's own oracle (spec_threshold) on the implementation."""
    for (total, free, msr), a, b in zip(cases, impl, model):
        t = spec_threshold(total, msr)
        near = abs(Fraction(free) - t) <= 2
        ctx.case("%d/%d/%r" % (total, free, msr), near or (msr <= 0 and total <= 256 * GIB))
        ctx.count("impl:" + a)
        ctx.count("branch:" + ("operator" if msr > 0 else ("scaled" if total <= 256 * GIB else "flat")))
        if t > U64:
            ctx.count("skipped:threshold-exceeds-uint64")
            continue
        inp = {"total": total, "free": free, "msr": msr}
        if b == "overflow":
            ctx.count("model:conversion-unknown-or-out-of-range")
        elif a != b:
            ctx.disagree(inp, a, b)
        want = "refuse" if Fraction(free) < t else "accept"
        if a != want:
            ctx.violation("refusal is not `free < threshold`: total=%d free=%d min-space=%r threshold=%s implementation says %s"
                          % (total, free, msr, t, a), {"domain": "disk", "input": inp, "expected": want, "got": a})


def monotone(ctx, n):
    r = ctx.rng
    bad = 0
    lines, meta = [], []
    for chain in range(n):
        total = r.choice([r.randrange(0, 300 * GIB), r.randrange(0, 1 << 64), 256 * GIB])
        msr = r.choice([0.0, 0.3, round(r.random() * 100, 3)])
        t = spec_threshold(total, msr)
        fl = t.numerator // t.denominator
        frees = sorted(set(max(0, min(U64, f)) for f in [0, fl - 2, fl - 1, fl, fl + 1, fl + 2, r.randrange(0, 1 << 45), U64]))
        for f in frees:
            lines.append(line(total, f, msr)); meta.append((chain, total, f, msr))
    rc, out, err = core.run_impl("disk", lines)
    prev = None
    for (chain, total, f, msr), a in zip(meta, out):
        key = chain
        if prev and prev[0] == key and prev[2] == "accept" and a == "refuse":
            ctx.violation("not monotone: total=%d min-space=%r free=%d accepted but free=%d refused" % (total, msr, prev[1], f),
                          {"domain": "disk", "input": {"total": total, "msr": msr, "free_lo": prev[1], "free_hi": f}})
        prev = (key, f, a)
        ctx.case("mono/%d/%d/%r" % (total, f, msr), True)
    ctx.count("monotone-chains", n)


def corpus(ctx):
    cases = []
    d = os.path.join(core.VERIF, "corpus", "C18")
    for f in sorted(os.listdir(d)) if os.path.isdir(d) else []:
        if not os.path.isfile(os.path.join(d, f)):
            continue
        for l in open(os.path.join(d, f)):
            if l.strip():
                j = json.loads(l)
                cases.append((int(j["total"]), int(j["free"]), float(j["msr"])))
    return cases


def watcher(ctx, n):
    """the real CheckDiskUsage + WatchDiskSpace on the real volume vs the model's tick function"""
    r = ctx.rng
    lines = [json.dumps({"lows": [r.random() < 0.5 for _ in range(r.randrange(2, 7))]}) for _ in range(n)]
    lines.insert(0, json.dumps({"lows": [True, False, True, True, False]}))
    impl, model = ctx.pair("diskwatch", lines)
    for l, a, b in zip(lines, impl, model):
        ctx.case("watch" + l, True)
        ctx.count("watcher-sequences")
        lows = json.loads(l)["lows"]
        want = ",".join(("paused+refuse-start" if x else "run") for x in lows)
        if a != b:
            ctx.disagree(json.loads(l), a, b)
        if a != want:
            ctx.violation("watcher/start-up do not follow the guard: observations low=%s gave %s" % (lows, a),
                          {"domain": "diskwatch", "input": json.loads(l), "expected": want, "got": a})


def flag_probes(v):
    """(total, free) pairs around the threshold the operator asked for, on a 1 TiB volume"""
    t = Fraction(v) * GIB
    fl = t.numerator // t.denominator
    return [(1 << 40, max(0, f)) for f in (fl - 1, fl, fl + 1, 0, 60 * GIB)]


def flag_case(v, via, tmp):
    args = ["get", "url"] + (["--min-space-required", repr(v) if isinstance(v, float) else str(v)] if via == "flag" else []) + ["http://origin.invalid/"]
    env = {"HOME": tmp}
    if via == "env":
        env["ZENO_MIN_SPACE_REQUIRED"] = str(v)
    if via in ("alias-file", "flag+stale-alias"):
        # the operator's configuration file ($HOME/zeno-config.yaml): the short key `msr`, alone or left over next to the flag
        import tempfile as _tf
        home = _tf.mkdtemp(prefix="h", dir=tmp)
        env["HOME"] = home
        with open(os.path.join(home, "zeno-config.yaml"), "w") as f:
            f.write("msr: %s\n" % (v if via == "alias-file" else 100))
        if via == "flag+stale-alias":
            args = ["get", "url", "--min-space-required", repr(v) if isinstance(v, float) else str(v), "http://origin.invalid/"]
    doc = {"args": args, "probes": [[str(a), str(b)] for a, b in flag_probes(float(v))]}
    rc, out, err = core.run_impl("flags", [json.dumps(doc)], env=env, timeout=60)
    last = [l for l in out if l.startswith("{")]
    return doc, env, (json.loads(last[-1]) if last else {"error": "no answer rc=%s %s" % (rc, err[-200:])})


def flagpath(ctx, n):
    """The operator's setting as the operator gives it: the real command line (cobra flags, viper binding,
    config.InitConfig with its alias handling) or the ZENO_ environment variable, then the real threshold
    decision with the configuration that results. One process per command line."""
    import tempfile, shutil
    from concurrent.futures import ThreadPoolExecutor
    r = ctx.rng
    vals = [20, 20.0, 20.5, 19, 21, 1, 0.5, 50, 49.99, 100, 256, 1000, 2, 8, 64]
    vals += [r.randrange(1, 200) for _ in range(n)] + [round(r.random() * 100, r.randrange(0, 4)) or 1 for _ in range(n)]
    jobs = []
    fd = os.path.join(core.VERIF, "corpus", "C18", "flags")
    for f in sorted(os.listdir(fd)) if os.path.isdir(fd) else []:
        j = json.load(open(os.path.join(fd, f)))
        jobs.append((j["value"], j["via"]))
    jobs += [(v, "flag") for v in vals] + [(v, "env") for v in vals[: max(6, n)]]
    jobs += [(v, "alias-file") for v in [0.5, 0.25, 20, 1.5, 0.999, 3]] + [(v, "flag+stale-alias") for v in [0.5, 0.75, 2, 0.1]]
    tmp = tempfile.mkdtemp(prefix="c18home")
    try:
        with ThreadPoolExecutor(12) as ex:
            res = list(ex.map(lambda j: flag_case(j[0], j[1], tmp), jobs))
    finally:
        shutil.rmtree(tmp, ignore_errors=True)
    rcm, mout, merr = core.run_model("disk", [json.dumps({"givenq": core.frac(float(v))}) for v, _ in jobs])
    for ((v, via), (doc, env, out)), m in zip(zip(jobs, res), mout):
        if "minSpaceRequired" in out and m != core.frac(float(out["minSpaceRequired"])):
            ctx.disagree({"given": v, "via": via}, out["minSpaceRequired"], m)
        ctx.case("flag/%s/%r" % (via, v), True)
        ctx.count("operator-setting-via-" + via)
        rp = {"domain": "flags", "input": doc, "env": {k: w for k, w in env.items() if k != "HOME"}, "value": v}
        if "error" in out and "minSpaceRequired" not in out:
            raise RuntimeError("flags harness: " + str(out))
        got = float(out["minSpaceRequired"])
        want = ["refuse" if Fraction(f) < Fraction(float(v)) * GIB else "accept" for _, f in flag_probes(float(v))]
        if got != float(v) or out.get("decisions") != want:
            ctx.violation("the operator's --min-space-required is not the threshold used: given %r (%s), configuration holds %r, "
                          "decisions at free=threshold-1/threshold/threshold+1/0/60GiB on a 1 TiB volume are %s, the property says %s"
                          % (v, via, got, out.get("decisions"), want), dict(rp, expected=want, got=out))


def slow_worker(ctx, n):
    """low, sufficient while one worker is slow to acknowledge the resume, low again before it does: at the end the
    disk is low, so the pipeline (manager and worker) must be paused — the last element of the model's `watch`."""
    r = ctx.rng
    lines = [json.dumps({"op": "slowworker", "holdMs": h}) for h in [20] + [r.choice([5, 10, 30, 50]) for _ in range(n)]]
    rc, out, err = core.run_impl("diskwatch", lines, timeout=300)
    rcm, mout, merr = core.run_model("diskwatch", [json.dumps({"lows": [True, False, True]})])
    model_last = mout[0].split(",")[-1].startswith("paused") if mout else None
    if len(out) != len(lines):
        raise RuntimeError("diskwatch slowworker: %d answers for %d lines rc=%s %s" % (len(out), len(lines), rc, err[-300:]))
    for l, a in zip(lines, out):
        ctx.case("slowworker" + l, True)
        ctx.count("watcher-slow-acknowledgement")
        impl_last = "managerPaused=true workerPaused=true" in a
        if "firstPause=true" not in a:
            raise RuntimeError("slowworker scenario did not reach its first pause: " + a)
        if model_last is not None and impl_last != model_last:
            ctx.disagree(json.loads(l), a, mout[0])
        if not impl_last:
            ctx.violation("the disk is low but the pipeline is running: low, sufficient (a worker still acknowledging the resume), "
                          "low again, acknowledgement: " + a, {"domain": "diskwatch", "input": json.loads(l), "expected": "paused", "got": a})


def statfs_probe(ctx):
    """the real CheckDiskUsage on the real volume: the space that counts is what the process may use (statfs `bavail`),
    not the raw free blocks; settings 256 MiB below / above it, and one between `bavail` and `bfree` when the volume has
    reserved blocks"""
    rc, out, err = core.run_impl("diskwatch", [json.dumps({"op": "statfs"})], timeout=60)
    if not out or not out[0].startswith("avail="):
        raise RuntimeError("diskwatch statfs: %s %s" % (out, err[-300:]))
    kv = dict(x.split("=") for x in out[0].split())
    ctx.case("statfs", True)
    ctx.count("statfs-probe:" + ("reserved-blocks-gap" if kv["between"] != "no-gap" else "no-gap"))
    want = {"below": "accept", "above": "refuse", "between": "refuse"}
    for k, w in want.items():
        if kv[k] != w and kv[k] != "no-gap":
            ctx.violation("CheckDiskUsage does not decide on the space available on the volume (available %s, raw free %s bytes): "
                          "a threshold %s it gives %s" % (kv["avail"], kv["free"], {"below": "256 MiB below the available space",
                          "above": "256 MiB above the available space", "between": "between available and raw free"}[k], kv[k]),
                          {"domain": "diskwatch", "input": {"op": "statfs"}, "expected": want, "got": kv})


def run(ctx):
    n = 200000 if ctx.thorough() else 6000
    cases = corpus(ctx) + gen(ctx, n)
    lines = [line(*c) for c in cases]
    impl, model = ctx.pair("disk", lines)
    judge(ctx, cases, impl, model)
    monotone(ctx, 20000 if ctx.thorough() else 800)
    watcher(ctx, 60 if ctx.thorough() else 6)
    slow_worker(ctx, 20 if ctx.thorough() else 3)
    statfs_probe(ctx)
    flagpath(ctx, 60 if ctx.thorough() else 6)
    for c, a in list(zip(cases, impl))[:4]:
        ctx.sample({"total": c[0], "free": c[1], "min_space_required": c[2], "impl": a})
    ctx.assumptions += ["float64 products in checkThreshold are exact on the ranges used (validated by the correspondence, not proved)",
                        "uint64(x) for x >= 2^64 is implementation-defined: such triples are skipped and counted"]


def replay(ctx, doc):
    rp = doc.get("replay", doc)
    if rp.get("domain") == "flags":
        import tempfile, shutil
        tmp = tempfile.mkdtemp(prefix="c18home")
        try:
            via = "env" if rp.get("env") else "flag"
            d, env, out = flag_case(rp["value"], via, tmp)
        finally:
            shutil.rmtree(tmp, ignore_errors=True)
        v = rp["value"]
        want = ["refuse" if Fraction(f) < Fraction(float(v)) * GIB else "accept" for _, f in flag_probes(float(v))]
        if float(out.get("minSpaceRequired", "nan")) != float(v) or out.get("decisions") != want:
            ctx.violation("the operator's --min-space-required is not the threshold used: given %r (%s), configuration holds %s, decisions %s, expected %s"
                          % (v, via, out.get("minSpaceRequired"), out.get("decisions"), want), rp)
        return
    if rp.get("domain") == "diskwatch" and rp["input"].get("op") == "statfs":
        statfs_probe(ctx)
        return
    if rp.get("domain") == "diskwatch" and rp["input"].get("op") == "slowworker":
        rc, out, err = core.run_impl("diskwatch", [json.dumps(rp["input"])], timeout=60)
        if not out or "managerPaused=true workerPaused=true" not in out[0]:
            ctx.violation("the disk is low but the pipeline is running: " + (out[0] if out else err[-200:]), rp)
        return
    if rp.get("domain") == "diskwatch":
        impl, model = ctx.pair("diskwatch", [json.dumps(rp["input"])])
        lows = rp["input"]["lows"]
        want = ",".join(("paused+refuse-start" if x else "run") for x in lows)
        if impl[0] != want:
            ctx.violation("watcher/start-up do not follow the guard: %s gave %s" % (lows, impl[0]), rp)
        return
    inp = doc["replay"]["input"] if "replay" in doc else doc["input"]
    cases = [(int(inp["total"]), int(inp["free"]), float(inp["msr"]))]
    impl, model = ctx.pair("disk", [line(*c) for c in cases])
    judge(ctx, cases, impl, model)
