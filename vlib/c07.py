"""C07 — page requisites in standard HTML attributes are all fetched, correctly resolved."""
import json, os, html
from urllib.parse import urljoin, urldefrag
from . import core, stage

SECTIONS = ["Html", "Stages", "Url"]
LEVEL = "proof"
RULE = ("generated HTML documents (no base element): img src / srcset, script src, link href with rel stylesheet / icon / preload / "
        "alternate, picture > source srcset, video / audio src and nested source src, url(...) in style elements and style attributes "
        "(single / double / no quotes), anchors; references absolute, scheme-relative, path-absolute, path-relative with ./ and ../, "
        "query-only; attribute quoting double / single / none; nesting in div / section / picture / figure; decoy URLs in text and "
        "comments; http and https pages; x --disable-html-tag subsets x --capture-alternate-pages x --disable-assets-capture x max-hops; "
        "each document is fetched as a seed through the real preprocess / ProcessBody / postprocess / preprocess and the URLs for which "
        "requests are built are compared with what a browser would resolve (urllib's urljoin); the extractor's raw output is also compared "
        "with the model on the same element list. Non-trivial: a document with >= 5 planted references of >= 3 kinds; distinct by document")

REFS = ["/abs/{n}.{x}", "rel/{n}.{x}", "../up/{n}.{x}", "./{n}.{x}", "{n}.{x}?v=1", "//cdn.example/{n}.{x}", "http://other.example/{n}.{x}", "https://secure.example/a/{n}.{x}",
        "?pic={n}", "/q/{n}.{x}?a=1&b=2"]


# references a browser cleans up before resolving them (URL standard: leading / trailing C0-control-or-space stripped, tab / newline
# removed, backslash = slash in http(s) URLs); used in single-URL attributes only
ODD_REFS = [" /abs/{n}.{x}", "rel/{n}.{x} ", "  ../up/{n}.{x}\n", "img\\{n}.{x}", "\\abs\\{n}.{x}", "\t{n}.{x}", " https://secure.example/a/{n}.{x} "]


def ref(r, n, x, odd=False, relative_only=False):
    if odd and r.random() < 0.2:
        # (script elements: the extractor's extra regex heuristic picks absolute URLs out of the element's text; the model only
        # approximates it, so padded *absolute* values are left to the other tags)
        return r.choice([o for o in ODD_REFS if not (relative_only and "://" in o)]).format(n=n, x=x)
    return r.choice(REFS).format(n=n, x=x)


def browser_join(page, u):
    u = u.strip(" \t\n\r\f").replace("\t", "").replace("\n", "").replace("\r", "")
    path, sep, rest = u.partition("?")
    return urljoin(page, path.replace("\\", "/") + sep + rest)


def attr(r, k, v):
    plain = v and not any(c in v for c in " \t\n\r\f'\"=>`<")      # only then may the value go unquoted
    q = r.choice(['"', "'", ""]) if plain else r.choice(['"', "'"])
    if q == "'" and "'" in v:
        q = '"'
    if q == '"' and '"' in v:
        q = "'"
    return "%s=%s%s%s" % (k, q, html.escape(v, quote=False) if "&" in v else v, q)


def gen_doc(r, k):
    els, planted, anchors = [], [], []    # planted: (tag, raw reference)
    n = [0]

    def name():
        n[0] += 1
        return "f%d_%d" % (k, n[0])

    def add(tag, attrs, text="", void=True):
        els.append({"tag": tag, "attrs": [[a, b] for a, b in attrs], "text": text, "void": void})

    for _ in range(r.randrange(2, 12)):
        kind = r.choice(["img", "img", "imgset", "script", "css", "icon", "alternate", "picture", "video", "audio", "style", "styleattr", "a", "a", "decoy", "media-source"])
        if kind == "img":
            u = ref(r, name(), "png", odd=True); add("img", [("alt", "x"), ("src", u)]); planted.append(("img", u))
        elif kind == "imgset":
            u0, u1, u2 = ref(r, name(), "jpg"), ref(r, name(), "jpg"), ref(r, name(), "jpg")
            u1, u2 = u1.replace(",", ""), u2.replace(",", "")
            sep = r.choice([", ", ", ", ",", ",\n      ", " , "])     # minified pages put nothing after the comma
            d1 = r.choice([" 1x", " 1x", "", " 480w"])      # a candidate may come without a width / density descriptor
            add("img", [("src", u0), ("srcset", "%s%s%s%s 2x" % (u1, d1, sep if d1 else ", ", u2))]); planted += [("img", u0), ("img", u1), ("img", u2)]
        elif kind == "script":
            u = ref(r, name(), "js", odd=True, relative_only=True); add("script", [("src", u)], void=False); planted.append(("script", u))
        elif kind == "css":
            u = ref(r, name(), "css", odd=True); add("link", [("rel", "stylesheet"), ("href", u)]); planted.append(("link", u))
        elif kind == "icon":
            u = ref(r, name(), "ico"); add("link", [("rel", r.choice(["icon", "preload", "apple-touch-icon"])), ("href", u)]); planted.append(("link", u))
        elif kind == "alternate":
            u = ref(r, name(), "xml"); add("link", [("rel", "alternate"), ("type", "application/rss+xml"), ("href", u)]); planted.append(("link-alternate", u))
        elif kind == "picture":
            u1, u2, u3 = ref(r, name(), "webp").replace(",", ""), ref(r, name(), "webp").replace(",", ""), ref(r, name(), "jpg")
            els.append({"tag": "picture", "attrs": [], "text": "", "void": False, "open": True})
            if r.random() < 0.25:
                add("source", [("type", "image/webp"), ("srcset", "%s, %s 2x" % (u1, u2))])       # first candidate bare
            else:
                add("source", [("type", "image/webp"), ("srcset", "%s 480w%s%s 800w" % (u1, r.choice([", ", ",", ",\n  "]), u2))])
            add("img", [("src", u3)])
            els.append({"close": "picture"})
            planted += [("source", u1), ("source", u2), ("img", u3)]
        elif kind in ("video", "audio"):
            u = ref(r, name(), "mp4" if kind == "video" else "mp3", odd=True); add(kind, [("controls", ""), ("src", u)], void=False); planted.append((kind, u))
        elif kind == "media-source":
            u = ref(r, name(), "webm")
            els.append({"tag": "video", "attrs": [["controls", ""]], "text": "", "void": False, "open": True})
            add("source", [("src", u), ("type", "video/webm")])
            els.append({"close": "video"})
            planted.append(("source", u))
        elif kind == "style":
            us = [ref(r, name(), r.choice(["png", "woff2"])) for _ in range(r.randrange(1, 3))]
            us = [u for u in us if "?" not in u or True]
            css = " ".join(".c%d { background-image: url(%s%s%s); }" % (i, q, u, q) for i, (u, q) in enumerate((u, r.choice(["'", '"', ""])) for u in us))
            add("style", [], css, void=False)
            planted += [("style", u) for u in us]
        elif kind == "styleattr":
            u = ref(r, name(), "png"); q = r.choice(["'", ""])
            add("div", [("class", "hero"), ("style", "background-image: url(%s%s%s); color: red" % (q, u, q))], "hero", void=False); planted.append(("style-attr", u))
        elif kind == "a":
            u = r.choice(["/page/{n}", "next/{n}.html", "../section/{n}", "http://other.example/{n}", "?page={n}", "//other.example/p/{n}"]).format(n=name())
            add("a", [("class", "l"), ("href", u)], "link", void=False); anchors.append(u)
        else:
            add("p", [], "see http://decoy.example/%s.png or src=\"/decoy/%s.png\" for details" % (name(), name()), void=False)
    return els, planted, anchors


def render(r, els):
    out = ["<!DOCTYPE html>\n<html><head><meta charset=\"utf-8\"><title>t</title></head>\n<body>"]
    depth = 0
    for e in els:
        if "close" in e:
            out.append("</%s>" % e["close"]); continue
        wrap = r.choice(["", "", "div", "section", "figure"]) if not e.get("open") else ""
        if wrap:
            out.append("<%s class=\"w\">" % wrap)
        out.append("<!-- <img src=\"/commented/out.png\"> -->" if r.random() < 0.05 else "")
        at = " ".join(attr(r, a, b) if b != "" else a for a, b in e["attrs"])
        out.append("<%s%s>" % (e["tag"], (" " + at) if at else ""))
        if not e.get("void", True) and not e.get("open"):
            out.append(html.escape(e["text"], quote=False) if e["tag"] not in ("style", "script") else e["text"])
            out.append("</%s>" % e["tag"])
        elif e.get("void") is False and e.get("open"):
            pass
        if wrap:
            out.append("</%s>" % wrap)
        out.append(r.choice(["", "\n", "\n  "]))
    out.append("</body></html>")
    return "".join(out)


def expected(page, planted, cfg):
    want = {}
    for tag, u in planted:
        t = {"link-alternate": "link", "style-attr": None}.get(tag, tag)
        if tag == "link-alternate" and not cfg["captureAlternatePages"]:
            continue
        if t is not None and t in cfg["disableHTMLTag"]:
            continue
        absu = urldefrag(browser_join(page, u))[0]
        if absu == page:
            continue
        want[absu] = (tag, u)
    return want


def run(ctx):
    r = ctx.rng
    n = 1200 if ctx.thorough() else 50
    h = core.Interactive("stage")
    run_ = stage.Run(ctx, h)
    hx = core.Interactive("extract")
    model_lines, model_expect = [], []
    try:
        d = os.path.join(core.VERIF, "corpus", "C07")
        for f in sorted(os.listdir(d)) if os.path.isdir(d) else []:
            w = json.load(open(os.path.join(d, f)))
            site = stage.Site(); site.pages = w["site"]
            act, tree, trace = stage.run_seed(run_, w["cfg"], site, w["seed"], seed_id="c" + f.split(".")[0], max_passes=2)
            got = {q["canon"] for q in trace["requests"]} | {o["raw"] for lst in trace.get("outlinks", []) for o in lst}
            ctx.case("corpus" + f, True)
            for u in w.get("expect", []) + ([w["anchor_expected"]] if "anchor_expected" in w else []):
                if u not in got:
                    ctx.violation("%s: %s is neither requested nor queued" % (w["note"], u), {"domain": "stage", "cfg": w["cfg"], "seed": w["seed"], "site": w["site"], "url": u})
        for k in range(n):
            els, planted, anchors = gen_doc(r, k)
            body = render(r, els)
            page = r.choice(["http://site.example/dir/page%d.html", "https://site.example/dir/sub/page%d.html", "https://site.example/p%d"]) % k
            cfg = {"includeHosts": [], "includeStrings": [], "excludeHosts": list(stage.DEFAULT_EXCLUDED), "excludeStrings": [], "regexes": [],
                   "disableAssets": r.random() < 0.06, "maxHops": r.choice([0, 1, 1, 2]), "maxRedirect": 3, "disableSeencheck": False, "domainsCrawl": [],
                   "disableHTMLTag": r.sample(["img", "script", "link", "source", "video", "audio", "style", "a"], r.choice([0, 0, 0, 1, 2])),
                   "captureAlternatePages": r.random() < 0.3}
            site = stage.Site()
            site.add(page, ctype="text/html; charset=utf-8", body=body)
            start = page
            if r.random() < 0.3:
                # the seed answers with a redirect: the document lives somewhere else (other directory, maybe other scheme / host)
                # … possibly behind a chain of redirects (the page requisites of the landing page count from the landing page)
                chain = [s_ % k for s_ in r.sample(["http://site.example/old/start%d", "http://www.site.example/start%d", "https://site.example/a/b/c/start%d"],
                                                   r.choice([1, 1, 2, 3]))]
                start = chain[0]
                for here, there in zip(chain, chain[1:] + [page]):
                    site.add(here, status=r.choice([301, 302, 308]), location=there, body="moved")
                ctx.count("redirect-chain:%d" % len(chain))
            act, tree, trace = stage.run_seed(run_, cfg, site, start, seed_id="d%d" % k, max_passes=6, dc_match=lambda x: False, regex_match=lambda x: False)
            requested = {q["canon"] for q in trace["requests"]}
            want = expected(page, planted, cfg) if not cfg["disableAssets"] else {}
            kinds = {t for t, _ in planted}
            ctx.case(body, len(planted) >= 5 and len(kinds) >= 3)
            ctx.count("documents")
            ctx.count("planted-references", len(planted))
            rp = {"domain": "stage", "cfg": cfg, "seed": start, "site": site.pages}
            bad = False
            for absu, (tag, u) in want.items():
                if absu not in requested:
                    near = sorted(x for x in requested if x.rsplit("/", 1)[-1] == absu.rsplit("/", 1)[-1])
                    ctx.violation("%s reference %r on %s: a browser fetches %s, no request was built for it%s (disabled tags %s)" % (
                        tag, u, page, absu, (" (a request was built for %s instead)" % near[0]) if near else "", cfg["disableHTMLTag"]), dict(rp, url=absu))
                    bad = True
                    break
            if not bad and cfg["maxHops"] > 0 and "a" not in cfg["disableHTMLTag"]:
                outs = {o["raw"] for lst in trace.get("outlinks", []) for o in lst}
                for a in anchors:
                    absu = urljoin(page, a)
                    if absu != page and absu not in outs and urldefrag(absu)[0] not in outs:
                        ctx.violation("anchor %r on %s should be queued as %s; outlinks: %s" % (a, page, absu, sorted(outs)[:5]), dict(rp, url=absu)); break
            # the extractor's raw output against the model, on the same element list
            hx.send({"op": "cfg", "disableHTMLTag": cfg["disableHTMLTag"], "captureAlternatePages": cfg["captureAlternatePages"], "maxHops": 5})
            out = hx.send({"op": "doc", "url": page, "ctype": "text/html", "body": body, "ordered": True})
            if out.startswith("{"):
                res = json.loads(out)
                mels = [{"tag": e["tag"], "attrs": e["attrs"], "text": e["text"] if e["tag"] == "style" else ""} for e in els if "tag" in e]
                model_lines.append(json.dumps({"op": "html", "els": mels, "disableHTMLTag": cfg["disableHTMLTag"], "captureAlternatePages": cfg["captureAlternatePages"]}))
                raw_out = [urljoin(page, a) for a in anchors] if "a" not in cfg["disableHTMLTag"] else []
                model_expect.append((res["assets"], page, anchors))
    finally:
        h.send({"op": "close"}); h.close(); hx.close()
    stage.compare(ctx, run_, "C07 documents")
    rc, model, e = core.run_model("extract", model_lines, timeout=600)
    for (impl_assets, page, anchors), m, l in zip(model_expect, model, model_lines):
        want = "assets=" + json.dumps(impl_assets, separators=(",", ":"), ensure_ascii=False)
        got = m.split(" outlinks=")[0]
        try:
            same = json.loads(got[len("assets="):]) == impl_assets     # compare values, not JSON spellings (\t vs \u0009)
        except ValueError:
            same = False
        if not same:
            ctx.disagree(json.loads(l), want[:500], got[:500])
    ctx.assumptions += ["the HTML parser is an oracle (documents are well formed); 'as a browser would' is urllib.parse.urljoin on the reference forms generated",
                        "srcset candidates contain no commas; data-* lazy-loading attributes and JSON in scripts are extra (not required by the property)"]


def replay(ctx, doc):
    rp = doc.get("replay", doc)
    if "cfg" in rp and "seed" in rp:
        h = core.Interactive("stage")
        run_ = stage.Run(ctx, h)
        site = stage.Site(); site.pages = rp.get("site", {})
        act, tree, trace = stage.run_seed(run_, rp["cfg"], site, rp["seed"], max_passes=3)
        h.close()
        if rp.get("url") and rp["url"] not in {q["canon"] for q in trace["requests"]}:
            ctx.violation("replay: no request was built for %s" % rp["url"], rp)
