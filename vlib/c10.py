"""C10 — no server-controlled input can crash or hang the crawler."""
import json, os, random
from . import core, stage, c07, c19

SECTIONS = ["Containment", "Stages"]
LEVEL = "proof"
RULE = ("bodies of every declared type (HTML, JSON, XML / RSS / sitemap, S3 listing, M3U8 media and master playlists, PDF, plain text), "
        "generated valid, then mutated (truncation, byte flips and insertions incl. NUL and invalid UTF-8, duplicated and deleted lines / "
        "chunks, numbers replaced by huge / negative / non-numeric tokens, attribute and tag soup, nesting 1..5000 deep) and also served "
        "under every other declared type (type confusion); Location, Link and Content-Type header values; URL strings - all fed through "
        "the real ProcessBody, extractor dispatch, postprocess (redirect handling) and normaliser under a 10 s watchdog. A case fails when "
        "a panic escapes the call chain, the watchdog fires, or the harness does not answer the next request. Non-trivial: a mutated input "
        "that the parser rejected or from which fewer links came out than from its parent; distinct by input bytes")
TYPES = ["text/html", "application/json", "application/xml", "application/rss+xml", "application/vnd.apple.mpegurl", "application/x-mpegURL",
         "application/pdf", "text/plain", "application/octet-stream", "text/css", "image/svg+xml", ""]


def samples(r):
    out = []
    for k in range(6):
        els, planted, anchors = c07.gen_doc(r, k)
        out.append(("text/html", c07.render(r, els).encode()))
        doc, body, urls = c19.gen_json(r)
        out.append(("application/json", body.encode()))
        kind, body, urls = c19.gen_xml(r)
        out.append(("application/xml", body.encode()))
        kind, body, uris = c19.gen_m3u8(r)
        out.append(("application/vnd.apple.mpegurl", body.encode()))
    keys = c19.gen_bucket(r)
    for url in ("https://b.s3.example/?list-type=2&delimiter=%2F", "https://b.s3.example/"):
        xml, page = c19.s3_answer(keys, url, 3)
        out.append(("s3", xml.encode()))
    out.append(("application/vnd.apple.mpegurl", b"#EXTM3U\n#EXT-X-VERSION:3\n#EXT-X-TARGETDURATION:10\n#EXT-X-MEDIA-SEQUENCE:0\n#EXT-X-KEY:METHOD=AES-128,URI=\"k.key\",IV=0x1\n"
                b"#EXTINF:9.0,title\nseg1.ts\n#EXT-X-BYTERANGE:100@0\n#EXTINF:9.0,\nseg2.ts\n#EXT-X-DISCONTINUITY\n#EXT-X-PROGRAM-DATE-TIME:2024-01-01T00:00:00Z\n#EXTINF:1,\nseg3.ts\n#EXT-X-ENDLIST\n"))
    out.append(("application/x-mpegURL", b"#EXTM3U\n#EXT-X-MEDIA:TYPE=AUDIO,GROUP-ID=\"a\",NAME=\"en\",DEFAULT=YES,URI=\"a.m3u8\"\n#EXT-X-MEDIA:TYPE=SUBTITLES,GROUP-ID=\"s\",NAME=\"en\",URI=\"s.m3u8\"\n"
                b"#EXT-X-STREAM-INF:BANDWIDTH=1280000,RESOLUTION=640x360,CODECS=\"avc1\",AUDIO=\"a\",SUBTITLES=\"s\"\nlow.m3u8\n#EXT-X-I-FRAME-STREAM-INF:BANDWIDTH=1,URI=\"i.m3u8\"\n"))
    pdf = os.path.join(core.REPO, "internal/pkg/postprocessor/extractor/testdata/InternetArchiveDeveloperPortal.pdf")
    if os.path.exists(pdf):
        out.append(("application/pdf", open(pdf, "rb").read()))
    # legal but degenerate markup: empty and blank attribute values, dangling commas, empty url()
    out.append(("text/html", b'<html><head><link rel="stylesheet" href=""><script src=""></script><style>body{background:url()} p{background:url("")}</style>'
                b'<meta property="og:image" content=""></head><body><img src=""><img src=" "><img srcset="a.png 1x, "><img srcset=","><source srcset="">'
                b'<video src="" poster=""></video><audio src=""></audio><a href="">e</a><a href=" ">b</a><div style="background:url()">x</div>'
                b'<img src="ok.png"><iframe src=""></iframe><embed src=""><object data=""></object></body></html>'))
    out.append(("application/json", b'{"a": "", "b": [" ", "", "http://"], "c": {"": ""}, "d": "[]", "e": "{}"}'))
    out.append(("application/xml", b'<?xml version="1.0"?><urlset><url><loc></loc></url><url><loc> </loc></url><a href=""/><b src=""></b></urlset>'))
    out.append(("text/plain", b"see http://a.example/x and https://b.example/y.png, also www.c.example\n" * 5))
    out += binary_samples()
    return out


def binary_samples():
    """small bodies that the MIME sniffer recognises as types deep in its hierarchy and outside the text family"""
    import io, zipfile, struct
    out = []
    def ftyp(brand, compat=b""):
        box = b"ftyp" + brand + b"\x00\x00\x00\x00" + brand + compat
        return struct.pack(">I", len(box) + 4) + box + b"\x00\x00\x00\x08free" + b"\x00" * 64
    for brand, ct in [(b"avif", "image/avif"), (b"heic", "image/heic"), (b"M4A ", "audio/mp4"), (b"3gp4", "video/3gpp"), (b"isom", "video/mp4"),
                      (b"qt  ", "video/quicktime"), (b"mif1", "image/heif"), (b"M4V ", "video/x-m4v")]:
        out.append((ct, ftyp(brand, b"mif1miaf")))
    ogg = b"OggS\x00\x02" + b"\x00" * 8 + b"\x01\x02\x03\x04" + b"\x00" * 8 + b"\x01\x1e"
    out.append(("audio/ogg", ogg + b"\x01vorbis" + b"\x00" * 40))
    out.append(("video/ogg", ogg + b"\x80theora" + b"\x00" * 40))
    out.append(("audio/ogg", ogg + b"OpusHead" + b"\x00" * 40))
    def z(files):
        b = io.BytesIO()
        with zipfile.ZipFile(b, "w", zipfile.ZIP_STORED) as f:
            for name, data in files:
                f.writestr(name, data)
        return b.getvalue()
    out.append(("application/vnd.openxmlformats-officedocument.wordprocessingml.document",
                z([("[Content_Types].xml", "<Types/>"), ("_rels/.rels", "<r/>"), ("word/document.xml", "<w:document>http://a.example/x</w:document>")])))
    out.append(("application/vnd.openxmlformats-officedocument.spreadsheetml.sheet", z([("[Content_Types].xml", "<Types/>"), ("xl/workbook.xml", "<x/>")])))
    out.append(("application/epub+zip", z([("mimetype", "application/epub+zip"), ("META-INF/container.xml", "<c/>")])))
    out.append(("application/java-archive", z([("META-INF/MANIFEST.MF", "Manifest-Version: 1.0\n"), ("A.class", "\xca\xfe")])))
    out.append(("application/zip", z([("a.txt", "http://a.example/in-zip")])))
    ole = b"\xd0\xcf\x11\xe0\xa1\xb1\x1a\xe1" + b"\x00" * 16 + b"\x3e\x00\x03\x00\xfe\xff\x09\x00" + b"\x00" * 480
    out.append(("application/msword", ole + b"\x00" * 80 + bytes.fromhex("0609020000000000c000000000000046") + b"\x00" * 400))
    out.append(("application/vnd.ms-excel", ole + b"\x00" * 80 + bytes.fromhex("1008020000000000c000000000000046") + b"\x00" * 400))
    out.append(("image/png", b"\x89PNG\r\n\x1a\n\x00\x00\x00\rIHDR" + b"\x00" * 40))
    out.append(("image/gif", b"GIF89a\x01\x00\x01\x00\x00\x00\x00;"))
    out.append(("image/jpeg", b"\xff\xd8\xff\xe0\x00\x10JFIF\x00" + b"\x00" * 40 + b"\xff\xd9"))
    out.append(("image/webp", b"RIFF\x24\x00\x00\x00WEBPVP8 " + b"\x00" * 40))
    out.append(("audio/wav", b"RIFF\x24\x00\x00\x00WAVEfmt " + b"\x00" * 40))
    out.append(("video/x-msvideo", b"RIFF\x24\x00\x00\x00AVI LIST" + b"\x00" * 40))
    out.append(("application/wasm", b"\x00asm\x01\x00\x00\x00"))
    out.append(("application/gzip", bytes.fromhex("1f8b0800000000000003") + b"\x00" * 20))
    out.append(("application/x-7z-compressed", b"7z\xbc\xaf\x27\x1c" + b"\x00" * 40))
    out.append(("audio/mpeg", b"ID3\x03\x00\x00\x00\x00\x00\x21" + b"\x00" * 60))
    out.append(("audio/flac", b"fLaC\x00\x00\x00\x22" + b"\x00" * 60))
    out.append(("video/webm", bytes.fromhex("1a45dfa3") + b"\x01\x00\x00\x00\x00\x00\x00\x1f\x42\x82\x84webm" + b"\x00" * 40))
    out.append(("video/x-matroska", bytes.fromhex("1a45dfa3") + b"\x01\x00\x00\x00\x00\x00\x00\x1f\x42\x82\x88matroska" + b"\x00" * 40))
    out.append(("application/x-sqlite3", b"SQLite format 3\x00" + b"\x00" * 80))
    out.append(("font/woff2", b"wOF2\x00\x01\x00\x00" + b"\x00" * 40))
    return out


WATCHDOG_MS = 10000


NUMS = [b"", b"-1", b"0", b"99999999999999999999999", b"NaN", b"1e999", b"0x10", b"@", b"1.5.5", b"-", b"\x00"]


def mutate(r, b):
    b = bytearray(b)
    for _ in range(r.choice([1, 1, 2, 3, 6])):
        k = r.random()
        if not b:
            b = bytearray(b"x")
        i = r.randrange(len(b))
        if k < 0.15:
            b = b[:i]
        elif k < 0.30:
            b[i] = r.randrange(256)
        elif k < 0.42:
            b[i:i] = bytes(r.choice([b"\x00", b"\xff\xfe", b"<", b"\"", b"{", b"[", b"\n#EXTINF:", b"\n#EXT-X-BYTERANGE:", b"%", b"&#x", b"]]>", b"<!--", b"\\u"]))
        elif k < 0.54:
            j = min(len(b), i + r.randrange(1, 200))
            b[i:i] = b[i:j] * r.choice([1, 2, 50])
        elif k < 0.66:
            j = min(len(b), i + r.randrange(1, 200))
            del b[i:j]
        elif k < 0.82:
            # replace a number
            import re
            ms = list(re.finditer(rb"\d+(\.\d+)?", bytes(b)))
            if ms:
                m = r.choice(ms)
                b[m.start():m.end()] = r.choice(NUMS)
        elif k < 0.84:
            # empty or blank an attribute / string value
            import re
            ms = list(re.finditer(rb'"[^"\n]{1,200}"', bytes(b)))
            if ms:
                m = r.choice(ms)
                b[m.start():m.end()] = r.choice([b'""', b'" "', b'","', b'"\t"'])
        elif k < 0.86:
            lines = bytes(b).split(b"\n")
            r.shuffle(lines)
            b = bytearray(b"\n".join(lines))
        elif k < 0.92:
            # drop or cut single lines (tag soup for line-oriented formats)
            lines = bytes(b).split(b"\n")
            for _ in range(r.randrange(1, 4)):
                if lines:
                    j = r.randrange(len(lines))
                    if r.random() < 0.5:
                        del lines[j]
                    else:
                        lines[j] = lines[j][:r.randrange(len(lines[j]) + 1)]
            b = bytearray(b"\n".join(lines))
        else:
            d = r.choice([10, 500, 5000])
            opener, closer = r.choice([(b"[", b"]"), (b"{\"a\":", b"}"), (b"<div>", b"</div>"), (b"<a><b>", b"</b></a>"), (b"(", b")")])
            b[i:i] = opener * d + closer * r.choice([0, d])
    return bytes(b)


def judge(ctx, h, op, out, what):
    if out.startswith("hang in github.com/pdfcpu/"):
        # the listed finding, identified by its call site; a hang anywhere else is a violation
        ctx.known_finding("D24", "%s: %s" % (what, out), {"domain": "extract", "op": op})
        return False
    if out.startswith("crash") or out.startswith("panic") or out.startswith("hang") or out.startswith("harness-error"):
        ctx.violation("%s: %s" % (what, out[:200]), {"domain": "extract", "op": op})
        return False
    return True


def run(ctx):
    r = ctx.rng
    n = 40000 if ctx.thorough() else 1500
    h = core.Interactive("extract")
    h.send({"op": "cfg", "maxHops": 3})
    base = samples(r)
    d = os.path.join(core.VERIF, "corpus", "C10")
    try:
        for f in sorted(os.listdir(d)) if os.path.isdir(d) else []:
            w = json.load(open(os.path.join(d, f)))
            out = h.send(dict(w["op"], timeoutMs=WATCHDOG_MS))
            ctx.case("corpus" + f, True)
            judge(ctx, h, w["op"], out, w["note"])
            if out.startswith("hang"):
                h.close()          # a goroutine of that process spins for ever: start a new one
                h = core.Interactive("extract")
                h.send({"op": "cfg", "maxHops": 3})
        parents = {}
        nhang0 = 0
        for i, (ct, body) in enumerate(base):
            hdrs = {"Server": "AmazonS3"} if ct == "s3" else {}
            op = {"op": "doc", "url": "http://site.example/d/%d" % i, "ctype": "application/xml" if ct == "s3" else ct, "headers": hdrs, "bodyhex": body.hex()}
            out = h.send(dict(op, timeoutMs=WATCHDOG_MS))
            judge(ctx, h, op, out, "valid sample of %s" % ct)
            if out.startswith("hang"):
                h.close()
                h = core.Interactive("extract")
                h.send({"op": "cfg", "maxHops": 3})
                nhang0 += 1
                if nhang0 >= 3:
                    break
            parents[i] = len(json.loads(out).get("assets", [])) + len(json.loads(out).get("outlinks", [])) if out.startswith("{") else 0
        nbin = len(binary_samples())
        nhang = 0
        for k in range(n):
            # mostly the textual formats the extractors parse; the binary containers exercise MIME sniffing and the dispatch
            i = r.randrange(len(base) - nbin) if r.random() < 0.85 else r.randrange(len(base) - nbin, len(base))
            ct, body = base[i]
            if i not in parents:
                continue
            m = mutate(r, body)
            served = ct if r.random() < 0.8 else r.choice(TYPES)          # type confusion
            hdrs = {"Server": "AmazonS3"} if ct == "s3" or r.random() < 0.05 else {}
            if r.random() < 0.1:
                hdrs["Link"] = r.choice(['<http://a.example/x>; rel="next"', "<>; rel=", ";;;,,, <", "<" * 2000, '<http://a.example/\x00>; rel="a"; b', "<//x>;=", ", ".join(["<u%d>" % j for j in range(300)])])
            op = {"op": "doc", "url": r.choice(["http://site.example/d/x", "https://site.example/a/b/c.m3u8?x=1", "http://s3.example/?list-type=2&prefix=a%2F"]),
                  "ctype": "application/xml" if served == "s3" else served, "headers": hdrs, "bodyhex": m.hex()}
            out = h.send(dict(op, timeoutMs=WATCHDOG_MS))
            ok = judge(ctx, h, op, out, "mutated %s body served as %r" % (ct, served))
            if out.startswith("hang"):
                ctx.count("hangs")
                h.close()
                h = core.Interactive("extract")
                h.send({"op": "cfg", "maxHops": 3})
                nhang += 1
                if nhang >= 4 and not out.startswith("hang in github.com/pdfcpu/"):
                    break          # every hang costs the watchdog's 10 s: the violation is reported, stop here
                continue
            fewer = False
            if ok and out.startswith("{"):
                res = json.loads(out)
                fewer = ("assetsErr" in res or "outlinksErr" in res) or (len(res.get("assets", [])) + len(res.get("outlinks", [])) < parents[i])
                ctx.count("rejected-by-parser" if ("assetsErr" in res or "outlinksErr" in res) else "parsed")
            elif ok:
                ctx.count("refused:" + out.split(" ")[0])
                fewer = True
            ctx.case(m.hex()[:4000] + served, fewer)
            if not ok:
                # the harness must still be alive and answering
                again = h.send({"op": "ext", "s": "http://a.example/x.png"})
                if again not in ("true", "false"):
                    raise RuntimeError("extract harness died after %r" % out[:100])
    finally:
        h.close()
    # ---- documents processed by several workers at once (the postprocessor runs a pool): pages with their own <base>, JSON, XML, playlists
    docs = []
    for k in range(6):
        docs.append({"url": "http://site.example/c/%d" % k, "ctype": "text/html",
                     "bodyTemplate": '<html><head><base href="http://b{W}.example/dir%d/"></head><body><a href="x/{W}">a</a><a href="/y">b</a>'
                                     '<img src="i{W}.png"><a href="?q={W}">c</a></body></html>' % k})
    for ct, body in base[:8]:
        if ct != "s3":
            docs.append({"url": "http://site.example/c/x", "ctype": ct, "bodyhex": body.hex()})
    op = {"op": "concurrent", "docs": docs, "workers": 8, "rounds": 60 if ctx.thorough() else 12, "timeoutMs": 120000}
    rc, out, err = core.run_impl("extract", [json.dumps({"op": "cfg", "maxHops": 3}), json.dumps(op)], timeout=300)
    ctx.case("concurrent-documents", True)
    ctx.count("concurrent-document-runs")
    if rc != 0 or len(out) < 2:
        why = [l for l in err.split("\n") if l.startswith("fatal error:") or l.startswith("panic:")][:2] or err[-300:].strip().split("\n")[-2:]
        ctx.violation("documents processed by 8 workers at once took the crawler down: %s" % "; ".join(why), {"domain": "extract-concurrent", "op": op})
    elif out[1] != "ok":
        ctx.violation("documents processed by 8 workers at once: %s" % out[1][:300], {"domain": "extract-concurrent", "op": op})
    # ---- headers through the real redirect handling, and URL strings through the normaliser
    hs = core.Interactive("stage")
    try:
        for k in range(300 if ctx.thorough() else 40):
            loc = r.choice(["/ok", "//", "http://", "http://[::1", "%zz", "\x00", "http://a b/", "javascript:alert(1)", "?" * 3000, "http://" + "a" * 70000 + ".example/", "/../" * 500,
                            "http://xn--/", "http://a.example:99999999/", "/%", "\\\\host\\share", "data:text/html,<a>", " ", "http://user:pa ss@h.example/", "/\r\nSet-Cookie: x"])
            lines = [{"op": "cfg", "excludeHosts": [], "maxHops": 1, "maxRedirect": 5}, {"op": "seed", "id": "s", "url": "http://site.example/r%d" % k}, {"op": "pre"},
                     {"op": "arch", "outcomes": {"s": {"status": r.choice([301, 302, 307, 308, 300]), "ctype": r.choice(TYPES), "location": loc, "body": "moved"}}}, {"op": "post"}, {"op": "pre"}]
            for op in lines:
                out = hs.send(op)
                if out.startswith("crash") or (out.startswith("panic") and "non-fresh" not in out) or out.startswith("harness-error"):
                    ctx.violation("Location %r: %s" % (loc[:80], out[:200]), {"domain": "stage-ops", "ops": lines})
                    break
            ctx.case("loc" + loc + str(k), True)
            ctx.count("location-headers")
        # outlinks of odd shapes (from anchors and from the Link header) with --domains-crawl active: every outlink is matched against the
        # configured domains before it is resolved
        links = ['</rel/next>; rel="next"', "<?page=2>; rel=next", "<#top>; rel=x", "<//dc.example/p>; rel=next", "<>; rel=next", "<http://DC.EXAMPLE./x>; rel=next",
                 "<http://dc.example.:80/>; rel=a", "<mailto:a@dc.example>; rel=a", "<http:///nohost>; rel=next", "< >; rel=next", "<.>; rel=next", "<http://>; rel=next"]
        hrefs = ["/x", "?q=1", "#", "//", "http:///p", "mailto:x@dc.example", "javascript:void(0)", ".", "", " ", "http://DC.example./y", "http://sub.dc.example", "//dc.example"]
        for k in range(200 if ctx.thorough() else 40):
            body = "<html><body>" + "".join('<a href="%s">l</a>' % r.choice(hrefs) for _ in range(r.randrange(0, 5))) + "</body></html>"
            lines = [{"op": "cfg", "excludeHosts": [], "maxHops": r.choice([0, 1, 2]), "maxRedirect": 5,
                      "domainsCrawl": r.choice([["dc.example"], ["dc.example", "http://sub.dc.example/only/this"], ["^https?://dc\\.example/.*$"]])},
                     {"op": "seed", "id": "s", "url": "http://site.example/l%d" % k}, {"op": "pre"},
                     {"op": "arch", "outcomes": {"s": {"status": 200, "ctype": "text/html", "location": "", "body": body, "link": ", ".join(r.sample(links, r.randrange(1, 4)))}}},
                     {"op": "post"}]
            for op in lines:
                out = hs.send(op)
                if out.startswith("crash") or (out.startswith("panic") and "non-fresh" not in out) or out.startswith("harness-error"):
                    ctx.violation("page with Link header %r and anchors, --domains-crawl %s: %s" % (lines[3]["outcomes"]["s"]["link"][:80], lines[0]["domainsCrawl"], out[:200]),
                                  {"domain": "stage-ops", "ops": lines})
                    break
            ctx.case("dc" + json.dumps(lines[3]) + str(k), True)
            ctx.count("domains-crawl-pages")
    finally:
        hs.send({"op": "close"}); hs.close()
    # queries made of malformed pairs only, of empty pairs, of separators only (each pair may be dropped by the canonicaliser)
    urls = ["http://h.example/p?" + q for q in ["&", "&&&", "%", "%zz=1", "a;b=1", ";", "=", "=&=", "%=%", "%zz", "a;b", "&;&", "%41;%42", "\x00", "%00", "+", "a=%", "%=a", "?", "#"]]
    urls += ["http://h.example/p?" + "&".join(r.choice(["%zz=1", "a;b", "%", ";", "", "=", "ok=1", "%4", "x=%g1"]) for _ in range(r.randrange(1, 5))) for _ in range(60)]
    for k in range(3000 if ctx.thorough() else 300):
        ln = r.choice([0, 1, 5, 20, 200])
        s = "".join(chr(r.choice([r.randrange(1, 128), r.randrange(1, 128), r.randrange(128, 0x2000), 0x2f, 0x3a, 0x25, 0x3f, 0x23, 0x40, 0x5b, 0x5d])) for _ in range(ln))
        urls.append(r.choice(["", "http://", "https://", "//", "HTTP://", "ftp://"]) + s)
    lines = [json.dumps({"op": "norm", "raw": u, "parent": r.choice(["", "http://p.example/a/b?c", "https://p.example"])}) for u in urls]
    rc, out, err = core.run_impl("url", lines, timeout=900)
    ctx.count("normaliser-inputs", len(lines))
    if rc != 0 or len(out) != len(lines):
        bad = urls[len(out)] if len(out) < len(urls) else "?"
        ctx.violation("the normaliser took the process down on %r (%s)" % (bad, err[-200:]), {"domain": "url", "ops": [json.loads(lines[min(len(out), len(lines) - 1)])]})
    else:
        for l, o in zip(lines, out):
            ctx.count("normaliser:" + ("accepted" if o.startswith("ok ") else "rejected"))
            if o.startswith("panic") or o.startswith("crash"):
                ctx.violation("normaliser: %s on %s" % (o[:100], l[:200]), {"domain": "url", "ops": [json.loads(l)]}); break
    ctx.assumptions += ["what a parser does on a given input (return, error, panic, spin) is outside the model: that no panic escapes and nothing spins "
                        "is established by this fuzzing, i.e. by testing, not by proof; the theorem states what each behaviour costs",
                        "stack exhaustion and out-of-memory are fatal in Go and cannot be recovered: nesting up to 5000 levels and bodies up to a few MB are tried",
                        "hang = no answer within 10 s for one document (the process is then replaced: the spinning goroutine cannot be stopped)"]


def replay_concurrent(ctx, rp):
    rc, out, err = core.run_impl("extract", [json.dumps({"op": "cfg", "maxHops": 3}), json.dumps(rp["op"])], timeout=300)
    if rc != 0 or len(out) < 2 or out[1] != "ok":
        ctx.violation("replay: concurrent documents: %s" % ((out[1] if len(out) > 1 else err[-300:])[:300]), rp)


def replay(ctx, doc):
    if doc.get("replay", doc).get("domain") == "extract-concurrent":
        return replay_concurrent(ctx, doc.get("replay", doc))
    rp = doc.get("replay", doc)
    if "op" in rp:
        h = core.Interactive("extract")
        out = h.send(rp["op"])
        h.close()
        judge(ctx, None, rp["op"], out, "replay")
    elif rp.get("domain") == "stage-ops":
        hs = core.Interactive("stage")
        for op in rp["ops"]:
            out = hs.send(op)
            if out.startswith("crash") or out.startswith("harness-error"):
                ctx.violation("replay: %s" % out[:200], rp)
        hs.close()
