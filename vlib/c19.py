"""C19 — structured documents yield all their links; bucket listings are fully walked."""
import json, os, random
from urllib.parse import urlsplit, parse_qs, unquote, quote
from . import core

SECTIONS = ["Extractors"]
LEVEL = "proof"
RULE = ("generated documents with URLs planted by construction, pushed through the real body processing and the real extractor dispatch: "
        "JSON (nesting depth 0..6, arrays / objects, ordering, pretty-printing, JSON embedded in strings, escaped slashes, decoys), XML / "
        "RSS / sitemaps (attributes, text nodes, CDATA, namespaces, pretty-printed), M3U8 media and master playlists (segments, variants, "
        "alternative renditions, relative and absolute URIs, served under both playlist content types); S3 buckets (key sets with "
        "folder trees 0..3 deep, zero-size objects, page sizes 1..7, marker and list-type=2 listings) walked as a multi-request history "
        "through the real extractor against a reference S3 server; JSON decisions and S3 pages also compared with the model. "
        "Non-trivial: a document with >= 3 planted URLs of both classes, a bucket with >= 2 pages and a folder; distinct by document / bucket")

EXT = ["png", "jpg", "css", "js", "mp4", "pdf", "json", "ts"]


def plant(r, n):
    urls = []
    for i in range(n):
        host = r.choice(["a.example", "cdn.b.example", "c.example:8080"])
        if r.random() < 0.55:
            u = "https://%s/%s/f%d.%s" % (host, r.choice(["img", "static/x", "v1"]), i, r.choice(EXT))
            if r.random() < 0.3:
                u += r.choice(["?v=%d" % i, "#frag", "?a=b.c/d"])
        else:
            u = "http://%s/%s/page%d" % (host, r.choice(["p", "api/v2", "a.b"]), i)
            if r.random() < 0.3:
                u += r.choice(["?id=%d" % i, "#top", "?file=x.png", "/"])
        urls.append(u)
    return urls


def has_ext(u):
    """reference written from the property text: the last path segment (fragment, query dropped) has a file extension"""
    u = u.split("#", 1)[0].split("?", 1)[0]
    name = u.rsplit("/", 1)[-1] if "/" in u else u
    return "." in name and not name.endswith(".")


def gen_json(r):
    urls = plant(r, r.randrange(1, 9))
    decoys = ["not a url", "ftp", "/relative/path.png", "12345", "", "http", "www.example.com/x.png"]
    todo = list(urls)
    embedded = []

    def node(depth):
        k = r.random()
        if depth > 5 or k < 0.35:
            if todo and r.random() < 0.7:
                return todo.pop()
            return r.choice(decoys + [1, 2.5, True, None])
        if k < 0.65:
            return [node(depth + 1) for _ in range(r.randrange(0, 4))]
        return {"k%d" % i: node(depth + 1) for i in range(r.randrange(0, 4))}
    doc = {"root": node(0)}
    extra = []
    while todo:
        extra.append(todo.pop())
    if extra:
        k = r.random()
        if k < 0.4:
            doc["more"] = extra
        else:
            inner = json.dumps({"inner": extra, "deep": {"x": [extra[0]]}})
            if k < 0.7:
                inner = inner.replace("/", "\\/")          # the embedded document escapes its slashes (PHP json_encode style)
            # JSON in a string in JSON in a string …: state blobs are often embedded more than once
            for _ in range(r.choice([0, 0, 1, 1, 2])):
                inner = json.dumps({"state": inner, "n": r.randrange(9)} if r.random() < 0.6 else [inner])
            doc["embedded"] = inner
    body = json.dumps(doc, indent=r.choice([None, None, 2]))
    if r.random() < 0.3:
        body = body.replace("/", "\\/") if "\\\\/" not in body else body
    return doc, body, urls


def gen_xml(r):
    urls = plant(r, r.randrange(1, 8))
    kind = r.choice(["rss", "generic", "sitemap", "atom"])
    parts = []
    for i, u in enumerate(urls):
        style = r.choice(["attr", "text", "cdata", "pretty", "mixedtext"])
        esc = u.replace("&", "&amp;")
        if kind == "sitemap":
            parts.append("<url><loc>%s</loc></url>" % (esc if style != "pretty" else "\n    %s\n  " % esc))
        elif style == "attr":
            parts.append('<enclosure url="%s" type="x"/>' % esc)
        elif style == "text":
            parts.append("<link>%s</link>" % esc)
        elif style == "cdata":
            parts.append("<guid><![CDATA[%s]]></guid>" % u)
        elif style == "pretty":
            parts.append("<link>\n      %s\n    </link>" % esc)
        else:
            parts.append("<description>see %s for details</description>" % esc)
    ns = ' xmlns="http://www.sitemaps.org/schemas/sitemap/0.9"' if kind == "sitemap" else (' xmlns:m="http://search.yahoo.com/mrss/"' if r.random() < 0.5 else "")
    root = {"rss": "rss", "generic": "data", "sitemap": "urlset", "atom": "feed"}[kind]
    body = '<?xml version="1.0" encoding="UTF-8"?>\n<%s%s>%s</%s>' % (root, ns, ("\n  " if r.random() < 0.5 else "").join(parts), root)
    expected = set(urls)
    if ns and kind != "sitemap":
        pass
    return kind, body, urls


def gen_m3u8(r):
    base = "http://media.example/v/"
    if r.random() < 0.5:
        segs = [r.choice(["seg%d.ts" % i, "http://cdn.example/s/seg%d.ts" % i, "../alt/seg%d.ts?tok=1" % i]) for i in range(r.randrange(1, 7))]
        body = "#EXTM3U\n#EXT-X-VERSION:3\n#EXT-X-TARGETDURATION:10\n" + "".join("#EXTINF:9.0,\n%s\n" % s for s in segs) + "#EXT-X-ENDLIST\n"
        return "media", body, segs
    uris, lines = [], ["#EXTM3U"]
    groups = []          # rendition groups; a variant carries only the renditions of the groups it references
    for g in range(r.choice([0, 1, 1, 2, 3])):
        typ = r.choice(["AUDIO", "AUDIO", "SUBTITLES"])
        gid = "%s%d" % (typ[:3].lower(), g)
        for j in range(r.randrange(1, 3)):
            alt = r.choice(["%s/%d.m3u8" % (gid, j), "http://cdn.example/%s/%d.m3u8" % (gid, j)])
            lines.append('#EXT-X-MEDIA:TYPE=%s,GROUP-ID="%s",NAME="n%d",DEFAULT=%s,URI="%s"' % (typ, gid, j, "YES" if j == 0 else "NO", alt))
            uris.append(alt)
        groups.append((typ, gid))
    nv = r.randrange(max(1, len(groups)), 5 if len(groups) < 4 else 6)
    for i in range(nv):
        v = r.choice(["v%d/index.m3u8" % i, "http://cdn.example/v%d/index.m3u8" % i])
        ref = ""
        if groups:
            typ, gid = groups[i % len(groups)]        # every group is referenced by some variant, different variants by different groups
            ref = ',%s="%s"' % (typ, gid)
        lines += ["#EXT-X-STREAM-INF:BANDWIDTH=%d%s" % (1000000 * (i + 1), ref), v]
        uris.append(v)
    return "master", "\n".join(lines) + "\n", uris


# ---------------------------------------------------------------- a reference S3 server

def gen_bucket(r):
    keys = {}
    def fill(prefix, depth):
        for i in range(r.randrange(0, 6)):
            keys[prefix + "f%d.%s" % (i, r.choice(["txt", "bin", "jpg"]))] = r.choice([0, 1, 10, 2048])
        if depth < 3:
            for j in range(r.randrange(0, 3) if depth else r.randrange(0, 4)):
                fill(prefix + "d%d/" % j, depth + 1)
    fill("", 0)
    if not keys:
        keys["only.txt"] = 5
    return keys


def s3_answer(keys, url, page_size):
    """ListObjects / ListObjectsV2 as the S3 documentation describes them (delimiter '/'); returns (xml, parsed page)"""
    q = parse_qs(urlsplit(url).query, keep_blank_values=True)
    v2 = q.get("list-type", [""])[0] == "2"
    prefix = q.get("prefix", [""])[0]
    delim = q.get("delimiter", [""])[0]
    after = q.get("continuation-token", [""])[0] if v2 else q.get("marker", [""])[0]
    entries = []       # (sort key, kind, name)
    seen_pfx = set()
    for k in sorted(keys):
        if not k.startswith(prefix):
            continue
        rest = k[len(prefix):]
        if delim and delim in rest:
            p = prefix + rest.split(delim, 1)[0] + delim
            if p not in seen_pfx:
                seen_pfx.add(p)
                entries.append((p, "pfx", p))
        else:
            entries.append((k, "obj", k))
    entries.sort()
    entries = [e for e in entries if e[0] > after]
    page, more = entries[:page_size], len(entries) > page_size
    contents = [(n, keys[n]) for (_, kind, n) in page if kind == "obj"]
    prefixes = [n for (_, kind, n) in page if kind == "pfx"]
    token = page[-1][0] if (more and page) else ""
    x = ['<?xml version="1.0" encoding="UTF-8"?><ListBucketResult xmlns="http://s3.amazonaws.com/doc/2006-03-01/"><Name>b</Name><Prefix>%s</Prefix>' % prefix]
    x.append("<IsTruncated>%s</IsTruncated>" % ("true" if more else "false"))
    if v2 and token:
        x.append("<NextContinuationToken>%s</NextContinuationToken>" % token)
    for k, sz in contents:
        x.append("<Contents><Key>%s</Key><LastModified>2024-01-01T00:00:00.000Z</LastModified><Size>%d</Size></Contents>" % (k, sz))
    for p in prefixes:
        x.append("<CommonPrefixes><Prefix>%s</Prefix></CommonPrefixes>" % p)
    x.append("</ListBucketResult>")
    return "".join(x), {"listType": "2" if v2 else "", "contents": [[k, sz] for k, sz in contents], "prefixes": prefixes, "truncated": more, "token": token}


def classify(link, req_url):
    """an outlink of the extractor, in the model's vocabulary"""
    sp, rq = urlsplit(link), urlsplit(req_url)
    q, q0 = parse_qs(sp.query, keep_blank_values=True), parse_qs(rq.query, keep_blank_values=True)
    if sp.path not in ("", "/") and not sp.query:
        return "obj:" + unquote(sp.path[1:])
    if q.get("marker") != q0.get("marker") and "marker" in q:
        return "marker:" + q["marker"][0]
    if q.get("continuation-token") != q0.get("continuation-token") and "continuation-token" in q:
        return "token:" + q["continuation-token"][0]
    if q.get("prefix") != q0.get("prefix") and "prefix" in q:
        return "prefix:" + q["prefix"][0]
    return "other:" + link


def walk_bucket(ctx, h, keys, v2, page_size, lines_model, pairs):
    host = "bucket.s3.example"
    start = "https://%s/?list-type=2&delimiter=%%2F" % host if v2 else "https://%s/" % host
    todo, seen, got, requests = [start], {start}, [], 0
    while todo:
        url = todo.pop(0)
        requests += 1
        if requests > 400:
            return None, requests, "more than 400 requests"
        xml, page = s3_answer(keys, url, page_size)
        out = h.send({"op": "doc", "url": url, "ctype": "application/xml", "headers": {"Server": "AmazonS3"}, "body": xml})
        if not out.startswith("{"):
            return None, requests, out
        res = json.loads(out)
        links = [classify(l, url) for l in res["outlinks"]]
        lines_model.append(json.dumps(dict(page, op="s3page")))
        pairs.append((url, sorted(links)))
        for l, raw in zip(links, res["outlinks"]):
            if l.startswith("obj:"):
                got.append(l[4:])
            elif raw not in seen:            # the queue never holds a URL twice, and the seen-store skips what was crawled
                seen.add(raw)
                todo.append(raw)
    return got, requests, ""


def run(ctx):
    r = ctx.rng
    n = 1500 if ctx.thorough() else 60
    h = core.Interactive("extract")
    model_lines, model_expect = [], []
    try:
        # ---- minimised past failures first
        d = os.path.join(core.VERIF, "corpus", "C19")
        for f in sorted(os.listdir(d)) if os.path.isdir(d) else []:
            w = json.load(open(os.path.join(d, f)))
            ctx.case("corpus" + f, True)
            if "op" in w:
                res = json.loads(h.send(w["op"]))
                found = set(res.get("assets", [])) | set(res.get("assetOutlinks", [])) | set(res.get("outlinks", []))
                miss = [u for u in w["planted"] if u not in found]
                if miss:
                    ctx.violation("%s: planted URL(s) %s not discovered" % (w["note"], miss), {"domain": "extract", "op": w["op"], "planted": w["planted"]})
            else:
                got, requests, err = walk_bucket(ctx, h, w["keys"], w["v2"], w["pageSize"], [], [])
                want = {k for k, sz in w["keys"].items() if sz > 0}
                if got is None or want - set(got):
                    ctx.violation("%s: objects never queued: %s" % (w["note"], sorted(want - set(got or []))), {"domain": "extract-s3", "keys": w["keys"], "v2": w["v2"], "pageSize": w["pageSize"]})
        # ---- hasFileExtension
        for _ in range(n):
            u = r.choice(plant(r, 3) + ["http://h.example/a.b/c", "http://h.example/x.", "http://h.example/.hidden", "http://h.example/a?b=c.d", "noslash.txt",
                                          "http://h.example/dir.v2/", "http://h.example/f.tar.gz#x.y", ""])
            a = h.send({"op": "ext", "s": u})
            ctx.count("ext-decisions")
            if (a == "true") != has_ext(u):
                ctx.violation("hasFileExtension(%r) = %s, the reference says %s" % (u, a, has_ext(u)), {"domain": "extract", "op": {"op": "ext", "s": u}})
            model_lines.append(json.dumps({"op": "ext", "s": u})); model_expect.append(({"op": "ext", "s": u}, a))
        # ---- JSON
        for k in range(n):
            doc, body, urls = gen_json(r)
            out = h.send({"op": "doc", "url": "http://site.example/api/d%d.json" % k, "ctype": "application/json", "body": body})
            res = json.loads(out) if out.startswith("{") else {}
            found = set(res.get("assets", [])) | set(res.get("assetOutlinks", []))
            ctx.case("json" + body, len(urls) >= 3 and len({has_ext(u) for u in urls}) == 2)
            ctx.count("json-docs")
            rp = {"domain": "extract", "op": {"op": "doc", "url": "http://site.example/api/d.json", "ctype": "application/json", "body": body}, "planted": urls}
            miss = [u for u in urls if u not in found]
            if miss:
                ctx.violation("JSON: planted URL(s) %s not discovered (%s)" % (miss[:3], out[:150]), rp); continue
            wrong = [u for u in urls if (u in res.get("assets", [])) != has_ext(u)]
            if wrong:
                ctx.violation("JSON: %s classified as %s although its last path segment %s a file extension" % (
                    wrong[0], "asset" if wrong[0] in res["assets"] else "outlink", "has" if has_ext(wrong[0]) else "has no"), rp); continue
            orc = h.send({"op": "jsonoracle", "body": body})
            model_lines.append(json.dumps({"op": "json", "doc": doc, "isURL": json.loads(orc)}))
            model_expect.append(({"op": "json", "doc": doc}, "assets=%s outlinks=%s" % (json.dumps(sorted(set(res["assets"])), separators=(",", ":"), ensure_ascii=False),
                                                                                       json.dumps(sorted(set(res["assetOutlinks"])), separators=(",", ":"), ensure_ascii=False))))
        # ---- XML
        for k in range(n):
            kind, body, urls = gen_xml(r)
            out = h.send({"op": "doc", "url": "http://site.example/feed%d.xml" % k, "ctype": r.choice(["application/xml", "text/xml", "application/rss+xml"]), "body": body})
            res = json.loads(out) if out.startswith("{") else {}
            found = set(res.get("assets", [])) | set(res.get("assetOutlinks", [])) | set(res.get("outlinks", []))
            found = {f.strip() for f in found}
            ctx.case("xml" + body, len(urls) >= 3)
            ctx.count("xml-docs:" + kind)
            rp = {"domain": "extract", "op": {"op": "doc", "url": "http://site.example/feed.xml", "ctype": "application/xml", "body": body}, "planted": urls}
            miss = [u for u in urls if u not in found]
            if miss:
                ctx.violation("XML (%s): planted URL(s) %s not discovered (%s)" % (kind, miss[:3], out[:200]), rp); continue
            if kind != "sitemap":
                wrong = [u for u in urls if u in res.get("assets", []) and not has_ext(u)] + [u for u in urls if u in res.get("assetOutlinks", []) and has_ext(u)]
                if wrong:
                    ctx.violation("XML: %s is in the wrong class" % wrong[0], rp)
        # ---- M3U8
        for k in range(n // 2):
            kind, body, uris = gen_m3u8(r)
            ct = r.choice(["application/vnd.apple.mpegurl", "application/x-mpegURL"])
            out = h.send({"op": "doc", "url": "http://media.example/v/index%d.m3u8" % k, "ctype": ct, "body": body})
            res = json.loads(out) if out.startswith("{") else {}
            ctx.case("m3u8" + body, len(uris) >= 2)
            ctx.count("m3u8-playlists:" + kind)
            rp = {"domain": "extract", "op": {"op": "doc", "url": "http://media.example/v/index.m3u8", "ctype": ct, "body": body}, "planted": uris}
            miss = [u for u in uris if u not in res.get("assets", [])]
            if miss:
                ctx.violation("M3U8 %s playlist served as %s: URI(s) %s not discovered (body kept for extraction: %s, %s)" % (
                    kind, ct, miss[:3], res.get("kept"), out[:120]), rp)
        # ---- S3
        pairs = []
        targeted = [({"a/": 0, "a/b/": 0, "a/b/c/": 0, "a/b/c/f1.txt": 5, "a/b/f2.txt": 6, "z.txt": 1}, False, 1),
                    ({"d/": 0, "e/": 0, "f/": 0, "g.txt": 3, "h/": 0, "i/": 0, "j.txt": 4}, False, 2),
                    ({"p/": 0, "p/q/": 0, "p/q/r.bin": 9, "s/": 0, "s/t.bin": 9}, True, 1)]
        for k in range(max(4, n // 12) + len(targeted)):
            if k < len(targeted):
                keys, v2, ps = targeted[k]       # folder placeholders: whole pages of zero-size keys
            else:
                keys = gen_bucket(r)
                v2 = k % 2 == 0
                ps = r.randrange(1, 8)
            got, requests, err = walk_bucket(ctx, h, keys, v2, ps, model_lines, pairs)
            rp = {"domain": "extract-s3", "keys": keys, "v2": v2, "pageSize": ps}
            ctx.case("s3" + json.dumps([sorted(keys.items()), v2, ps]), len(keys) > ps and any("/" in x for x in keys))
            ctx.count("s3-buckets:" + ("list-type-2" if v2 else "marker"))
            ctx.count("s3-requests", requests)
            if got is None:
                ctx.violation("the walk over the bucket did not end or failed: %s" % err, rp); continue
            want = sorted(k2 for k2, sz in keys.items() if sz > 0 and (v2 or True))
            missing = sorted(set(want) - set(got))
            extra = sorted(set(got) - set(want))
            if missing:
                ctx.violation("S3 (%s, page size %d): %d of %d non-empty objects were never queued, e.g. %s" % (
                    "list-type=2 with common prefixes" if v2 else "marker", ps, len(missing), len(want), missing[:3]), rp)
            elif extra:
                ctx.violation("S3: zero-size or unknown objects were queued: %s" % extra[:3], rp)
        while len(model_expect) < len(model_lines):
            url, links = pairs[len(model_expect) - (len(model_lines) - len(pairs))]
            model_expect.append(({"op": "s3page", "url": url}, json.dumps(links, separators=(",", ":"), ensure_ascii=False)))
    finally:
        h.close()
    rc, model, e = core.run_model("extract", model_lines, timeout=600)
    if len(model) != len(model_lines):
        raise RuntimeError("driver extract: %d/%d %s" % (len(model), len(model_lines), e[-300:]))
    for (inp, a), b, l in zip(model_expect, model, model_lines):
        if a != b:
            ctx.disagree(json.loads(l) if len(l) < 2000 else inp, a[:400], b[:400])
    ctx.sample({"json": model_lines[n][:300] if len(model_lines) > n else ""})
    ctx.assumptions += ["the parsers (encoding/json, encoding/xml, grafov/m3u8) and the strict URL pattern are oracles; the JSON model receives the extractor's "
                        "own isURL verdict per string", "the reference S3 server implements ListObjects / ListObjectsV2 with delimiter '/' as documented; "
                        "the crawl frontier follows each outlink once (queue uniqueness + seen-store, C15 / C08)"]


def replay(ctx, doc):
    rp = doc.get("replay", doc)
    if "op" in rp:
        h = core.Interactive("extract")
        out = h.send(rp["op"])
        h.close()
        res = json.loads(out) if out.startswith("{") else {}
        found = set(res.get("assets", [])) | set(res.get("assetOutlinks", [])) | set(res.get("outlinks", []))
        miss = [u for u in rp.get("planted", []) if u not in found]
        if miss:
            ctx.violation("replay: planted URL(s) %s not discovered" % miss[:3], rp)
    elif rp.get("domain") == "extract-s3":
        h = core.Interactive("extract")
        got, requests, err = walk_bucket(ctx, h, rp["keys"], rp["v2"], rp["pageSize"], [], [])
        h.close()
        want = {k for k, sz in rp["keys"].items() if sz > 0}
        if got is None or want - set(got):
            ctx.violation("replay: bucket walk incomplete: %s" % (err or sorted(want - set(got))[:3]), rp)
