"""C09 — URL canonicalisation is deterministic, idempotent, yields only http(s) URLs."""
import json, os
from urllib.parse import urlsplit
from . import core

SECTIONS = ["Url"]
LEVEL = "proof"
RULE = ("grammar-generated and mutated URL strings (schemes, hosts incl. IDN / IPv4 / IPv6 / dotless / loopback, ports, userinfo, paths with "
        "dot segments and escapes, queries with repeated / valueless / oddly encoded parameters, fragments, quotes, whitespace) x parent "
        "URLs, each normalised 7 times on fresh objects (determinism) and re-fed (idempotence) through the real NormalizeURL + String(); "
        "raw query strings through the real URLToString vs the byte-level model; random byte strings through QueryEscape/QueryUnescape vs "
        "the model. A case is non-trivial when the URL was accepted and has >= 2 query parameters, or is relative with a parent, or was "
        "rejected by a guard; distinct by input")

SCHEMES = ["http://", "https://", "", "", "HTTP://", "ftp://", "mailto:", "javascript:", "//", "https:/", "ws://"]
HOSTS = ["example.com", "sub.example.org", "EXAMPLE.com", "localhost", "127.0.0.1", "127.0.0.2", "127.0.0.1:8080", "localhost:3000", "0x7f.1:9090", "bücher.example", "xn--bcher-kva.example",
         "a", "example.com.", "[::1]", "[2001:db8::1]", "192.168.1.10", "h.example:8080", "user:pw@example.net", "example.com:80", "archive.org",
         "exa mple.com", "-bad-.example"]
PATHS = ["", "/", "/a/b", "/a/../b", "/a/./b/", "/%7Euser/x%20y", "/a b", "/été", "/a//b", "/../../x", "/index.html", "/a;p=1/b", "/%zz"]
QUERIES = ["", "?", "?a=1", "?a=1&b=2", "?b=2&a=1&b=3", "?a", "?a=&b", "?a=1&a=1", "?q=x+y%20z", "?k=%26%3D", "?a=1;b=2", "?%zz=1&ok=2", "?=v", "?&&a=1&&",
           "?u=http://x.example/?y=1&z=2", "?a=é", "?a=1&b=2&c=3&d=4&e=5"]
FRAGS = ["", "", "#", "#frag", "#a?b=c"]
PARENTS = ["http://parent.example/dir/page.html", "https://parent.example/dir/sub/", "https://p.example", "http://p.example/a/b/c?x=1&y=2"]
RELS = ["/abs/path", "../up", "./here", "x/y.png", "?only=query", "#onlyfrag", "", "//cdn.example/lib.js", "../../../../too/far", "a/../../b", "./", "..",
        "/a?b=2&a=1", "img.png?v=1&v=2"]


def gen_url(r):
    k = r.random()
    if k < 0.25:
        return r.choice(RELS), r.choice(PARENTS)
    u = r.choice(SCHEMES) + r.choice(HOSTS) + r.choice(PATHS) + r.choice(QUERIES) + r.choice(FRAGS)
    if r.random() < 0.1:
        u = r.choice(['"', "'", " "]) + u + r.choice(['"', "'", " "])
    if r.random() < 0.08 and u:
        i = r.randrange(len(u))
        u = u[:i] + r.choice(["%", " ", "\\", "\t", "{", "^", "​"]) + u[i:]
    return u, (r.choice(PARENTS) if r.random() < 0.2 else "")


def parse_line(a):
    d = {}
    for p in a.split(" ")[1:]:
        k, _, v = p.partition("=")
        d[k] = v
    return d


def unhex(h):
    return bytes.fromhex(h).decode("utf-8", "replace")


def norm_stream(ctx, n):
    r = ctx.rng
    cases = [gen_url(r) for _ in range(n)]
    cases = [("http://h.example/p?b=2&a=1&c=3", ""), ('"http://h.example/x?z=1&y=2"', "")] + cases
    lines = [json.dumps({"op": "norm", "raw": u, "parent": p}) for u, p in cases]
    rc, impl, err = core.run_impl("url", lines, timeout=1200)
    guards = []
    for (u, p), a in zip(cases, impl):
        ctx.count("norm:" + a.split(" ")[0])
        rep = {"domain": "url", "raw": u, "parent": p, "impl": a}
        if a.startswith("err:"):
            ctx.case("n" + u + "|" + p, a != "err:parse")
            continue
        if not a.startswith("ok"):
            ctx.violation("normalisation crashed or misbehaved on %r: %s" % (u, a), rep); continue
        d = parse_line(a)
        canon, again = unhex(d["canon"]), unhex(d["again"])
        ctx.case("n" + u + "|" + p, canon.count("&") >= 1 or bool(p))
        if d["det"] != "1":
            ctx.violation("normalising %r (parent %r) gave %s different canonical strings over 8 evaluations (one with a pre-parsed URL object), e.g. %s" % (u, p, d["det"], canon), rep)
            continue
        if again != canon:
            ctx.violation("not idempotent: %r -> %s, and normalising that gives %s" % (u, canon, again), rep)
            continue
        sp = urlsplit(canon)
        host = unhex(d["host"])
        if sp.scheme not in ("http", "https") or "#" in canon or "." not in host or host in ("localhost", "127.0.0.1"):
            ctx.violation("accepted result is not an absolute http(s) URL with a dotted non-loopback host and no fragment: %s (host %r)" % (canon, host), rep)
            continue
        guards.append((unhex(d["proto"]), host))
    # the guard function of the model on what the parser reported for accepted results, plus rejections
    glines = [json.dumps({"op": "guard", "protocol": pr, "host": h}) for pr, h in guards]
    glines += [json.dumps({"op": "guard", "protocol": pr, "host": h}) for pr, h in
               [("ftp:", "x.example"), ("http:", "localhost"), ("https:", "127.0.0.1"), ("http:", "nodot"), ("mailto:", ""), ("https:", "a.b")]]
    rc, gm, err = core.run_model("url", glines)
    want = ["ok"] * len(guards) + ["err:unsupported-scheme", "err:unsupported-host", "err:unsupported-host", "err:unsupported-host", "err:unsupported-scheme", "ok"]
    for l, m, w in zip(glines, gm, want):
        if m != w:
            ctx.disagree(json.loads(l), w, m)
    ctx.sample({"raw": cases[5][0], "parent": cases[5][1], "impl": impl[5][:200]})


def py_pairs(q):
    """independent reference: the well-formed (key, value) pairs of a raw query, in order"""
    from urllib.parse import unquote_to_bytes
    import re
    out = []
    for seg in q.split(b"&"):
        if not seg or b";" in seg:
            continue
        k, _, v = seg.partition(b"=")
        if re.search(rb"%(?![0-9A-Fa-f]{2})", k) or re.search(rb"%(?![0-9A-Fa-f]{2})", v):
            continue
        out.append((unquote_to_bytes(k.replace(b"+", b" ")), unquote_to_bytes(v.replace(b"+", b" "))))
    return out


def metamorphic(ctx, n):
    """(a) an empty or non-empty fragment never changes the canonical URL; (b) references normalised in
    sequence against one shared parent object give what each gives alone, and leave the parent unchanged"""
    r = ctx.rng
    # (the empty reference itself is rejected by the normaliser while "#" alone resolves to the parent:
    #  nothing in the property speaks about it, so it is not part of this oracle)
    bases = [(u, p) for (u, p) in (gen_url(r) for _ in range(n)) if "#" not in u and u.strip(" \"'") != "" and u == u.strip(" \"'")]
    bases += [("x.html", PARENTS[0]), ("/top", PARENTS[1]), ("a/b?c=1", PARENTS[3])]
    lines = []
    for u, p in bases:
        for suffix in ("", "#", "#frag"):
            lines.append(json.dumps({"op": "norm", "raw": u + suffix, "parent": p}))
    rc, impl, err = core.run_impl("url", lines, timeout=600)
    for i, (u, p) in enumerate(bases):
        a0, a1, a2 = impl[3 * i:3 * i + 3]
        ctx.case("frag" + u + "|" + p, a0.startswith("ok"))
        c = [parse_line(x).get("canon") if x.startswith("ok") else x for x in (a0, a1, a2)]
        if not (c[0] == c[1] == c[2]):
            show = [unhex(x) if not x.startswith("err") else x for x in c]
            ctx.violation("a fragment changes the canonical URL of %r (parent %r): %s" % (u, p, show), {"domain": "url", "raw": u, "parent": p, "fragment_variants": show})
    seqs = []
    for _ in range(max(20, n // 10)):
        p = r.choice(PARENTS)
        seqs.append((p, [r.choice(RELS) for _ in range(r.randrange(2, 6))]))
    seqs.append((PARENTS[3], ["/abs/path", "x/y.png", "?only=query", "../up"]))
    lines = [json.dumps({"op": "normseq", "parent": p, "raws": raws}) for p, raws in seqs]
    single = [json.dumps({"op": "norm", "raw": raw, "parent": p}) for p, raws in seqs for raw in raws]
    rc, impl, err = core.run_impl("url", lines + single, timeout=600)
    k = len(lines)
    for (p, raws), a in zip(seqs, impl[:len(lines)]):
        d = parse_line("x " + a)
        got = d.get("seq", "").split(",")
        alone = []
        for raw in raws:
            x = impl[k]; k += 1
            alone.append(parse_line(x).get("canon") if x.startswith("ok") else "!")
        ctx.case("seq" + p + json.dumps(raws), True)
        ctx.count("shared-parent-sequences")
        if got != alone or d.get("parent-before") != d.get("parent-after"):
            ctx.violation("normalisation is not a pure function: against a shared parent %r the references %s give %s in sequence but %s alone; parent %s -> %s" %
                          (p, raws, [unhex(x) if x != "!" else x for x in got], [unhex(x) if x != "!" else x for x in alone],
                           unhex(d.get("parent-before", "")), unhex(d.get("parent-after", ""))), {"domain": "url", "parent": p, "raws": raws, "impl": a})


def rand_query(r):
    parts = []
    for _ in range(r.randrange(0, 6)):
        k = "".join(r.choice("abAB01-_.~ +%&=;/?é") for _ in range(r.randrange(0, 4)))
        v = "".join(r.choice("xyz09-_.~ +%&=;/:@ü") for _ in range(r.randrange(0, 5)))
        kk = r.random()
        if kk < 0.6:
            from urllib.parse import quote_plus
            parts.append(quote_plus(k) + "=" + quote_plus(v))
        elif kk < 0.8:
            parts.append(k + "=" + v)
        else:
            parts.append(k)
    return "&".join(parts).encode("utf-8")


def query_stream(ctx, n):
    r = ctx.rng
    qs = [b"a=1&b=2&c=3", b"b=2&a=1&b=3", b"a", b"a=%zz&b=1", b"a=1;b=2&c=3", b"", b"&&", b"=", b"k=%26&k=+", b"a=1&b=2&a=3&crop=64:64;smart",
          b"x=1&y;z=2&w=3"] + [rand_query(r) for _ in range(n)]
    lines = [json.dumps({"op": "query", "qhex": q.hex()}) for q in qs]
    impl, model = ctx.pair("url", lines)
    for q, a, b in zip(qs, impl, model):
        da, db = parse_line("x " + a), parse_line("x " + b)
        ctx.case("q" + q.hex(), q.count(b"&") >= 1)
        ctx.count("query:det=" + da["det"])
        rep = {"domain": "url", "qhex": q.hex(), "query": q.decode("utf-8", "replace"), "impl": a, "model": b}
        if da["det"] != "1":
            ctx.violation("the canonical query of %r differs between evaluations (%s different strings)" % (q.decode("utf-8", "replace"), da["det"]), rep)
            continue
        # independent reference: the well-formed pairs survive with their order and multiplicity
        if py_pairs(bytes.fromhex(da["q"])) != py_pairs(q):
            ctx.violation("query parameters lost, reordered or altered: %r -> %r (pairs %s -> %s)" % (q.decode("utf-8", "replace"),
                          bytes.fromhex(da["q"]).decode("utf-8", "replace"), py_pairs(q), py_pairs(bytes.fromhex(da["q"]))), rep)
            continue
        if da["q"] != db["q"]:
            ctx.disagree({"qhex": q.hex(), "query": q.decode("utf-8", "replace")}, bytes.fromhex(da["q"]).decode("utf-8", "replace"),
                         bytes.fromhex(db["q"]).decode("utf-8", "replace"))


def escape_stream(ctx, n):
    r = ctx.rng
    bs = [bytes(r.randrange(256) for _ in range(r.randrange(0, 12))) for _ in range(n)] + [bytes(range(256))]
    lines = [json.dumps({"op": "escape", "hex": b.hex()}) for b in bs]
    us = [bytes(r.choice(b"%+ab0189AFafgG~=&") for _ in range(r.randrange(0, 8))) for _ in range(n)]
    lines += [json.dumps({"op": "unescape", "hex": b.hex()}) for b in us]
    impl, model = ctx.pair("url", lines)
    for l, a, b in zip(lines, impl, model):
        ctx.case("e" + l, True)
        ctx.count("escape-cases")
        if a != b:
            ctx.disagree(json.loads(l), a, b)
        j = json.loads(l)
        if j["op"] == "escape" and not a.endswith("back=" + j["hex"]):
            ctx.violation("QueryUnescape(QueryEscape(b)) != b for b=%s: %s" % (j["hex"], a), {"domain": "url", "line": j, "impl": a})


SEGS = ["a", "b", "c", "img", "x.png", "d;p", "v1", "~u", "q-1", "e_f", "index.html", "k.tar.gz", "A", "0",
        # percent-encoded delimiters stay as they are: a segment is opaque to resolution
        "AC%2FDC", "a%3Fb", "x%23y", "50%25", "sp%20ace"]
# queries that the query canonicalisation (a separate, deliberate step: C09's query theorems) leaves as they are
RQ = ["", "", "?y=2", "?a=1", "?a=1&b=2", "?b=2&a=1&b=3", "?k=v1.2", "?p=x.y~z"]


def gen_reference(r):
    """(page, reference) over the grammar the resolver model covers: every reference form of the URL standard, plain segments,
    dot segments anywhere (leading, middle, trailing, excess), empty segments, queries of plain pairs, optional fragment"""
    def path(n, lead_dots=True):
        segs = []
        for _ in range(n):
            k = r.random()
            segs.append(".." if (k < 0.18 and lead_dots) else "." if k < 0.28 else "" if k < 0.32 else r.choice(SEGS))
        return segs
    scheme = r.choice(["http", "https"])
    host = r.choice(["p.example", "www.parent.example", "h.example:8080", "sub.d.example"])
    bpath = "/" + "/".join(path(r.randrange(0, 5), lead_dots=False)) if r.random() < 0.9 else ""
    base = "%s://%s%s%s" % (scheme, host, bpath, r.choice(RQ))
    k = r.random()
    def nonempty_first(segs):
        if segs and segs[0] == "":
            segs[0] = r.choice(SEGS)      # a leading empty segment would turn the reference into another form (/x or //host)
        return segs
    if k < 0.45:
        ref = "/".join(nonempty_first(path(r.randrange(1, 6)))) + r.choice(["", "", "/"])  # path-relative
    elif k < 0.65:
        ref = "/" + "/".join(nonempty_first(path(r.randrange(0, 5))))                       # path-absolute
    elif k < 0.75:
        ref = "//" + r.choice(["cdn.example", "img.d.example:8443"]) + r.choice(["", "/", "/" + "/".join(path(r.randrange(1, 4)))])   # scheme-relative
    elif k < 0.85:
        ref = r.choice(["http", "https"]) + "://" + r.choice(["o.example", "other.d.example"]) + r.choice(["", "/", "/" + "/".join(path(r.randrange(1, 4)))])
    elif k < 0.93:
        ref = ""                                                                            # query-only / empty / fragment-only
    else:
        ref = r.choice([".", "..", "./", "../", "../..", "./."])
    q = r.choice(RQ)
    if ref == "" or r.random() < 0.4:
        ref += q
    if r.random() < 0.2:
        ref += r.choice(["#", "#frag", "#a/b?c"])
    return base, ref


def resolve_stream(ctx, n):
    """the real normaliser against the resolver of the URL standard (Model/Resolve.lean) on generated (page, reference) pairs"""
    r = ctx.rng
    cases = [("http://a.example/b/c/d;p?q=1", x) for x in ["g", "./g", "g/", "/g", "//g.example", "?y=2", "g?y=2", ".", "./", "..", "../", "../g", "../..",
                                                           "../../", "../../g", "../../../g", "../../../../g", "/./g", "/../g", "g.", ".g", "g..", "..g",
                                                           "./../g", "./g/.", "g/./h", "g/../h", "g;x=1/./y", "g;x=1/../y", "g#s"]]
    cases += [gen_reference(r) for _ in range(n)]
    # the empty reference (the page itself) is rejected by the normaliser: nothing to fetch, outside this comparison
    cases = [(b, x) for b, x in cases if x.split("#")[0] != ""]
    lines = [json.dumps({"op": "norm", "raw": ref, "parent": base}) for base, ref in cases]
    rc, impl, err = core.run_impl("url", lines, timeout=1200)
    rc2, model, err2 = core.run_model("url", [json.dumps({"op": "resolve", "raw": ref, "parent": base}) for base, ref in cases], timeout=1200)
    if len(impl) != len(cases) or len(model) != len(cases):
        raise RuntimeError("resolve stream: %d / %d / %d lines %s %s" % (len(cases), len(impl), len(model), err[-300:], err2[-300:]))
    for (base, ref), a, m in zip(cases, impl, model):
        want = unhex(m.split("=", 1)[1])
        ctx.count("resolve:" + ("absolute" if "://" in ref.split("?")[0] else "scheme-relative" if ref.startswith("//") else "path-absolute" if ref.startswith("/")
                                else "query-or-empty" if ref[:1] in ("", "?", "#") else "path-relative"))
        ctx.case("r" + base + "|" + ref, ".." in ref or "./" in ref or ref[:1] in ("", "?"))
        rep = {"domain": "url", "raw": ref, "parent": base, "impl": a}
        if not a.startswith("ok"):
            ctx.violation("reference %r on page %s: the URL standard resolves it to %s, the normaliser answered %s" % (ref, base, want, a), rep)
            continue
        got = unhex(parse_line(a)["canon"])
        if got != want:
            # the standard is the judge here: an independent statement of it (urllib) decides whether it is the code or the model that is off
            from urllib.parse import urljoin, urldefrag
            ref_py = urldefrag(urljoin(base, ref))[0]
            if ref_py.count("/") == 2:
                ref_py += "/"
            if got != ref_py and want == ref_py:
                ctx.violation("reference %r on page %s resolves to %s as the URL standard prescribes; the normaliser gave %s" % (ref, base, want, got), rep)
            else:
                ctx.disagree({"op": "resolve", "raw": ref, "parent": base}, got, want, {"urllib": ref_py})


def parents_in_the_pipeline(ctx, n):
    """the parent a reference is resolved against is the node's own parent in the seed's tree (the page that referenced it), pass after pass:
    seeds that redirect to a page in another directory / on another host, pages whose playlists live elsewhere again and name their segments
    relatively. Requests built by the real preprocess are compared with urljoin(parent's canonical URL, reference)."""
    from urllib.parse import urljoin
    from . import stage
    r = ctx.rng
    h = core.Interactive("stage")
    run_ = stage.Run(ctx, h)
    refs = ["img/a{k}.png", "../up/b{k}.png", "/abs/c{k}.png", "?q={k}", "//cdn.example/d{k}.png", "./e{k}.png", "sub/dir/../f{k}.png", "g{k}.png?x=1&y=2"]
    try:
        for k in range(n):
            page = r.choice(["http://site.example/dir/sub/page%d.html", "https://www.other.example/a/b/p%d", "http://site.example/p%d/"]) % k
            chain = [x % k for x in r.sample(["http://start.example/s%d", "http://site.example/old/deep/path/s%d", "https://start.example/x/s%d"], r.choice([0, 1, 2]))]
            seed = chain[0] if chain else page
            # the queue hands the seed over as it was found: not necessarily in canonical spelling
            spell = r.choice([lambda u: u, lambda u: u, lambda u: u.replace("://", "://", 1).replace("site.example", "SITE.Example").replace("start.example", "START.example").replace("www.other", "WWW.Other"),
                              lambda u: u.replace("http://site.example/", "http://site.example:80/").replace("https://start.example/", "https://start.example:443/"),
                              lambda u: u + "#top", lambda u: u.replace(".example/", ".example/./", 1)])
            seed_text = spell(seed)
            site = stage.Site()
            for here, there in zip(chain, chain[1:] + [page]):
                site.add(here, status=r.choice([301, 302]), location=there, body="moved")
            rel = [x.format(k=k) for x in r.sample(refs, r.randrange(2, 6))]
            plist = r.choice(["/media/hls/%d/list.m3u8", "http://media.example/v/%d/index.m3u8"]) % k
            site.add(page, assets=rel + [plist], outlinks=[])
            segs = ["seg0.ts", "../alt/seg1.ts", "/root/seg2.ts", "chunk/seg3.ts?tok=1"]
            pabs = urljoin(page, plist)
            site.add(pabs, ctype="application/vnd.apple.mpegurl", kind="raw",
                     body="#EXTM3U\n#EXT-X-VERSION:3\n#EXT-X-TARGETDURATION:4\n" + "".join("#EXTINF:4,\n%s\n" % x for x in segs) + "#EXT-X-ENDLIST\n")
            cfg = {"includeHosts": [], "includeStrings": [], "excludeHosts": list(stage.DEFAULT_EXCLUDED), "excludeStrings": [], "regexes": [], "disableAssets": False,
                   "maxHops": 0, "maxRedirect": 3, "disableSeencheck": False, "domainsCrawl": [], "disableHTMLTag": [], "captureAlternatePages": False}
            cfg["viaWorker"] = k % 2 == 0        # through the real stage worker (goroutine and channels) or through preprocess() directly
            act, tree, trace = stage.run_seed(run_, cfg, site, seed_text, seed_id="par%d" % k, max_passes=8)
            got = {q["canon"] for q in trace["requests"]}
            rp = {"domain": "stage", "cfg": cfg, "seed": seed_text, "site": site.pages}
            # every request is built for the canonical form the normaliser gives for that reference (on a fresh object)
            stale = [q for q in trace["requests"] if q.get("oracle") and q["oracle"].get("canon") and q["oracle"]["canon"] != q["canon"]]
            if stale:
                q0 = stale[0]
                ctx.violation("the request for %r (seed text %r) is built for %s, the canonical form is %s" % (
                    q0["id"], seed_text, q0["canon"], q0["oracle"]["canon"]), dict(rp, url=q0["oracle"]["canon"]))
                continue
            ctx.case("parents" + json.dumps([seed, page, rel]), len(chain) >= 1)
            ctx.count("pipeline-parents")
            want = [(page, x) for x in rel + [plist]] + ([(pabs, x) for x in segs] if pabs in got else [])
            for par, x in want:
                u = urljoin(par, x)
                if u not in got:
                    near = sorted(y for y in got if y.rsplit("/", 1)[-1].split("?")[0] == u.rsplit("/", 1)[-1].split("?")[0])
                    ctx.violation("reference %r found on %s (seed %s) resolves to %s against its parent; no request was built for it%s" % (
                        x, par, seed, u, (" (one was built for %s)" % near[0]) if near else ""), dict(rp, url=u))
                    break
    finally:
        h.send({"op": "close"}); h.close()
    stage.compare(ctx, run_, "C09 parents in the pipeline")


def run(ctx):
    t = ctx.thorough()
    parents_in_the_pipeline(ctx, 300 if t else 25)
    norm_stream(ctx, 60000 if t else 2500)
    resolve_stream(ctx, 30000 if t else 1500)
    query_stream(ctx, 40000 if t else 1500)
    escape_stream(ctx, 20000 if t else 800)
    metamorphic(ctx, 4000 if t else 300)
    ctx.assumptions += ["URL parsing (ada WHATWG parser, net/url, idna) is an oracle: only its outputs are checked (shape, determinism, idempotence); "
                        "the byte-level escaping and query re-encoding are modelled and proved",
                        "reference resolution is done by ada: it is compared, on generated (page, reference) pairs over plain segments, dot segments, "
                        "empty segments and plain queries, with the resolver of the URL standard in Model/Resolve.lean (whose structural "
                        "properties are proved); percent-encoded dots, back-slashes, IDN hosts and default ports are outside that grammar"]


def replay(ctx, doc):
    rp = doc.get("replay", doc)
    if rp.get("domain") == "stage":
        from urllib.parse import urljoin
        from . import stage
        h = core.Interactive("stage")
        run_ = stage.Run(ctx, h)
        try:
            site = stage.Site(); site.pages = rp["site"]
            act, tree, trace = stage.run_seed(run_, rp["cfg"], site, rp["seed"], seed_id="replay", max_passes=8)
            if rp.get("url") and rp["url"] not in {q["canon"] for q in trace["requests"]}:
                ctx.violation("replay: no request was built for %s" % rp["url"], rp)
        finally:
            h.send({"op": "close"}); h.close()
    elif "raw" in rp:
        rc, impl, err = core.run_impl("url", [json.dumps({"op": "norm", "raw": rp["raw"], "parent": rp.get("parent", "")})])
        d = parse_line(impl[0]) if impl[0].startswith("ok") else {}
        if d and (d["det"] != "1" or d["again"] != d["canon"]):
            ctx.violation("canonicalisation of %r is not deterministic / idempotent: %s" % (rp["raw"], impl[0]), rp)
    elif "qhex" in rp:
        rc, impl, err = core.run_impl("url", [json.dumps({"op": "query", "qhex": rp["qhex"]})])
        if not impl[0].endswith("det=1"):
            ctx.violation("canonical query differs between evaluations: " + impl[0], rp)
