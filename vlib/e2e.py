"""End-to-end runner: one whole crawl per subprocess (`build/hbin e2e`), in its own scratch directory."""
import json, os, shutil, signal, subprocess, tempfile, time, concurrent.futures
from . import core

SCRATCH = os.environ.get("VERIF_SCRATCH", tempfile.gettempdir())


def run_one(scn, timeout=120, keep=None, kill_after=None):
    """returns (report dict | None, stderr tail). `keep` = directory to reuse (restart scenarios); `kill_after` = seconds until SIGKILL"""
    d = keep or tempfile.mkdtemp(prefix="verif-e2e-", dir=SCRATCH)
    try:
        os.makedirs(os.path.join(d, "tmp"), exist_ok=True)
        p = subprocess.Popen([os.path.join(core.BUILD, "hbin"), "e2e"], cwd=d, stdin=subprocess.PIPE, stdout=subprocess.PIPE, stderr=subprocess.PIPE,
                             env=dict(os.environ, GOMAXPROCS=str(scn.get("gomaxprocs", 4)), GOMEMLIMIT="2GiB", TMPDIR=os.path.join(d, "tmp")))
        line = (json.dumps(dict(scn, op="run")) + "\n").encode()
        if kill_after is not None:
            p.stdin.write((json.dumps(dict(scn, op="run", announceStart=True)) + "\n").encode()); p.stdin.flush()
            while True:                      # the delay counts from the moment the pipeline is up
                l = p.stdout.readline()
                if not l or l.strip() == b"STARTED":
                    break
            time.sleep(kill_after)
            p.send_signal(signal.SIGKILL)
            p.wait()
            return {"killed": True}, ""
        try:
            out, err = p.communicate(line, timeout=timeout)
        except subprocess.TimeoutExpired:
            p.kill()
            out, err = p.communicate()
            return {"harnessTimeout": True}, err.decode("utf-8", "replace")[-2000:]
        rep = None
        for l in out.decode("utf-8", "replace").splitlines():
            l = l.strip()
            if l.startswith("{"):
                try:
                    rep = json.loads(l)
                except ValueError:
                    pass
            elif l.startswith("harness-error") or l.startswith("panic") or l.startswith("crash"):
                rep = {"harnessLine": l[:2000]}
        errs = err.decode("utf-8", "replace")
        if rep is None:
            rep = {"died": True, "rc": p.returncode}
            for l in errs.splitlines():
                if l.startswith("panic:") or l.startswith("fatal error:"):
                    rep["panic"] = l[:300]
                    break
        return rep, errs[-3000:]
    finally:
        if keep is None:
            shutil.rmtree(d, ignore_errors=True)


def run_many(scns, timeout=120, workers=12):
    with concurrent.futures.ThreadPoolExecutor(max_workers=workers) as ex:
        return list(ex.map(lambda s: run_one(s, timeout), scns))


def requests_by_key(rep):
    out = {}
    for r in rep.get("requests") or []:
        out.setdefault(r["key"], []).append(r)
    return out


# ---------------------------------------------------------------- C04: kill / stop, then restart on the same job directory

def free_port():
    import socket
    s = socket.socket()
    s.bind(("0.0.0.0", 0))
    p = s.getsockname()[1]
    s.close()
    return p


def c04_site(r, nseeds):
    site, tree = {}, {}
    for k in range(nseeds):
        assets = ["/q%d/a%d.png" % (k, i) for i in range(r.randrange(0, 5))]
        site["/q%d/" % k] = {"ctype": "text/html", "body": {"kind": "html", "assets": assets, "outlinks": []}, "delayMs": r.choice([0, 0, 30])}
        for i, a in enumerate(assets):
            site[a] = {"ctype": "image/png", "body": {"kind": "png", "size": r.choice([200, 20000, 400000, 3000000]), "seed": i + k}, "delayMs": r.choice([0, 20, 150])}
        tree["/q%d/" % k] = assets
    return site, tree


def c04_one(ctx, r, mode):
    """mode: 'kill' (SIGKILL after a seeded delay) or 'stop' (graceful stop after k requests); then restart until drained"""
    port = free_port()
    nseeds = r.randrange(3, 9)
    site, tree = c04_site(r, nseeds)
    seeds = list(tree)
    bad_at = None
    if r.random() < 0.4:
        bad_at = r.randrange(0, len(seeds))
        seeds.insert(bad_at, "raw:{BASE}/bad/100%zz")          # an outlink that cannot be parsed, stored as found
    cfg = {"workers": r.choice([1, 2, 4]), "maxConcurrentAssets": r.choice([1, 2, 4]), "maxRetry": 0, "httpTimeout": 5, "warcPoolSize": r.choice([1, 2])}
    first_pass = mode == "stop1"
    if first_pass:
        # the stop request arrives while a seed is between two passes: its page is captured, its requisites are not fetched yet
        mode = "stop"
        cfg.update(workers=1, maxConcurrentAssets=1)
        for k in range(nseeds):
            if len(tree["/q%d/" % k]) < 2:
                extra = ["/q%d/x%d.png" % (k, i) for i in range(3)]
                for i, a in enumerate(extra):
                    site[a] = {"ctype": "image/png", "body": {"kind": "png", "size": 200, "seed": i}, "delayMs": 150}
                tree["/q%d/" % k] += extra
                site["/q%d/" % k]["body"]["assets"] = tree["/q%d/" % k]
            site["/q%d/" % k]["delayMs"] = 120
    scn = {"seeds": seeds, "site": site, "cfg": cfg, "port": port, "job": "j"}
    d = tempfile.mkdtemp(prefix="verif-c04-", dir=SCRATCH)
    rp = {"domain": "e2e-restart", "scenario": scn, "mode": mode}
    try:
        if mode == "kill":
            delay = r.choice([0.0, 0.02, 0.05, 0.1, 0.2, 0.4, 0.8, 1.5])
            rp["killAfter"] = delay
            run_one(dict(scn, stop={"when": "drain", "timeoutMs": 30000}), keep=d, kill_after=delay)
        else:
            k = r.randrange(1, 12) if not first_pass else r.choice([1, 1, 2, 5])
            rp["stopAfterRequests"] = k
            rep1, err1 = run_one(dict(scn, stop={"when": "requests", "n": k, "extraMs": r.choice([0, 20]), "timeoutMs": 8000}), keep=d, timeout=90)
            if rep1.get("died") or rep1.get("stopPanic") or rep1.get("stopHung"):
                ctx.violation("the first run did not stop cleanly: %s" % {x: y for x, y in rep1.items() if x in ("died", "panic", "stopPanic", "stopHung")}, rp)
                return
        # what is on disk now
        base = "http://127.0.0.2:%d" % port
        insp, _ = run_one({"inspectOnly": True, "job": "j", "seenQuery": [base + sp for sp in seeds if not sp.startswith("raw:")]}, keep=d, timeout=60)
        seen_store = insp.get("seenStore") or {}
        rows = insp.get("lqRows") or []
        if any(x.startswith("err") for x in rows):
            raise RuntimeError("e2e restart: the queue file is unreadable after the first run: %s" % rows)
        left = {x.split("|")[0] for x in rows}
        recs = insp.get("warcRecords") or []
        on_disk = {rc["uri"] for rc in recs if rc["type"] in ("response", "revisit") and rc["complete"] and not rc.get("err")}
        # complete records only, except possibly the tail of a file after a kill
        bad = [rc for rc in recs if (not rc["complete"] or rc.get("err"))]
        if bad:
            ctx.violation("a record in the middle of a WARC file is incomplete / unreadable after %s: %s" % (mode, bad[0]), rp); return
        if mode == "stop" and insp.get("warcTrailing"):
            ctx.violation("a WARC file ends in an incomplete member after a graceful stop: %s" % insp["warcTrailing"], rp); return
        finished = 0
        for i, sp in enumerate(seeds):
            sid = "s%d" % i
            if sid in left:
                continue
            finished += 1
            if sp.startswith("raw:"):
                continue
            need = [sp] + tree[sp]
            missing = [u for u in need if base + u not in on_disk]
            if missing:
                ctx.violation("%s (%s) was reported finished (its queue row is gone) after %s, but no capture of %s is in the WARC files on disk" % (
                    sid, sp, mode, missing), rp); return
        ctx.count("c04-e2e:%s" % mode)
        ctx.count("c04-e2e:finished-before-restart", finished)
        # restart on the same job directory
        rep2, err2 = run_one(dict(scn, restart=True, stop={"when": "drain", "timeoutMs": 60000}), keep=d, timeout=150)
        if not rep2.get("drained"):
            ctx.violation("after the restart the queue did not drain: rows %s %s" % (rep2.get("lqRows"), {x: y for x, y in rep2.items() if x in ("died", "panic", "stopPanic", "stopHung")}), rp); return
        if rep2.get("lqRows"):
            ctx.violation("after the restart rows stay in the queue: %s" % rep2["lqRows"], rp); return
        again = {q["key"] for q in rep2.get("requests") or []}
        first_run = set()
        try:
            runs = open(os.path.join(d, "origin.journal")).read().split("# run\n")
            first_run = set(runs[1].split()) if len(runs) > 1 else set()
        except OSError:
            pass
        for i, sp in enumerate(seeds):
            if "s%d" % i in left and not sp.startswith("raw:") and sp not in again:
                msg = "s%d (%s) was unfinished when the first run ended (%s) but was not crawled again after the restart" % (i, sp, mode)
                if base + sp in seen_store and not cfg.get("disableSeencheck"):
                    # the first run had already recorded the seed's own URL in the (persisted) local seen-store: it did so when it
                    # preprocessed the seed, whether or not the fetch then happened
                    ctx.known_finding("D20", msg, rp)
                else:
                    ctx.violation(msg, rp); return
        ctx.case(json.dumps([mode, cfg, seeds, rp.get("killAfter"), rp.get("stopAfterRequests")]), 0 < finished < len(seeds))
    finally:
        shutil.rmtree(d, ignore_errors=True)


def c04_malformed(ctx, r):
    """a URL that cannot be parsed sits in the queue among good ones (outlinks are stored as found): the good ones must still be crawled"""
    site, tree = c04_site(r, r.randrange(3, 6))
    seeds = list(tree)
    seeds.insert(r.randrange(0, 2), "raw:{BASE}/bad/100%zz")
    scn = {"seeds": seeds, "site": site, "cfg": {"workers": r.choice([1, 2]), "maxConcurrentAssets": 2, "maxRetry": 0, "httpTimeout": 5},
           "stop": {"when": "drain", "timeoutMs": 40000}}
    rep, err = run_one(scn, timeout=120)
    rp = {"domain": "e2e", "scenario": scn}
    if not rep.get("drained"):
        ctx.violation("the queue with a malformed URL in it did not drain: %s" % {k: v for k, v in rep.items() if k in ("lqRows", "died", "panic")}, rp); return
    got = {q["key"] for q in rep.get("requests") or []}
    on_disk = {rc["uri"] for rc in rep.get("warcRecords") or [] if rc["type"] in ("response", "revisit") and rc["complete"]}
    for sp in seeds:
        if sp.startswith("raw:"):
            continue
        for u in [sp] + tree[sp]:
            if u not in got or rep["base"] + u not in on_disk:
                ctx.violation("%s was reported finished (the queue is empty) but %s was %s" % (sp, u, "never requested" if u not in got else "not captured"), rp); return
    ctx.count("c04-e2e:malformed-in-queue")
    ctx.case(json.dumps(["malformed", seeds]), True)


def c04_ack_snapshot(ctx, r, variant="mixed"):
    """finished implies captured, observed at the acknowledgement itself (fake crawl HQ snapshotting the WARC directory)"""
    assets = ["/f/big.bin", "/f/flaky.png", "/f/small.png", "/f/gone.bin"]
    site = {"/f/": {"ctype": "text/html", "body": {"kind": "html", "assets": assets, "outlinks": []}},
            "/f/big.bin": {"ctype": "application/octet-stream", "body": {"kind": "bin", "size": r.choice([20000000, 45000000]), "seed": 2}},
            "/f/flaky.png": {"ctype": "image/png", "body": {"kind": "png", "size": 100, "seed": 3}, "attempts": [{"status": 503}, {}]},
            "/f/small.png": {"ctype": "image/png", "body": {"kind": "png", "size": 100, "seed": 4}},
            # every attempt fails, with a body that takes a while to write: the given-up response is a capture too
            "/f/gone.bin": {"status": 503, "ctype": "application/octet-stream", "body": {"kind": "bin", "size": 12000000, "seed": 6}}}
    scn = {"useHQ": True, "snapshotAtAck": True, "seeds": ["/f/"], "site": site, "stop": {"when": "drain", "timeoutMs": 60000},
           "cfg": {"workers": 1, "maxConcurrentAssets": r.choice([2, 3]), "maxRetry": 1, "httpTimeout": 20, "hqBatchSize": 1, "discardStatus": []}}
    if variant == "giveup":
        # the last thing the seed waits for is a response it gives up on
        scn["site"] = {"/f/": {"ctype": "text/html", "body": {"kind": "html", "assets": ["/f/gone.bin"], "outlinks": []}},
                       "/f/gone.bin": {"status": 503, "ctype": "application/octet-stream", "body": {"kind": "bin", "size": 40000000, "seed": 6}}}
        scn["cfg"]["maxRetry"] = 0
    rep, err = run_one(scn, timeout=150)
    rp = {"domain": "e2e", "scenario": scn}
    acks = rep.get("acks") or []
    if not rep.get("drained") or len(acks) != 1:
        ctx.violation("the crawl did not finish with one acknowledgement: %s" % {k: v for k, v in rep.items() if k in ("drained", "died", "panic")}, rp); return
    on = {x.rsplit(" ", 1)[0] for x in acks[0].get("onDisk") or []}
    for q in rep.get("requests") or []:
        if q["mode"] == "ok" and rep["base"] + q["key"] not in on:
            ctx.violation("the seed was reported finished while the capture of %s (%d bytes) was not yet in the WARC files on disk" % (q["key"], q["len"]), rp); return
    ctx.count("c04-e2e:ack-snapshot")
    ctx.case(json.dumps(["ack-snapshot", variant, scn["cfg"]]), True)


def c04_scenarios(ctx, n=None):
    r = ctx.rng
    import random as _random
    for k in range(6 if ctx.thorough() else 1):
        c04_malformed(ctx, _random.Random(r.randrange(1 << 30)))
        c04_ack_snapshot(ctx, _random.Random(r.randrange(1 << 30)))
        c04_ack_snapshot(ctx, _random.Random(r.randrange(1 << 30)), variant="giveup")
    n = n if n is not None else (80 if ctx.thorough() else 8)
    jobs = [(["kill", "stop", "stop1", "stop"][k % 4], r.randrange(1 << 30)) for k in range(n)]
    import random
    with concurrent.futures.ThreadPoolExecutor(max_workers=8) as ex:
        list(ex.map(lambda j: c04_one(ctx, random.Random(j[1]), j[0]), jobs))
