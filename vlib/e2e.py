"""End-to-end runner: one whole crawl per subprocess (`build/hbin e2e`), in its own scratch directory."""
import json, os, shutil, signal, subprocess, tempfile, time, concurrent.futures
from . import core

SCRATCH = os.environ.get("VERIF_SCRATCH", tempfile.gettempdir())


def run_one(scn, timeout=120, keep=None, kill_after=None):
    """returns (report dict | None, stderr tail). `keep` = directory to reuse (restart scenarios); `kill_after` = seconds until SIGKILL"""
    d = keep or tempfile.mkdtemp(prefix="verif-e2e-", dir=SCRATCH)
    try:
        p = subprocess.Popen([os.path.join(core.BUILD, "hbin"), "e2e"], cwd=d, stdin=subprocess.PIPE, stdout=subprocess.PIPE, stderr=subprocess.PIPE,
                             env=dict(os.environ, GOMAXPROCS=str(scn.get("gomaxprocs", 4)), GOMEMLIMIT="2GiB"))
        line = (json.dumps(dict(scn, op="run")) + "\n").encode()
        if kill_after is not None:
            p.stdin.write(line); p.stdin.flush()
            time.sleep(kill_after)
            p.send_signal(signal.SIGKILL)
            p.wait()
            return {"killed": True}, ""
        try:
            out, err = p.communicate(line, timeout=timeout)
        except subprocess.TimeoutExpired:
            p.kill()
            out, err = p.communicate()
            return {"harnessTimeout": True}, err.decode("utf-8", "replace")[-2000:]
        rep = None
        for l in out.decode("utf-8", "replace").splitlines():
            l = l.strip()
            if l.startswith("{"):
                try:
                    rep = json.loads(l)
                except ValueError:
                    pass
            elif l.startswith("harness-error") or l.startswith("panic") or l.startswith("crash"):
                rep = {"harnessLine": l[:2000]}
        errs = err.decode("utf-8", "replace")
        if rep is None:
            rep = {"died": True, "rc": p.returncode}
            for l in errs.splitlines():
                if l.startswith("panic:") or l.startswith("fatal error:"):
                    rep["panic"] = l[:300]
                    break
        return rep, errs[-3000:]
    finally:
        if keep is None:
            shutil.rmtree(d, ignore_errors=True)


def run_many(scns, timeout=120, workers=12):
    with concurrent.futures.ThreadPoolExecutor(max_workers=workers) as ex:
        return list(ex.map(lambda s: run_one(s, timeout), scns))


def requests_by_key(rep):
    out = {}
    for r in rep.get("requests") or []:
        out.setdefault(r["key"], []).append(r)
    return out
