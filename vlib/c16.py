"""C16 — resource use does not grow with the number of seeds processed."""
import json, os
from . import core, e2e, stage, c05

SECTIONS = ["Reactor", "RateLimiter", "Stages", "Pipeline", "Item"]
LEVEL = "proof"
RULE = ("(i) stage level: after every postprocess pass of scripted seeds (HTML / JSON / binary bodies, kept and discarded, redirects, failures) "
        "the number of nodes still holding a response body must be 0; (ii) pairs of whole crawls of N and 4N seeds (N = 3..6) with the same "
        "configuration over a mix of pages with many assets, large spooled bodies (> 2 MiB), 404 / 503 / connection resets, redirects and "
        "several hosts (127.0.0.2 .. 127.0.0.9), rate limiter on: after the queue drained, before the stop, both must show no tracked seed, "
        "no temporary file, a limiter table within its bound and the same number of goroutines and open descriptors (+-2). Non-trivial: a "
        "pair whose 4N run made >= 30 requests; distinct by scenario")


def stage_bodies(ctx, n):
    def check(ctx_, cfg, site, seed, act, tree, trace, run, start):
        for k, ob in enumerate(trace.get("open_bodies", [])):
            ctx.count("postprocess-passes")
            if ob != 0:
                ctx.violation("after postprocess pass %d of %s, %d node(s) still hold a response body" % (k, seed, ob),
                              {"domain": "stage", "cfg": cfg, "seed": seed, "site": site.pages})
        ctx.case("st" + json.dumps([cfg, seed, sorted(site.pages.get("http://site.example/", {}).get("assets", []))]), False)
    c05.run_scenarios(ctx, n, check)


def site(r, nseeds, hosts):
    pages, seeds = {}, []
    for k in range(nseeds):
        p = "/g%d" % k
        assets = []
        for i in range(r.randrange(2, 7)):
            kind = "big" if (i == 0 and k % 2 == 0) else "truncbig" if (i == 1 and k % 3 == 0) else "host429" if i == 2 else \
                "gzerr" if (i == 3 and k % 2 == 1) else \
                r.choice(["ok", "ok", "big", "404", "503", "reset", "redir", "json", "otherhost", "truncbig", "host429", "gzerr"])
            a = "%s/a%d.bin" % (p, i)
            if kind == "ok":
                pages[a] = {"ctype": "image/png", "body": {"kind": "png", "size": r.choice([100, 30000]), "seed": i}}
            elif kind == "big":
                pages[a] = {"ctype": "text/plain", "body": {"kind": "text", "size": 2600000, "seed": i}}     # spooled to a temp file
            elif kind == "truncbig":
                pages[a] = {"ctype": "text/plain", "body": {"kind": "text", "size": 3000000, "seed": i}, "truncateAt": 2500000}   # dies after the spool went to disk
            elif kind == "host429":
                # a host of its own that answers "too many requests": its bucket is penalised when the next host needs a slot
                a = "http://127.0.%d.%d:{PORT}%s/h%d.png" % (1 + k % 200, 10 + i, p, i)
                pages["%s/h%d.png" % (p, i)] = {"status": 429, "ctype": "text/plain", "body": {"kind": "text", "size": 10, "seed": i}}
            elif kind == "gzerr":
                # a large, compressed error page on a URL that is retried and given up on: its body has to be read to the end
                pages[a] = {"status": r.choice([503, 500]), "gzip": True, "ctype": "text/html", "body": {"kind": "bin", "size": 1500000, "seed": i}}
            elif kind == "404":
                pass
            elif kind == "503":
                pages[a] = {"status": 503}
            elif kind == "reset":
                pages[a] = {"reset": True}
            elif kind == "redir":
                pages[a] = {"status": 302, "location": "%s/t%d.png" % (p, i)}
                pages["%s/t%d.png" % (p, i)] = {"ctype": "image/png", "body": {"kind": "png", "size": 10, "seed": i}}
            elif kind == "json":
                pages[a] = {"ctype": "application/json", "body": {"kind": "json", "urls": ["{BASE}%s/n%d.png" % (p, i)]}}
            elif kind == "otherhost":
                a = "http://127.0.0.%d:{PORT}%s/o%d.png" % (r.choice(hosts), p, i)
                pages["%s/o%d.png" % (p, i)] = {"ctype": "image/png", "body": {"kind": "png", "size": 10, "seed": i}}
            assets.append(a)
        pages[p + "/"] = {"ctype": "text/html", "body": {"kind": "html", "assets": assets, "outlinks": []}}
        seeds.append(p + "/")
    return pages, seeds


def pair(ctx, r, k):
    n = r.randrange(3, 7)
    # --http-timeout is off by default (-1): some pairs run without it, so that nothing but the crawler's own clean-up ends an exchange
    cfg = {"workers": r.choice([1, 2, 4]), "maxConcurrentAssets": r.choice([1, 3]), "maxRetry": r.choice([0, 1]), "httpTimeout": -1 if k % 2 == 0 else 4, "hqBatchSize": 2,
           "disableRateLimit": False, "rateLimitCapacity": 50, "rateLimitRefillRate": 50, "warcPoolSize": r.choice([1, 2])}
    hosts = [3, 4, 5, 6, 7, 8, 9]
    reps = []
    for mult in (1, 4):
        port = e2e.free_port()
        pages, seeds = site(__import__("random").Random(k * 7919), n * mult, hosts)
        pages = json.loads(json.dumps(pages).replace("{PORT}", str(port)))
        scn = {"useHQ": True, "seeds": seeds, "site": pages, "cfg": cfg, "port": port, "goroutineProfile": True,
               "stop": {"when": "drain", "timeoutMs": 120000, "stable": 8}}
        rep, err = e2e.run_one(scn, timeout=240)
        reps.append((scn, rep, err))
    return cfg, n, reps


def judge_pair(ctx, cfg, n, reps):
    fps = []
    for scn, rep, err in reps:
        rp = {"domain": "e2e", "scenario": scn}
        if not rep.get("drained"):
            ctx.violation("the crawl of %d seeds did not drain: %s" % (len(scn["seeds"]), {x: y for x, y in rep.items() if x in ("died", "panic", "hqFeedLeft")}), rp); return
        fp = dict(rep["footprintBeforeStop"])
        # idle keep-alive connections to the (fake) crawl HQ and to the origin are pooled by net/http up to a constant per host: two client
        # goroutines, one goroutine of the harness's own server and two descriptors each; their number depends on timing, not on N
        prof = rep.get("goroutineProfile") or {}
        idle = prof.get("net/http.(*Transport).dialConn", 0) // 2
        fp["goroutines"] -= 2 * idle + prof.get("net/http.(*Server).Serve", 0)
        fp["fds"] -= 2 * idle
        fp["idleConns"] = idle
        fps.append(fp)
        what = "after %d seeds (%d requests) had drained" % (len(scn["seeds"]), len(rep.get("requests") or []))
        if fp["tracked"] != 0:
            ctx.violation("the reactor still tracks %d seed(s) %s" % (fp["tracked"], what), rp); return
        if fp.get("tempFiles"):
            ctx.violation("temporary files remain on disk %s: %s" % (what, fp["tempFiles"][:3]), rp); return
        leftovers = [f for f in fp.get("systemTemp") or [] if "zeno" in f.lower() or "warc" in f.lower()]
        if leftovers:
            ctx.violation("temporary files remain in the system temp directory %s: %s" % (what, leftovers[:3]), rp); return
        if fp["limiterMax"] >= 0 and fp["limiterBuckets"] > max(fp["limiterMax"], 1):
            ctx.violation("the limiter table holds %d buckets, bound %d, %s" % (fp["limiterBuckets"], fp["limiterMax"], what), rp); return
        ctx.count("drained-crawls")
        ctx.count("crawls-that-spooled-bodies-to-disk", 1 if rep.get("maxSpooledBodyFiles") else 0)
    a, b = fps
    rp = {"domain": "e2e-pair", "scenario": reps[1][0], "small": reps[0][0]["seeds"]}
    if a["idleConns"] > 8 or b["idleConns"] > 8:
        ctx.violation("%d / %d pooled idle connections at rest" % (a["idleConns"], b["idleConns"]), rp); return
    if abs(a["goroutines"] - b["goroutines"]) > 2:
        ctx.violation("goroutines at rest: %d after %d seeds, %d after %d seeds" % (a["goroutines"], n, b["goroutines"], 4 * n), rp); return
    if abs(a["fds"] - b["fds"]) > 2:
        ctx.violation("open file descriptors at rest: %d after %d seeds, %d after %d seeds" % (a["fds"], n, b["fds"], 4 * n), rp); return
    ctx.case(json.dumps([cfg, n]), len(reps[1][1].get("requests") or []) >= 30)
    ctx.count("pairs")
    ctx.count("footprint:goroutines=%d fds=%d" % (b["goroutines"], b["fds"]))


def run(ctx):
    # the limiter table under access and outcome-report sequences against the real BucketManager (a host that answers after its bucket was
    # evicted must not leave the table above its bound)
    from . import c13
    c13.table(ctx, 600 if ctx.thorough() else 60)
    stage_bodies(ctx, 600 if ctx.thorough() else 40)
    import concurrent.futures, random
    npairs = 24 if ctx.thorough() else 3
    jobs = [(k, ctx.rng.randrange(1 << 30)) for k in range(npairs)]
    with concurrent.futures.ThreadPoolExecutor(max_workers=6) as ex:
        res = list(ex.map(lambda j: pair(ctx, random.Random(j[1]), j[0]), jobs))
    for cfg, n, reps in res:
        judge_pair(ctx, cfg, n, reps)
    ctx.assumptions += ["goroutine and descriptor counts are runtime facts: measured, not proved; +-2 tolerates timers; pooled idle keep-alive connections "
                        "(bounded by net/http's per-host constant, counted from the goroutine profile) are subtracted",
                        "the quiescent point is 'queue drained and stable for 0.8 s', before Stop()",
                        "memory (heap) growth is not compared: the Go runtime does not return it deterministically"]


def replay(ctx, doc):
    if doc.get("replay", doc).get("domain") == "rl-table":
        from . import c13
        return c13.replay_table(ctx, doc.get("replay", doc))
    rp = doc.get("replay", doc)
    if rp.get("domain") == "stage":
        stage_bodies(ctx, 5)
    elif "scenario" in rp:
        rep, err = e2e.run_one(rp["scenario"], timeout=240)
        fp = rep.get("footprintBeforeStop") or {}
        if fp.get("tracked") or fp.get("tempFiles"):
            ctx.violation("replay: %s" % fp, rp)
