"""C08 — seen URLs are not refetched; nothing is skipped as seen unless the store said so."""
import json, os
from . import core, stage

SECTIONS = ["Stages", "Item", "Url"]
LEVEL = "proof"
RULE = ("jobs of 2..6 seeds on one scripted site with overlapping assets, redirect targets and seeds (the same URL as asset then seed, as seed "
        "then asset, as redirect target; URLs with several query parameters, unusual escapes, IDN hosts, spaces), run one after another "
        "through the real preprocess / ProcessBody / postprocess / CompleteAndCheck with the real LevelDB seen-store, or with crawl HQ "
        "(a recording fake of its seencheck endpoint) as the store; every node reaching the seencheck is judged against a reference set of "
        "what the store recorded (written from the property text) and every step is replayed on the model. Non-trivial: at least one node "
        "was skipped as seen and at least one was fetched after the first seed; distinct by (site, seed list, store)")

QUERY_ASSETS = ["/img/a.png?x=1&y=2", "/img/a.png?y=2&x=1", "/q?a=1&b=2&c=3", "/q?c=3&b=2&a=1", "/s?q=a b&r=%7e", "/s?q=a+b&r=~", "/p%C3%BCt/x.png", "/püt/x.png",
                "http://bücher.example/ü.png", "http://xn--bcher-kva.example/%C3%BC.png", "/sp ace/i.png", "/sp%20ace/i.png", "/m?k=v&k=w&j=", "/m?j=&k=v&k=w",
                "/e?x=%41%2f", "/e?x=A%2F", "HTTP://SITE.EXAMPLE/Up.png", "/Up.png", "/r?u=http://a.example/?p=1&q=2", "/dot/./a/../b.png", "/dot/b.png"]


def gen_job(r):
    site = stage.gen_site(r)
    pool = ["/img/a.png", "b.css", "http://cdn.example/lib.js", "/red/1", "/loop/a", "/api/data.json", "/up/c.gif", "/same", "/gone.png"] + QUERY_ASSETS
    pages = ["http://site.example/p%d" % i for i in range(4)]
    for p in pages:
        site.add(p, assets=[r.choice(pool) for _ in range(r.randrange(1, 7))], outlinks=[])
    # a redirect to something that is elsewhere an asset, and a page that is elsewhere an asset
    site.add("http://site.example/to-asset", status=302, location="/img/a.png")
    site.add("http://site.example/to-page", status=301, location="/p1")
    site.pages["http://site.example/p0"]["assets"] += r.sample(["/to-asset", "/p1", "/to-page"], r.randrange(0, 3))
    # a page several of whose requisites answer with redirects: to something seen only as an asset, to pages crawled before
    site.add("http://site.example/to-asset2", status=302, location="/up/c.gif")
    site.add("http://site.example/to-page2", status=301, location="/p2")
    multi = ["/to-asset", "/to-page", "/to-asset2", "/to-page2"]
    r.shuffle(multi)
    site.add("http://site.example/multi", assets=multi[: r.randrange(2, 5)], outlinks=[])
    if r.random() < 0.25:
        site.pages["http://site.example/p0"]["assets"] += ["/img/a.png", "/up/c.gif"]
        return site, ["http://site.example/p0", r.choice(["http://site.example/p1", "HTTP://SITE.example/p1", "http://site.example:80/p1"]),
                      "http://site.example/p2", "http://site.example/multi", "http://site.example/p1"]
    seeds = [r.choice(pages + ["http://site.example/", "http://site.example/img/a.png", "http://site.example/multi", "HTTP://SITE.example/p1",
                               "http://site.example:80/p2", "http://site.example/./p3", "http://site.example/p1", "http://site.example/p2", "http://site.example/to-asset", "http://site.example/p1",
                               "http://site.example/q?a=1&b=2&c=3", "http://site.example/q?c=3&a=1&b=2", "http://site.example/img/a.png?y=2&x=1",
                               "http://site.example/api/data.json", "http://site.example/red/1"]) for _ in range(r.randrange(2, 7))]
    return site, seeds


class Ref:
    """the store as the property describes it: canonical URL -> 'seed' | 'asset' (local), or the set of recorded values (HQ)"""
    def __init__(self, hq=False, initial=()):
        self.hq = hq
        self.rec = {v: "asset" for v in initial}


def judge_pre(ctx, ref, pre, rp):
    """pre = {"before", "after", "oracle", "sent"}: judge the nodes of the working depth that reached the seencheck"""
    before, after = pre["before"], pre["after"]
    lvl = stage.max_depth(before)
    if ref.hq and lvl == 0:
        return True       # crawl HQ never checks the seed itself
    nodes = [(n, par) for n, d, par in stage.walk(after) if d == lvl and n["st"] in ("PreProcessed", "Seen")]
    sent = list(pre["sent"] or [])
    for n, par in nodes:
        typ = "asset" if (par is not None and par["st"] == "GotChildren") else "seed"
        # the canonical URL of the node as the normaliser gives it on a fresh object (not what the node says of itself)
        c = ((pre.get("oracle") or {}).get(n["id"]) or {}).get("canon") or n["canon"]
        if c != n["canon"]:
            ctx.count("node-canon-differs-from-normaliser")
        ctx.count("checked:" + typ)
        if ref.hq:
            # the k-th value sent belongs to the k-th checked node; the store reported it as seen iff it had recorded that value
            v = sent.pop(0) if sent else None
            if v is None:
                ctx.violation("no value was sent to crawl HQ for %s" % c, rp); return False
            had = v in ref.rec
            ref.rec.setdefault(v, typ)
            if n["st"] == "Seen" and not had:
                ctx.violation("%s was skipped as already seen although crawl HQ answered that %r (the value sent for it) is new" % (c, v), dict(rp, url=c)); return False
            if n["st"] != "Seen" and had:
                ctx.violation("%s was not skipped although crawl HQ had recorded %r (the value sent for it) as seen" % (c, v), dict(rp, url=c)); return False
            if v != c:
                ctx.count("hq:sent-differs-from-canonical")
            ctx.count("skipped" if n["st"] == "Seen" else "fetched")
            continue
        had = ref.rec.get(c)
        if n["st"] == "Seen":
            ctx.count("skipped")
            if had is None:
                ctx.violation("%s was skipped as already seen, but no check had recorded it before" % c, dict(rp, url=c)); return False
        else:
            ctx.count("fetched")
            if had is not None and not (typ == "seed" and had == "asset"):
                ctx.violation("%s (checked as %s) was recorded as seen (%s) earlier in this job and is fetched again" % (c, typ, had), dict(rp, url=c)); return False
            ref.rec[c] = "seed" if (typ == "seed" or had == "seed") else "asset"
    return True


def run_job(ctx, run, cfg, site, seeds, tag):
    ref = Ref(hq=cfg.get("useHQ", False), initial=cfg.get("hqSeen", []))
    rp = {"domain": "stage", "cfg": cfg, "seeds": seeds, "site": site.pages}
    skipped = fetched_later = 0
    for k, seed in enumerate(seeds):
        act, tree, trace = stage.run_seed(run, cfg, site, seed, seed_id="%s-%d" % (tag, k), keep_seen=(k > 0), dc_match=stage.dc_matcher(cfg),
                                          regex_match=stage.regex_matcher(cfg), max_passes=30)
        if act == "panic":
            ctx.violation("preprocess crashed on seed %s: %s" % (seed, trace.get("crash")), rp)
            return
        for pre in trace.get("pre", []):
            if not judge_pre(ctx, ref, pre, rp):
                return
            skipped += sum(1 for n, _, _ in stage.walk(pre["after"]) if n["st"] == "Seen")
        if k > 0:
            fetched_later += len(trace["requests"])
        # within one seed's tree no URL is fetched by two different non-seed nodes
        got = {}
        for rq in trace["requests"]:
            if rq["chain"]:
                if rq["canon"] in got and got[rq["canon"]] != rq["id"]:
                    ctx.violation("%s was fetched by two different nodes of the tree of %s" % (rq["canon"], seed), dict(rp, url=rq["canon"])); return
                got[rq["canon"]] = rq["id"]
    ctx.case(json.dumps([seeds, cfg.get("useHQ", False), sorted((k, tuple(v["assets"])) for k, v in site.pages.items() if "/p" in k)]),
             skipped >= 1 and fetched_later >= 1)
    ctx.count("jobs:" + ("hq" if cfg.get("useHQ") else "local"))


def base_cfg(r, hq):
    cfg = {"includeHosts": [], "includeStrings": [], "excludeHosts": list(stage.DEFAULT_EXCLUDED), "excludeStrings": [], "regexes": [],
           "disableAssets": False, "maxHops": 0, "maxRedirect": r.choice([3, 20]), "disableSeencheck": False, "domainsCrawl": [], "useHQ": hq}
    if hq:
        cfg["hqSeen"] = r.sample(["http://site.example/img/a.png", "http://site.example/b.css", "http://site.example/q?a=1&b=2&c=3", "http://cdn.example/lib.js"],
                                 r.randrange(0, 3))
    return cfg


def concurrent_workers(ctx, rounds):
    """the seen-store under several preprocessor workers at once (the pipeline runs --workers of them): every worker checks its own,
    distinct URLs; each URL, recorded by its first check, must be reported seen by a later check"""
    r = ctx.rng
    lines = [json.dumps({"op": "open"})]
    for k in range(rounds):
        lines.append(json.dumps({"op": "burst", "workers": r.choice([2, 4, 8, 16]), "each": r.choice([50, 200, 400]), "tag": "t%d" % k}))
    lines.append(json.dumps({"op": "close"}))
    rc, out, err = core.run_impl("seen", lines, timeout=600)
    if rc != 0 or len(out) != len(lines):
        raise RuntimeError("harness seen: exit %s %s %s" % (rc, out[-2:], err[-500:]))
    for l, o in zip(lines[1:-1], out[1:-1]):
        ctx.count("concurrent-seencheck-bursts")
        ctx.case("burst" + l, True)
        if not o.startswith("checked=") or " bad=0 " not in o:
            ctx.violation("seen-store under concurrent workers: %s (each URL was checked once by one worker, then once more: the second check must "
                          "report it as seen, the first must not)" % o[:300], {"domain": "seen", "ops": [json.loads(lines[0]), json.loads(l)]})
            return


def run(ctx):
    n = 1500 if ctx.thorough() else 60
    r = ctx.rng
    concurrent_workers(ctx, 40 if ctx.thorough() else 4)
    h = core.Interactive("stage")
    run_ = stage.Run(ctx, h)
    try:
        d = os.path.join(core.VERIF, "corpus", "C08")
        for f in sorted(os.listdir(d)) if os.path.isdir(d) else []:
            doc = json.load(open(os.path.join(d, f)))
            site = stage.Site(); site.pages = doc["site"]
            run_job(ctx, run_, doc["cfg"], site, doc["seeds"], "corpus-" + f.split(".")[0])
        for k in range(n):
            site, seeds = gen_job(r)
            run_job(ctx, run_, base_cfg(r, hq=(k % 3 == 2)), site, seeds, "j%d" % k)
    finally:
        h.send({"op": "close"})
        h.close()
    stage.compare(ctx, run_, "C08 jobs")
    ctx.sample({"first_steps": [(json.dumps(op)[:160], out[:160]) for op, out in run_.log[:6]]})
    ctx.assumptions += ["LevelDB and crawl HQ are oracles: a Get after a completed Set returns it; the fake HQ records every value it answers as new",
                        "FNV-64a collisions of canonical URLs are ignored (a collision is the store reporting 'seen')",
                        "the canonical string is a function of the URL text (C09's theorems and checks)"]


def replay(ctx, doc):
    rp = doc.get("replay", doc)
    if rp.get("domain") == "seen":
        rc, out, err = core.run_impl("seen", [json.dumps(o) for o in rp["ops"]] + [json.dumps({"op": "close"})], timeout=600)
        for o in out[1:-1]:
            if " bad=0 " not in o:
                ctx.violation("replay: seen-store under concurrent workers: %s" % o[:300], rp)
        return
    if "cfg" in rp and "seeds" in rp:
        h = core.Interactive("stage")
        run_ = stage.Run(ctx, h)
        site = stage.Site(); site.pages = rp.get("site", {})
        run_job(ctx, run_, rp["cfg"], site, rp["seeds"], "rp")
        stage.compare(ctx, run_, "C08 replay")
        h.close()
