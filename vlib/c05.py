"""C05 — no request is ever sent for a URL outside the operator's scope."""
import json, os
from . import core, stage

SECTIONS = ["Stages", "Url", "Item"]
LEVEL = "proof"
RULE = ("scripted sites (pages with relative / absolute / scheme-less / IDN / loopback / dotless / excluded / invalid / duplicate asset and "
        "outlink URLs, redirect chains and loops, JSON assets of assets) x random combinations of include-host, include-string, exclude-host, "
        "exclude-string, exclusion-regex, domains-crawl, disable-assets, max-hops, max-redirect, pushed pass by pass through the real "
        "preprocess (with the real normaliser) / ProcessBody / postprocess / CompleteAndCheck; every request object built is judged by an "
        "independent reference predicate and every step is replayed on the model. A scenario is non-trivial when at least one URL was "
        "rejected and at least one request was built; distinct by (site, configuration)")


def run_scenarios(ctx, n, check):
    r = ctx.rng
    h = core.Interactive("stage")
    run = stage.Run(ctx, h)
    try:
        for k in range(n):
            cfg = stage.gen_cfg(r)
            site = stage.gen_site(r)
            seed = r.choice(["http://site.example/", "http://site.example/", "http://site.example/same", "http://site.example/red/1",
                             "http://site.example/api/data.json", "http://archive.org/x", "http://site.example/private/", "http://localhost/",
                             "http://site.example/?v=2"])
            if k % 5 == 4:
                # a seed the queue hands over in another spelling of an excluded URL, through the real stage worker: the filters apply to
                # what the URL *is*, however it was spelt
                cfg = dict(cfg, excludeStrings=["site.example/private/"] if k % 2 else [], regexes=[] if k % 2 else [r"^http://site\.example/private/"],
                           includeHosts=[], includeStrings=[], viaWorker=True)
                seed = r.choice(["http://SITE.example/private/", "http://site.example:80/private/", "http://site.example/a/../private/",
                                 "http://site.example/./private/", "HTTP://Site.Example/private/"])
            start = len(run.log)
            act, tree, trace = stage.run_seed(run, cfg, site, seed, seed_id="seed%d" % k, hops=r.choice([0, 0, 1, 2]),
                                              dc_match=stage.dc_matcher(cfg), regex_match=stage.regex_matcher(cfg))
            check(ctx, cfg, site, seed, act, tree, trace, run, start)
    finally:
        h.send({"op": "close"})
        h.close()
    stage.compare(ctx, run, "stage scenarios")
    return run


def targeted(r):
    """sibling assets on one host where only the text-based filters tell them apart, in both orders; a last regex in a file
    without trailing newline; scheme-relative references to forbidden hosts"""
    base = {"includeHosts": [], "includeStrings": [], "excludeHosts": list(stage.DEFAULT_EXCLUDED), "excludeStrings": [], "regexes": [],
            "disableAssets": False, "maxHops": 0, "maxRedirect": 3, "disableSeencheck": False, "domainsCrawl": [], "exclusionFileTrailingNewline": True}
    good = ["/img/ok1.png", "/img/ok2.png", "http://cdn.example/ok.js"]
    out = []
    for filt, bad in ((dict(excludeStrings=["private"]), ["/private/s.png", "http://cdn.example/private.js"]),
                      (dict(regexes=[r"\.zip$"]), ["/files/big.zip", "http://cdn.example/x.zip"]),
                      (dict(regexes=[r"/never/", r"\.zip$"], exclusionFileTrailingNewline=False), ["/files/big.zip"]),
                      (dict(regexes=[r"\.zip$"], exclusionFileTrailingNewline=False), ["/files/big.zip", "http://cdn.example/x.zip"]),
                      # an exclusion file that cannot be read to its end (a line beyond the reader's limit): refuse to start, or enforce every regex
                      (dict(regexes=[r"\.zip$"], exclusionFileLongLine=True), ["/files/big.zip", "http://cdn.example/x.zip"]),
                      (dict(includeStrings=["/img/", "cdn.example/ok"]), ["/other/o.png", "http://cdn.example/no.js"]),
                      (dict(excludeHosts=list(stage.DEFAULT_EXCLUDED) + ["cdn.example"]), ["http://cdn.example/x.js", "//cdn.example/y.js"]),
                      (dict(), ["//localhost/a.png", "//127.0.0.1:8080/b.png", "//intranet/c.png", "//archive.org/d.png", "//web.archive-it.org/e.png"])):
        for order in range(3):
            assets = good + bad
            r.shuffle(assets)
            if order == 0:
                assets = good + bad
            elif order == 1:
                assets = bad + good
            site = stage.Site()
            site.add("http://site.example/", assets=assets)
            for a in assets:
                site.add(a if a.startswith("http") else "http://site.example" + a, ctype="image/png", body="\x89PNG\r\n\x1a\n0000", kind="bin")
            cfg = dict(base, **filt)
            if "includeStrings" in filt:
                cfg["includeStrings"] = filt["includeStrings"] + ["site.example/$"]
                cfg["includeHosts"] = []
            out.append((cfg, site, "http://site.example/" if "includeStrings" not in filt else "http://site.example/img/"))
    return out


def run_targeted(ctx, check):
    h = core.Interactive("stage")
    run = stage.Run(ctx, h)
    try:
        for k, (cfg, site, seed) in enumerate(targeted(ctx.rng)):
            if seed not in site.pages:
                site.pages[seed] = site.pages["http://site.example/"]
            act, tree, trace = stage.run_seed(run, cfg, site, seed, seed_id="t%d" % k, dc_match=stage.dc_matcher(cfg), regex_match=stage.regex_matcher(cfg))
            if act == "refused":
                if cfg.get("exclusionFileLongLine") and "too long" in trace["refused"]:
                    ctx.count("config-refused:unreadable-exclusion-file")
                    continue
                raise RuntimeError("configuration refused: " + trace["refused"])
            check(ctx, cfg, site, seed, act, tree, trace, run, 0)
            ctx.count("targeted-scenarios")
    finally:
        h.send({"op": "close"})
        h.close()
    stage.compare(ctx, run, "targeted stage scenarios")


def check_scope(ctx, cfg, site, seed, act, tree, trace, run, start):
    rejected = 0
    for p, rq in enumerate(trace["requests"]):
        ok, why = stage.in_scope(cfg, rq["canon"])
        ctx.count("requests")
        canon = (rq.get("oracle") or {}).get("canon")
        if ok and canon and canon != rq["canon"]:
            # the request's text is not the canonical form of the URL (as the normaliser gives it on a fresh object): judge that one too
            ok, why = stage.in_scope(cfg, canon)
            ctx.count("requests:text-differs-from-canonical")
        if not ok:
            ctx.violation("a request was built for %s which is out of scope (%s) under %s" % (rq["canon"], why, {k: v for k, v in cfg.items() if v}),
                          {"domain": "stage", "cfg": cfg, "seed": seed, "url": rq["canon"], "reason": why, "site": site.pages})
    # how many URLs of the trees never got a request (rejected / seen / duplicates)
    allnodes = sum(len(list(stage.walk(t))) for t in trace["trees"][-1:])
    ctx.case(json.dumps([cfg, seed, sorted(site.pages.get("http://site.example/", {}).get("assets", []))]), len(trace["requests"]) >= 1 and allnodes >= 1)
    ctx.count("finish:" + str(act))


def run(ctx):
    n = 6000 if ctx.thorough() else 150
    run_targeted(ctx, check_scope)
    run_ = run_scenarios(ctx, n, check_scope)
    ctx.sample({"first_steps": [(json.dumps(op)[:160], out[:160]) for op, out in run_.log[:6]]})
    ctx.assumptions += ["the URL parser (ada / net/url) and the regex engine are oracles: the model receives what they returned in this run",
                        "archive() itself (the only HTTP call site of the pipeline) is replaced by scripted answers here; its 'only PreProcessed "
                        "nodes are fetched' guard is a fact (Archiver.onlyPreProcessedFetched) and it runs for real in the end-to-end scenarios"]


def replay(ctx, doc):
    rp = doc.get("replay", doc)
    if "cfg" in rp and "seed" in rp:
        h = core.Interactive("stage")
        run_ = stage.Run(ctx, h)
        site = stage.Site(); site.pages = rp.get("site", {})
        act, tree, trace = stage.run_seed(run_, rp["cfg"], site, rp["seed"], dc_match=stage.dc_matcher(rp["cfg"]), regex_match=stage.regex_matcher(rp["cfg"]))
        check_scope(ctx, rp["cfg"], site, rp["seed"], act, tree, trace, run_, 0)
        h.close()
