"""C06 — the work per seed is bounded: redirects, asset depth, retries and hops."""
import json, os
from . import core, stage

SECTIONS = ["Stages", "Item", "Archiver"]
LEVEL = "proof"
RULE = ("scripted adversarial sites (endless redirect chains /chain/k -> /chain/k+1, redirect loops, endlessly nested JSON /deep/k.json -> "
        "/deep/k+1.json with self references, finite chains ending exactly at / around the limit, always-failing URLs) x max-redirect in "
        "{0,1,2,3,5,20} x max-hops {0,1,2} x seed hops {0,1,2} x domains-crawl on/off, pushed pass by pass through the real preprocess / "
        "ProcessBody / postprocess / CompleteAndCheck until the seed finishes; every fetch, created node and queued outlink is judged by an "
        "oracle written from the property text; every step is replayed on the model. Non-trivial: a redirect was followed and an asset level "
        ">= 2 was reached or an outlink was queued; distinct by (site, configuration, seed)")


def budget(cfg):
    """passes the harness lets a seed make before giving up (above the proved bound, so that an overrun is seen)"""
    return 4 * (cfg["maxRedirect"] + 1) + 2


def pass_bound(cfg):
    """theorem c06_seed_finishes_within: with domains-crawl off the finisher lets a seed go after at most this many passes"""
    return 4 * cfg["maxRedirect"] + 4


PENDING = ("Fresh", "PreProcessed", "Archived")


def check_life(ctx, cfg, act, tree, trace, rp):
    """the shape of a seed's life (theorems c06_pass_finishes_or_deepens, c06_seed_finishes_within, c01_acknowledged_tree_is_done),
    judged on what the real stages did"""
    if cfg["domainsCrawl"]:
        return True
    if trace["passes"] > pass_bound(cfg):
        ctx.violation("the seed made %d passes through the pipeline; with --max-redirect %d at most %d are possible for a bounded tree" % (
            trace["passes"], cfg["maxRedirect"], pass_bound(cfg)), rp)
        return False
    # a seed that is sent round again comes back exactly one level deeper
    for p, t in enumerate(trace["trees"][:-1] if act != "cut" else trace["trees"]):
        if stage.max_depth(t) != p + 1:
            ctx.violation("after pass %d (seed sent round again) its tree is %d levels deep, expected %d" % (p + 1, stage.max_depth(t), p + 1), rp)
            return False
    if act == "finish" and tree is not None:
        pend = [n["canon"] or n["raw"] for n, _, _ in stage.walk(tree) if n["st"] in PENDING]
        if pend:
            ctx.violation("the finisher let the seed go while %d node(s) of its tree were still pending: %s" % (len(pend), pend[:4]), rp)
            return False
    ctx.count("passes:%d" % trace["passes"])
    return True


def check_bounds(ctx, cfg, site, seed, act, tree, trace, run, start):
    dc = bool(cfg["domainsCrawl"])
    mr, mh = cfg["maxRedirect"], cfg["maxHops"]
    rp = {"domain": "stage", "cfg": cfg, "seed": seed, "site": site.pages, "seed_hops": trace.get("seed_hops", 0)}
    deepest, followed = 0, 0
    for rq in trace["requests"]:
        ctx.count("fetches")
        deepest = max(deepest, rq["level"])
        followed = max(followed, rq["redirects"])
        if rq["redirects"] > mr:
            ctx.violation("%s was fetched as redirect #%d of a chain with --max-redirect %d (chain %s)" % (rq["canon"], rq["redirects"], mr, rq["chain"][-4:]),
                          dict(rp, url=rq["canon"]))
            return
        if not dc and rq["level"] > 3:
            ctx.violation("%s was fetched %d levels below the page (limit 3, domains-crawl off); ancestors %s" % (rq["canon"], rq["level"], rq["chain"]),
                          dict(rp, url=rq["canon"]))
            return
        if rq["hops"] != trace.get("seed_hops", 0):
            ctx.violation("%s (asset / redirect target) carries hops %d, its page has %d" % (rq["canon"], rq["hops"], trace.get("seed_hops", 0)), dict(rp, url=rq["canon"]))
            return
    if not dc and act == "cut":
        ctx.violation("the seed was still not finished after %d passes (max-redirect %d allows at most %d)" % (trace["passes"], mr, pass_bound(cfg)), rp)
        return
    if not check_life(ctx, cfg, act, tree, trace, rp):
        return
    # created nodes: redirect targets count one more than their parent, assets start at 0
    for c in trace.get("created", []):
        ctx.count("created-nodes")
        want = c["parent_redirects"] + 1 if c["parent_st"] == "GotRedirected" else 0
        if c["redirects"] != want:
            ctx.violation("node %s created below the %s node %s (%d redirects) carries redirects=%d (expected %d)" % (
                c["raw"], c["parent_st"], c["parent"], c["parent_redirects"], c["redirects"], want), rp)
            return
        if c["hops"] != c["parent_hops"]:
            ctx.violation("node %s created below %s (hops %d) carries hops %d" % (c["raw"], c["parent"], c["parent_hops"], c["hops"]), rp)
            return
    # outlinks
    dcm = stage.dc_matcher(cfg)
    nouts = 0
    pages = {}
    for t in trace["trees"]:
        for n, d, par in stage.walk(t):
            pages.setdefault(n["canon"], n)
    for outs in trace.get("outlinks", []):
        for o in outs:
            nouts += 1
            ctx.count("outlinks")
            page = pages.get(o["via"])
            if page is None:
                ctx.violation("outlink %s names a via %s that is no node of the seed" % (o["raw"], o["via"]), rp); return
            if dc and dcm(o["raw"]):
                if o["hops"] != 0:
                    ctx.violation("outlink %s matches --domains-crawl but was queued with hops %d" % (o["raw"], o["hops"]), rp); return
                ctx.count("outlinks:domains-crawl")
                continue
            if o["hops"] != page["hops"] + 1:
                ctx.violation("outlink %s of a page with hops %d was queued with hops %d" % (o["raw"], page["hops"], o["hops"]), rp); return
            if not page["hops"] < mh:
                ctx.violation("outlink %s was queued from a page with hops %d although --max-hops is %d" % (o["raw"], page["hops"], mh), rp); return
    ctx.case(json.dumps([cfg, seed, trace.get("seed_hops", 0), sorted(site.pages.get("http://site.example/", {}).get("assets", []))]),
             followed >= 1 and (deepest >= 2 or nouts >= 1))
    ctx.count("finish:" + str(act))
    ctx.count("deepest-level:%d" % deepest)
    ctx.count("longest-chain:%d" % followed)


SEEDS = ["http://site.example/", "http://site.example/", "http://site.example/chain/1", "http://site.example/deep/1.json", "http://site.example/loop/a",
         "http://site.example/red/1", "http://site.example/api/data.json", "http://site.example/nest", "http://site.example/hub",
         "http://site.example/api/feed.json", "http://site.example/api/feed.json", "http://site.example/paged/1", "http://site.example/paged/2",
         "http://site.example/feed.xml", "http://site.example/feed.xml", "http://site.example/feedok.xml", "http://site.example/api/cut.json",
         "http://site.example/rnest/1.json", "http://site.example/rdeep/1.json", "http://site.example/list.m3u8"]


def gen_site(r):
    s = stage.gen_site(r)
    s.add("http://site.example/nest", assets=["/deep/1.json", "/chain/1", "/red/1", "/down.png", "/loop/a"], outlinks=["/page2", "http://dc.example/in", "http://other.example/"])
    s.add("http://site.example/hub", assets=["/hubred"], outlinks=["http://dc.example/in", "/page2", "/page3?a=1&b=2", "http://sub.dc.example/deep"])
    # a redirect whose target is a page with further assets and outlinks
    s.add("http://site.example/hubred", status=301, location="/nest")
    # chains ending exactly at k redirects
    k = r.choice([1, 2, 3, 5, 6])
    for i in range(1, k + 1):
        s.add("http://site.example/exact/%d" % i, status=302, location="/exact/%d" % (i + 1))
    s.add("http://site.example/exact/%d" % (k + 1), assets=["/img/a.png", "/deep/1.json"], outlinks=["/page2"])
    # JSON / XML documents whose extension-less URLs come back from the asset extractors as outlinks
    s.add("http://site.example/api/feed.json", ctype="application/json", kind="json",
          assets=["http://site.example/img/a.png", "http://site.example/api/feed2.json"], outlinks=["http://site.example/page/2", "http://other.example/next", "http://dc.example/in"])
    s.add("http://site.example/api/feed2.json", ctype="application/json", kind="json", assets=[], outlinks=["http://site.example/page/3"])
    # pages that advertise further pages through the Link response header (rel=next chains)
    s.add("http://site.example/paged/1", outlinks=["/page2"], link='<http://site.example/paged/2>; rel="next", <http://other.example/alt>; rel="alternate"')
    s.add("http://site.example/paged/2", outlinks=[], link='<http://site.example/paged/3>; rel="next"')
    # structured documents cut off in the middle (a parse error after some URLs were already seen) and complete ones
    s.add("http://site.example/feed.xml", ctype="application/xml", kind="raw",
          body='<?xml version="1.0" encoding="UTF-8"?><rss><channel><item><link>http://site.example/page/9</link>'
               '<enclosure url="http://site.example/img/e.png"/></item><item><link>http://other.example/feed/next</link><a href=unquoted>x</a>'
               '<item><link>http://site.example/page/10</link><enclosure url="http://site.example/im')
    s.add("http://site.example/feedok.xml", ctype="application/xml", kind="raw",
          body='<?xml version="1.0" encoding="UTF-8"?><rss><channel><item><link>http://site.example/page/8</link>'
               '<enclosure url="http://site.example/img/f.png"/></item><item><link>http://dc.example/in</link></item></channel></rss>')
    s.add("http://site.example/api/cut.json", ctype="application/json", kind="raw",
          body='{"a": "http://site.example/page/4", "b": ["http://site.example/img/x.png", "http://other.example/more"')
    s.add("http://site.example/list.m3u8", ctype="application/vnd.apple.mpegurl", kind="raw",
          body="#EXTM3U\n#EXT-X-VERSION:3\n#EXTINF:4,\nseg0.ts\n#EXTINF:4,\nhttp://site.example/rnest/1.json\n#EXT-X-ENDLIST\n")
    if r.random() < 0.3:
        s.pages["http://site.example/"]["link"] = '<http://site.example/paged/1>; rel="next"'
    s.pages["http://site.example/"]["assets"] += r.sample(["/exact/1", "/chain/7", "/deep/3.json", "/hubred", "/nest", "/api/feed.json", "/feed.xml", "/feedok.xml",
                                                            "/api/cut.json", "/rnest/1.json", "/list.m3u8"], r.randrange(0, 3))
    return s


def run_scenarios(ctx, n):
    r = ctx.rng
    h = core.Interactive("stage")
    run = stage.Run(ctx, h)
    try:
        for k in range(n):
            cfg = stage.gen_cfg(r)
            cfg["maxHops"] = r.choice([0, 1, 2, 3])
            site = gen_site(r)
            seed = r.choice(SEEDS + ["http://site.example/exact/1"])
            hops = r.choice([0, 0, 1, 2])
            act, tree, trace = stage.run_seed(run, cfg, site, seed, seed_id="seed%d" % k, hops=hops, max_passes=min(budget(cfg), 30 if cfg["domainsCrawl"] else 200),
                                              dc_match=stage.dc_matcher(cfg), regex_match=stage.regex_matcher(cfg))
            trace["seed_hops"] = hops
            check_bounds(ctx, cfg, site, seed, act, tree, trace, run, 0)
    finally:
        h.send({"op": "close"})
        h.close()
    stage.compare(ctx, run, "C06 stage scenarios")
    return run


FAIL_MODES = ["reset", 503, 500, 429, 408, "cf", 404, 200]


def visits(ctx, n):
    """whole crawls: a page whose assets fail in scripted ways, attempt by attempt; the origin's log gives the requests per URL"""
    from . import e2e
    r = ctx.rng
    scns = []
    for k in range(n):
        mr = r.choice([0, 1, 1, 2])
        site, scripts, assets = {}, {}, []
        for i in range(r.randrange(2, 7)):
            ln = r.randrange(1, 6)
            sc = [r.choice(FAIL_MODES) for _ in range(ln)]
            if r.random() < 0.5:
                sc = [r.choice(["reset", 503]) if j % 2 == 0 else r.choice([503, "reset", 429]) for j in range(ln)]   # mixed failure kinds, never good
            path = "/v%d/a%d.png" % (k, i)
            att = []
            for m in sc:
                att.append({"reset": True} if m == "reset" else {"cf": True} if m == "cf" else {"status": m})
            site[path] = {"ctype": "image/png", "body": {"kind": "png", "size": 50, "seed": i}, "attempts": att}
            scripts[path] = sc
            assets.append(path)
        site["/v%d/" % k] = {"ctype": "text/html", "body": {"kind": "html", "assets": assets, "outlinks": []}}
        scns.append(({"useHQ": True, "seeds": ["/v%d/" % k], "site": site, "stop": {"when": "drain", "timeoutMs": 60000},
                      "cfg": {"workers": 1, "maxConcurrentAssets": r.choice([1, 4]), "maxRetry": mr, "httpTimeout": 3, "hqBatchSize": 1,
                              "warcAsync": k % 2 == 1}}, scripts, mr))
    # the same with the per-host limiter on (the default of the crawler): a URL that keeps answering 429 / 503
    for k2, code in enumerate([429, 503][: 2 if ctx.thorough() else 1]):
        path = "/t%d/a.png" % k2
        site = {path: {"ctype": "image/png", "body": {"kind": "png", "size": 50, "seed": 1}, "attempts": [{"status": code}] * 6},
                "/t%d/" % k2: {"ctype": "text/html", "body": {"kind": "html", "assets": [path], "outlinks": []}}}
        scns.append(({"useHQ": True, "seeds": ["/t%d/" % k2], "site": site, "stop": {"when": "drain", "timeoutMs": 45000},
                      "cfg": {"workers": 1, "maxConcurrentAssets": 1, "maxRetry": 1, "httpTimeout": 3, "hqBatchSize": 1, "disableRateLimit": False,
                              "rateLimitCapacity": 5, "rateLimitRefillRate": 5}}, {path: [code] * 6}, 1))
    results = e2e.run_many([s for s, _, _ in scns], timeout=120, workers=10)
    lines, keys = [], []
    for (scn, scripts, mr), (rep, err) in zip(scns, results):
        rp = {"domain": "e2e", "scenario": scn}
        by = e2e.requests_by_key(rep) if rep.get("requests") is not None else {}
        if not rep.get("drained"):
            over = {p: len(by.get(p, [])) for p in scripts if len(by.get(p, [])) > mr + 1}
            if over:
                ctx.violation("%s requested %s times in one visit with --max-retry %d and the seed never finished (site script %s)" % (
                    sorted(over)[0], over[sorted(over)[0]], mr, scripts[sorted(over)[0]]), dict(rp, url=sorted(over)[0]))
            else:
                ctx.violation("the crawl of a page with failing assets did not finish: %s %s" % (
                    {k: v for k, v in rep.items() if k not in ("requests", "warcRecords", "jobFiles")}, "" if rep.get("panic") else err[-300:]), rp)
            continue
        for path, sc in scripts.items():
            got = len(by.get(path, []))
            ctx.count("visits")
            ctx.case(json.dumps([mr, sc]), len(set(map(str, sc))) >= 2)
            if got > mr + 1:
                ctx.violation("%s was requested %d times in one visit with --max-retry %d (site script %s)" % (path, got, mr, sc), dict(rp, url=path))
            lines.append(json.dumps({"op": "visit", "maxRetry": mr, "script": sc}))
            keys.append((scn, path, got, sc, mr))
    if lines:
        rc, model, e = core.run_model("stage", lines, timeout=300)
        for (scn, path, got, sc, mr), m in zip(keys, model):
            want = int(m.split(" ")[0].split("=")[1])
            ctx.count("visit-end:" + m.split("end=")[1].split(":")[0])
            if want != got:
                ctx.disagree({"domain": "e2e", "scenario": scn, "url": path, "script": sc, "maxRetry": mr}, "requests=%d" % got, m)


def run(ctx):
    n = 3000 if ctx.thorough() else 120
    visits(ctx, 150 if ctx.thorough() else 8)
    run_ = run_scenarios(ctx, n)
    ctx.sample({"first_steps": [(json.dumps(op)[:160], out[:160]) for op, out in run_.log[:6]]})
    ctx.assumptions += ["the retry loop of archive() runs for real in whole crawls against an origin that fails attempt by attempt as scripted; the "
                        "requests it sends per URL are compared with the `visit` model and judged against max-retry + 1",
                        "termination of a seed as a whole (pass count) is checked on the implementation, not proved: the theorems bound each "
                        "decision and the per-tree redirect / hops invariant",
                        "the extractors and the URL parser are oracles for the model (their results in this run are replayed)"]


def replay(ctx, doc):
    rp = doc.get("replay", doc)
    if "cfg" in rp and "seed" in rp:
        h = core.Interactive("stage")
        run_ = stage.Run(ctx, h)
        site = stage.Site(); site.pages = rp.get("site", {})
        cfg = rp["cfg"]
        act, tree, trace = stage.run_seed(run_, cfg, site, rp["seed"], hops=rp.get("seed_hops", 0), max_passes=min(budget(cfg), 200),
                                          dc_match=stage.dc_matcher(cfg), regex_match=stage.regex_matcher(cfg))
        trace["seed_hops"] = rp.get("seed_hops", 0)
        check_bounds(ctx, cfg, site, rp["seed"], act, tree, trace, run_, 0)
        h.close()
