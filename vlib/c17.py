"""C17 — operational counters are exact under concurrency."""
import json, os
from . import core

SECTIONS = ["Stats"]
LEVEL = "proof"
RULE = ("concurrent bursts against the real stats package: 4-16 goroutines, each a generated list of calls (increments of the two rate "
        "metrics, per-status increments over 6 keys, mean samples, gauge incr/decr pairs, interleaved gets and resets), started together; "
        "the quiescent values (deltas of the monotone totals) are compared with the translated programs run by the model and with the "
        "event counts of the workload itself. A burst is non-trivial when at least 4 goroutines each issue >= 100 calls on shared "
        "metrics; distinct by workload")


def gen_burst(r, goroutines, calls):
    gs = []
    keys = ["200", "301", "404", "429", "500", "503"]
    for g in range(goroutines):
        cs = []
        live = {"pre": 0, "arch": 0, "post": 0}
        for _ in range(calls):
            k = r.random()
            if k < 0.25:
                cs.append("u")
            elif k < 0.35:
                cs.append("s")
            elif k < 0.60:
                cs.append("h:" + r.choice(keys))
            elif k < 0.75:
                cs.append("m:%d" % r.randrange(0, 5000))
            elif k < 0.85:
                w = r.choice(["pre", "arch", "post"])
                if live[w] and r.random() < 0.5:
                    cs.append("g-:" + w); live[w] -= 1
                else:
                    cs.append("g+:" + w); live[w] += 1
            elif k < 0.90:
                cs.append(r.choice(["ug", "sg", "mg", "hg:" + r.choice(keys), "gg:pre"]))
            elif k < 0.93:
                cs.append("ur")
            else:
                cs.append("u")
        if r.random() < 0.7:            # most workers exit: the deferred Decr runs
            for w, n in live.items():
                cs += ["g-:" + w] * n
        gs.append(cs)
    return gs


def expected(gs):
    """event counts of the workload (the property's own oracle)"""
    u = s = mc = ms = 0
    h, g = {}, {"pre": 0, "arch": 0, "post": 0}
    for cs in gs:
        for c in cs:
            k, _, a = c.partition(":")
            if k == "u": u += 1
            elif k == "s": s += 1
            elif k == "h": h[a] = h.get(a, 0) + 1
            elif k == "m": mc += 1; ms += int(a)
            elif k == "g+": g[a] += 1
            elif k == "g-": g[a] -= 1
    hs = ",".join(sorted("%s=%d" % (k, h[k]) for k in h))
    return "urls=%d seeds=%d http=%s mean=%d/%d gauges=pre=%d,arch=%d,post=%d" % (u, s, hs, mc, ms, g["pre"], g["arch"], g["post"])


def canon(line):
    """mean travels as count/sum from the model and as a float from the public getter: compare as floats"""
    out = []
    for part in line.split(" "):
        if part.startswith("mean="):
            v = part[5:]
            if "/" in v:
                c, s_ = v.split("/")
                v = repr(float(int(s_)) / float(int(c))) if int(c) else "0.0"
            else:
                v = repr(float(v))
            part = "mean=" + v
        out.append(part)
    return " ".join(out)


def fresh_key_burst(r, goroutines, keys):
    """every goroutine increments the same brand-new per-status keys in the same order"""
    tag = "%06x" % r.randrange(1 << 24)
    return [["h:%s-%d" % (tag, k) for k in range(keys)] for _ in range(goroutines)]


def big_sample_burst(r, goroutines, n):
    """long response times: the summed latency passes 2^32 ms"""
    return [["m:%d" % r.choice([3000000, 2500000, 1234567]) for _ in range(n)] for _ in range(goroutines)]


def run_bursts(ctx, bursts, race=False, impl_only=False):
    lines = [json.dumps({"goroutines": gs}) for gs in bursts]
    if race:
        rc, impl, err = core.run_impl("stats", lines, timeout=1800, race=True)
        if "DATA RACE" in err:
            ctx.violation("the race detector reports a data race in the stats package", {"domain": "stats", "stderr": err[-1500:]})
        model = impl
    elif impl_only:
        # very large workloads: judged against the events that happened (the oracle), not replayed on the model
        rc, impl, err = core.run_impl("stats", lines, timeout=1800)
        if rc != 0 or len(impl) != len(lines):
            raise RuntimeError("harness stats: exit %s, %d/%d lines\n%s" % (rc, len(impl), len(lines), err[-1500:]))
        model = impl
    else:
        impl, model = ctx.pair("stats", lines, timeout=1800)
    for gs, a, b in zip(bursts, impl, model):
        a, b = canon(a), canon(b)
        big = sum(1 for cs in gs if len(cs) >= 100) >= 4
        ctx.case(json.dumps(gs)[:4000], big)
        ctx.count("bursts")
        ctx.count("calls", sum(len(cs) for cs in gs))
        want = canon(expected(gs))
        if a != b:
            ctx.disagree({"goroutines": [cs[:20] for cs in gs], "note": "workload truncated"}, a, b)
        if a != want:
            ctx.violation("quiescent counters differ from the events that happened: got %s, events %s" % (a, want),
                          {"domain": "stats", "goroutines": gs, "got": a, "expected": want})


def pipeline_gauges(ctx, n):
    """the routine gauges of the real stage workers: = workers while the pipeline runs (also while paused), 0 after a stop -
    whatever the stop moment (c17_gauge_eq_live_workers on the running process)"""
    from . import e2e
    r = ctx.rng
    scns = []
    for k in range(n):
        w = r.choice([1, 2, 4])
        site = {"/g/": {"ctype": "text/html", "body": {"kind": "html", "assets": ["/g/a.png"], "outlinks": []}},
                "/g/a.png": {"ctype": "image/png", "body": {"kind": "png", "size": 100, "seed": 1}, "delayMs": 100}}
        stop = [{"when": "drain", "timeoutMs": 20000}, {"when": "paused", "n": 1, "extraMs": 100, "timeoutMs": 5000},
                {"when": "paused", "n": 0, "extraMs": 200, "timeoutMs": 3000}, {"when": "requests", "n": 1, "timeoutMs": 5000}][k % 4]
        scns.append({"seeds": ["/g/"], "site": site, "cfg": {"workers": w, "maxConcurrentAssets": 1, "maxRetry": 0, "httpTimeout": 3}, "stop": stop})
    for scn, (rep, err) in zip(scns, e2e.run_many(scns, timeout=90, workers=6)):
        rp = {"domain": "e2e", "scenario": scn}
        ctx.case("gauges" + json.dumps([scn["cfg"]["workers"], scn["stop"]]), True)
        ctx.count("pipeline-gauge-runs")
        b, a = rep.get("gaugesBeforeStop"), rep.get("gaugesAfterStop")
        if b is None or a is None:
            ctx.violation("the crawl did not report its gauges: %s" % {k: v for k, v in rep.items() if k in ("died", "panic", "stopPanic", "stopHung")}, rp); continue
        w = scn["cfg"]["workers"]
        if any(b[s] != w for s in ("pre", "arch", "post")):
            ctx.violation("routine gauges while %d workers per stage were running (%s): %s" % (w, scn["stop"]["when"], b), rp)
        elif any(a[s] != 0 for s in ("pre", "arch", "post")):
            ctx.violation("routine gauges after the stop (%s, %d workers per stage): %s" % (scn["stop"]["when"], w, a), rp)


def start_stop_gauges(ctx, n):
    """a stage started and stopped at once (the stop request arrives while some of its worker goroutines have not run yet): once Stop()
    has returned no worker is alive, so the routine gauge is 0"""
    r = ctx.rng
    for k in range(n):
        op = {"op": "startstop", "stage": ["pre", "post"][k % 2], "workers": r.choice([32, 128, 512]), "afterUs": r.choice([0, 0, 5, 50, 500])}
        rc, out, err = core.run_impl("stats", [json.dumps(op)], timeout=120)
        ctx.case("startstop" + json.dumps(op), True)
        ctx.count("start-stop-runs")
        if not out or not out[0].startswith("gauge="):
            ctx.violation("a stage started and stopped at once: %s" % ((out[0] if out else err[-300:])[:300]), {"domain": "stats-startstop", "op": op}); continue
        if out[0] != "gauge=0":
            ctx.violation("the %sprocessor was started with %d workers and stopped at once; Stop() returned (no worker alive) but its routine gauge reads %s" % (
                op["stage"], op["workers"], out[0].split("=")[1]), {"domain": "stats-startstop", "op": op})


def run(ctx):
    r = ctx.rng
    start_stop_gauges(ctx, 40 if ctx.thorough() else 6)
    pipeline_gauges(ctx, 24 if ctx.thorough() else 4)
    n = 120 if ctx.thorough() else 12
    bursts = [gen_burst(r, r.choice([4, 8, 16]), r.choice([200, 1000, 3000])) for _ in range(n)]
    bursts.insert(0, [["u", "s", "h:200", "m:7", "g+:pre"], ["u", "h:200", "g+:pre", "g-:pre", "ur", "ug"]])
    bursts += [fresh_key_burst(r, 8, 1500)]
    bursts += [big_sample_burst(r, 8, 400) for _ in range(3 if ctx.thorough() else 1)]
    run_bursts(ctx, bursts)
    run_bursts(ctx, [fresh_key_burst(r, 8, 12000) for _ in range(8 if ctx.thorough() else 3)], impl_only=True)
    if ctx.thorough():
        ok, msg = core.build_harness(race=True)
        if ok:
            run_bursts(ctx, [gen_burst(r, 8, 500) for _ in range(10)], race=True)
            ctx.count("race-detector-bursts", 10)
    ctx.sample({"goroutines": [cs[:10] for cs in bursts[1][:3]], "note": "first 10 calls of 3 goroutines"})
    ctx.assumptions += ["sync/atomic operations are atomic and sequentially consistent; the mutex of rateBucket gives mutual exclusion",
                        "prometheus side effects are outside the model (disabled in the harness)",
                        "mean.reset / counter.reset overlapping an add can tear (two stores): resets are excluded from the mean/gauge "
                        "theorems (no production caller); rate.reset never touches the total"]


def replay(ctx, doc):
    rp = doc.get("replay", doc)
    if rp.get("domain") == "stats-startstop":
        rc, out, err = core.run_impl("stats", [json.dumps(rp["op"])], timeout=120)
        if not out or out[0] != "gauge=0":
            ctx.violation("replay: %s" % (out[0] if out else err[-200:]), rp)
        return
    if "goroutines" in rp:
        run_bursts(ctx, [rp["goroutines"]])
    elif "scenario" in rp:
        from . import e2e
        rep, err = e2e.run_one(rp["scenario"], timeout=90)
        a = rep.get("gaugesAfterStop") or {}
        if any(v != 0 for v in a.values()):
            ctx.violation("replay: gauges after the stop: %s" % a, rp)
