"""Shared machinery of the /verif checks: toolchain, facts regeneration, Lean build + audit,
harness build, paired execution of implementation and model, evidence, violations."""
import fcntl, glob, hashlib, json, os, re, subprocess, sys, time, contextlib, random, shutil, tempfile

VERIF = os.path.dirname(os.path.dirname(os.path.abspath(__file__)))
REPO = os.environ.get("VERIF_REPO", "/repo")
BUILD = os.path.join(VERIF, "build")
LEAN = os.path.join(VERIF, "lean")
ALLOWED_AXIOMS = {"propext", "Classical.choice", "Quot.sound"}
FORBIDDEN = re.compile(r"\b(sorry|admit|native_decide|bv_decide|implemented_by|maxHeartbeats 0)\b|^\s*axiom |\bunsafe ")

os.makedirs(BUILD, exist_ok=True)


def log(*a):
    print(*a, file=sys.stderr, flush=True)


# ---------------------------------------------------------------- toolchain

def go_bin():
    """The Go toolchain /repo's go.mod asks for, called directly (works under any GOSUMDB)."""
    ver = None
    try:
        for line in open(os.path.join(REPO, "go.mod")):
            m = re.match(r"^(?:go|toolchain)\s+(?:go)?(\d+\.\d+(?:\.\d+)?)", line.strip())
            if m:
                ver = m.group(1)
                if line.startswith("toolchain"):
                    break
    except OSError:
        pass
    cands = []
    modcache = os.environ.get("GOMODCACHE") or os.path.expanduser("~/go/pkg/mod")
    if ver:
        cands.append(os.path.join(modcache, "golang.org", "toolchain@v0.0.1-go%s.linux-amd64" % ver, "bin", "go"))
    for c in cands:
        if os.path.exists(c):
            return c
    return shutil.which("go") or "go"


def go_env():
    e = dict(os.environ)
    e.update({"GOFLAGS": "-mod=mod", "GOPROXY": "off", "GOTOOLCHAIN": "local", "CGO_ENABLED": "1"})
    e.pop("GOSUMDB", None)
    return e


@contextlib.contextmanager
def locked(name):
    path = os.path.join(BUILD, "." + name + ".lock")
    with open(path, "w") as f:
        fcntl.flock(f, fcntl.LOCK_EX)
        try:
            yield
        finally:
            fcntl.flock(f, fcntl.LOCK_UN)


def run(cmd, cwd=None, env=None, inp=None, timeout=None):
    p = subprocess.run(cmd, cwd=cwd, env=env, input=inp, capture_output=True, text=True, timeout=timeout)
    return p.returncode, p.stdout, p.stderr


# ---------------------------------------------------------------- facts

def build_facts_tool():
    with locked("facts"):
        rc, out, err = run([go_bin(), "build", "-o", os.path.join(BUILD, "facts"), "."],
                           cwd=os.path.join(VERIF, "tools", "facts"), env=go_env())
    if rc != 0:
        raise RuntimeError("facts tool does not build:\n" + err)


def gen_facts():
    """Regenerate lean/Zeno/Gen/*.lean and build/facts.json from /repo's working tree."""
    build_facts_tool()
    with locked("facts"):
        rc, out, err = run([os.path.join(BUILD, "facts"), "--repo", REPO, "--out", os.path.join(LEAN, "Zeno", "Gen"),
                            "--ns", "Gen", "--json", os.path.join(BUILD, "facts.json")])
    if rc != 0:
        raise RuntimeError("facts extraction failed:\n" + err)
    facts = json.load(open(os.path.join(BUILD, "facts.json")))
    return facts


def base_facts():
    p = os.path.join(VERIF, "base_facts.json")
    return json.load(open(p)) if os.path.exists(p) else {}


def facts_diff(facts, sections):
    """Which extracted facts differ from the pinned baseline (sections = list of section names)."""
    base = base_facts()
    diff = {}
    for s in sections:
        a, b = base.get(s, {}), facts.get(s, {})
        for k in sorted(set(a) | set(b)):
            if a.get(k) != b.get(k):
                diff["%s.%s" % (s, k)] = {"baseline": a.get(k), "now": b.get(k)}
    return diff


# ---------------------------------------------------------------- Lean

def lake(args, timeout=3000):
    with locked("lake"):
        return run(["lake"] + args, cwd=LEAN, timeout=timeout)


def lean_sources_clean():
    """No sorry/admit/axiom/native_decide/... anywhere in the Lean sources (comments excluded)."""
    bad = []
    for path in glob.glob(os.path.join(LEAN, "**", "*.lean"), recursive=True):
        if "/.lake/" in path:
            continue
        txt = open(path).read()
        txt = re.sub(r"/-.*?-/", lambda m: "\n" * m.group(0).count("\n"), txt, flags=re.S)
        for i, line in enumerate(txt.split("\n"), 1):
            code = line.split("--")[0]
            if FORBIDDEN.search(code):
                bad.append("%s:%d: %s" % (os.path.relpath(path, VERIF), i, line.strip()))
    return bad


def theorem_names(prop):
    txt = open(os.path.join(LEAN, "Zeno", "Props", prop + ".lean")).read()
    return re.findall(r"^theorem\s+([A-Za-z0-9_']+)", txt, flags=re.M)


def prove(prop, extra_targets=()):
    """Build the property module and audit every theorem in it.

    Returns dict(ok, obligations, discharged, theorems={name: status}, errors=[...], axioms={...}).
    A theorem is discharged when Lean accepted it and `#print axioms` lists only allowed axioms."""
    names = theorem_names(prop)
    res = {"obligations": len(names), "discharged": 0, "theorems": {}, "errors": [], "axioms": {}}
    bad = lean_sources_clean()
    if bad:
        res["errors"] += ["forbidden construct: " + b for b in bad]
    rc, out, err = lake(["build", "Zeno.Props." + prop, "zdriver"] + list(extra_targets))
    res["build_ok"] = rc == 0
    if rc != 0:
        # keep the error lines; make sure everything the property file imports is built so that
        # the per-theorem audit below can still run on the file itself
        res["errors"] += [l for l in (out + err).split("\n") if l.startswith("error")][:40]
        txt = open(os.path.join(LEAN, "Zeno", "Props", prop + ".lean")).read()
        imports = re.findall(r"^import\s+(\S+)", txt, flags=re.M)
        rc2, out2, err2 = lake(["build"] + imports)
        if rc2 != 0:
            res["errors"] += ["imports of Props/%s do not build" % prop] + \
                [l for l in (out2 + err2).split("\n") if l.startswith("error")][:40]
    # audit file = the property file + #print axioms for every theorem
    txt = open(os.path.join(LEAN, "Zeno", "Props", prop + ".lean")).read()
    ns = re.search(r"^namespace\s+(\S+)", txt, flags=re.M)
    audit = txt + "\n" + "".join("#print axioms %s.%s\n" % (ns.group(1), n) for n in names)
    apath = os.path.join(BUILD, "audit_%s.lean" % prop)
    open(apath, "w").write(audit)
    with locked("lake"):
        rc, out, err = run(["lake", "env", "lean", apath], cwd=LEAN, timeout=3000)
    text = out + err
    for n in names:
        full = ns.group(1) + "." + n
        m = re.search(r"'%s' depends on axioms: \[([^\]]*)\]" % re.escape(full), text, flags=re.S)
        if m:
            ax = [a.strip() for a in m.group(1).replace("\n", " ").split(",") if a.strip()]
            res["axioms"][n] = ax
            if set(ax) <= ALLOWED_AXIOMS:
                res["theorems"][n] = "proved"
            else:
                res["theorems"][n] = "rejected: axioms " + ",".join(sorted(set(ax) - ALLOWED_AXIOMS))
        elif re.search(r"'%s' does not depend on any axioms" % re.escape(full), text):
            res["axioms"][n] = []
            res["theorems"][n] = "proved"
        else:
            res["theorems"][n] = "not checked (declaration failed)"
    res["discharged"] = sum(1 for v in res["theorems"].values() if v == "proved")
    if bad:
        res["discharged"] = 0
    res["ok"] = res["build_ok"] and not bad and res["discharged"] == res["obligations"] and res["obligations"] > 0
    if not res["ok"] and not res["errors"]:
        res["errors"] = [l for l in text.split("\n") if "error" in l][:40]
    res["checker_cmd"] = "cd /verif/lean && lake build Zeno.Props.%s && lake env lean ../build/audit_%s.lean  (# print axioms per theorem)" % (prop, prop)
    return res


def leanchecker(prop):
    with locked("lake"):
        rc, out, err = run(["lake", "env", "leanchecker", "Zeno.Props." + prop], cwd=LEAN, timeout=3000)
    return rc == 0, (out + err)[-2000:]


# ---------------------------------------------------------------- harness

def write_overlay():
    """overlay.json: every file under harness/main → /repo/internal/verifharness/, every file under
    harness/shims/<name>/ → the package directory named in harness/shims/<name>/TARGET (or a
    default table). Add-only: a target path that already exists in /repo is refused."""
    table = json.load(open(os.path.join(VERIF, "harness", "shims", "targets.json")))
    rep = {}
    for f in sorted(glob.glob(os.path.join(VERIF, "harness", "main", "*.go"))):
        rep[os.path.join(REPO, "internal", "verifharness", os.path.basename(f))] = f
    for name, target in table.items():
        for f in sorted(glob.glob(os.path.join(VERIF, "harness", "shims", name, "*.go"))):
            rep[os.path.join(REPO, target, os.path.basename(f))] = f
    for dst in rep:
        if os.path.exists(dst):
            raise RuntimeError("overlay would replace an existing file: " + dst)
    p = os.path.join(BUILD, "overlay.json")
    open(p, "w").write(json.dumps({"Replace": rep}, indent=1))
    return p


def build_harness(race=False):
    """Rebuild the harness from /repo's working tree + overlay. Returns (ok, message)."""
    ov = write_overlay()
    out = os.path.join(BUILD, "hbin_race" if race else "hbin")
    # the harness imports modules that are only indirect dependencies of /repo (gobwas/ws): build against a copy of
    # go.mod / go.sum so that -mod=mod never rewrites /repo's own files
    import shutil
    modf = os.path.join(BUILD, "harness.mod")
    shutil.copyfile(os.path.join(REPO, "go.mod"), modf)
    shutil.copyfile(os.path.join(REPO, "go.sum"), os.path.join(BUILD, "harness.sum"))
    cmd = [go_bin(), "build", "-modfile=" + modf, "-tags", "verif", "-overlay", ov, "-o", out]
    if race:
        cmd.append("-race")
    cmd.append("./internal/verifharness")
    with locked("gobuild"):
        rc, so, se = run(cmd, cwd=REPO, env=go_env(), timeout=1800)
    return rc == 0, (so + se)[-4000:]


def run_impl(domain, lines, args=(), timeout=600, race=False, env=None, cwd=None):
    exe = os.path.join(BUILD, "hbin_race" if race else "hbin")
    e = dict(os.environ)
    if env:
        e.update(env)
    p = subprocess.run([exe, domain] + list(args), input="\n".join(lines) + "\n", capture_output=True, text=True,
                       timeout=timeout, env=e, cwd=cwd)
    out = p.stdout.split("\n")
    if out and out[-1] == "":
        out.pop()
    return p.returncode, out, p.stderr


class Interactive:
    """Line-at-a-time conversation with the harness (the generator can look at the real state)."""
    def __init__(self, domain, args=(), race=False, env=None, cwd=None):
        exe = os.path.join(BUILD, "hbin_race" if race else "hbin")
        e = dict(os.environ)
        if env:
            e.update(env)
        self.p = subprocess.Popen([exe, domain] + list(args), stdin=subprocess.PIPE, stdout=subprocess.PIPE,
                                  stderr=subprocess.DEVNULL, text=True, bufsize=1, env=e, cwd=cwd)
        self.lines, self.outs = [], []

    def send(self, obj):
        line = obj if isinstance(obj, str) else json.dumps(obj)
        self.p.stdin.write(line + "\n")
        self.p.stdin.flush()
        out = self.p.stdout.readline()
        if out == "":
            raise RuntimeError("harness died on: " + line[:300])
        out = out.rstrip("\n")
        self.lines.append(line)
        self.outs.append(out)
        return out

    def close(self):
        try:
            self.p.stdin.close()
            self.p.wait(timeout=20)
        except Exception:
            self.p.kill()


def run_model(domain, lines, base=False, timeout=600):
    exe = os.path.join(LEAN, ".lake", "build", "bin", "zdriver")
    p = subprocess.run([exe, domain] + (["--base"] if base else []), input="\n".join(lines) + "\n",
                       capture_output=True, text=True, timeout=timeout)
    out = p.stdout.split("\n")
    if out and out[-1] == "":
        out.pop()
    return p.returncode, out, p.stderr


# ---------------------------------------------------------------- results

class Ctx:
    def __init__(self, prop, tier, seed):
        self.prop, self.tier, self.seed = prop, tier, seed
        self.rng = random.Random(seed)
        self.t0 = time.time()
        self.violations = []      # (what, replay-dict, found_input: bool)
        self.known = []           # KNOWN-FINDING lines
        self.cov = {"evaluations": 0, "distinct_nontrivial": 0, "samples": [], "histogram": {}}
        self.assumptions = []
        self.notes = []
        self._distinct = set()

    def thorough(self):
        return self.tier == "thorough"

    def known_finding(self, fid, what, replay):
        """A violation instance that matches a listed known finding is reported as KNOWN-FINDING (once per finding); anything else is a violation."""
        for f in known_findings().get("findings", []):
            if f.get("id") == fid and f.get("property") == self.prop:
                line = "%s %s" % (fid, f.get("what", what))
                if line not in self.known:
                    self.known.append(line)
                self.count("known-finding:" + fid)
                return
        self.violation(what, replay)

    def count(self, key, n=1):
        h = self.cov["histogram"]
        h[key] = h.get(key, 0) + n

    def case(self, canon, nontrivial):
        """Register one evaluated case; `canon` identifies it, `nontrivial` by the property's rule."""
        self.cov["evaluations"] += 1
        if nontrivial:
            k = hashlib.sha1(canon.encode()).digest()[:10]
            if k not in self._distinct:
                self._distinct.add(k)
                self.cov["distinct_nontrivial"] += 1

    def sample(self, s, limit=6):
        if len(self.cov["samples"]) < limit:
            self.cov["samples"].append(s)

    def violation(self, what, replay, found_input=True):
        if len(what) > 700:
            what = what[:700] + " …"
        self.violations.append((what, replay, found_input))

    def disagree(self, inp, impl, model, extra=None):
        if not hasattr(self, "disagreements"):
            self.disagreements = []
        d = {"input": inp, "impl": impl, "model": model}
        if extra:
            d.update(extra)
        self.disagreements.append(d)

    def pair(self, domain, lines, base=False, impl_args=(), timeout=900, partial=False):
        """Run implementation and model on the same lines; returns (impl_out, model_out).
        partial=True: when the implementation side dies half-way, return what it answered (plus the reason in self.harness_death) so that
        the caller can judge the cases that completed before it reports the crash."""
        rc1, o1, e1 = run_impl(domain, lines, args=impl_args, timeout=timeout)
        rc2, o2, e2 = run_model(domain, lines, base=base, timeout=timeout)
        self.harness_death = None
        if partial and (rc1 != 0 or len(o1) != len(lines)) and rc2 == 0 and len(o2) == len(lines):
            self.harness_death = "harness %s: exit %s after %d of %d lines\n%s" % (domain, rc1, len(o1), len(lines), e1[-1500:])
            return o1, o2
        if rc1 != 0 or len(o1) != len(lines):
            raise RuntimeError("harness %s: exit %s, %d/%d lines\n%s" % (domain, rc1, len(o1), len(lines), e1[-2000:]))
        if rc2 != 0 or len(o2) != len(lines):
            raise RuntimeError("driver %s: exit %s, %d/%d lines\n%s" % (domain, rc2, len(o2), len(lines), e2[-2000:]))
        return o1, o2


def known_findings():
    p = os.path.join(VERIF, "known_findings.json")
    if not os.path.exists(p):
        return {"findings": [], "fixed": []}
    return json.load(open(p))


def write_evidence(ctx, level, proof, extra_cov=None, rule="", explanation=None):
    cov = dict(ctx.cov)
    cov["rule"] = rule
    if proof is not None:
        cov["obligations"] = proof["obligations"]
        cov["discharged"] = proof["discharged"]
        cov["checker_cmd"] = proof["checker_cmd"]
        cov["theorems"] = proof["theorems"]
        cov["axioms"] = proof["axioms"]
        if proof.get("errors"):
            cov["proof_errors"] = proof["errors"][:20]
    cov["trusted_base"] = [
        "Lean 4.33.0 kernel; axioms allowed: propext, Classical.choice, Quot.sound (audited per theorem above)",
        "the statements in /verif/lean/Zeno/Props/%s.lean and the executable model they are about" % ctx.prop,
        "the fact extractor /verif/tools/facts (what it reads is listed in DESIGN.md Appendix B)",
        "the correspondence harness (/verif/harness, /verif/lean/Driver, /verif/vlib): generators bound what it sees",
    ]
    if explanation:
        cov["explanation"] = explanation
    if extra_cov:
        cov.update(extra_cov)
    if not cov["samples"]:
        cov["samples"] = ["(no case generated in this run)"]
    ev = {
        "property_id": ctx.prop, "tier": ctx.tier, "seed": ctx.seed, "level": level, "coverage": cov,
        "assumptions": ctx.assumptions, "wall_s": round(time.time() - ctx.t0, 2),
        "violations": len(ctx.violations),
    }
    if ctx.known:
        ev["known_findings"] = ctx.known
    if ctx.notes:
        ev["notes"] = ctx.notes
    os.makedirs(os.path.join(VERIF, "evidence"), exist_ok=True)
    p = os.path.join(VERIF, "evidence", ctx.prop + ".json")
    tmp = p + ".tmp%d" % os.getpid()
    open(tmp, "w").write(json.dumps(ev, indent=1, default=str) + "\n")
    os.replace(tmp, p)


def finish(ctx):
    """Print KNOWN-FINDING / VIOLATION lines, write replays, return the exit status."""
    for k in ctx.known:
        print("KNOWN-FINDING: property=%s %s" % (ctx.prop, k), flush=True)
    if not ctx.violations:
        print("OK property=%s tier=%s seed=%d evaluations=%d wall=%.1fs" %
              (ctx.prop, ctx.tier, ctx.seed, ctx.cov["evaluations"], time.time() - ctx.t0), flush=True)
        return 0
    os.makedirs(os.path.join(VERIF, "replays"), exist_ok=True)
    # prefer a violation with a concrete failing input
    ctx.violations.sort(key=lambda v: 0 if v[2] else 1)
    what, replay, found = ctx.violations[0]
    path = os.path.join(VERIF, "replays", "%s-%d.json" % (ctx.prop, ctx.seed))
    doc = {"property": ctx.prop, "what": what, "replay": replay, "failing_input_found": found,
           "all": [{"what": w, "replay": r, "failing_input_found": f} for (w, r, f) in ctx.violations[:20]]}
    open(path, "w").write(json.dumps(doc, indent=1, default=str) + "\n")
    for (w, r, f) in ctx.violations[:10]:
        log("  violation:", w)
    print("VIOLATION property=%s replay=%s%s" % (ctx.prop, path, "" if found else " no-failing-input-found"), flush=True)
    return 1


def frac(x):
    from fractions import Fraction
    f = Fraction(x)
    return "%d/%d" % (f.numerator, f.denominator)
