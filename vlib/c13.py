"""C13 — per-host politeness: bounded request rate and honoured back-off penalties."""
import json, os
from fractions import Fraction
from . import core

SECTIONS = ["RateLimiter", "RateProg", "Archiver"]
LEVEL = "proof"
RULE = ("event sequences (<= 60 events: acquire attempt / failure(status) / success) with boundary-rich dyadic timings against the real "
        "tokenBucket under an injected clock, capacities 1..10, configured rates 1/10..10 (also below 0.5/s), long failure streaks (up to "
        "70 consecutive 429s); plus access sequences against the real BucketManager table. A sequence is non-trivial when it contains a "
        "release, a refusal and at least one failure event; distinct by event list")
PEN = {429, 403, 408, 425}
TOL = 1e-9


def gen_seq(r, streak=False):
    cap = r.choice([1, 1, 2, 3, 5, 10])
    rate = r.choice([Fraction(1, 10), Fraction(1, 4), Fraction(1, 2), Fraction(1), Fraction(3), Fraction(10), Fraction(3, 10)])
    t = Fraction(r.choice([0, 0, 5, 1000]))
    ops = [{"op": "new", "cap": str(cap), "rate": str(rate), "t": str(t)}]
    n = r.randrange(5, 60)
    if streak:
        k = r.randrange(28, 70)
        for _ in range(k):
            t += r.choice([0, Fraction(1, 64), 1])
            ops.append({"op": "fail", "t": str(t), "code": r.choice([429, 429, 403, 503])})
        n = 12
    for _ in range(n):
        t += r.choice([0, 0, Fraction(1, 64), Fraction(1, 8), Fraction(1, 2), 1, 1, 2, 5, 10, 30, 31, Fraction(1, 10)])
        k = r.random()
        if k < 0.6:
            ops.append({"op": "try", "t": str(t)})
        elif k < 0.7:
            ops.append({"op": "fail", "t": str(t), "code": r.choice(sorted(PEN))})
        elif k < 0.8:
            ops.append({"op": "fail", "t": str(t), "code": r.choice([500, 502, 503, 599])})
        elif k < 0.85:
            ops.append({"op": "fail", "t": str(t), "code": r.choice([200, 404, 499, 301])})
        else:
            ops.append({"op": "ok", "t": str(t)})
    return ops


def gen_idle_burst(r):
    """some tokens taken, a long idle period (the bucket is full again long before its end), then a burst of attempts at one instant"""
    cap = r.choice([1, 2, 3, 5, 10])
    rate = r.choice([Fraction(1, 10), Fraction(1, 2), Fraction(1), Fraction(3)])
    t = Fraction(r.choice([0, 1000]))
    ops = [{"op": "new", "cap": str(cap), "rate": str(rate), "t": str(t)}]
    for _ in range(r.randrange(0, cap + 1)):
        ops.append({"op": "try", "t": str(t)})
    t += r.choice([60, 600, Fraction(cap) / rate + 1])
    for _ in range(2 * cap + r.randrange(1, 6)):
        ops.append({"op": "try", "t": str(t)})
        if r.random() < 0.1:
            t += Fraction(1, 64)
    return ops


def parse(line):
    parts = line.split(" ")
    d = {"decision": parts[0]}
    for p in parts[1:]:
        k, v = p.split("=")
        d[k] = v
    return d


def oracle(ctx, ops, impl):
    """the property's own claims evaluated on the implementation's answers"""
    cap = Fraction(ops[0]["cap"]); ideal = Fraction(ops[0]["rate"])
    floor = min(Fraction(1, 2), ideal)
    releases = []           # times of releases
    no_release_before = None
    prev_rate = float(ideal)
    for i, (op, a) in enumerate(zip(ops[1:], impl[1:]), 1):
        st = parse(a)
        t = Fraction(op["t"])
        tok, rate, fails = float(st["tokens"]), float(st["rate"]), int(st["fails"])
        bad = None
        if tok < -TOL or tok > float(cap) + TOL:
            bad = "token count %r outside [0, %s]" % (tok, cap)
        elif rate > float(ideal) * (1 + TOL) or rate < float(floor) * (1 - TOL):
            bad = "refill rate %r outside [min(0.5, configured), configured] = [%s, %s]" % (rate, floor, ideal)
        if st["decision"] == "release":
            releases.append(t)
            if no_release_before is not None and t < no_release_before[0]:
                bad = "request released at t=%s although a penalty set at t=%s (failure #%d) lasts until %s" % (
                    t, no_release_before[1], no_release_before[2], no_release_before[0])
        if op["op"] == "fail":
            if op["code"] in PEN:
                pen = min(Fraction(5) * 2 ** (fails - 1), Fraction(30))
                until = t + pen
                if no_release_before is None or until > no_release_before[0]:
                    no_release_before = (until, t, fails)
            elif op["code"] >= 500 and rate > prev_rate * (1 + TOL):
                bad = "a %d response raised the refill rate from %r to %r" % (op["code"], prev_rate, rate)
        if op["op"] == "ok" and (rate < prev_rate * (1 - TOL)):
            bad = "a success lowered the refill rate from %r to %r" % (prev_rate, rate)
        prev_rate = rate
        if bad:
            ctx.violation(bad, {"domain": "rl", "ops": ops[:i + 1], "impl": impl[:i + 1]})
            return
    # sliding windows over release times: any window [a, a+T] holds at most cap + T*ideal releases
    for i in range(len(releases)):
        for j in range(i, len(releases)):
            T = releases[j] - releases[i]
            cnt = j - i + 1
            if cnt > cap + T * ideal + Fraction(1, 10 ** 6):
                ctx.violation("%d releases within a window of %s s: more than capacity %s + T x rate %s" % (cnt, T, cap, ideal),
                              {"domain": "rl", "ops": ops, "impl": impl})
                return


def close(a, b, rel=1e-9, ab=1e-9):
    return abs(a - b) <= ab + rel * max(abs(a), abs(b))


def compare(ctx, ops, impl, model):
    for i, (op, a, b) in enumerate(zip(ops, impl, model)):
        if a == b:
            continue
        if i == 0:
            ctx.disagree({"ops": ops[:1]}, a, b); return
        x, y = parse(a), parse(b)
        ytok = Fraction(y["tokens"])
        if x["decision"] != y["decision"]:
            if abs(float(ytok) + (1 if y["decision"] == "release" else 0) - 1) < 1e-6:
                ctx.count("skipped:float-boundary-decision")
                return          # float64 vs exact rational at the `tokens >= 1` boundary: not comparable further
            ctx.disagree({"ops": ops[:i + 1]}, a, b); return
        ok = (close(float(x["tokens"]), float(ytok)) and close(float(x["rate"]), float(Fraction(y["rate"]))) and
              abs(int(x["pen"]) - float(Fraction(y["pen"]) * 10 ** 9)) <= 2 and
              abs(int(x["last"]) - float(Fraction(y["last"]) * 10 ** 9)) <= 2 and x["fails"] == y["fails"])
        if not ok:
            ctx.disagree({"ops": ops[:i + 1]}, a, b); return


def run_seqs(ctx, seqs, real=False):
    """real=True: every acquire attempt goes through the real Wait() (on a copy of the bucket under the frozen clock) instead of the
    harness's own refill-then-take; slower (a refused attempt costs a few ms), so used for fewer sequences"""
    lines, idx = [], []
    for ops in seqs:
        lines += [json.dumps(dict(o, op="tryreal") if (real and o["op"] == "try") else o) for o in ops]
        idx.append(len(lines))
    impl, model = ctx.pair("rl", lines)
    pos = 0
    for ops, end in zip(seqs, idx):
        a, b = impl[pos:end], model[pos:end]
        pos = end
        kinds = {x.split(" ")[0] for x in a[1:]}
        nontrivial = "release" in kinds and "wait" in kinds and any(o["op"] == "fail" for o in ops)
        ctx.case(json.dumps(ops), nontrivial)
        for x in a[1:]:
            ctx.count("impl:" + x.split(" ")[0])
        oracle(ctx, ops, a)
        compare(ctx, ops, a, b)


def table(ctx, n):
    r = ctx.rng
    lines = []
    for _ in range(n):
        mx = r.choice([0, 1, 2, 3, 5])
        lines.append(json.dumps({"op": "mgr", "max": mx}))
        hosts = ["h%d" % i for i in range(r.choice([2, 4, 8]))]
        for _ in range(r.randrange(3, 40)):
            k = r.random()
            # a request waits on its host's bucket, and later reports its outcome for that host (the bucket may have been evicted meanwhile)
            lines.append(json.dumps({"op": "get", "host": r.choice(hosts)} if k < 0.6 else
                                    {"op": "mfail", "host": r.choice(hosts), "code": r.choice([503, 429, 500])} if k < 0.8 else
                                    {"op": "msucc", "host": r.choice(hosts)}))
        if mx >= 2:
            # the host in flight is the one least used: every other host was asked twice, then one more host arrives and evicts it, then it answers
            lines.append(json.dumps({"op": "mgr", "max": mx}))
            for i in range(mx - 1):
                lines += [json.dumps({"op": "get", "host": "busy%d" % i})] * 2
            lines.append(json.dumps({"op": "get", "host": "slow"}))
            lines.append(json.dumps({"op": "get", "host": "newcomer"}))
            lines.append(json.dumps({"op": r.choice(["mfail", "msucc"]), "host": "slow", "code": 503}))
            lines.append(json.dumps({"op": "get", "host": "another"}))
        lines.append(json.dumps({"op": "hosts"}))
    impl, model = ctx.pair("rl", lines)
    mx = 0
    cur = []
    for l, a, b in zip(lines, impl, model):
        o = json.loads(l)
        cur.append(o)
        if o["op"] == "mgr":
            mx = o["max"]
            cur = [o]
            ctx.case("tbl" + l, True)
        elif o["op"] in ("get", "mfail", "msucc"):
            size = int(a.split("=")[1])
            ctx.count("table-accesses")
            if size > max(mx, 1):
                ctx.violation("limiter table holds %d buckets, bound is %d, after %s" % (size, max(mx, 1), [(x["op"], x.get("host")) for x in cur[-6:]]),
                              {"domain": "rl-table", "ops": list(cur)})
            if a != b:
                ctx.disagree(o, a, b)
        # "hosts": which bucket the LFU eviction picks among equal minima depends on Go's map order: sizes only


def replay_table(ctx, rp):
    rc, impl, err = core.run_impl("rl", [json.dumps(o) for o in rp["ops"]], timeout=120)
    mx = max(rp["ops"][0].get("max", 1), 1)
    for o, a in zip(rp["ops"], impl):
        if o["op"] in ("get", "mfail", "msucc") and int(a.split("=")[1]) > mx:
            ctx.violation("replay: limiter table holds %s buckets, bound is %d" % (a.split("=")[1], mx), rp)
            return


def firstcontact(ctx, n):
    """many goroutines contacting a brand-new host at once must share one bucket"""
    lines = [json.dumps({"op": "firstcontact", "hosts": 30, "workers": ctx.rng.choice([4, 8, 16])}) for _ in range(n)]
    rc, out, err = core.run_impl("rl", lines, timeout=600)
    for l, a in zip(lines, out):
        ctx.case("fc" + l + str(ctx.rng.random()), True)
        ctx.count("first-contact:" + a.split(" ")[0])
        if not a.startswith("ok"):
            ctx.violation("concurrent first contacts of a new host released more than its capacity at once: " + a,
                          {"domain": "rl", "firstcontact": json.loads(l), "impl": a})


def waitreal(ctx, n):
    """a few sequences through the real blocking Wait() (virtual clock advanced in 50 ms steps)"""
    r = ctx.rng
    for _ in range(n):
        cap = r.choice([1, 2]); rate = r.choice([Fraction(1, 2), Fraction(2), Fraction(10)])
        ops = [{"op": "new", "cap": str(cap), "rate": str(rate), "t": "0"}]
        for _ in range(cap):
            ops.append({"op": "try", "t": "0"})
        ops.append({"op": "waitreal", "t": "0"})
        rc, out, err = core.run_impl("rl", [json.dumps(o) for o in ops], timeout=300)
        ctx.case("waitreal" + json.dumps(ops), True)
        ctx.count("real-Wait-calls")
        last = out[-1]
        if not last.startswith("returned-at="):
            ctx.violation("Wait() did not return: " + last, {"domain": "rl", "ops": ops}); continue
        t = Fraction(int(last.split("=")[1]), 10 ** 9)
        if t < 1 / rate - Fraction(1, 1000):
            ctx.violation("Wait() released after %s s, before a token could exist (1/rate = %s)" % (t, 1 / rate), {"domain": "rl", "ops": ops})
        if t > 1 / rate + Fraction(3, 10):
            ctx.violation("Wait() released only after %s s (1/rate = %s)" % (t, 1 / rate), {"domain": "rl", "ops": ops})


def corpus(ctx):
    d = os.path.join(core.VERIF, "corpus", "C13")
    out = []
    for f in sorted(os.listdir(d)) if os.path.isdir(d) else []:
        for l in open(os.path.join(d, f)):
            if l.strip():
                out.append(json.loads(l))
    return out


def crawl_politeness(ctx, n):
    """whole crawls with the limiter on: a host (host:port, as every origin here) answers 429 / 503 to some assets; judged on the origin's
    own log: after a 429 / 403 / 408 / 425 no request reaches that host for the penalty (5 s for the first failure), and the host never
    sees more than capacity + T x rate requests in any window - whatever bucket key the crawler uses internally"""
    from . import e2e
    r = ctx.rng
    scns = []
    for k in range(n):
        cap, rate = r.choice([(2, 2), (3, 1)])
        assets = ["/h%d/a%d.png" % (k, i) for i in range(5)]
        site = {a: {"ctype": "image/png", "body": {"kind": "png", "size": 50, "seed": i}} for i, a in enumerate(assets)}
        site[assets[1]] = {"status": r.choice([429, 408, 425]), "ctype": "text/plain", "body": {"kind": "text", "size": 10, "seed": 1}}
        site["/h%d/" % k] = {"ctype": "text/html", "body": {"kind": "html", "assets": assets, "outlinks": []}}
        scns.append({"useHQ": True, "seeds": ["/h%d/" % k], "site": site, "stop": {"when": "drain", "timeoutMs": 60000},
                     "cfg": {"workers": 1, "maxConcurrentAssets": 1, "maxRetry": 0, "httpTimeout": 5, "hqBatchSize": 1, "disableRateLimit": False,
                             "rateLimitCapacity": cap, "rateLimitRefillRate": rate}})
    results = e2e.run_many(scns, timeout=120, workers=6)
    for scn, (rep, err) in zip(scns, results):
        rp = {"domain": "e2e", "scenario": scn}
        ctx.count("politeness-crawls")
        ctx.case("crawl" + json.dumps(scn["site"], sort_keys=True)[:300], True)
        if not rep.get("drained"):
            ctx.violation("a crawl with the rate limiter on did not finish: %s" % err[-300:], rp); continue
        reqs = sorted(rep.get("requests") or [], key=lambda q: q["t"])
        cap, rate = scn["cfg"]["rateLimitCapacity"], scn["cfg"]["rateLimitRefillRate"]
        for i, q in enumerate(reqs):
            if q.get("status") in PEN:
                answered = q.get("done") or q["t"]
                later = [x for x in reqs[i + 1:]]
                if later and (later[0]["t"] - answered) / 1e9 < 5 - 0.25:
                    ctx.violation("the host answered %d to %s; the next request to that host (%s) arrived %.2f s later, the penalty is 5 s" % (
                        q["status"], q["key"], later[0]["key"], (later[0]["t"] - answered) / 1e9), dict(rp, url=q["key"]))
                    break
        else:
            ts = [q["t"] / 1e9 for q in reqs]
            for i in range(len(ts)):
                for j in range(i + 1, len(ts)):
                    T = ts[j] - ts[i]
                    if j - i + 1 > cap + T * rate + 1 + 1e-6:     # + 1: the window is closed on both sides
                        ctx.violation("%d requests reached the host within %.3f s (capacity %d, rate %s/s)" % (j - i + 1, T, cap, rate), rp)
                        break
                else:
                    continue
                break


def run(ctx):
    n = 20000 if ctx.thorough() else 600
    crawl_politeness(ctx, 12 if ctx.thorough() else 2)
    cp = corpus(ctx)
    seqs = cp + [gen_seq(ctx.rng) for _ in range(n)] + [gen_seq(ctx.rng, streak=True) for _ in range(n // 10)] + [gen_idle_burst(ctx.rng) for _ in range(n // 10)]
    run_seqs(ctx, seqs)
    rs = [gen_idle_burst(ctx.rng) for _ in range(60 if ctx.thorough() else 8)] + [gen_seq(ctx.rng) for _ in range(200 if ctx.thorough() else 12)]
    run_seqs(ctx, rs, real=True)
    ctx.count("sequences-through-the-real-Wait", len(rs))
    table(ctx, 2000 if ctx.thorough() else 100)
    waitreal(ctx, 40 if ctx.thorough() else 2)
    firstcontact(ctx, 20 if ctx.thorough() else 2)
    ctx.sample(seqs[len(cp)][:12])
    ctx.assumptions += ["float64 arithmetic of the bucket vs exact rationals in the model: decisions compared exactly except within 1e-6 of "
                        "the `tokens >= 1` boundary (counted), numbers with relative tolerance 1e-9",
                        "time is non-decreasing; the mutex makes each method atomic (concurrent waiters interleave whole methods)"]


def replay(ctx, doc):
    if doc.get("replay", doc).get("domain") == "rl-table":
        return replay_table(ctx, doc.get("replay", doc))
    rp = doc.get("replay", doc)
    if "firstcontact" in rp:
        firstcontact(ctx, 3)
    if "ops" in rp:
        run_seqs(ctx, [rp["ops"]])
