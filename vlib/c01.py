"""C01 — each accepted seed is finished exactly once, only after its whole tree is done."""
import json, os, re
from . import core, e2e

SECTIONS = ["Pipeline", "Item", "Reactor", "Stages"]
LEVEL = "proof"
RULE = ("(i) batches of 1..12 seeds with random consistent trees (depth <= 3, redirect chains, failed / seen / completed leaves) pushed "
        "concurrently through the real reactor and the real finisher workers (1..8 goroutines), going round as many passes as their "
        "scripted status updates prescribe; exits (acknowledged / produced / fed back / still tracked) compared with the model and judged "
        "by an oracle written from the property text; (ii) whole crawls (the real pipeline, controler.Start .. Stop) against a scripted "
        "origin with a fake crawl HQ as the queue: sites with shared / duplicate / invalid / excluded assets, redirect chains, 404 / 503 / "
        "connection resets, retry-then-fail, JSON assets of assets, x workers 1..4 x asset concurrency 1..4: each seed must be acknowledged "
        "exactly once, after the last request of its tree, and every URL of its tree must have been requested. Non-trivial: a seed with "
        ">= 2 passes (stage level) or >= 3 URLs in its tree (end to end); distinct by input")
PENDING = ("Fresh", "PreProcessed", "Archived")
TERMINAL = ["Completed", "Failed", "Seen", "Completed"]


def gen_tree(r, sid):
    """returns (spec, list of pending leaf ids)"""
    n = [0]
    pend = []

    def node(depth, is_seed):
        n[0] += 1
        nid = sid if is_seed else "%s.%d" % (sid, n[0])
        key = "%s/%d" % (sid, n[0])
        if depth >= 3 or r.random() < (0.35 if not is_seed else 0.15):
            st = r.choice(["Fresh", "Fresh", "Completed", "Failed", "Seen"]) if not is_seed else r.choice(["Fresh", "Completed", "Failed", "Completed"])
            if st == "Fresh" and not is_seed:
                pend.append(nid)
            return [nid, key, st, False, []]
        if r.random() < 0.3:
            if r.random() < 0.25:
                return [nid, key, "GotRedirected", False, []]      # the redirect target was dropped by the preprocessor (excluded / invalid / duplicate)
            kid = node(depth + 1, False)
            return [nid, key, "GotRedirected", False, [kid]]
        kids = [node(depth + 1, False) for _ in range(r.randrange(1, 4))]
        return [nid, key, "GotChildren", False, kids]
    return node(0, True), pend


def gen_seed(r, sid):
    spec, pend = gen_tree(r, sid)
    updates = []
    left = list(pend)
    r.shuffle(left)
    complete = r.random() < 0.85
    while left:
        k = r.randrange(1, len(left) + 1)
        if not complete and k == len(left):
            break
        updates.append({nid: r.choice(TERMINAL) for nid in left[:k]})
        left = left[k:]
    if not pend and r.random() < 0.3:
        updates.append({})
    return {"tree": spec, "updates": updates}, bool(left)


def statuses(dump):
    return re.findall(r"\|([A-Za-z]+)\[", dump)


def stage_level(ctx, n):
    r = ctx.rng
    lines, meta = [], []
    for b in range(n):
        w = r.choice([1, 2, 4, 8])
        seeds, leftover = [], {}
        for k in range(r.randrange(1, 13)):
            sid = "b%ds%d" % (b, k)
            s, left = gen_seed(r, sid)
            seeds.append(s)
            leftover[sid] = left
        held = sum(1 for v in leftover.values() if v)
        # a stop request (reactor.Freeze) while seeds are on their way: before any reaches the finisher, or - one seed alone - at a later pass
        freeze = None
        if r.random() < 0.25:
            if r.random() < 0.5:
                freeze = 0
            else:
                seeds = seeds[:1]
                freeze = r.randrange(0, len(seeds[0]["updates"]) + 1)
            for s in seeds:
                nup = len(s["updates"])
                # with the reactor frozen at pass k a seed that is not complete at that pass stays tracked and unfinished
                leftover[s["tree"][0]] = "frozen"
        # seeds the scenario leaves unfinished keep their token: give the reactor enough of them for the others to get in
        lines.append(json.dumps({"op": "start", "workers": w, "tokens": len(seeds) + r.choice([0, 1, w])}))     # token starvation is C12's subject: every seed of the batch gets in
        meta.append(None)
        op = {"op": "seeds", "seeds": seeds, "waitMs": 400 if (held or freeze is not None) else 4000}
        if freeze is not None:
            op["freezeAtPass"] = freeze
        lines.append(json.dumps(op))
        meta.append((seeds, leftover))
    lines.append(json.dumps({"op": "close"})); meta.append(None)
    impl, model = ctx.pair("pipeline", lines, timeout=1800)
    for l, m, a, b in zip(lines, meta, impl, model):
        if m is None:
            if a != b:
                ctx.disagree(json.loads(l), a, b)
            continue
        seeds, leftover = m
        rows = {x.split(" ")[0]: x for x in a.split(" ; ")}
        for s in seeds:
            sid = s["tree"][0]
            row = rows.get(sid, "")
            f = dict(p.split("=") for p in row.split(" ")[1:5]) if row else {}
            ctx.case(json.dumps(s), len(s["updates"]) >= 1)
            ctx.count("exit:" + ("ack" if f.get("acks") == "1" else "produced" if f.get("produced") == "1" else "held"))
            fz = json.loads(l).get("freezeAtPass")
            rp = {"domain": "pipeline", "ops": [{"op": "start", "workers": 2, "tokens": 4}, dict({"op": "seeds", "seeds": [s]}, **({"freezeAtPass": fz} if fz is not None else {}))]}
            if not row:
                raise RuntimeError("pipeline harness: no row for %s in %r" % (sid, a[:300]))
            acks, produced, tracked = int(f["acks"]), int(f["produced"]), f["tracked"] == "true"
            st = statuses(row.split(" ", 5)[5])
            if acks + produced > 1:
                ctx.violation("seed %s was reported back to the queue %d times" % (sid, acks + produced), rp)
            elif acks == 1 and any(x in PENDING for x in st):
                ctx.violation("seed %s was acknowledged as finished while nodes of its tree are still pending: %s" % (sid, row), rp)
            elif acks + produced == 0 and not tracked:
                ctx.violation("seed %s was dropped: neither reported back nor tracked by the reactor" % sid, rp)
            elif acks + produced == 1 and tracked:
                ctx.violation("seed %s was reported back but is still tracked by the reactor" % sid, rp)
            elif acks + produced == 0 and leftover[sid] is False:
                ctx.violation("seed %s has nothing pending any more but was never reported back: %s" % (sid, row), rp)
        if a != b:
            ctx.disagree({"ops": [{"op": "start", "workers": 2}, json.loads(l)]}, a[:600], b[:600])
    ctx.sample(json.loads(lines[1]))


# ---------------------------------------------------------------- end to end

def site_for_seed(r, k):
    """one seed's private part of the site: returns (pages, expected fetches, seed path)"""
    p = "/s%d" % k
    pages, expect = {}, set()
    assets, outlinks = [], []
    shape = r.choice(["plain", "assets", "assets", "redirect", "mixed", "json", "fail"])
    def add(path, **kw):
        pages[path] = kw
        expect.add(path)
    if shape == "plain":
        add(p + "/", ctype="text/html", body={"kind": "html", "assets": [], "outlinks": []})
    elif shape == "fail":
        add(p + "/", status=503, ctype="text/html")
    elif shape == "redirect":
        n = r.randrange(1, 4)
        add(p + "/", status=302, location=p + "/r1")
        for i in range(1, n):
            add(p + "/r%d" % i, status=r.choice([301, 302, 307]), location=p + "/r%d" % (i + 1))
        add(p + "/r%d" % n, ctype="text/html", body={"kind": "html", "assets": [p + "/img.png"], "outlinks": []})
        add(p + "/img.png", ctype="image/png", body={"kind": "png", "size": 400, "seed": k})
    else:
        n = r.randrange(1, 7)
        for i in range(n):
            a = p + "/a%d.png" % i
            kind = r.choice(["ok", "ok", "ok", "404", "503", "reset", "flaky", "redir", "dup", "invalid", "excluded", "trunc"])
            if kind == "ok":
                add(a, ctype="image/png", body={"kind": "png", "size": r.choice([10, 3000, 70000]), "seed": i + k})
            elif kind == "404":
                expect.add(a)
            elif kind == "503":
                add(a, status=503)
            elif kind == "reset":
                add(a, reset=True)
            elif kind == "trunc":
                # the headers arrive, the body dies half way: that URL fails, the rest of the tree goes on
                add(a, ctype="text/plain", body={"kind": "text", "size": 300000, "seed": i}, truncateAt=150000)
            elif kind == "flaky":
                add(a, ctype="image/png", body={"kind": "png", "size": 200, "seed": i}, attempts=[{"status": 503}, {}])
            elif kind == "redir":
                add(a, status=301, location=p + "/t%d.png" % i)
                add(p + "/t%d.png" % i, ctype="image/png", body={"kind": "png", "size": 99, "seed": i})
            elif kind == "dup":
                assets.append(a)
                add(a, ctype="image/png", body={"kind": "png", "size": 64, "seed": i})
            elif kind == "invalid":
                assets.append("http://[bad/x.png")
                continue
            elif kind == "excluded":
                assets.append("http://archive.org/never.png")
                continue
            assets.append(a)
        if shape == "json":
            add(p + "/data.json", ctype="application/json", body={"kind": "json", "urls": ["{BASE}" + p + "/n1.png", "{BASE}" + p + "/n2.bin"]})
            add(p + "/n1.png", ctype="image/png", body={"kind": "png", "size": 30, "seed": 5})
            expect.add(p + "/n2.bin")
            assets.append(p + "/data.json")
        add(p + "/", ctype="text/html", body={"kind": "html", "assets": assets, "outlinks": [p + "/out"]})
    return pages, expect, p + "/"


def gen_e2e(r):
    nseeds = r.randrange(1, 7)
    site, expect, seeds = {}, {}, []
    for k in range(nseeds):
        pg, ex, sp = site_for_seed(r, k)
        site.update(pg)
        expect["s%d" % k] = sorted(ex)
        seeds.append(sp)
    cfg = {"workers": r.choice([1, 2, 4]), "maxConcurrentAssets": r.choice([1, 2, 4]), "maxRetry": r.choice([0, 1]), "httpTimeout": 3,
           "hqBatchSize": r.choice([1, 2, 5])}
    return {"useHQ": True, "seeds": seeds, "site": site, "cfg": cfg, "stop": {"when": "drain", "timeoutMs": 40000}}, expect


def judge_e2e(ctx, scn, expect, rep, err):
    rp = {"domain": "e2e", "scenario": scn}
    if rep.get("harnessTimeout") or rep.get("died") or rep.get("harnessLine"):
        ctx.violation("the crawl did not complete: %s %s" % ({k: v for k, v in rep.items() if k != "requests"}, err[-300:]), rp); return
    if not rep.get("drained"):
        ctx.violation("the queue never drained: %d acks for %d seeds, feed left %s" % (len(rep.get("acks") or []), len(scn["seeds"]), rep.get("hqFeedLeft")), rp); return
    acks = {}
    for a in rep.get("acks") or []:
        acks.setdefault(a["id"], []).append(a)
    reqs = rep.get("requests") or []
    for k, sp in enumerate(scn["seeds"]):
        sid = "s%d" % k
        ctx.count("seeds")
        got = acks.get(sid, [])
        if len(got) != 1:
            ctx.violation("seed %s (%s) was acknowledged %d times" % (sid, sp, len(got)), rp); return
        mine = [q for q in reqs if q["key"].startswith("/s%d/" % k)]
        late = [q for q in mine if q["n"] >= got[0]["requestsBefore"]]
        if late:
            ctx.violation("seed %s was acknowledged as finished before %s of its tree was even requested" % (sid, late[0]["key"]), rp); return
        # the origin notes "answered" after its handler returned, which can be a moment after the client has read the whole response:
        # 200 ms of slack keep scheduling noise out
        unfinished = [q for q in mine if q["done"] == 0 or q["done"] > got[0]["t"] + 200_000_000]
        if unfinished:
            ctx.violation("seed %s was acknowledged while the request for %s was still being answered" % (sid, unfinished[0]["key"]), rp); return
        keys = {q["key"] for q in mine}
        missing = [u for u in expect[sid] if u not in keys]
        if missing:
            ctx.violation("seed %s was acknowledged but %s of its tree was never requested" % (sid, missing), rp); return
        ctx.case(json.dumps([scn["cfg"], sp, expect[sid]]), len(expect[sid]) >= 3)
    ctx.count("e2e-crawls")
    ctx.count("e2e-requests", len(reqs))


def end_to_end(ctx, n):
    scns = [gen_e2e(ctx.rng) for _ in range(n)]
    results = e2e.run_many([s for s, _ in scns], timeout=90, workers=8)
    for (scn, expect), (rep, err) in zip(scns, results):
        judge_e2e(ctx, scn, expect, rep, err)
    if scns:
        ctx.sample({"e2e": {"seeds": scns[0][0]["seeds"], "cfg": scns[0][0]["cfg"]}})


def lives(ctx, n):
    """whole lives of one seed through the real preprocess / ProcessBody / postprocess / CompleteAndCheck (scripted archive), replayed on the
    stage models of which `Model/Life.lean` is the composition; judged by the shape the theorems c01_seed_is_let_go,
    c01_pass_acknowledges_only_done_trees state: bounded passes, one level per pass, let go only with nothing pending"""
    from . import stage, c06
    r = ctx.rng
    h = core.Interactive("stage")
    run_ = stage.Run(ctx, h)
    try:
        for k in range(n):
            cfg = stage.gen_cfg(r)
            cfg["domainsCrawl"] = []
            site = c06.gen_site(r)
            seed = r.choice(c06.SEEDS)
            if k < 3:
                # an asset that redirects to a URL the operator excluded, next to siblings that still have work on the same level:
                # the rejected redirect target costs that one URL, the rest of the level is fetched and the seed ends only then
                filt = [dict(excludeHosts=list(stage.DEFAULT_EXCLUDED) + ["excluded.example"]), dict(excludeStrings=["/forbidden/"]),
                        dict(regexes=[r"/forbidden/"])][k]
                cfg = dict(dict(cfg, includeHosts=[], includeStrings=[], excludeHosts=list(stage.DEFAULT_EXCLUDED), excludeStrings=[], regexes=[],
                                disableAssets=False, maxRedirect=3), **filt)
                site.add("http://site.example/toex", status=302, location="http://excluded.example/forbidden/e.png")
                site.add("http://site.example/lifehub", assets=["/toex", "/api/data.json", "/img/a.png", "/red/1"], outlinks=[])
                seed = "http://site.example/lifehub"
            elif k in (3, 4):
                # requisites whose bodies the extractors reject (cut-off JSON / XML, a playlist without its header) next to good ones:
                # each costs that one URL, the seed still ends
                cfg = dict(cfg, includeHosts=[], includeStrings=[], excludeHosts=list(stage.DEFAULT_EXCLUDED), excludeStrings=[], regexes=[],
                           disableAssets=False, maxRedirect=3, maxHops=k - 3)
                site.add("http://site.example/bad.m3u8", ctype="application/vnd.apple.mpegurl", kind="raw", body="#EXTINF:4,\nseg0.ts\n#EXT-X-BOGUS\n\x00\x01")
                site.add("http://site.example/lifehub2", assets=["/api/data.json", "/api/cut.json", "/feed.xml", "/img/a.png", "/bad.m3u8", "/feedok.xml"], outlinks=["/page2"])
                seed = "http://site.example/lifehub2"
            act, tree, trace = stage.run_seed(run_, cfg, site, seed, seed_id="life%d" % k, max_passes=c06.budget(cfg),
                                              regex_match=stage.regex_matcher(cfg))
            rp = {"domain": "stage", "cfg": cfg, "seed": seed, "site": site.pages}
            ctx.count("lives")
            ctx.count("life-end:" + str(act))
            ctx.case(json.dumps([cfg, seed, sorted(site.pages["http://site.example/"]["assets"])]), trace["passes"] >= 3)
            if act == "cut":
                ctx.violation("the seed was still circulating after %d passes (--max-redirect %d)" % (trace["passes"], cfg["maxRedirect"]), rp)
            elif act not in ("finish", "panic", "unparsable"):
                ctx.violation("a seed's life ended with %r" % act, rp)
            elif act == "panic":
                ctx.violation("a stage panicked on the seed's tree: %s" % trace.get("crash", ""), rp)
            else:
                c06.check_life(ctx, cfg, act, tree, trace, rp)
    finally:
        h.send({"op": "close"}); h.close()
    stage.compare(ctx, run_, "C01 lives")


def stop_while_reporting(ctx, rounds):
    """a stop request reaches the real finisher while its workers report finished seeds to a slowly reading source (real reactor, real
    finisher goroutines): every accepted seed is reported once, or still tracked by the reactor, or still in a channel - never lost"""
    r = ctx.rng
    lines = [json.dumps({"op": "stopreport", "workers": r.choice([1, 2, 4]), "n": r.choice([6, 12, 24]), "readEveryMs": r.choice([20, 40, 80]),
                         "beforeStopMs": r.choice([30, 100, 200])}) for _ in range(rounds)]
    rc, out, err = core.run_impl("pipeline", lines, timeout=600)
    for l, o in zip(lines, out):
        ctx.case("stopreport" + l, "acked=0 " not in o)
        ctx.count("stop-while-reporting")
        rp = {"domain": "pipeline-impl", "ops": [json.loads(l)], "impl": o}
        if not o.startswith("accepted="):
            ctx.violation("stop while the finisher reports: %s" % o[:200], rp); continue
        f = dict(x.split("=", 1) for x in o.split(" "))
        if f.get("dropped"):
            ctx.violation("seed(s) %s were dropped when the stop request reached the finisher: neither reported as finished nor tracked by the reactor nor "
                          "left in a channel (%s)" % (f["dropped"], o), rp)
        elif f.get("twice"):
            ctx.violation("seed(s) %s were reported finished twice around a stop request (%s)" % (f["twice"], o), rp)
        elif f.get("stopHung") == "true":
            ctx.violation("finisher.Stop() did not return within 10 s although the source kept reading (%s)" % o, rp)
    if len(out) != len(lines):
        ctx.violation("the pipeline harness died during stop-while-reporting: %s" % err[-300:], {"domain": "pipeline-impl", "ops": [json.loads(x) for x in lines]})


def run(ctx):
    stop_while_reporting(ctx, 60 if ctx.thorough() else 8)
    stage_level(ctx, 400 if ctx.thorough() else 25)
    lives(ctx, 600 if ctx.thorough() else 30)
    end_to_end(ctx, 300 if ctx.thorough() else 10)
    ctx.assumptions += ["the three stages between reactor and finisher are played by the harness at stage level (any tree transformation is allowed "
                        "by the theorems); they run for real in the end-to-end crawls",
                        "Go channels hand each seed to exactly one receiver (the events of the model are atomic hand-overs)",
                        "liveness: every seed is let go after at most 4*max-redirect+4 passes (theorem c01_seed_is_let_go over the composed stage "
                        "models, domains-crawl off, node ids distinct); that workers eventually take the seed from their channels is Go's scheduler"]


def replay(ctx, doc):
    rp = doc.get("replay", doc)
    if rp.get("domain") == "e2e" and "scenario" in rp:
        rep, err = e2e.run_one(rp["scenario"], timeout=90)
        expect = {}
        ctx.count("replayed-e2e")
        acks = rep.get("acks") or []
        ids = [a["id"] for a in acks]
        if len(ids) != len(set(ids)) or len(set(ids)) != len(rp["scenario"]["seeds"]):
            ctx.violation("replay: acknowledgements %s for %d seeds" % (ids, len(rp["scenario"]["seeds"])), rp)
    elif rp.get("domain") == "pipeline-impl":
        rc, out, err = core.run_impl("pipeline", [json.dumps(o) for o in rp["ops"]], timeout=120)
        for o in out:
            f = dict(x.split("=", 1) for x in o.split(" ")) if o.startswith("accepted=") else {"dropped": o}
            if f.get("dropped") or f.get("twice") or f.get("stopHung") == "true":
                ctx.violation("replay: %s" % o, rp)
    elif "ops" in rp:
        lines = [json.dumps(o) for o in rp["ops"]] + [json.dumps({"op": "close"})]
        impl, model = ctx.pair("pipeline", lines)
        for a, b in zip(impl, model):
            if a != b:
                ctx.disagree(rp, a, b)
