"""C15 — outlinks and finish acks reach the queue intact, despite queue errors."""
import json, re, os, concurrent.futures
from . import core

SECTIONS = ["Queue", "Pipeline", "Item"]
LEVEL = "proof"
RULE = ("(i) hop counts 0..N through the real hopsToPath/pathToHops; (ii) operation sequences (add batches with duplicate values inside and "
        "across batches, claim, delete, reset, abandon + re-open) against the real local-queue client on a temporary job directory, rows "
        "compared with the model; (iii) the real crawl-HQ producer and finisher routines against a fake HQ that refuses the first requests "
        "as scripted (5xx, connection reset, timeout), size- and timer-triggered batches: what the HQ finally accepted must be exactly what "
        "was produced / finished, with value, via and hop path intact. Non-trivial: an LQ sequence that contains a duplicate value or a "
        "re-open; an HQ scenario with at least one refused request or a timer-triggered batch; distinct by input")


def lq_sequence(r, n):
    ops = [{"op": "lqopen", "new": True}]
    vals = ["http://x.example/%d" % i for i in range(8)]
    nid = 0
    ids = []
    for _ in range(n):
        k = r.random()
        if k < 0.35:
            urls = []
            for _ in range(r.randrange(1, 5)):
                nid += 1
                ident = "u%d" % nid if r.random() > 0.04 or not ids else r.choice(ids)
                urls.append([ident, r.choice(vals), r.choice(["", "http://via.example/"]), r.randrange(0, 4)])
                ids.append(ident)
            ops.append({"op": "lqadd", "urls": urls})
            if r.random() < 0.5:
                ops.append({"op": "lqrows"})
        elif k < 0.55:
            ops.append({"op": "lqget", "limit": r.randrange(1, 4)})
        elif k < 0.70 and ids:
            ops.append({"op": "lqdelete", "ids": [r.choice(ids) for _ in range(r.randrange(1, 3))]})
        elif k < 0.78 and ids:
            ops.append({"op": "lqreset", "id": r.choice(ids)})
        elif k < 0.88:
            ops.append({"op": "lqabandon"})
            ops.append({"op": "lqopen"})
        else:
            ops.append({"op": "lqrows"})
    ops.append({"op": "lqrows"})
    return ops


def lq_stream(ctx, nseq):
    seqs = [lq_sequence(ctx.rng, ctx.rng.randrange(5, 30)) for _ in range(nseq)]
    lines = []
    for s in seqs:
        lines += [json.dumps(o) for o in s]
    lines.append(json.dumps({"op": "lqclose"}))
    impl, model = ctx.pair("queue", lines, timeout=1800)
    pos = 0
    for s in seqs:
        a, b = impl[pos:pos + len(s)], model[pos:pos + len(s)]
        pos += len(s)
        nontriv = any(o["op"] == "lqabandon" for o in s) or len({u[1] for o in s if o["op"] == "lqadd" for u in o["urls"]}) < sum(len(o["urls"]) for o in s if o["op"] == "lqadd")
        ctx.case(json.dumps(s), nontriv)
        ctx.count("lq-ops", len(s))
        ref = {}       # id -> value: what the property says the queue holds (written from the property text, not from the model)
        first = {}     # value -> (id, via, hops) of the entry that is waiting in the queue: a later discovery of the same URL must not replace it
        out_now = set()   # values handed out and neither finished, reset nor given back by a restart
        used, judged, disagreed = set(), True, False
        for i, (o, x, y) in enumerate(zip(s, a, b)):
            if o["op"] == "lqadd":
                for ident, value, via, hops in o["urls"]:
                    if ident in used:
                        judged = False      # a re-used item id (ids are UUIDs in the crawler): outside the property, left to the model comparison
                    used.add(ident)
                    if value not in ref.values():
                        ref[ident] = value
                        first[value] = (ident, via, hops)
            elif o["op"] == "lqdelete":
                for ident in o["ids"]:
                    v = ref.pop(ident, None)
                    if v is not None:
                        out_now.discard(v); first.pop(v, None)
            elif o["op"] == "lqreset":
                out_now.discard(ref.get(o["id"]))
            elif o["op"] in ("lqabandon", "lqopen"):
                out_now.clear()
            if o["op"] == "lqget" and x.startswith("got ") and judged:
                stop = False
                for row in [q for q in x[4:].split(",") if q]:
                    ident, value, via, hops = (row.split("|") + ["", "", ""])[:4]
                    if value in out_now:
                        ctx.violation("the local queue handed out %s a second time although it was neither reset, finished nor the job restarted "
                                      "(queued twice)" % value, {"domain": "queue", "ops": s[:i + 1]})
                        stop = True; break
                    out_now.add(value)
                    if value in first and (ident, via, str(hops)) != (first[value][0], first[value][1], str(first[value][2])):
                        ctx.violation("the queue entry of %s came back as id=%s via=%r hops=%s, it was queued as id=%s via=%r hops=%s (a later "
                                      "discovery of the same URL replaced it)" % ((value, ident, via, hops) + first[value]), {"domain": "queue", "ops": s[:i + 1]})
                        stop = True; break
                if stop:
                    break
            if x.startswith("rows "):
                vals = [row.split("|")[1] for row in x[5:].split(",") if row]
                if judged and sorted(vals) != sorted(ref.values()) and len(vals) == len(set(vals)):
                    missing = sorted(set(ref.values()) - set(vals))
                    extra = sorted(set(vals) - set(ref.values()))
                    ctx.violation("the local queue does not hold what was handed to it: missing %s, unexpected %s" % (missing, extra),
                                  {"domain": "queue", "ops": s[:i + 1]})
                    break
                if len(vals) != len(set(vals)):
                    ctx.violation("the local queue holds a URL twice: %s" % sorted(vals), {"domain": "queue", "ops": s[:i + 1]})
                    break
            if x != y and not disagreed:
                # keep judging the implementation by the reference: a disagreement with the model is not by itself a violation
                ctx.disagree({"ops": s[:i + 1]}, x, y)
                disagreed = True
    ctx.sample(seqs[0][:8])


def hops_stream(ctx, n):
    lines = [json.dumps({"op": "hops", "h": h}) for h in range(n)] + [json.dumps({"op": "path", "p": p}) for p in ["", "L", "LLRL", "lL", "LLLLLLLLLL"]]
    impl, model = ctx.pair("queue", lines)
    for l, a, b in zip(lines, impl, model):
        j = json.loads(l)
        ctx.case("h" + l, True)
        if a != b:
            ctx.disagree(j, a, b)
        if j["op"] == "hops" and not a.endswith("back=%d" % j["h"]):
            ctx.violation("hop count %d does not survive the path encoding: %s" % (j["h"], a), {"domain": "queue", "line": j})
    ctx.count("hop-values", n)


def hq_scenarios(ctx, scen):
    """each scenario in its own harness process (the routines are process-wide); run in parallel"""
    def one(sc):
        rc, out, err = core.run_impl("queue", [json.dumps(dict(sc, op="hqscenario"))], timeout=120)
        return out[0] if out else "harness-error " + err[-300:]
    with concurrent.futures.ThreadPoolExecutor(max_workers=8) as ex:
        results = list(ex.map(one, scen))
    for sc, res in zip(scen, results):
        ctx.case("hq" + json.dumps(sc), bool(sc.get("failadd") or sc.get("faildel")) or len(sc["outlinks"]) % sc["batch"] != 0)
        ctx.count("hq-scenarios")
        try:
            got = json.loads(res)
        except Exception:
            ctx.violation("HQ scenario crashed: " + res[:300], {"domain": "queue", "scenario": sc}); continue
        got["adds"], got["dels"] = got.get("adds") or [], got.get("dels") or []      # Go marshals an empty list as null
        want_adds = sorted("%s|%s|%s" % (o[0], o[1], "L" * o[2]) for o in sc["outlinks"])
        want_dels = sorted(sc["finished"])
        if got["adds"] != want_adds:
            missing = [x for x in want_adds if x not in got["adds"]]
            ctx.violation("outlinks handed to the HQ differ from those produced: missing %s, got %d of %d (failures scripted: %s)" %
                          (missing[:3], len(got["adds"]), len(want_adds), sc.get("failadd")), {"domain": "queue", "scenario": sc, "got": got})
        if got["dels"] != want_dels:
            ctx.violation("finish acknowledgements differ: got %s want %s (failures scripted: %s)" % (got["dels"], want_dels, sc.get("faildel")),
                          {"domain": "queue", "scenario": sc, "got": got})
    ctx.sample({"hq_scenario": scen[0]})


def mk_scen(r, nfail, kinds, nout, nfin, batch=3, workers=2, wait=14):
    outs = [["http://o.example/%d?x=%d&y=%s" % (i, i, "é" * (i % 2)), "http://parent.example/p%d" % (i % 3), r.randrange(0, 4)] for i in range(nout)]
    return {"outlinks": outs, "finished": ["seed-%d" % i for i in range(nfin)], "batch": batch, "workers": workers, "wait": wait,
            "failadd": [r.choice(kinds) for _ in range(nfail)], "faildel": [r.choice(kinds) for _ in range(min(nfail, 1))]}


def finisher_acks(ctx, n):
    """seeds going round the real reactor + finisher workers: a seed that left the pipeline complete must have been acknowledged by its id"""
    from . import c01
    r = ctx.rng
    lines, meta = [], []
    for b in range(n):
        seeds = []
        for k in range(r.randrange(1, 8)):
            s, left = c01.gen_seed(r, "q%ds%d" % (b, k))
            if not left:
                seeds.append(s)
        if not seeds:
            continue
        lines += [json.dumps({"op": "start", "workers": r.choice([1, 2, 4]), "tokens": 8}), json.dumps({"op": "seeds", "seeds": seeds, "waitMs": 4000})]
        meta += [None, seeds]
    lines.append(json.dumps({"op": "close"})); meta.append(None)
    impl, model = ctx.pair("pipeline", lines, timeout=900)
    for l, m, a, b in zip(lines, meta, impl, model):
        if m is None:
            continue
        rows = {x.split(" ")[0]: x for x in a.split(" ; ")}
        for s in m:
            sid = s["tree"][0]
            row = rows.get(sid, "")
            f = dict(p.split("=") for p in row.split(" ")[1:5]) if row else {}
            ctx.case("fin" + json.dumps(s), len(s["updates"]) >= 1)
            ctx.count("finisher-seeds")
            fresh_leaf = s["tree"][2] == "Fresh"
            if not fresh_leaf and f.get("acks") != "1":
                ctx.violation("seed %s finished (%d passes, nothing pending, no longer tracked=%s) but %s acknowledgement(s) reached the queue" % (
                    sid, len(s["updates"]) + 1, f.get("tracked"), f.get("acks")), {"domain": "pipeline", "ops": [{"op": "start", "workers": 2, "tokens": 8}, {"op": "seeds", "seeds": [s]}]})
        if a != b:
            ctx.disagree({"ops": [{"op": "start", "workers": 2, "tokens": 8}, json.loads(l)]}, a[:500], b[:500])


def discovered(ctx, n):
    """what the postprocessor hands to the finisher for the queue: every outlink (from anchors, from the Link response header, from JSON / XML
    documents) carries the discovering page as via, that page's hops + 1 (0 when it matches --domains-crawl) and the resolved text"""
    from urllib.parse import urljoin
    from . import stage, c06
    r = ctx.rng
    h = core.Interactive("stage")
    run_ = stage.Run(ctx, h)
    try:
        for k in range(n):
            cfg = stage.gen_cfg(r)
            cfg["maxHops"] = r.choice([1, 2, 3]); cfg["domainsCrawl"] = r.choice([[], [], ["dc.example"]])
            site = c06.gen_site(r)
            seed = r.choice(["http://site.example/paged/1", "http://site.example/paged/2", "http://site.example/hub", "http://site.example/api/feed.json",
                             "http://site.example/", "http://site.example/feedok.xml"])
            hops = r.choice([0, 0, 1])
            if hops >= cfg["maxHops"]:
                hops = 0
            act, tree, trace = stage.run_seed(run_, cfg, site, seed, seed_id="o%d" % k, hops=hops, max_passes=6, dc_match=stage.dc_matcher(cfg),
                                              regex_match=stage.regex_matcher(cfg))
            rp = {"domain": "stage", "cfg": cfg, "seed": seed, "site": site.pages, "seed_hops": hops}
            dcm = stage.dc_matcher(cfg)
            pages = {}
            for t in trace["trees"]:
                for nd, d, par in stage.walk(t):
                    pages.setdefault(nd["canon"], nd)
            nouts = 0
            for outs in trace.get("outlinks", []):
                for o in outs:
                    nouts += 1
                    page = pages.get(o["via"])
                    if page is None:
                        ctx.violation("outlink %s carries via %r, which is no page of the seed" % (o["raw"], o["via"]), rp); break
                    want = 0 if (cfg["domainsCrawl"] and dcm(o["raw"])) else page["hops"] + 1
                    if o["hops"] != want:
                        ctx.violation("outlink %s discovered on %s (hops %d) is handed to the queue with hops %d, expected %d" % (
                            o["raw"], o["via"], page["hops"], o["hops"], want), dict(rp, url=o["raw"])); break
            # planted link-header and anchor targets of the seed page are all handed over
            pg = site.pages.get(seed, {})
            if act not in ("panic", "refused", "unparsable") and hops < cfg["maxHops"] and pg.get("status", 200) == 200:
                got = {o["raw"] for outs in trace.get("outlinks", []) for o in outs}
                planted = [urljoin(seed, x) for x in pg.get("outlinks", [])]
                planted += [urljoin(seed, m) for m in re.findall(r"<([^>]*)>", pg.get("link", "") or "")]
                seen = [q["canon"] for q in trace["requests"]]
                if seed in seen:
                    for u in planted:
                        if u not in got and u != seed:
                            ctx.count("planted-outlink-missing")
            ctx.case("disc" + json.dumps([cfg, seed, hops]), nouts >= 1)
            ctx.count("discovery-pages")
            ctx.count("discovered-outlinks", nouts)
    finally:
        h.send({"op": "close"}); h.close()
    stage.compare(ctx, run_, "C15 outlink discovery")


def run(ctx):
    r = ctx.rng
    discovered(ctx, 400 if ctx.thorough() else 40)
    finisher_acks(ctx, 200 if ctx.thorough() else 12)
    hops_stream(ctx, 3000 if ctx.thorough() else 300)
    lq_stream(ctx, 1500 if ctx.thorough() else 60)
    scen = [mk_scen(r, 0, ["500"], 7, 3), mk_scen(r, 2, ["500", "reset"], 6, 2), mk_scen(r, 1, ["timeout"], 3, 2),
            mk_scen(r, 3, ["500"], 4, 2, wait=30), mk_scen(r, 4, ["500", "reset"], 3, 3, batch=2, wait=40)]    # outages of 7 s and more
    if ctx.thorough():
        scen += [mk_scen(r, r.randrange(0, 4), ["500", "reset", "timeout"], r.randrange(1, 12), r.randrange(0, 5), batch=r.choice([1, 2, 3, 5]),
                         workers=r.choice([1, 2, 3]), wait=30) for _ in range(37)]
    hq_scenarios(ctx, scen)
    ctx.assumptions += ["SQLite transactions are atomic; the fake HQ speaks only the add / delete / seencheck endpoints",
                        "crawl-HQ delivery is at-least-once: a request that times out on the client but is processed by the server would be "
                        "sent again (the fake HQ's timeout mode answers late, the client has given up by then)"]


def replay(ctx, doc):
    rp = doc.get("replay", doc)
    if "scenario" in rp:
        hq_scenarios(ctx, [rp["scenario"]])
    elif rp.get("domain") == "pipeline":
        lines = [json.dumps(o) for o in rp["ops"]] + [json.dumps({"op": "close"})]
        impl, model = ctx.pair("pipeline", lines)
        for x, y in zip(impl, model):
            if x != y:
                ctx.disagree({"ops": rp["ops"]}, x, y); break
            if " acks=0 " in x and " tracked=false" in x and "produced=0" in x:
                ctx.violation("replay: a finished seed was not acknowledged: " + x[:200], rp)
    elif "ops" in rp:
        lines = [json.dumps(o) for o in rp["ops"]] + [json.dumps({"op": "lqclose"})]
        impl, model = ctx.pair("queue", lines)
        for x, y in zip(impl, model):
            if x != y:
                ctx.disagree({"ops": rp["ops"]}, x, y); break
