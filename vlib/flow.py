"""The standard flow of one check run (DESIGN.md §1.1)."""
import json, os, time, traceback
from . import core


def standard(ctx, mod, replay=None):
    level = getattr(mod, "LEVEL", "proof")
    proof = None
    broken = []          # names of proof obligations / correspondences that no longer check
    try:
        facts = core.gen_facts()
        sections = getattr(mod, "SECTIONS", [])
        missing = [m for m in facts.get("_missing", []) if m.split(".")[0] in sections]
        if missing:
            broken.append("facts not recognised in source: " + ", ".join(missing))
        diff = core.facts_diff(facts, sections)
        ctx.cov["facts_changed_vs_baseline"] = diff
        ctx.facts, ctx.facts_diff = facts, diff

        proof = core.prove(ctx.prop)
        if not proof["ok"]:
            bad = [n for n, s in proof["theorems"].items() if s != "proved"]
            broken.append("proof obligations not discharged: " + (", ".join(bad) or "build failed"))
        if ctx.thorough() and proof["ok"]:
            ok, msg = core.leanchecker(ctx.prop)
            ctx.cov["leanchecker"] = "ok" if ok else msg
            if not ok:
                broken.append("leanchecker rejected Zeno.Props." + ctx.prop)

        hok, hmsg = core.build_harness()
        ctx.harness_ok = hok
        if not hok:
            broken.append("harness does not build against the current tree (shim/API mismatch): " + hmsg[-600:])

        if replay:
            mod.replay(ctx, json.load(open(replay)))
        elif hok:
            mod.run(ctx)       # corpus + correspondence + the property's own oracle on the implementation
        for d in getattr(ctx, "disagreements", [])[:5]:
            broken.append("correspondence: model and implementation differ on " + json.dumps(d)[:400])
        ctx.cov["disagreements"] = len(getattr(ctx, "disagreements", []))
    except Exception as e:  # a crash of the machinery is reported as such, never as a pass
        traceback.print_exc()
        broken.append("check machinery error: %r" % (e,))

    found = any(f for (_, _, f) in ctx.violations)
    if broken and not found:
        ctx.violation("; ".join(broken)[:3000], {"broken": broken, "note": "no concrete failing input was found by the search"}, False)
    elif broken:
        ctx.notes += broken
    core.write_evidence(ctx, level, proof, rule=getattr(mod, "RULE", ""), explanation=getattr(mod, "EXPLANATION", None))
    return core.finish(ctx)
