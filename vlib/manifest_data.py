"""What MANIFEST.json says per property (tools/mkmanifest.py turns this into the file)."""
COMMON_NOTE = ("Trusted: Lean kernel (axioms propext, Classical.choice, Quot.sound only, audited per theorem), the "
               "statement files, the fact extractor, the correspondence harness and its generators. ")

CHECKS = {
 "C18": {
  "text": "Theorems for all (total, free, min-space) over Nat x Nat x Rat: refusal <-> free < threshold (threshold < 2^64), "
          "monotone in free, default/operator threshold formulas; the model is parameterised by constants, operators and the "
          "conversion extracted from disk.go on every run; the real checkThreshold is compared with the model and with an "
          "independent exact-rational oracle on boundary-focused triples. checkThreshold itself is translated statement by statement from the source on every run (tools/facts/sec_arith.go) and a theorem proves that the translated program computes exactly the model decision for every volume size, free space and setting; exactness and monotonicity are restated over the translated program.",
  "note": COMMON_NOTE + "Modelled not verified: float64 arithmetic of checkThreshold is taken as exact on the ranges used "
          "(argued in Model/Disk.lean, validated by the correspondence); uint64(x) for x >= 2^64 is excluded; statfs is not modelled.",
 },
 "C12": {
  "text": "Theorems over the sequential reactor model for every API history and token count: tokens in use = tracked seeds, no id "
          "tracked twice, tokens <= configured; rejected feedback / finish have no side effect; a frozen or stopped reactor accepts "
          "nothing; under the pipeline's client discipline no call ever blocks forever, every tracked seed is queued or held, a queued "
          "seed is delivered after position+1 receives. Facts (operation order inside the API functions, capacities, priority check, "
          "how feedback updates the table) are regenerated from reactor.go; API histories run against the real reactor (blocked calls "
          "detected by goroutine state) and are compared with the model; concurrent stress runs check the accounting. Added: the reactor "
          "under concurrent callers (Model/ReactorFine): each API call split into the operations read from the source, any number of "
          "calls interleaving between them; for every schedule tokens in use = tracked seeds + calls between their two operations, never "
          "above the configured number; the two forbidden operation orders are shown to break it.",
  "note": COMMON_NOTE + "Modelled not verified: Go channels/select/sync.Map (each operation atomic) and FIFO wake-up of parked senders; "
          "the interleaving theorem is about the operation sequences the extractor reads from the source; real schedules are only sampled "
          "by the stress runs.",
 },
 "C10": {
  "text": "PARTIAL by nature: what a third-party parser does on a given byte string is outside any model of Zeno. Proved (decision "
          "logic over regenerated facts): whatever the parsers called from the two extractor dispatchers do - return, error, panic - "
          "post-processing never takes the crawler down and costs at most that URL's links; a body that cannot be read fails the item, a "
          "URL that cannot be normalised is dropped. Tested, not proved: structure-aware and byte-level mutations of valid HTML / JSON / "
          "XML / sitemap / S3 / M3U8 / PDF / text bodies, type confusion, Location / Link / Content-Type values and URL strings go "
          "through the real ProcessBody, dispatch, redirect handling and normaliser under a watchdog; no panic may escape, nothing may spin.",
  "note": COMMON_NOTE + "Level is 'proof' for the containment logic only; absence of panics outside the recovered region, of hangs, of stack "
          "exhaustion and of memory blow-up is evidence from fuzzing (labelled as testing in the evidence file).",
 },
 "C11": {
  "text": "Theorems over the mutual Tree/Forest model for all trees: every operation the stages perform (status change of a childless "
          "node, AddChild, RemoveChild, DedupeItems, CompleteAndCheck) preserves everything CheckConsistency demands; DedupeItems "
          "leaves one node per URL and (for trees whose fresh nodes are leaves and whose processed nodes have distinct URLs) never "
          "discards a URL; CompleteAndCheck returns true iff no node is pending. Status sets, rule order and the dedupe preference "
          "are regenerated from item.go/item_dedupe.go; exhaustive small-scope (all shapes <= 4 nodes x 8^n statuses; thorough: 5 "
          "nodes sampled) and interactive pipeline-shaped sequences run against the real package and the model.",
  "note": COMMON_NOTE + "Modelled not verified: pointer structure as an inductive tree (parent/child symmetry by construction), unique "
          "ids, childrenMu locking; seedVia only as a flag.",
 },
 "C13": {
  "text": "Theorems over the token bucket in exact rationals, for every event sequence and timing: tokens in [0, cap], rate in "
          "[min(0.5, configured), configured]; over any window [a, a+T] at most cap + T x configured-rate releases (potential-function "
          "proof); after the n-th consecutive 429/403/408/425 no release before min(5*2^(n-1), 30) s have passed, for every n; 5xx only "
          "lowers and success only raises the rate; the LFU table never exceeds max(maxBuckets, 1). Constants, status classes, the "
          "floor and penalty expressions are regenerated from the package; event sequences run against the real tokenBucket under an "
          "injected clock (plus the real blocking Wait and the real BucketManager) and are compared with the model and with "
          "independent window/penalty/rate oracles. The methods themselves (refill, one Wait attempt, adjustOnFailure, onSuccess, "
          "newTokenBucket) are translated statement by statement from the source on every run into a small imperative language with "
          "a Lean semantics; theorems prove that the translated programs compute exactly the model functions for every bucket, time "
          "and status (so the bounds hold for the translated code) and that every field access happens under the mutex.",
  "note": COMMON_NOTE + "Modelled not verified: float64 arithmetic (the theorems are about exact rationals; decisions are compared "
          "exactly, numbers within 1e-9), non-decreasing time, method atomicity by the mutex, Go map iteration order in LFU eviction.",
 },
 "C16": {
  "text": "The logical parts as theorems: tokens in use = tracked seeds for every history of reactor calls (so nothing tracked means all "
          "tokens free); the limiter table never exceeds its bound; after postprocess no node down to the working depth holds a body; "
          "every accepted seed is in flight at most once. The runtime parts measured: stage-level passes must leave 0 open bodies; pairs "
          "of whole crawls of N and 4N seeds (spooled bodies, failures, redirects, several hosts, limiter on) must both rest with no "
          "tracked seed, no temporary file, the table within its bound, and equal goroutine / descriptor counts.",
  "note": COMMON_NOTE + "Goroutine, descriptor and temp-file counts are measured on the running process, not proved; heap growth is not compared.",
 },
 "C17": {
  "text": "The stats primitives are *translated* on every run into micro-op programs (atomic add/load/store/swap, anything else as "
          "separate non-atomic load and store); theorem: a cell written only by atomic adds ends at initial + all adds (mod 2^64) under "
          "every interleaving of any number of goroutines, and equals initial + executed adds at every intermediate point; instantiated "
          "on the translated programs: totals exact, counter = incr - decr, worker gauge = live workers (0 after stop), mean count/sum "
          "exact at quiescence; a non-atomic increment provably loses updates. Lock discipline of rateBucket, wiring of the exported "
          "entry points and the Incr/deferred-Decr pattern of the stage workers are extracted facts. Concurrent bursts against the real "
          "package are compared with the model and with the workload's own event counts (thorough: also under the race detector).",
  "note": COMMON_NOTE + "Modelled not verified: sync/atomic semantics, mutex exclusion, Go map safety under the mutex; the translator "
          "itself (tools/facts/sec_stats.go, ~200 lines). mean.reset/counter.reset overlapping an add are excluded (no production caller).",
 },
 "C14": {
  "text": "Transition-system model of the pause protocol at the granularity of single channel operations, for any number of workers "
          "and any history of Pause/Resume/stop calls from any controllers. Inductive invariant (7 clauses) proved for every action; "
          "theorems: at quiescence no call is pending, a worker waits only while paused, after stop every worker has exited (no "
          "deadlock); a paused state reaches every live worker; a finishing Resume leaves every live worker running with no stale "
          "signal; unmatched calls return at once. Negations proved for the shapes of the pinned tree (D4, D5). Facts: channel "
          "capacities, CAS directions, flag test + mutex in Resume, the acknowledgement shape in each of the four stage workers. "
          "All call orders up to 5 (thorough 7) x 0..3 workers plus random histories run against the real package with real goroutines. Workers may subscribe at any moment (model action `subscribe`, defect D27 repaired); busy workers, late subscribers and the four real stage pools in whole pause / resume crawls are exercised against the model and an oracle written from the property text.",
  "note": COMMON_NOTE + "Modelled not verified: Go channel/sync.Map/atomic semantics; subscribers register before the first pause; "
          "flag test and Range snapshot of Resume are one atomic step; the harness's subscriber goroutines copy the pause case of the "
          "stage workers (shape read from the source), the real workers run in C03's end-to-end scenarios. Termination of internal "
          "steps is proved too (Proofs/PauseTerm.lean: a measure every internal step decreases; c14_every_call_returns).",
 },
 "C09": {
  "text": "Byte-level theorems for all byte strings / pair lists: QueryUnescape(QueryEscape b) = b; parsing the re-encoded query "
          "returns exactly the pair list (order and multiplicity kept); canonicalising twice = once; the guard sequence admits only "
          "http/https with a dotted non-loopback host; a map-ordered encoder is provably not a function (D1). Facts: guard constants "
          "and order, hash clearing, quote trimming, whether encodeQuery ranges over a map. Grammar-generated and mutated URLs x "
          "parents go through the real NormalizeURL + String() seven times each (determinism), re-fed (idempotence), shape-checked by "
          "an independent oracle; raw queries and random byte strings are compared with the model. Added: the reference resolver of the "
          "URL standard as a Lean model (remove_dot_segments, merge, resolve) with theorems (no dot segment survives, what a relative "
          "reference inherits, query-only / empty / path-absolute forms, idempotence, the RFC 3986 examples) and a correspondence stream: "
          "the real normaliser against that model on generated (page, reference) pairs.",
  "note": COMMON_NOTE + "Modelled not verified: URL parsing and reference resolution (ada WHATWG parser, net/url, idna) are oracles whose "
          "outputs are only checked for shape/determinism/idempotence on the generated grammar; 'resolves as the URL standard prescribes' "
          "is therefore validated by sampling, not proved.",
 },
 "C15": {
  "text": "Theorems: hop count survives the path encoding for every n; for every sequence of arrivals / timer ticks / accepted and "
          "refused sends (any failures, any batch size) the batcher conserves items — arrived = delivered + in flight + being batched "
          "— and drains once failures stop; a give-up branch provably loses a batch; the local queue never holds a value twice through "
          "any sequence of adds, claims, deletes, resets, restarts. Facts: the L letter, the fields sent and read back, flush "
          "conditions, retry loops without give-up, notification after MarkAsFinished, via = parent canonical URL, the UNIQUE index "
          "and the constraint-error string. The real LQ client on a temp job dir and the real HQ producer/finisher routines against a "
          "fault-scripted fake HQ are compared with the model / the workload.",
  "note": COMMON_NOTE + "Modelled not verified: SQLite (atomic transactions, which constraint is reported first), gocrawlhq's HTTP client, "
          "Go timers; the batcher theorem is about the abstract receive/batch/dispatch/send pipeline whose shape the facts pin.",
 },
 "C04": {
  "text": "Theorems: after a restart every remaining queue row is FRESH whatever the table looked like at the stop or kill (nothing "
          "stranded) and no row is lost or duplicated; in every admissible event log and every prefix of it (a crash anywhere) a "
          "seed's row is deleted / the seed reported finished only after every exchange fetched for it was written; negation proved "
          "for the pinned shape (D9). Facts: SQL status literals, transaction boundaries of Get/Add/Delete, what Init and Stop reset, "
          "the position of the feedback wait before ItemArchived, notification after MarkAsFinished. Op sequences with kills anywhere "
          "run against the real LQ client on a temp job directory; thorough: end-to-end crawls killed / stopped and restarted. Added: "
          "the consumer loop as a model (every parsable URL handed out is inserted into the reactor whatever preceded it; the scope of "
          "its discard flag is a fact).",
  "note": COMMON_NOTE + "Modelled not verified: SQLite atomic commit across a kill; the WARC library's contract (records on disk before the "
          "feedback signal; a truncated tail does not damage earlier records) — validated end to end in the thorough tier only; kill "
          "points are event-driven, not instruction-level.",
 },
 "C01": {
  "text": "Theorems over a transition system of the pipeline (reactor queue, three stages, finisher; events = accept / hand-over with an "
          "arbitrarily transformed tree / finisher decision), for every event sequence, i.e. every interleaving and site behaviour: each "
          "id is in flight at most once; accepted = in flight + reported back (conservation: never dropped, never reported twice); when "
          "drained every accepted seed was reported exactly once; a seed is acknowledged only when no node of its tree is pending. Facts: "
          "stage wiring, each worker forwards every seed once, the finisher's three exits and the unconditional notification. The real "
          "reactor + finisher goroutines are run on random trees over several passes and compared with the model; whole crawls against a "
          "scripted origin with a fake crawl HQ are judged for exactly-once acknowledgement after the last request of the tree. "
          "Added: the stage models themselves composed into the life of one seed (Model/Life): for every oracle in every pass the "
          "finisher lets the seed go after at most 4*max-redirect+4 passes, only with nothing pending, and preprocess never panics "
          "(domains-crawl off, ids distinct) - no assumption on the trees handed on; the flow through the bounded channels and worker "
          "pools (Model/Flow, capacities as facts): in flight = tokens in use <= --workers, the finisher's feedback never blocks, no "
          "interleaving of receives and sends wedges the pipeline; whole lives run through the real stages and are judged for that shape.",
  "note": COMMON_NOTE + "Liveness (every seed eventually leaves the pipeline) is observed, not proved. Channel hand-over is assumed atomic. "
          "The model's stages transform trees arbitrarily, so stage bugs that corrupt a tree are C11/C05/C06's, not C01's.",
 },
 "C02": {
  "text": "Theorems over the log model of a job (written / archived / settled / notify / deleted, each with the guard the source gives "
          "it): in every admissible log with synchronous writing, and every prefix of it, a seed is reported finished only after every "
          "exchange fetched for it - successful, retried or given up - was written; the discard policy is exactly 'Cloudflare challenge "
          "or listed status'; challenge pages are retried. Whole crawls against a scripted origin with a fake crawl HQ that snapshots the "
          "WARC files at the moment of each acknowledgement: every record is read back member by member and compared (URL, status, "
          "length, SHA-1, revisit digest) with what the origin sent; discarded responses must be absent; decisions compared with the "
          "model's tables.",
  "note": COMMON_NOTE + "The WARC library (record format, gzip members, flushing before the feedback signal, DiscardHook) is modelled by its "
          "contract and validated by read-back, not verified.",
 },
 "C03": {
  "text": "The stop as decision logic over shapes of the source (archiver.Stop's client handling, cancel-then-wait, close-after-writers, the "
          "four stage workers' pause handshakes, stopPipeline's order, the seen-store guard in preprocess): theorem that for every point "
          "of the configuration matrix and every stop moment the run reaches the stop and the stop returns (no crash, no hang); the two "
          "old shapes are shown to crash. Whole crawls stopped at origin-chosen moments across the matrix (SOCKS5 proxy, async WARC, rate "
          "limiter, seencheck off, paused, requests held open): Stop must return in bounded time without panic and leave only finally "
          "named WARC files made of complete members. The stop model follows stopPipeline from the watchers (what each watcher goroutine does when its context is cancelled) through the stages to the source (a consumer waiting in ReceiveInsert is woken by Freeze).",
  "note": COMMON_NOTE + "Goroutine-level termination of each Stop() is observed (watchdog + goroutine dump), not proved; the model decides only "
          "which paths a configuration makes reachable. WARC finalisation is the library's contract, validated by read-back.",
 },
 "C19": {
  "text": "Theorems over models of the extractors on parsed documents: every string value of a JSON document reached by any path, and "
          "every URL of JSON embedded in a string, is discovered, and only URLs are; every discovered URL lands in exactly one class by "
          "the file-extension rule (fragment / query irrelevant); XML attribute values and text nodes; every segment, variant and "
          "alternative URI of a playlist; the marker walk queues exactly the non-empty objects and ends; the list-type=2 walk over a "
          "folder tree queues every non-empty object at any depth, also from pages that carry common prefixes (the old shape is shown "
          "to lose objects). Generated documents with planted URLs and buckets walked request by request against a reference S3 server "
          "go through the real body processing and extractor dispatch; JSON decisions and S3 pages are also compared with the model.",
  "note": COMMON_NOTE + "The parsers and the URL pattern are oracles; the S3 service is modelled by its documented contract.",
 },
 "C05": {
  "text": "Theorem over the stage model for every seed tree, configuration, normaliser and seen-store: each node preprocess attaches a "
          "request to (seed, redirect target or asset) was accepted by the URL normaliser and passes the include / exclude / regex "
          "filters with its normalised URL; the scope predicate's meaning is spelled out; archive.org / archive-it.org are excluded by "
          "default (fact); archive() fetches only PreProcessed nodes (fact). Facts: filter order and shapes, remove-vs-complete "
          "branches, dedupe/seencheck/request placement. Scripted sites x random filter combinations run through the real preprocess "
          "(real normaliser) / ProcessBody / postprocess / CompleteAndCheck; each step is replayed on the model and every built request "
          "is judged by an independent reference predicate. The include / exclude tests of preprocess() are translated from the source on every run into condition terms; a theorem proves, over all valuations of what they look at, that they reject exactly what the property calls out of scope, and that nothing in them is opaque to the translator.",
  "note": COMMON_NOTE + "Modelled not verified: the URL parser and the regex engine are oracles (the normaliser's own shape guarantees are "
          "C09's); archive() is replaced by scripted answers at this level and runs for real only in the end-to-end scenarios.",
 },
 "C07": {
  "text": "Theorems over a model of HTMLAssets / HTMLOutlinks on the parsed element list: src and every srcset candidate of every img, "
          "script src, video / audio src, source src / srcset, link href (rel=alternate only with --capture-alternate-pages), every "
          "url(...) of style elements (passed on as written) and of style attributes, anchors as outlinks - each unless its tag is "
          "disabled. Generated documents (quoting styles, reference forms, nesting, decoys) are fetched as seeds through the real stages; "
          "the URLs requests are built for are compared with urljoin's (browser) resolution, and the extractor's raw output with the "
          "model on the same element list.",
  "note": COMMON_NOTE + "The HTML parser and the two regular expressions' engine are oracles (the model re-implements the two patterns); "
          "resolution is the normaliser's (C09).",
 },
 "C08": {
  "text": "Theorems over the stage model for every store content, tree and node list: a node whose URL the local store holds is marked "
          "seen (except a seed / redirect target recorded only as an asset); a node is marked seen only if its URL was in the store when "
          "looked up; the store only grows and never downgrades a seed record; nodes marked seen get no request; for crawl HQ the value "
          "sent is the value compared, HQ answers exactly with unrecorded values, so a node is skipped iff HQ had recorded it; one node "
          "per URL after dedupe. Jobs of several seeds with overlapping URLs (assets, redirect targets, seeds; multi-parameter and oddly "
          "encoded queries) run through the real stages with the real LevelDB store or a recording fake HQ; each node reaching the check "
          "is judged by a reference set written from the property text and each step is replayed on the model.",
  "note": COMMON_NOTE + "LevelDB and crawl HQ are oracles (read-your-writes); FNV-64a collisions ignored. Concurrent checks of the same URL "
          "from different workers are not modelled (the property only asks that a record completed before a check started is honoured, "
          "which the sequential model covers).",
 },
 "C06": {
  "text": "Theorems over the stage model for every node, configuration and extractor result: a redirect is followed only below "
          "--max-redirect and its target carries one more redirect and the page's hops; beyond depth 2 (domains-crawl off) nothing is "
          "extracted; assets inherit hops, non-matching outlinks carry hops+1 and come only from pages below --max-hops, matching ones "
          "get 0; the redirect / hops bound is an invariant of postprocess over whole trees; the retry loop runs exactly max-retry+1 "
          "times (over the regenerated loop facts). Adversarial scripted sites (endless chains, loops, endless nested JSON) are pushed "
          "through the real stages until the seed finishes; each fetch, node and outlink is judged by an independent oracle and each "
          "step is replayed on the model. Added: 'every seed finishes after a bounded number of passes' as a theorem over the composed "
          "stage models (one pass either ends the seed's life or deepens its tree by exactly one level; no tree in start-of-pass shape is "
          "deeper than 4*max-redirect+3), judged on the real stages pass by pass. The if / else-if chain that completes an item without extraction and the two extraction guards are translated from the source on every run; theorems prove that they take the decisions of the model for every depth, hop count, hop limit and flag combination, and that nothing in them is opaque to the translator.",
  "note": COMMON_NOTE + "The depth limit is proved as an invariant of whole trees for postprocess and archive (every subtree with pending work is "
          "within three levels); preprocess and completion marking are covered by the stage-level runs. Termination of a whole seed (pass "
          "count) is checked on the implementation, not proved.",
 },
}

_todo = "check not built yet in this session (work in progress; see DESIGN.md §4 for the planned model and theorems)"
NOT_APPLICABLE = {p: _todo for p in ["C%02d" % i for i in range(1, 20)] if p not in CHECKS}
