"""C04 — a stopped or killed job resumes all unfinished seeds; finished implies captured."""
import json, os
from . import core

SECTIONS = ["Queue", "Archiver"]
LEVEL = "proof"
RULE = ("operation sequences against the real local-queue client on a temporary job directory — add batches, claim batches (one "
        "transaction), delete (finish acks), reset (graceful stop of tracked seeds), and at any point 'abandon' (the process dies: the client is "
        "dropped without clean-up) followed by re-opening the same job directory; after every re-open all remaining rows must be "
        "claimable again; plus whole crawls on the real local queue killed (SIGKILL) after a seeded delay or stopped gracefully after k "
        "requests, inspected on disk (queue rows, WARC records read member by member) and restarted on the same job directory until the "
        "queue drains. Non-trivial: a sequence with a kill while rows are claimed; distinct by op list")


def lq_crash_sequence(r, n):
    ops = [{"op": "lqopen", "new": True}]
    nid = 0
    for _ in range(n):
        k = r.random()
        if k < 0.30:
            urls = []
            for _ in range(r.randrange(1, 5)):
                nid += 1
                urls.append(["s%d" % nid, "http://site.example/%d" % nid, "", r.randrange(0, 3)])
            ops.append({"op": "lqadd", "urls": urls})
        elif k < 0.55:
            ops.append({"op": "lqget", "limit": r.randrange(1, 4)})
        elif k < 0.70 and nid:
            ops.append({"op": "lqdelete", "ids": ["s%d" % r.randrange(1, nid + 1)]})
        elif k < 0.78 and nid:
            ops.append({"op": "lqreset", "id": "s%d" % r.randrange(1, nid + 1)})
        else:
            # the process dies here (kill) or stops; the job is started again on the same directory
            ops.append({"op": "lqabandon"})
            ops.append({"op": "lqopen"})
            ops.append({"op": "lqrows"})
    ops += [{"op": "lqabandon"}, {"op": "lqopen"}, {"op": "lqrows"}, {"op": "lqget", "limit": 1000}]
    return ops


def oracle(ctx, ops, impl):
    """after a restart every row still in the queue is handed out again (none stranded as CLAIMED)"""
    for i, (o, a) in enumerate(zip(ops, impl)):
        if o["op"] == "lqrows" and i >= 1 and ops[i - 1]["op"] == "lqopen" and not ops[i - 1].get("new"):
            stranded = [row for row in a[5:].split(",") if row.endswith("|CLAIMED")]
            if stranded:
                ctx.violation("after re-opening the job %d URL(s) stay handed-out (CLAIMED) and will never be crawled again: %s" %
                              (len(stranded), stranded[:3]), {"domain": "queue", "ops": ops[:i + 1], "impl": impl[:i + 1]})
                return


def run_stream(ctx, seqs):
    lines = []
    for s in seqs:
        lines += [json.dumps(o) for o in s]
    lines.append(json.dumps({"op": "lqclose"}))
    impl, model = ctx.pair("queue", lines, timeout=1800)
    pos = 0
    for s in seqs:
        a, b = impl[pos:pos + len(s)], model[pos:pos + len(s)]
        pos += len(s)
        claimed_at_kill = False
        claimed = False
        for o, x in zip(s, a):
            if o["op"] == "lqget" and x != "got ":
                claimed = True
            if o["op"] == "lqabandon" and claimed:
                claimed_at_kill = True
        ctx.case(json.dumps(s), claimed_at_kill)
        ctx.count("lq-ops", len(s))
        oracle(ctx, s, a)
        for i, (x, y) in enumerate(zip(a, b)):
            if x != y:
                ctx.disagree({"ops": s[:i + 1]}, x, y)
                break


def corpus(ctx):
    d = os.path.join(core.VERIF, "corpus", "C04")
    out = []
    for f in sorted(x for x in os.listdir(d) if x.endswith('.jsonl')) if os.path.isdir(d) else []:
        for l in open(os.path.join(d, f)):
            if l.strip():
                out.append(json.loads(l))
    return out


def run(ctx):
    r = ctx.rng
    seqs = corpus(ctx) + [lq_crash_sequence(r, r.randrange(4, 40)) for _ in range(10000 if ctx.thorough() else 200)]
    run_stream(ctx, seqs)
    ctx.sample(seqs[len(corpus(ctx))][:10])
    # a seed acknowledged to the queue is deleted there for good: around a stop request (reactor frozen while the stages still hold seeds) the
    # real finisher must acknowledge only seeds whose whole tree is done - the others stay tracked and are handed back by the source
    from . import c01
    c01.stage_level(ctx, 120 if ctx.thorough() else 14)
    from . import e2e
    e2e.c04_scenarios(ctx)
    ctx.assumptions += ["SQLite commits atomically and survives a killed process; the WARC library appends whole records and signals the feedback "
                        "channel only after the record is on disk (validated end to end in the thorough tier, not proved)",
                        "kill points are chosen at observable events (k-th request, k-th row change), not at instruction level"]


def replay(ctx, doc):
    rp = doc.get("replay", doc)
    if rp.get("domain") == "pipeline":
        from . import c01
        return c01.replay(ctx, doc)
    if "ops" in rp:
        run_stream(ctx, [rp["ops"]])
