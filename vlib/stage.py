"""Stage-level scenario runner: drives the real preprocess / ProcessBody / postprocess / CompleteAndCheck
on one seed against a scripted site, records everything the model needs as oracles, and replays the
same steps on the Lean model. Used by C01, C05, C06, C08, C16, C19."""
import json, re
from . import core


def unhex(h):
    return bytes.fromhex(h).decode("utf-8", "replace")


def parse_dump(s):
    """id|rawhex|canonhex|Status|hops|redirects|req|body[kids]"""
    pos = [0]
    pat = re.compile(r"([^|\[\],]*)\|([0-9a-f]*)\|([0-9a-f]*)\|([A-Za-z]+)\|(\d+)\|(\d+)\|(\d)\|(\d)\[")

    def node():
        m = pat.match(s, pos[0])
        if not m:
            raise ValueError("bad dump at %d: %r" % (pos[0], s[pos[0]:pos[0] + 60]))
        pos[0] = m.end()
        kids = []
        while s[pos[0]] != "]":
            if s[pos[0]] == ",":
                pos[0] += 1
            kids.append(node())
        pos[0] += 1
        return {"id": m.group(1), "raw": unhex(m.group(2)), "canon": unhex(m.group(3)), "st": m.group(4), "hops": int(m.group(5)),
                "redirects": int(m.group(6)), "req": m.group(7) == "1", "body": m.group(8) == "1", "kids": kids}
    return node()


def walk(t, depth=0, parent=None):
    yield t, depth, parent
    for k in t["kids"]:
        yield from walk(k, depth + 1, t)


def max_depth(t):
    return max(d for _, d, _ in walk(t))


class Site:
    """url (canonical) -> answer; answers carry planted assets / outlinks so that oracles know the truth"""
    def __init__(self):
        self.pages = {}

    def add(self, url, status=200, ctype="text/html", assets=(), outlinks=(), location="", fail=False, body=None, kind="html", link=""):
        self.pages[url] = {"status": status, "ctype": ctype, "assets": list(assets), "outlinks": list(outlinks), "location": location,
                           "fail": fail, "body": body, "kind": kind, "link": link}

    def answer(self, url):
        p = self.pages.get(url)
        if p is None:
            # adversarial endless structures: /deep/<k>.json references /deep/<k+1>.json (and itself), /chain/<k> redirects to /chain/<k+1>
            m = re.match(r"^(https?://[^/]+)/deep/(\d+)\.json$", url)
            if m:
                k = int(m.group(2))
                return {"status": 200, "ctype": "application/json", "kind": "json", "assets": [], "outlinks": [],
                        "body": json.dumps({"next": "%s/deep/%d.json" % (m.group(1), k + 1), "self": url, "img": "%s/deep/i%d.png" % (m.group(1), k)})}
            m = re.match(r"^(https?://[^/]+)/chain/(\d+)$", url)
            if m:
                return {"status": 302, "ctype": "text/html", "kind": "html", "assets": [], "outlinks": [], "body": "",
                        "location": "/chain/%d" % (int(m.group(2)) + 1)}
            # endlessly nested documents where every nested reference first answers with a redirect
            m = re.match(r"^(https?://[^/]+)/rnest/(\d+)\.json$", url)
            if m:
                return {"status": 302, "ctype": "text/html", "kind": "html", "assets": [], "outlinks": [], "body": "",
                        "location": "/rdeep/%s.json" % m.group(2)}
            m = re.match(r"^(https?://[^/]+)/rdeep/(\d+)\.json$", url)
            if m:
                k = int(m.group(2))
                return {"status": 200, "ctype": "application/json", "kind": "json", "assets": [], "outlinks": [],
                        "body": json.dumps({"next": "%s/rnest/%d.json" % (m.group(1), k + 1), "img": "%s/rdeep/i%d.png" % (m.group(1), k)})}
        if p is None:
            return {"status": 404, "ctype": "text/html", "body": "<html><body>not found</body></html>", "assets": [], "outlinks": [], "kind": "html"}
        if p.get("body") is None:
            p = dict(p)
            if p["kind"] == "html":
                p["body"] = "<html><head><title>t</title></head><body>" + "".join('<img src="%s">' % a for a in p["assets"]) + \
                    "".join('<a href="%s">l</a>' % o for o in p["outlinks"]) + "</body></html>"
            elif p["kind"] == "json":
                p["body"] = json.dumps({"items": p["assets"] + p["outlinks"], "n": 1})
            else:
                p["body"] = "x" * 10
        return p


class Run:
    def __init__(self, ctx, h):
        self.ctx, self.h = ctx, h
        self.model_lines = []
        self.impl_outs = []
        self.requests = []        # canonical URLs for which a request object was built (would be fetched)
        self.fetches = {}         # canonical URL -> times "fetched"
        self.outlinks = []
        self.log = []

    def both(self, impl_op, model_op=None):
        out = self.h.send(impl_op)
        self.model_lines.append(json.dumps(model_op if model_op is not None else impl_op))
        self.impl_outs.append(out)
        self.log.append((impl_op, out))
        return out

    def impl_only(self, op):
        out = self.h.send(op)
        self.log.append((op, out))
        return out


def mime_html(ctype_sniffed):
    return "html" in ctype_sniffed


def run_seed(run, cfg, site, seed_url, seed_id="seed", hops=0, max_passes=12, dc_match=lambda raw: False, regex_match=lambda canon: False, keep_seen=False):
    """returns (final action, tree, trace) where trace lists per pass what happened"""
    h = run.h
    # the implementation derives the default excluded hosts itself (GenerateCrawlConfig); the model gets the effective list
    cfg_impl = dict(cfg, op="cfg", resetSeen=not keep_seen, excludeHosts=[h for h in cfg["excludeHosts"] if h not in DEFAULT_EXCLUDED])
    trace = {"passes": 0, "requests": [], "finish": None, "trees": []}
    # the model gets the regex / domains-crawl verdicts as sets, filled lazily: we need them before `pre`/`post`,
    # so we send cfg to the model again whenever new URLs show up (cfg is stateless on the model side except seen)
    regex_excluded, dcm = set(), set()

    def send_cfg(first=False):
        m = dict(cfg, op="cfg", resetSeen=(first and not keep_seen), regexExcluded=sorted(regex_excluded), dcMatch=sorted(dcm))
        run.model_lines.append(json.dumps(m)); run.impl_outs.append("ok")
    out = h.send(cfg_impl)
    if out.startswith("harness-error"):
        # the crawler refuses to start with this configuration (GenerateCrawlConfig failed)
        trace["refused"] = out
        return "refused", None, trace
    send_cfg(first=True)
    out = run.both({"op": "seed", "id": seed_id, "url": seed_url, "hops": hops, "via": ""})
    if out == "unparsable":
        return "unparsable", None, trace
    tree = parse_dump(out)
    for p in range(max_passes):
        trace["passes"] += 1
        # --- preprocess
        oracle = json.loads(run.impl_only({"op": "oracle"}))
        for nid, r in oracle.items():
            if r and regex_match(r["canon"]):
                regex_excluded.add(r["canon"])
        send_cfg()
        out = run.both({"op": "pre"}, {"op": "pre", "norm": oracle})
        if out.startswith("panic") or out.startswith("harness") or out.startswith("crash"):
            trace["crash"] = out[:200]
            return "panic", tree, trace
        before_pre = tree
        out, _, sent = out.partition(" sent=")
        tree = parse_dump(out)
        trace.setdefault("pre", []).append({"before": before_pre, "after": tree, "oracle": oracle,
                                            "sent": [unhex(x) for x in sent.split(",") if x] if cfg.get("useHQ") else None})
        run.both({"op": "check"})
        lvl = max_depth(tree)
        todo = [n for n, d, _ in walk(tree) if n["st"] == "PreProcessed" and d == lvl]
        anc = {}
        for n, d, par in walk(tree):
            anc[n["id"]] = (anc[par["id"]] + [par]) if par else []
        for n in todo:
            trace["requests"].append({"id": n["id"], "canon": n["canon"], "oracle": oracle.get(n["id"]), "pass": p, "hops": n["hops"],
                                      "redirects": n["redirects"], "level": sum(1 for a in anc[n["id"]] if a["st"] != "GotRedirected"),
                                      "chain": [a["canon"] for a in anc[n["id"]]]})
        # --- archive (scripted answers)
        outcomes_impl, outcomes_model = {}, {}
        answers = {}
        for n in todo:
            a = site.answer(n["canon"])
            answers[n["id"]] = a
            run.fetches[n["canon"]] = run.fetches.get(n["canon"], 0) + 1
            if a.get("fail"):
                outcomes_impl[n["id"]] = {"fail": True}
            else:
                outcomes_impl[n["id"]] = {"status": a["status"], "ctype": a["ctype"], "location": a.get("location", ""), "body": a["body"],
                                          "link": a.get("link", "")}
        out = run.impl_only({"op": "arch", "outcomes": outcomes_impl})
        dump, _, info = out.partition(" ")
        tree = parse_dump(dump)
        mimes = {}
        for part in info.split(";"):
            if part:
                f = part.split(":")
                mimes[f[0]] = dict(x.split("=", 1) for x in f[1:] if "=" in x)
        trace.setdefault("bodies", []).append(mimes)
        bodies = {n["id"]: n["body"] for n, _, _ in walk(tree)}
        for n in todo:
            a = answers[n["id"]]
            if a.get("fail"):
                outcomes_model[n["id"]] = {"fail": True}
            else:
                st_now = [m for m, _, _ in walk(tree) if m["id"] == n["id"]][0]["st"]
                outcomes_model[n["id"]] = {"fail": st_now == "Failed", "status": a["status"], "location": a.get("location", ""),
                                           "html": mime_html(mimes.get(n["id"], {}).get("mime", "")), "kept": bodies.get(n["id"], False)}
        run.model_lines.append(json.dumps({"op": "arch", "outcomes": outcomes_model})); run.impl_outs.append(dump)
        run.both({"op": "check"})
        # --- postprocess: run the implementation, then read the oracle for the model off its result
        before = {n["id"]: [k["id"] for k in n["kids"]] for n, _, _ in walk(tree)}
        canon_of = {n["id"]: n["canon"] for n, _, _ in walk(tree)}
        out = run.impl_only({"op": "post"})
        dump, _, rest = out.partition(" ")
        tree = parse_dump(dump)
        m = re.match(r"outlinks=(\S*) openBodies=(\d+)", rest)
        outs = []
        for o in (m.group(1).split(",") if m and m.group(1) else []):
            rawh, hp, viah = o.split("|")
            outs.append({"raw": unhex(rawh), "hops": int(hp), "via": unhex(viah)})
        trace.setdefault("open_bodies", []).append(int(m.group(2)) if m else -1)
        trace.setdefault("outlinks", []).append(outs)
        run.outlinks += outs
        for o in outs:
            if dc_match(o["raw"]):
                dcm.add(o["raw"])
        send_cfg()
        extract = {}
        for n, _, _ in walk(tree):
            if n["id"] in before:
                new = [k for k in n["kids"] if k["id"] not in before[n["id"]]]
                for k in new:
                    trace.setdefault("created", []).append({"raw": k["raw"], "redirects": k["redirects"], "hops": k["hops"], "parent_st": n["st"],
                                                            "parent_redirects": n["redirects"], "parent_hops": n["hops"], "parent": n["canon"]})
                e = {"assets": [[k["id"], k["raw"]] for k in new],
                     "outlinks": [o["raw"] for o in outs if o["via"] == canon_of.get(n["id"]) and n["id"] in answers], "assetOutlinks": []}
                if e["assets"] or e["outlinks"]:
                    extract[n["id"]] = e
        run.model_lines.append(json.dumps({"op": "post", "extract": extract})); run.impl_outs.append(out)
        trace["trees"].append(tree)
        run.both({"op": "check"})
        run.both({"op": "depths"})
        # --- finisher
        out = run.both({"op": "fin"})
        act, _, dump = out.partition(" ")
        tree = parse_dump(dump)
        if act != "feedback":
            trace["finish"] = act
            return act, tree, trace
    return "cut", tree, trace


def compare(ctx, run, what):
    """replay the recorded steps on the model and diff"""
    rc, model, err = core.run_model("stage", run.model_lines, timeout=1800)
    if len(model) != len(run.model_lines):
        raise RuntimeError("driver stage: %d/%d lines %s" % (len(model), len(run.model_lines), err[-400:]))
    # a seed that ends without children and without a request (rejected by the filters, failed to parse, seen): the implementation has
    # rewritten its text in place before rejecting it, the model leaves it as it was given - no request is built for it either way, the text
    # of such a root is not compared
    lone = re.compile(r"^([^|\[\],]*)\|[0-9a-f]*\|[0-9a-f]*\|(Completed|Failed|Seen)\|(\d+)\|(\d+)\|0\|(\d)\[\]")
    canon = lambda x: lone.sub(lambda m: "%s|-|-|%s|%s|%s|0|%s[]" % m.groups(), x)
    for i, (l, a, b) in enumerate(zip(run.model_lines, run.impl_outs, model)):
        if a != b and canon(a) != canon(b):
            # outlink order inside one pass follows the traversal on both sides; compare verbatim
            ctx.disagree({"scenario": what, "step": json.loads(l) if len(l) < 1500 else {"op": json.loads(l)["op"]}, "index": i}, a[:600], b[:600])
            return False
    return True


# ---------------------------------------------------------------- generators

DEFAULT_EXCLUDED = ["archive.org", "archive-it.org"]
ASSET_POOL = ["/img/a.png", "b.css", "http://cdn.example/lib.js", "http://archive.org/logo.png", "/img/a.png", "http://localhost/x.png",
              "http://127.0.0.1/y.png", "http://nodot/z.png", "ftp://files.example/f.bin", "data:image/png;base64,AAAA", "javascript:void(0)",
              "mailto:x@example.com", "http://cdn.example", "http://cdn.example/", "//img.site.example/p.jpg", "../up/c.gif", "?v=2",
              "http://excluded.example/e.png", "/private/secret.png", "/files/big.zip", "http://bücher.example/ü.png", "http://[bad/x.png",
              "/red/1", "/loop/a", "/to-local", "/api/data.json", "/gone.png", "/down.png", "/img/a.png?x=1&y=2", "http://web.archive-it.org/x.png",
              "http://dc.example/asset.png", "/same", "//localhost/x.png", "//127.0.0.1:8080/y.png", "//intranet/z.png", "//cdn.example/rel.js",
              "//archive.org/services/img/x", "https://LOCALHOST/u.png", "http://site.example./dot.png", "//user:pw@localhost/p.png"]
OUTLINK_POOL = ["/page2", "http://other.example/", "http://dc.example/in", "http://sub.dc.example/deep", "/private/page", "http://archive.org/web/",
                "mailto:y@example.com", "http://other.example/doc.pdf", "/page3?a=1&b=2", "#top"]


def gen_site(r, base="http://site.example"):
    s = Site()
    pages = ["/", "/same"]
    n_assets = r.randrange(0, 9)
    s.add(base + "/", assets=[r.choice(ASSET_POOL) for _ in range(n_assets)], outlinks=[r.choice(OUTLINK_POOL) for _ in range(r.randrange(0, 4))])
    s.add(base + "/same", assets=["/same", "/img/a.png"])
    s.add(base + "/img/a.png", ctype="image/png", body="\x89PNG\r\n\x1a\n" + "0" * 20, kind="bin")
    s.add(base + "/img/a.png?x=1&y=2", ctype="image/png", body="\x89PNG\r\n\x1a\n" + "1" * 20, kind="bin")
    s.add(base + "/b.css", ctype="text/css", body="body { color: red }", kind="bin")
    s.add("http://cdn.example/lib.js", ctype="application/javascript", body="var x = 1;", kind="bin")
    s.add("http://img.site.example/p.jpg", ctype="image/jpeg", body="\xff\xd8\xff\xe0" + "0" * 20, kind="bin")
    s.add(base + "/up/c.gif", ctype="image/gif", body="GIF89a" + "0" * 20, kind="bin")
    s.add(base + "/?v=2", assets=["/img/a.png"])
    s.add(base + "/gone.png", status=404)
    s.add(base + "/down.png", status=503, fail=True)
    s.add("http://dc.example/asset.png", ctype="image/png", body="\x89PNG\r\n\x1a\n", kind="bin")
    # redirect chains: /red/k -> /red/k+1 ... ends at `end` (or never)
    end = r.choice([2, 3, 5, 50])
    for k in range(1, 60):
        if k < end:
            s.add(base + "/red/%d" % k, status=r.choice([301, 302, 307, 308]), location="/red/%d" % (k + 1))
        else:
            s.add(base + "/red/%d" % k, ctype="image/png", body="\x89PNG\r\n\x1a\n" + "r" * 5, kind="bin")
            break
    s.add(base + "/to-local", status=302, location=r.choice(["//localhost/x", "http://127.0.0.1/x", "//intranet/x", "ftp://files.example/x", "//archive.org/x"]))
    s.add(base + "/loop/a", status=302, location="/loop/b")
    s.add(base + "/loop/b", status=302, location="/loop/a")
    # assets of assets: JSON documents that reference further resources
    s.add(base + "/api/data.json", ctype="application/json", kind="json", assets=[base + "/api/level2.json", base + "/img/a.png", base + "/api/data.json"], outlinks=[])
    s.add(base + "/api/level2.json", ctype="application/json", kind="json", assets=[base + "/api/level3.json", base + "/media/v.mp4"], outlinks=[])
    s.add(base + "/api/level3.json", ctype="application/json", kind="json", assets=[base + "/api/level4.json"], outlinks=[])
    s.add(base + "/api/level4.json", ctype="application/json", kind="json", assets=[base + "/api/level5.json"], outlinks=[])
    s.add(base + "/media/v.mp4", ctype="video/mp4", body="\x00\x00\x00\x18ftypmp42" + "0" * 30, kind="bin")
    return s


def gen_cfg(r):
    cfg = {"includeHosts": [], "includeStrings": [], "excludeHosts": list(DEFAULT_EXCLUDED), "excludeStrings": [], "regexes": [],
           "disableAssets": r.random() < 0.08, "maxHops": r.choice([0, 0, 1, 2]), "maxRedirect": r.choice([0, 1, 2, 3, 5, 20]),
           "disableSeencheck": False, "domainsCrawl": [], "exclusionFileTrailingNewline": r.random() < 0.5}
    k = r.random()
    if k < 0.15:
        cfg["includeHosts"] = [r.choice(["site.example", "cdn.example", "example"])]
    elif k < 0.22:
        cfg["includeStrings"] = [r.choice(["/img/", "site", ".png"])]
    if r.random() < 0.3:
        cfg["excludeHosts"] += [r.choice(["excluded.example", "cdn.example", "img."])]
    if r.random() < 0.25:
        cfg["excludeStrings"] = [r.choice(["private", "?x=1", ".gif"])]
    if r.random() < 0.2:
        cfg["regexes"] = [r.choice([r"\.zip$", r"/red/\d+$", r"^https?://[^/]*cdn"])]
    if r.random() < 0.15:
        cfg["domainsCrawl"] = ["dc.example"]
    return cfg


def dc_matcher(cfg):
    if not cfg["domainsCrawl"]:
        return lambda raw: False
    from urllib.parse import urlsplit

    def m(raw):
        try:
            h = urlsplit(raw).hostname or ""
        except ValueError:
            return False
        return any(h == d or h.endswith("." + d) for d in cfg["domainsCrawl"])
    return m


def regex_matcher(cfg):
    pats = [re.compile(p) for p in cfg["regexes"]]
    return lambda canon: any(p.search(canon) for p in pats)


# ---------------------------------------------------------------- the reference scope predicate (C05)

def in_scope(cfg, canon):
    """written from the property text, independently of Zeno and of the Lean model"""
    from urllib.parse import urlsplit
    try:
        sp = urlsplit(canon)
    except ValueError:
        return False, "unparsable"
    if sp.scheme not in ("http", "https"):
        return False, "scheme"
    host = (sp.hostname or "")
    hostport = sp.netloc.split("@")[-1]
    if host in ("localhost", "127.0.0.1") or "." not in host:
        return False, "host"
    if cfg["includeHosts"] or cfg["includeStrings"]:
        if not (any(e in hostport for e in cfg["includeHosts"]) or any(e in canon for e in cfg["includeStrings"])):
            return False, "not-included"
    if any(e in hostport for e in cfg["excludeHosts"]) or any(e in canon for e in cfg["excludeStrings"]):
        return False, "excluded"
    if any(re.search(p, canon) for p in cfg["regexes"]):
        return False, "excluded-regex"
    for d in DEFAULT_EXCLUDED:
        if d in hostport:
            return False, "default-excluded"
    return True, ""
