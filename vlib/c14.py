"""C14 — pause stops all stages, resume wakes them all, the protocol never deadlocks."""
import itertools, json, os
from . import core

SECTIONS = ["Pause"]
LEVEL = "proof"
RULE = ("histories of pause / resume / stop invocations (any controller, matched or unmatched) against the real pause package with real "
        "subscriber goroutines whose pause case has the shape extracted from the stage workers; every invocation runs to quiescence "
        "(goroutine-state settle). quick: all orders of <= 5 calls x 0..3 workers; thorough: <= 7 calls plus random histories of 20. "
        "A history is non-trivial when it contains an unmatched or repeated call (resume while not paused, pause while paused) or a "
        "stop while paused; distinct by (workers, call list)")


def histories(maxlen, workers):
    for n in workers:
        for l in range(1, maxlen + 1):
            for ops in itertools.product(["pause", "resume", "stop"], repeat=l):
                # nothing is interesting after stop except that calls still return
                if "stop" in ops[:-1] and ops.index("stop") < l - 2:
                    continue
                yield n, list(ops)


def nontrivial(ops):
    paused = False
    for o in ops:
        if o == "pause":
            if paused:
                return True
            paused = True
        elif o == "resume":
            if not paused:
                return True
            paused = False
        elif o == "stop" and paused:
            return True
    return False


def parse(a):
    d = dict(p.split("=") for p in a.split(" "))
    d["workers"] = [w for w in d["workers"].split(",") if w]
    return d


def oracle(ctx, n, ops, out):
    """the property on the implementation: nobody blocked forever, pause stops all, resume wakes all"""
    stopped = False
    for i, (o, a) in enumerate(zip(["init"] + ops, out)):
        st = parse(a)
        hist = {"workers": n, "calls": ops[:i]}
        if o == "stop":
            stopped = True
        if int(st["pending"]) != 0:
            ctx.violation("a %s call is blocked forever (history %s, state %s)" % (o, ops[:i], a), {"domain": "pause", "n": n, "ops": ops[:i], "impl": out[:i + 1]})
            return
        if "ack" in st["workers"] and st["paused"] != "true":
            ctx.violation("a worker waits for resume although the manager is not paused (history %s, state %s)" % (ops[:i], a),
                          {"domain": "pause", "n": n, "ops": ops[:i], "impl": out[:i + 1]})
            return
        if stopped and any(w != "exit" for w in st["workers"]):
            ctx.violation("after stop a worker has not exited (history %s, state %s)" % (ops[:i], a),
                          {"domain": "pause", "n": n, "ops": ops[:i], "impl": out[:i + 1]})
            return
        if not stopped and o == "pause" and (st["paused"] != "true" or any(w != "ack" for w in st["workers"])):
            ctx.violation("after Pause() returned and the workers settled, not every worker is waiting (history %s, state %s)" % (ops[:i], a),
                          {"domain": "pause", "n": n, "ops": ops[:i], "impl": out[:i + 1]})
            return
        if not stopped and o == "resume" and (st["paused"] != "false" or any(w != "run" for w in st["workers"])):
            ctx.violation("after Resume() returned not every worker runs (history %s, state %s)" % (ops[:i], a),
                          {"domain": "pause", "n": n, "ops": ops[:i], "impl": out[:i + 1]})
            return


def run_hists(ctx, hists):
    ack = ctx.facts.get("Pause", {}).get("preprocessorAck", "bare")
    acks = [ctx.facts.get("Pause", {}).get(w + "Ack") for w in ("preprocessor", "archiver", "postprocessor", "finisher")]
    ack = "cancellable" if all(a == "cancellable" for a in acks) else "bare"
    lines, idx = [], []
    for n, ops in hists:
        lines.append(json.dumps({"op": "init", "n": n, "ack": ack}))
        lines += [json.dumps({"op": o}) for o in ops]
        idx.append(len(lines))
    impl, model = ctx.pair("pause", lines, timeout=3000)
    pos = 0
    for (n, ops), end in zip(hists, idx):
        a, b = impl[pos:end], model[pos:end]
        pos = end
        ctx.case("%d%s" % (n, ops), nontrivial(ops) and n > 0)
        ctx.count("calls", len(ops))
        oracle(ctx, n, ops, a)
        for i, (x, y) in enumerate(zip(a, b)):
            if x != y:
                ctx.disagree({"n": n, "ops": ops[:i]}, x, y)
                break


def corpus(ctx):
    d = os.path.join(core.VERIF, "corpus", "C14")
    out = []
    for f in sorted(os.listdir(d)) if os.path.isdir(d) else []:
        for l in open(os.path.join(d, f)):
            if l.strip():
                j = json.loads(l)
                out.append((j["n"], j["ops"]))
    return out


def scenarios(ctx, rounds):
    """two scenarios the independent-worker model cannot express: back-pressure between stage workers,
    and a busy worker that exits while a Resume waits for it (real goroutines, watchdog)"""
    for op in ("backpressure", "exitduringresume"):
        rc, out, err = core.run_impl("pause", [json.dumps({"op": op, "rounds": rounds})], timeout=600)
        ctx.case(op + str(rounds), True)
        ctx.count("scenario:" + op + ":" + out[0].split(" ")[0])
        if not out[0].startswith("ok"):
            ctx.violation("%s: %s" % (op, out[0]), {"domain": "pause", "scenario": op, "rounds": rounds, "impl": out[0]})


def watcher_stop(ctx):
    """the disk watcher is the controller that pauses on low disk: stopping it while it holds the pipeline paused must return"""
    rc, out, err = core.run_impl("diskwatch", [json.dumps({"op": "stopwhilelow"})], timeout=120)
    ctx.case("watcher-stop-while-low", True)
    ctx.count("scenario:watcher-stop:" + (out[0].split(" ")[0] if out else "none"))
    if not out or not out[0].startswith("stopped pausedBefore=true"):
        ctx.violation("stop while the disk watcher holds the pipeline paused: %s" % (out[0] if out else err[-200:]),
                      {"domain": "diskwatch", "scenario": "stopwhilelow", "impl": out[0] if out else ""})


def run(ctx):
    r = ctx.rng
    watcher_stop(ctx)
    hs = corpus(ctx)
    if ctx.thorough():
        hs += list(histories(7, [0, 1, 2, 3]))
        hs += [(r.choice([1, 2, 4, 8]), [r.choice(["pause", "resume", "pause", "resume", "stop"]) for _ in range(20)]) for _ in range(2000)]
    else:
        hs += list(histories(5, [0, 1, 2, 3]))
        hs += [(r.choice([1, 2, 4]), [r.choice(["pause", "resume"]) for _ in range(12)]) for _ in range(60)]
    run_hists(ctx, hs)
    scenarios(ctx, 60 if ctx.thorough() else 10)
    ctx.sample({"workers": hs[-1][0], "calls": hs[-1][1]})
    ctx.cov["exhaustive"] = False
    ctx.assumptions += ["subscribers register before the first pause (stage workers subscribe at start-up)",
                        "the harness's subscriber goroutines reproduce the pause case of the stage workers with the acknowledgement shape "
                        "(bare send / select with ctx.Done) that the fact extractor reads from the four worker functions; the real stage "
                        "workers themselves are exercised end to end by C03",
                        "Go channels, sync.Map.Range and atomic.Bool behave as documented"]


def replay(ctx, doc):
    rp = doc.get("replay", doc)
    if "scenario" in rp:
        scenarios(ctx, rp.get("rounds", 10))
    if "ops" in rp:
        run_hists(ctx, [(rp.get("n", 1), rp["ops"])])
