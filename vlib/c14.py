"""C14 — pause stops all stages, resume wakes them all, the protocol never deadlocks."""
import itertools, json, os
from . import core

SECTIONS = ["Pause"]
LEVEL = "proof"
RULE = ("histories of pause / resume / stop invocations (any controller, matched or unmatched) against the real pause package with real "
        "subscriber goroutines whose pause case has the shape extracted from the stage workers; every invocation runs to quiescence "
        "(goroutine-state settle). quick: all orders of <= 5 calls x 0..3 workers; thorough: <= 7 calls plus random histories of 20. "
        "A history is non-trivial when it contains an unmatched or repeated call (resume while not paused, pause while paused) or a "
        "stop while paused; distinct by (workers, call list)")


def histories(maxlen, workers):
    for n in workers:
        for l in range(1, maxlen + 1):
            for ops in itertools.product(["pause", "resume", "stop"], repeat=l):
                # nothing is interesting after stop except that calls still return
                if "stop" in ops[:-1] and ops.index("stop") < l - 2:
                    continue
                yield n, list(ops)


def nontrivial(ops):
    paused = False
    for o in ops:
        if o == "pause":
            if paused:
                return True
            paused = True
        elif o == "resume":
            if not paused:
                return True
            paused = False
        elif o == "stop" and paused:
            return True
    return False


def parse(a):
    d = dict(p.split("=") for p in a.split(" "))
    d["workers"] = [w for w in d["workers"].split(",") if w]
    return d


def oracle(ctx, n, ops, out):
    """the property on the implementation: nobody blocked forever, pause stops all, resume wakes all"""
    stopped = False
    for i, (o, a) in enumerate(zip(["init"] + ops, out)):
        st = parse(a)
        hist = {"workers": n, "calls": ops[:i]}
        if o == "stop":
            stopped = True
        if int(st["pending"]) != 0:
            ctx.violation("a %s call is blocked forever (history %s, state %s)" % (o, ops[:i], a), {"domain": "pause", "n": n, "ops": ops[:i], "impl": out[:i + 1]})
            return
        if "ack" in st["workers"] and st["paused"] != "true":
            ctx.violation("a worker waits for resume although the manager is not paused (history %s, state %s)" % (ops[:i], a),
                          {"domain": "pause", "n": n, "ops": ops[:i], "impl": out[:i + 1]})
            return
        if stopped and any(w != "exit" for w in st["workers"]):
            ctx.violation("after stop a worker has not exited (history %s, state %s)" % (ops[:i], a),
                          {"domain": "pause", "n": n, "ops": ops[:i], "impl": out[:i + 1]})
            return
        if not stopped and o == "pause" and (st["paused"] != "true" or any(w != "ack" for w in st["workers"])):
            ctx.violation("after Pause() returned and the workers settled, not every worker is waiting (history %s, state %s)" % (ops[:i], a),
                          {"domain": "pause", "n": n, "ops": ops[:i], "impl": out[:i + 1]})
            return
        if not stopped and o == "subscribe" and any(w != ("ack" if st["paused"] == "true" else "run") for w in st["workers"]):
            ctx.violation("after a worker subscribed %s, not every worker %s (history %s, state %s)" % (
                "while the pipeline is paused" if st["paused"] == "true" else "to a running pipeline", "waits" if st["paused"] == "true" else "runs", ops[:i], a),
                {"domain": "pause", "n": n, "ops": ops[:i], "impl": out[:i + 1]})
            return
        if not stopped and o == "resume" and (st["paused"] != "false" or any(w != "run" for w in st["workers"])):
            ctx.violation("after Resume() returned not every worker runs (history %s, state %s)" % (ops[:i], a),
                          {"domain": "pause", "n": n, "ops": ops[:i], "impl": out[:i + 1]})
            return


def run_hists(ctx, hists):
    ack = ctx.facts.get("Pause", {}).get("preprocessorAck", "bare")
    acks = [ctx.facts.get("Pause", {}).get(w + "Ack") for w in ("preprocessor", "archiver", "postprocessor", "finisher")]
    ack = "cancellable" if all(a == "cancellable" for a in acks) else "bare"
    lines, idx = [], []
    for n, ops in hists:
        lines.append(json.dumps({"op": "init", "n": n, "ack": ack}))
        lines += [json.dumps({"op": o}) for o in ops]
        idx.append(len(lines))
    impl, model = ctx.pair("pause", lines, timeout=3000, partial=True)
    pos = 0
    for (n, ops), end in zip(hists, idx):
        if end > len(impl):
            # the harness died in the middle of this history: the ones before it have been judged
            nv = len(ctx.violations)
            if not nv:
                ctx.violation("the pause package took the process down during history %s: %s" % (ops, (ctx.harness_death or "")[:400]),
                              {"domain": "pause", "n": n, "ops": ops, "impl": impl[pos:]})
            break
        a, b = impl[pos:end], model[pos:end]
        pos = end
        ctx.case("%d%s" % (n, ops), nontrivial(ops) and n > 0)
        ctx.count("calls", len(ops))
        oracle(ctx, n, ops, a)
        for i, (x, y) in enumerate(zip(a, b)):
            if x != y:
                ctx.disagree({"n": n, "ops": ops[:i]}, x, y)
                break


def busy_histories(ctx, count, only=None):
    """workers that are busy with a seed when the pause arrives (they look at their control channels only when the work is done), controllers
    calling Pause / Resume meanwhile; when everybody is free again and every call has had time to return: nobody is blocked, and either the
    pipeline is paused and every worker waits, or it is not and every worker runs"""
    r = ctx.rng
    templates = [(2, [("busy", 1), "pause", "resume", "pause", ("free", 1), "resume"]),
                 (1, [("busy", 0), "pause", ("free", 0), "resume"]),
                 (2, [("busy", 1), "pause", "resume", ("free", 1)]),
                 (3, [("busy", 0), ("busy", 2), "pause", "resume", "pause", ("free", 0), "pause", ("free", 2), "resume", "resume"])]
    hists = list(templates) if only is None else [only]
    for _ in range(count):
        n = r.choice([1, 2, 3, 4])
        busy = r.sample(range(n), r.randrange(1, n + 1))
        ops = [("busy", i) for i in busy]
        frees = [("free", i) for i in busy]
        r.shuffle(frees)
        calls = [r.choice(["pause", "resume"]) for _ in range(r.randrange(2, 8))]
        # frees are spread among the calls
        pos = sorted(r.randrange(len(calls) + 1) for _ in frees)
        k = 0
        for j in range(len(calls) + 1):
            while k < len(frees) and pos[k] == j:
                ops.append(frees[k]); k += 1
            if j < len(calls):
                ops.append(calls[j])
        ops += ["resume"]
        hists.append((n, ops))
    acks = [ctx.facts.get("Pause", {}).get(w + "Ack") for w in ("preprocessor", "archiver", "postprocessor", "finisher")]
    ack = "cancellable" if all(a == "cancellable" for a in acks) else "bare"
    lines, idx = [], []
    for n, ops in hists:
        lines.append(json.dumps({"op": "init", "n": n, "ack": ack}))
        lines += [json.dumps({"op": o} if isinstance(o, str) else {"op": o[0], "i": o[1]}) for o in ops]
        idx.append(len(lines))
    impl, model = ctx.pair("pause", lines, timeout=3000, partial=True)
    pos = 0
    for (n, ops), end in zip(hists, idx):
        if end > len(impl):
            if not len(ctx.violations):
                ctx.violation("the pause package took the process down during busy-worker history %s: %s" % (ops, (ctx.harness_death or "")[:400]),
                              {"domain": "pause-busy", "n": n, "ops": ops, "impl": impl[pos:]})
            break
        a, b = impl[pos:end], model[pos:end]
        pos = end
        ctx.case("busy%d%s" % (n, ops), True)
        ctx.count("busy-histories")
        rp = {"domain": "pause-busy", "n": n, "ops": ops, "impl": a}
        if len(a) != len(ops) + 1 or any(x.startswith("harness-error") for x in a):
            ctx.violation("busy-worker history %s: the harness did not answer every call: %s" % (ops, a[-1:] if a else ""), rp); continue
        st = parse(a[-1])
        if int(st["pending"]) != 0:
            ctx.violation("a Pause / Resume call is blocked forever after every worker is free again (history %s, state %s)" % (ops, a[-1]), rp); continue
        if st["paused"] == "true" and any(w == "run" for w in st["workers"]):
            ctx.violation("the pipeline is flagged paused, no call is in progress, but a worker runs (history %s, state %s)" % (ops, a[-1]), rp); continue
        if st["paused"] != "true" and any(w == "ack" for w in st["workers"]):
            ctx.violation("a worker waits for resume although the pipeline is not paused and no call is in progress (history %s, state %s)" % (ops, a[-1]), rp); continue
        for i, (x, y) in enumerate(zip(a, b)):
            if x != y:
                ctx.disagree({"n": n, "ops": ops[:i]}, x, y)
                break


def corpus(ctx):
    d = os.path.join(core.VERIF, "corpus", "C14")
    out = []
    for f in sorted(x for x in os.listdir(d) if x.endswith(".jsonl")) if os.path.isdir(d) else []:
        for l in open(os.path.join(d, f)):
            if l.strip():
                j = json.loads(l)
                out.append((j["n"], j["ops"]))
    return out


def scenarios(ctx, rounds):
    """two scenarios the independent-worker model cannot express: back-pressure between stage workers,
    and a busy worker that exits while a Resume waits for it (real goroutines, watchdog)"""
    for op in ("backpressure", "exitduringresume"):
        rc, out, err = core.run_impl("pause", [json.dumps({"op": op, "rounds": rounds})], timeout=600)
        ctx.case(op + str(rounds), True)
        ctx.count("scenario:" + op + ":" + out[0].split(" ")[0])
        if not out[0].startswith("ok"):
            ctx.violation("%s: %s" % (op, out[0]), {"domain": "pause", "scenario": op, "rounds": rounds, "impl": out[0]})


def watcher_stop(ctx):
    """the disk watcher is the controller that pauses on low disk: stopping it while it holds the pipeline paused must return"""
    rc, out, err = core.run_impl("diskwatch", [json.dumps({"op": "stopwhilelow"})], timeout=120)
    ctx.case("watcher-stop-while-low", True)
    ctx.count("scenario:watcher-stop:" + (out[0].split(" ")[0] if out else "none"))
    if not out or not out[0].startswith("stopped pausedBefore=true"):
        ctx.violation("stop while the disk watcher holds the pipeline paused: %s" % (out[0] if out else err[-200:]),
                      {"domain": "diskwatch", "scenario": "stopwhilelow", "impl": out[0] if out else ""})


def real_stages(ctx):
    """the four real stage worker pools in a whole crawl: an operator pauses (idle pipeline / mid-crawl), nothing is fetched while paused,
    Resume returns, and the crawl then runs to the end"""
    from . import e2e
    r = ctx.rng
    scns = []
    d = os.path.join(core.VERIF, "corpus", "C14")
    for f in sorted(x for x in os.listdir(d) if x.endswith(".json")) if os.path.isdir(d) else []:
        scns.append(json.load(open(os.path.join(d, f)))["scenario"])       # past failures first (D27: pause right after start-up)
    for k in range(6 if ctx.thorough() else 2):
        pages = {}
        seeds = []
        for i in range(3):
            assets = ["/pr%d/a%d.png" % (i, j) for j in range(r.randrange(2, 6))]
            pages["/pr%d/" % i] = {"ctype": "text/html", "body": {"kind": "html", "assets": assets, "outlinks": []}, "delayMs": 40}
            for a in assets:
                pages[a] = {"ctype": "image/png", "body": {"kind": "png", "size": 300, "seed": 3}, "delayMs": r.choice([10, 60])}
            seeds.append("/pr%d/" % i)
        idle_first = k % 2 == 0
        # "idle": fewer seeds than workers, so most workers of every stage sit waiting for work when the pause arrives
        scns.append({"seeds": seeds[:1] if idle_first else seeds, "site": pages, "useHQ": True,
                     "cfg": {"workers": 4 if idle_first else r.choice([1, 2]), "maxConcurrentAssets": 1, "maxRetry": 0, "httpTimeout": 3, "hqBatchSize": 1},
                     "stop": {"when": "pauseresume", "n": r.randrange(0, 3) if idle_first else r.randrange(1, 5), "settleMs": 2500, "holdMs": 600, "timeoutMs": 40000},
                     "moment": "idle" if idle_first else "busy"})
    for scn, (rep, err) in zip(scns, e2e.run_many(scns, timeout=120, workers=6)):
        judge_real(ctx, scn, rep, err)


def real_stages_judge(ctx, scn):
    from . import e2e
    rep, err = e2e.run_one(scn, timeout=120)
    judge_real(ctx, scn, rep, err)


def judge_real(ctx, scn, rep, err):
    if True:
        rp = {"domain": "e2e", "scenario": scn}
        ctx.case("pr" + json.dumps([scn["cfg"], scn["moment"], scn["stop"]["n"]]), True)
        ctx.count("real-stages:" + scn["moment"])
        if rep.get("died") or rep.get("harnessTimeout") or rep.get("harnessLine"):
            ctx.violation("the crawler crashed / never came back in a pause-resume crawl (%s): %s" % (scn["moment"], rep.get("panic") or err[-300:]), rp); return
        if rep.get("pauseTimedOut"):
            ctx.violation("Pause() did not return within 10 s (%s pipeline)" % scn["moment"], rp); return
        if rep.get("resumeHung"):
            ctx.violation("Resume() had not returned after 10 s: a stage worker never acknowledged the pause (%s pipeline, %s)" % (scn["moment"], scn["cfg"]), rp); return
        if rep.get("requestsWhilePaused"):
            ctx.violation("%d request(s) were sent while the pipeline was paused (after 2.5 s of settling - a worker finishes the seed it holds before it looks at the pause, at most 0.4 s here; %s pipeline)" % (rep["requestsWhilePaused"], scn["moment"]), rp); return
        if rep.get("stillPausedAfterResume"):
            ctx.violation("the pipeline is still flagged paused after Resume() returned", rp); return
        if not rep.get("drained"):
            ctx.violation("after Resume() the crawl did not run to its end (%s pipeline): %s" % (scn["moment"], {k: v for k, v in rep.items() if k in ("stopHung", "blocked")}), rp); return
        if rep.get("stopHung"):
            ctx.violation("controler.Stop() hung after a pause-resume crawl", rp)


def run(ctx):
    r = ctx.rng
    watcher_stop(ctx)
    real_stages(ctx)
    hs = corpus(ctx)
    if ctx.thorough():
        hs += list(histories(7, [0, 1, 2, 3]))
        hs += [(r.choice([1, 2, 4, 8]), [r.choice(["pause", "resume", "pause", "resume", "stop"]) for _ in range(20)]) for _ in range(2000)]
        hs += [(r.choice([0, 1, 2, 4]), [r.choice(["pause", "resume", "pause", "resume", "subscribe", "subscribe", "stop"]) for _ in range(16)]) for _ in range(1000)]
    else:
        hs += list(histories(5, [0, 1, 2, 3]))
        hs += [(r.choice([1, 2, 4]), [r.choice(["pause", "resume"]) for _ in range(12)]) for _ in range(60)]
        hs += [(0, ["pause", "subscribe", "resume"]), (1, ["pause", "subscribe", "subscribe", "resume", "pause", "resume"]), (2, ["subscribe", "pause", "resume"])]
        hs += [(r.choice([0, 1, 2]), [r.choice(["pause", "resume", "subscribe"]) for _ in range(10)]) for _ in range(40)]
    run_hists(ctx, hs)
    busy_histories(ctx, 400 if ctx.thorough() else 30)
    scenarios(ctx, 60 if ctx.thorough() else 10)
    ctx.sample({"workers": hs[-1][0], "calls": hs[-1][1]})
    ctx.cov["exhaustive"] = False
    ctx.assumptions += ["subscribers register before the first pause (stage workers subscribe at start-up)",
                        "the harness's subscriber goroutines reproduce the pause case of the stage workers with the acknowledgement shape "
                        "(bare send / select with ctx.Done) that the fact extractor reads from the four worker functions; the real stage "
                        "workers themselves are exercised end to end by C03",
                        "Go channels, sync.Map.Range and atomic.Bool behave as documented"]


def replay(ctx, doc):
    rp = doc.get("replay", doc)
    if rp.get("domain") == "pause-busy":
        busy_histories(ctx, 0, only=(rp["n"], [o if isinstance(o, str) else tuple(o) for o in rp["ops"]]))
        return
    if rp.get("domain") == "e2e" and "scenario" in rp:
        real_stages_judge(ctx, rp["scenario"])
        return
    if "scenario" in rp:
        scenarios(ctx, rp.get("rounds", 10))
    if "ops" in rp:
        run_hists(ctx, [(rp.get("n", 1), rp["ops"])])
