"""C12 — reactor: bounded in-flight seeds, exact token accounting, no deadlock."""
import json, os
from . import core

SECTIONS = ["Reactor"]
LEVEL = "proof"
RULE = ("API histories (<= 30 ops, 1-4 tokens, ids from a pool of 6) issued one call at a time against the real reactor, each run to "
        "quiescence (blocked calls detected by goroutine state, not by timeouts); 85% of the stream follows the pipeline's client "
        "discipline, 15% is arbitrary (unknown ids, double finish, feedback of queued seeds, duplicates); a history is non-trivial "
        "when at least one call blocked, was rejected, or a parked insert was woken; distinct by op list")


class Sim:
    """tiny mirror used only to *generate* disciplined histories (never as an oracle)"""
    def __init__(self, cap):
        self.cap, self.tokens, self.table, self.queue, self.held, self.parked = cap, 0, [], [], [], []
        self.frozen = False

    def insert(self, x):
        if self.frozen:
            return
        if self.tokens < self.cap:
            self.tokens += 1; self.table.append(x); self.queue.append(x)
        else:
            self.parked.append(x)

    def recv(self):
        if self.queue:
            self.held.append(self.queue.pop(0))

    def feedback(self, x):
        if x in self.held and not self.frozen:
            self.held.remove(x); self.queue.append(x)

    def finish(self, x):
        if x in self.table:
            self.table.remove(x); self.tokens -= 1
            if x in self.held:
                self.held.remove(x)
            if self.parked and not self.frozen:
                y = self.parked.pop(0)
                self.tokens += 1; self.table.append(y); self.queue.append(y)


def gen_history(r, maxlen):
    cap = r.choice([1, 1, 2, 2, 3, 4])
    ops = [{"op": "start", "tokens": cap}]
    sim = Sim(cap)
    pool = ["a", "b", "c", "d", "e", "f"]
    nxt = 0
    disciplined = r.random() < 0.85
    n = r.randrange(3, maxlen)
    for _ in range(n):
        k = r.random()
        if disciplined:
            if k < 0.30:
                x = "s%d" % nxt; nxt += 1
                ops.append({"op": "insert", "id": x}); sim.insert(x)
            elif k < 0.55:
                ops.append({"op": "recv"}); sim.recv()
            elif k < 0.70 and sim.held:
                x = r.choice(sim.held); ops.append({"op": "feedback", "id": x}); sim.feedback(x)
            elif k < 0.88 and sim.held:
                x = r.choice(sim.held); ops.append({"op": "finish", "id": x}); sim.finish(x)
            elif k < 0.895:
                ops.append({"op": "freeze"}); sim.frozen = True; sim.parked = []
            elif k < 0.93:
                ops.append({"op": "stop"}); ops.append({"op": "start", "tokens": cap}); sim = Sim(cap)
            else:
                ops.append({"op": "state"})
        else:
            x = r.choice(pool)
            op = r.choice(["insert", "insert", "recv", "recv", "feedback", "finish", "finish", "state", "freeze", "feedback"])
            if op in ("recv", "state", "freeze"):
                if op == "freeze" and r.random() < 0.7:
                    op = "recv"
                ops.append({"op": op})
            else:
                ops.append({"op": op, "id": x})
        if r.random() < 0.12:
            ops.append({"op": "state"})
    ops.append({"op": "state"})
    if disciplined:
        # the consumer keeps reading: everything still queued must come out
        for _ in range(cap + 3):
            ops.append({"op": "recv"})
        ops.append({"op": "drained", "disciplined": True})
    return ops


def oracle(ctx, hist, out):
    """The property evaluated on the implementation's own answers (independent of the Lean model)."""
    cap, frozen, prev_state, dead = None, False, None, False
    delivered = set()
    for i, (op, a) in enumerate(zip(hist, out)):
        res = a.split(" ")[0]
        if res in ("dead", "panic", "blocked") and op["op"] in ("feedback", "finish"):
            dead = True
        if "panic" in a:
            dead = True
        if dead:
            continue
        if res.startswith("item:"):
            delivered.add(res[5:])
        if op["op"] == "drained":
            # every tracked seed must have reached the output by now (the consumer kept reading)
            tab = [t for t in a.split("table=")[1].split(",") if t] if "table=" in a else []
            lost = [t for t in tab if t not in delivered]
            if lost and op.get("disciplined"):
                ctx.violation("accepted seeds %s never reached the output although the consumer kept reading" % lost,
                              {"domain": "reactor", "history": hist[:i + 1], "impl": out[:i + 1]})
            continue
        if op["op"] == "start" and res == "ok":
            cap, frozen, prev_state = op["tokens"], False, None
            delivered = set()
        elif op["op"] == "freeze":
            frozen = True
        elif op["op"] == "stop":
            frozen = False
        elif op["op"] in ("insert", "feedback") and frozen and res == "ok":
            ctx.violation("frozen reactor accepted %s(%s)" % (op["op"], op.get("id")),
                          {"domain": "reactor", "history": hist[:i + 1], "impl": out[:i + 1]})
        elif op["op"] == "state" and a.startswith("tokens="):
            tok = int(a.split(" ")[0][7:])
            tab = [t for t in a.split("table=")[1].split(",") if t]
            if tok != len(tab) or (cap is not None and tok > cap):
                ctx.violation("tokens in use (%d) != tracked seeds %s (cap %s)" % (tok, tab, cap),
                              {"domain": "reactor", "history": hist[:i + 1], "impl": out[:i + 1]})
            prev_state = a
        if op["op"] in ("feedback", "finish") and res in ("notpresent", "notfound"):
            # rejected calls must have no side effect: compare the surrounding state lines when present
            if i > 0 and i + 1 < len(hist) and hist[i - 1]["op"] == "state" and hist[i + 1]["op"] == "state":
                if out[i - 1] != out[i + 1]:
                    ctx.violation("rejected %s(%s) changed the state: %s -> %s" % (op["op"], op.get("id"), out[i - 1], out[i + 1]),
                                  {"domain": "reactor", "history": hist[:i + 2], "impl": out[:i + 2]})


def run_histories(ctx, hists):
    lines, idx = [], []
    for h in hists:
        lines.append(json.dumps({"op": "reset"}))
        for op in h:
            lines.append(json.dumps(op))
        idx.append(len(lines))
    impl, model = ctx.pair("reactor", lines)
    pos = 0
    for h, end in zip(hists, idx):
        a, b = impl[pos + 1:end], model[pos + 1:end]
        pos = end
        nontrivial = any(x.split(" ")[0] in ("blocked", "frozen", "notpresent", "notfound", "panic", "rejected") or "late:" in x for x in a)
        ctx.case(json.dumps(h), nontrivial)
        for x in a:
            ctx.count("impl:" + x.split(" ")[0].split(":")[0])
        oracle(ctx, h, a)
        for i, (x, y) in enumerate(zip(a, b)):
            if y == "dead":
                ctx.count("history-ends:crashed-or-wedged")
                break       # the modelled process crashed or wedged: nothing further is comparable
            if x != y:
                ctx.disagree({"history": h[:i + 1]}, a[:i + 1][-3:], b[:i + 1][-3:])
                break
    return impl


def corpus(ctx):
    hs = []
    d = os.path.join(core.VERIF, "corpus", "C12")
    for f in sorted(os.listdir(d)) if os.path.isdir(d) else []:
        for l in open(os.path.join(d, f)):
            if l.strip():
                hs.append(json.loads(l))
    return hs


def stress(ctx, n):
    rc, out, err = core.run_impl("reactor", [json.dumps({"op": "racefinish", "rounds": 20000 if ctx.thorough() else 3000})], timeout=1200)
    ctx.case("racefinish", True)
    ctx.count("racefinish:" + out[0].split(" ")[0])
    if not out[0].startswith("ok"):
        ctx.violation("two simultaneous finishes of one seed: " + out[0], {"domain": "reactor", "racefinish": True, "impl": out[0]})
    rc, out, err = core.run_impl("reactor", [json.dumps({"op": "racefeedback", "rounds": 100000 if ctx.thorough() else 20000})], timeout=1200)
    ctx.case("racefeedback", True)
    ctx.count("racefeedback:" + out[0].split(" ")[0])
    if not out[0].startswith("ok"):
        ctx.violation("a feedback racing a finish of the same seed: " + out[0], {"domain": "reactor", "racefinish": True, "impl": out[0]})
    rc, out, err = core.run_impl("reactor", [json.dumps({"op": "racefreeze", "rounds": 2000 if ctx.thorough() else 300})], timeout=1200)
    ctx.case("racefreeze", True)
    ctx.count("racefreeze:" + (out[0].split(" ")[0] if out else "none"))
    if not out or not out[0].startswith("ok"):
        ctx.violation("a freeze racing inserts that wait for a token: " + (out[0] if out else err[-300:]), {"domain": "reactor", "racefreeze": True, "impl": out[0] if out else ""})
    lines = []
    for i in range(n):
        lines.append(json.dumps({"op": "stress", "tokens": ctx.rng.choice([1, 2, 5, 16]), "producers": ctx.rng.choice([1, 3, 8]),
                                 "consumers": ctx.rng.choice([1, 4, 16]), "seeds": ctx.rng.choice([50, 400]), "seed": ctx.rng.randrange(1 << 30)}))
    rc, out, err = core.run_impl("reactor", lines, timeout=1200)
    for l, a in zip(lines, out):
        ctx.case("stress" + l, True)
        ctx.count("stress:" + a.split(" ")[0])
        if not a.startswith("ok"):
            ctx.violation("concurrent run broke the accounting: " + a, {"domain": "reactor", "stress": json.loads(l), "impl": a})


def run(ctx):
    n = 6000 if ctx.thorough() else 400
    hists = corpus(ctx) + [gen_history(ctx.rng, 30) for _ in range(n)]
    run_histories(ctx, hists)
    for h in hists[:3]:
        ctx.sample(h)
    stress(ctx, 60 if ctx.thorough() else 6)
    ctx.assumptions += ["Go runtime: channels, select, sync.Map, FIFO wake-up of parked senders (validated by the correspondence only)",
                        "the sequential model covers one call at a time; real concurrency is exercised by the stress runs, not proved"]


def replay(ctx, doc):
    rp = doc.get("replay", doc)
    if rp.get("racefinish") or rp.get("stress"):
        stress(ctx, 2)
        return
    if "history" in rp:
        run_histories(ctx, [rp["history"]])
    elif "input" in rp and "history" in rp["input"]:
        run_histories(ctx, [rp["input"]["history"]])
