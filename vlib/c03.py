"""C03 — graceful stop always terminates and finalises the WARC output."""
import json, os
from . import core, e2e

SECTIONS = ["Archiver", "Stages", "Pause", "Pipeline"]
LEVEL = "proof"
RULE = ("whole crawls (real pipeline) stopped at a chosen moment - idle, before the first fetch, while the origin holds requests open, after k "
        "requests (between stages), while paused, after the queue drained - x direct / SOCKS5 proxy x synchronous / asynchronous WARC writing "
        "x rate limiter on / off x seencheck on / off x workers 1..4 x WARC pool 1..3 x local queue / fake crawl HQ; the stop must return "
        "within the HTTP timeout plus a margin without a panic, and afterwards every WARC file must carry its final name and consist of "
        "complete members (read back with compress/gzip). Non-trivial: a stop while requests were in flight or while paused; distinct by "
        "(configuration, moment)")
MOMENTS = ["idle", "first", "held", "requests", "requests", "paused", "drain", "paused-hub", "retrying", "lowdisk"]


def site(r):
    pages = {}
    for k in range(3):
        assets = ["/s%d/a%d.png" % (k, i) for i in range(r.randrange(1, 6))]
        pages["/s%d/" % k] = {"ctype": "text/html", "body": {"kind": "html", "assets": assets, "outlinks": []}}
        for a in assets:
            pages[a] = {"ctype": "image/png", "body": {"kind": "png", "size": r.choice([100, 5000, 300000]), "seed": 7}, "delayMs": r.choice([0, 0, 50, 200])}
    return pages


def gen(r, k, moment=None, cfg=None, transport=None):
    m = moment or MOMENTS[k % len(MOMENTS)]
    c = cfg or {"workers": r.choice([1, 2, 4]), "maxConcurrentAssets": r.choice([1, 3]), "maxRetry": 0, "httpTimeout": 3,
                "socksProxy": r.random() < 0.35, "warcAsync": r.random() < 0.4, "disableRateLimit": r.random() < 0.6,
                "disableSeencheck": r.random() < 0.3, "warcPoolSize": r.choice([1, 2, 3]), "hqBatchSize": 2}
    pages = site(r)
    scn = {"seeds": ["/s0/", "/s1/", "/s2/"], "site": pages, "cfg": c, "useHQ": r.random() < 0.4, "moment": m}
    if m == "paused-hub":
        # paused while a postprocessor worker is handing on more outlinks than the next channel can hold
        pages["/hub/"] = {"ctype": "text/html", "body": {"kind": "html", "assets": [], "outlinks": ["/hub/p%d" % i for i in range(r.choice([50, 400]))]}}
        scn["seeds"] = ["/hub/"]
        c["maxHops"] = 1
        scn["stop"] = {"when": "paused", "n": 1, "extraMs": 300, "timeoutMs": 8000}
    elif m == "retrying":
        # more failing assets than asset slots, retries with back-off: the stop arrives while started captures are off the wire
        assets = ["/rt/a%d.bin" % i for i in range(6)]
        pages["/rt/"] = {"ctype": "text/html", "body": {"kind": "html", "assets": assets, "outlinks": []}}
        if transport is None:
            transport = r.random() < 0.5       # the attempts fail on the wire (no response at all) instead of with a 503
        for a in assets:
            pages[a] = {"status": 503, "ctype": "text/plain", "body": {"kind": "text", "size": 20, "seed": 1}}
            if transport:
                pages[a]["attempts"] = [{"reset": True}] * 4
        scn["seeds"] = ["/rt/"]
        c["maxRetry"], c["maxConcurrentAssets"], c["workers"] = 2, 2, 1
        scn["stop"] = {"when": "requests", "n": r.choice([3, 4, 5]), "extraMs": r.choice([100, 500, 1200]), "timeoutMs": 15000, "afterStopMs": 5000}
    elif m == "idle":
        scn["seeds"] = []
        scn["stop"] = {"when": "time", "ms": 300}
    elif m == "first":
        scn["stop"] = {"when": "time", "ms": 0}
    elif m == "held":
        for p in list(pages)[:4]:
            pages[p]["hold"] = True
        scn["stop"] = {"when": "requests", "n": r.randrange(1, 3), "extraMs": 100, "releaseHeld": r.random() < 0.5, "timeoutMs": 5000}
    elif m == "requests":
        scn["stop"] = {"when": "requests", "n": r.randrange(1, 9), "extraMs": r.choice([0, 5, 50]), "timeoutMs": 8000}
    elif m == "paused":
        scn["stop"] = {"when": "paused", "n": r.randrange(0, 4), "extraMs": 100, "timeoutMs": 8000}
    elif m == "lowdisk":
        # the pipeline is paused by the crawler's own disk watcher (its tick is 5 s), the volume stays full, the operator stops the job
        scn["stop"] = {"when": "lowdisk", "n": r.randrange(0, 3), "extraMs": r.choice([50, 400]), "timeoutMs": 14000}
    else:
        scn["stop"] = {"when": "drain", "timeoutMs": 30000}
    scn["stop"]["stopTimeoutMs"] = 20000
    return scn


def judge(ctx, scn, rep, err):
    rp = {"domain": "e2e", "scenario": scn}
    c = scn["cfg"]
    what = "stop %s under %s" % (scn["moment"], {k: v for k, v in c.items() if v not in (False, 0, None)})
    ctx.case(json.dumps([c, scn["moment"], scn.get("useHQ")]), scn["moment"] in ("held", "requests", "paused", "paused-hub", "retrying", "lowdisk"))
    ctx.count("moment:" + scn["moment"])
    for k in ("socksProxy", "warcAsync", "disableSeencheck"):
        if c.get(k):
            ctx.count("cfg:" + k)
    if rep.get("died") or rep.get("harnessLine"):
        ctx.violation("the crawler crashed before / during the %s: %s" % (what, rep.get("panic") or rep.get("harnessLine") or err[-300:]), rp); return
    if rep.get("harnessTimeout"):
        ctx.violation("the run never came back (%s)" % what, rp); return
    if rep.get("requestsAfterStop"):
        ctx.violation("%d request(s) reached the origin after controler.Stop() had returned (%s)" % (rep["requestsAfterStop"], what), rp); return
    if rep.get("stopPanic"):
        ctx.violation("controler.Stop() panicked (%s): %s" % (what, rep["stopPanic"]), rp); return
    if rep.get("stopHung"):
        ctx.violation("controler.Stop() had not returned after 20 s (%s); blocked: %s" % (what, (rep.get("blocked") or [])[:3]), rp); return
    bound = (c.get("httpTimeout", 5) + 6 + (4 if scn["moment"] == "retrying" else 0)) * 1000      # a capture in back-off sleeps up to 2 x retry seconds
    if rep.get("stopMs", 0) > bound:
        ctx.violation("controler.Stop() took %d ms (bound %d ms) (%s)" % (rep["stopMs"], bound, what), rp); return
    opened = [f for f in rep.get("warcFiles") or [] if f.endswith(".open")]
    if opened:
        ctx.violation("after the stop a WARC file still has its .open name: %s (%s)" % (opened, what), rp); return
    if rep.get("warcTrailing"):
        ctx.violation("after the stop a WARC file ends in an incomplete member: %s (%s)" % (rep["warcTrailing"], what), rp); return
    for rc in rep.get("warcRecords") or []:
        if not rc["complete"] or rc.get("err"):
            ctx.violation("after the stop an incomplete / unreadable record is on disk: %s (%s)" % (rc, what), rp); return
    if c.get("socksProxy") and rep.get("requests") and not rep.get("proxiedConnections"):
        ctx.violation("requests were sent although none went through the configured proxy (%s)" % what, rp); return
    ctx.count("stops-ok")


def run(ctx):
    r = ctx.rng
    n = 250 if ctx.thorough() else 21
    d = os.path.join(core.VERIF, "corpus", "C03")
    scns = []
    for f in sorted(os.listdir(d)) if os.path.isdir(d) else []:
        scns.append(json.load(open(os.path.join(d, f)))["scenario"])
    scns += [gen(r, k) for k in range(n)]
    scns += [gen(r, n + 1, moment="retrying", transport=True)]
    results = e2e.run_many(scns, timeout=120, workers=10)
    for scn, (rep, err) in zip(scns, results):
        judge(ctx, scn, rep, err)
    ctx.sample({"cfg": scns[-1]["cfg"], "stop": scns[-1]["stop"], "moment": scns[-1]["moment"]})
    ctx.assumptions += ["the WARC library's Close() (flush, rename from .open) is its contract, validated by reading every file back after each stop",
                        "'bounded time' is taken as HTTP timeout + 6 s: archiver.Stop waits for the requests in flight",
                        "stop moments are chosen by origin-side progress (requests seen, requests held open), not by instrumented points inside Zeno"]


def replay(ctx, doc):
    rp = doc.get("replay", doc)
    if "scenario" in rp:
        rep, err = e2e.run_one(rp["scenario"], timeout=120)
        judge(ctx, rp["scenario"], rep, err)
