"""C11 — the item tree stays well-formed and completion is detected exactly."""
import itertools, json, os, re
from . import core

SECTIONS = ["Item", "Stages"]
LEVEL = "proof"
RULE = ("(i) exhaustive small scope: every ordered tree shape up to N nodes x every status assignment (8^n) with a URL pattern per tree, "
        "through CheckConsistency, GetMaxDepth, depths, GetNodesAtLevel, CompleteAndCheck, DedupeItems; (ii) pipeline-shaped operation "
        "sequences (pre/arch/post/finish passes built from setstatus/addchild/removechild/dedupe/complete) driven interactively against "
        "the real package on trees that grow to dozens of nodes, URLs drawn from a small pool to force duplicates. A case is non-trivial "
        "when the tree has >= 3 nodes and (a consistency error, a removal by dedupe, or a status change by completion) occurred; "
        "distinct by (tree, op)")
STATUSES = ["Fresh", "PreProcessed", "Archived", "Failed", "Completed", "Seen", "GotRedirected", "GotChildren"]
PENDING = {"Fresh", "PreProcessed", "Archived"}
NOWORK = {"Completed", "Seen", "Failed"}


# ---- tree shapes -----------------------------------------------------------------------

def shapes(n):
    """ordered rooted trees with n nodes, as nested lists of children"""
    if n == 1:
        return [[]]
    out = []
    for parts in compositions(n - 1):
        for kids in itertools.product(*[shapes(k) for k in parts]):
            out.append(list(kids))
    return out


def compositions(n):
    if n == 0:
        yield []
        return
    for first in range(1, n + 1):
        for rest in compositions(n - first):
            yield [first] + rest


def build(shape, statuses, urls, vias=None):
    """assign ids n0.. in preorder"""
    ctr = [0]

    def rec(sh):
        i = ctr[0]; ctr[0] += 1
        node = ["n%d" % i, urls[i], statuses[i], bool(vias and vias[i]), []]
        for k in sh:
            node[4].append(rec(k))
        return node
    return rec(shape)


def parse_dump(s):
    """inverse of the harness/driver dump: id|url|Status[kids]"""
    pos = [0]

    def node():
        m = re.compile(r"([^|\[\],]*)\|([^|\[\],]*)\|([A-Za-z]+)\[").match(s, pos[0])
        if not m:
            raise ValueError("bad dump at %d: %s" % (pos[0], s[pos[0]:pos[0] + 40]))
        pos[0] = m.end()
        kids = []
        while s[pos[0]] != "]":
            if s[pos[0]] == ",":
                pos[0] += 1
            kids.append(node())
        pos[0] += 1
        return {"id": m.group(1), "url": m.group(2), "st": m.group(3), "kids": kids}
    return node()


def walk(t, depth=0, parent=None):
    yield t, depth, parent
    for k in t["kids"]:
        yield from walk(k, depth + 1, t)


def any_pending(t):
    return any(n["st"] in PENDING for n, _, _ in walk(t))


def max_depth(t):
    return max(d for _, d, _ in walk(t))


# ---- exhaustive small scope ----------------------------------------------------------------

def exhaustive(ctx, maxn, sample=None):
    lines, meta = [], []
    r = ctx.rng
    for n in range(1, maxn + 1):
        for sh in shapes(n):
            assigns = itertools.product(STATUSES, repeat=n)
            for sts in assigns:
                if sample is not None and n == maxn and r.random() > sample:
                    continue
                pool = ["u%d" % k for k in range(max(1, n - 1))]
                urls = ["root"] + [r.choice(pool) for _ in range(n - 1)]
                vias = [False] + [r.random() < 0.03 for _ in range(n - 1)]
                t = build(sh, list(sts), urls, vias)
                tl = json.dumps({"op": "tree", "t": t})
                lines.append(tl); meta.append(("tree", t))
                for op in ({"op": "check"}, {"op": "maxdepth"}, {"op": "depths"}, {"op": "level", "n": 1}, {"op": "level", "n": 2},
                           {"op": "complete"}):
                    lines.append(json.dumps(op)); meta.append((op["op"], t))
                lines.append(tl); meta.append(("tree", t))
                lines.append(json.dumps({"op": "dedupe"})); meta.append(("dedupe", t))
    impl, model = ctx.pair("item", lines, timeout=3000)
    ntrees = 0
    for (op, t), l, a, b in zip(meta, lines, impl, model):
        if op == "tree":
            ntrees += 1
            continue
        n = sum(1 for _ in walk_spec(t))
        nontriv = n >= 3 and ((op == "check" and a != "ok") or (op == "dedupe" and a.count("|") // 2 < n) or
                              (op == "complete" and a.startswith("true")))
        ctx.case(op + json.dumps(t), nontriv)
        ctx.count("exh:" + op)
        if a != b:
            ctx.disagree({"tree": t, "op": op}, a, b)
        if op == "dedupe":
            # "leaves exactly one node per URL": holds for every tree with unique ids, whatever the statuses
            ua = urls_of(parse_dump(a))
            if len(ua) != len(set(ua)):
                ctx.violation("dedupe left two nodes with one URL: %s" % sorted(ua),
                              {"domain": "item", "ops": [{"op": "tree", "t": t}, {"op": "dump"}, {"op": "dedupe"}]})
    ctx.count("exhaustive-trees", ntrees // 2)
    return ntrees // 2


def walk_spec(t):
    yield t
    for k in t[4]:
        yield from walk_spec(k)


# ---- pipeline-shaped sequences ----------------------------------------------------------------

class Seq:
    def __init__(self, ctx, h):
        self.ctx, self.h, self.n = ctx, h, 0
        self.tree = None
        self.ops = []

    def do(self, op):
        out = self.h.send(op)
        self.ops.append(op)
        if op["op"] in ("dedupe", "addchild", "removechild", "setstatus", "dump"):
            self.tree = parse_dump(out)
        elif op["op"] == "complete":
            self.tree = parse_dump(out.split(" ", 1)[1])
        return out

    def fresh_id(self):
        self.n += 1
        return "c%d" % self.n


def urls_of(t, skip_root=True):
    return [n["url"] for n, d, _ in walk(t) if not (skip_root and d == 0)]


def check_ok(ctx, sq, where):
    out = sq.do({"op": "check"})
    if out != "ok":
        ctx.violation("tree not well-formed after %s: %s" % (where, out), {"domain": "item", "ops": list(sq.ops)})
        return False
    return True


def dedupe_oracle(ctx, sq, before, after, known):
    """one node per URL afterwards; no URL discarded altogether"""
    ua = urls_of(after)
    if len(ua) != len(set(ua)):
        ctx.violation("dedupe left two nodes with one URL: %s" % sorted(ua), {"domain": "item", "ops": list(sq.ops)})
    lost = set(urls_of(before)) - set(ua) - {after["url"]}
    if lost:
        # signature of the recorded finding D12: a removed node that had children / was not a leaf
        removed_with_kids = [n["id"] for n, d, _ in walk(before) if d > 0 and n["kids"] and
                             n["id"] not in {m["id"] for m, _, _ in walk(after)}]
        if removed_with_kids and known("D12"):
            ctx.count("known:D12-occurrences")
            return "D12"
        ctx.violation("dedupe discarded URL(s) %s altogether" % sorted(lost), {"domain": "item", "ops": list(sq.ops)})
    return None


def sequence(ctx, h, r, passes, fan, known):
    sq = Seq(ctx, h)
    pool = ["p%d" % k for k in range(r.choice([3, 5, 9]))]
    sq.do({"op": "tree", "t": ["seed", "root", "Fresh", False, []]})
    sq.do({"op": "dump"})
    finished = False
    for _ in range(passes):
        t = sq.tree
        lvl = max_depth(t)
        nodes = [(n, p) for n, d, p in walk(t) if d == lvl]
        # --- preprocess
        stop = False
        for n, p in nodes:
            k = r.random()
            if p is None:
                if k < 0.05:
                    sq.do({"op": "setstatus", "id": n["id"], "st": r.choice(["Failed", "Completed"])}); stop = True
            elif k < 0.15:
                sq.do({"op": "removechild", "pid": p["id"], "cid": n["id"]})
        if not stop:
            before = sq.tree
            sq.do({"op": "dedupe"})
            if dedupe_oracle(ctx, sq, before, sq.tree, known) == "D12":
                return sq, "known-D12"
            t = sq.tree
            nodes = [n for n, d, _ in walk(t) if d == lvl]
            if not nodes:
                sq.do({"op": "setstatus", "id": "seed", "st": "Completed"}); stop = True
            else:
                fresh = []
                for n in nodes:
                    if n["st"] != "Fresh":
                        continue
                    if r.random() < 0.15:
                        sq.do({"op": "setstatus", "id": n["id"], "st": "Seen"})
                    else:
                        fresh.append(n)
                if not fresh:
                    sq.do({"op": "setstatus", "id": "seed", "st": "Completed"}); stop = True
                for n in fresh:
                    sq.do({"op": "setstatus", "id": n["id"], "st": "PreProcessed"})
        check_ok(ctx, sq, "preprocess")
        # --- archive + postprocess
        if not stop:
            for n, d, _ in list(walk(sq.tree)):
                if n["st"] != "PreProcessed":
                    continue
                if r.random() < 0.12:
                    sq.do({"op": "setstatus", "id": n["id"], "st": "Failed"}); continue
                sq.do({"op": "setstatus", "id": n["id"], "st": "Archived"})
            check_ok(ctx, sq, "archive")
            for n, d, _ in list(walk(sq.tree)):
                if n["st"] != "Archived":
                    continue
                k = r.random()
                if k < 0.2:
                    sq.do({"op": "addchild", "pid": n["id"], "id": sq.fresh_id(), "url": r.choice(pool), "from": "GotRedirected"})
                elif k < 0.6 and d < 4:
                    for _ in range(r.randrange(1, fan + 1)):
                        sq.do({"op": "addchild", "pid": n["id"], "id": sq.fresh_id(), "url": r.choice(pool), "from": "GotChildren"})
                else:
                    sq.do({"op": "setstatus", "id": n["id"], "st": "Completed"})
            check_ok(ctx, sq, "postprocess")
        # --- finisher
        out = sq.do({"op": "complete"})
        done = out.startswith("true")
        pend = any_pending(sq.tree)
        if done == pend:
            ctx.violation("CompleteAndCheck returned %s but pending nodes %s" % (done, "exist" if pend else "do not exist"),
                          {"domain": "item", "ops": list(sq.ops)})
        check_ok(ctx, sq, "complete")
        if done:
            finished = True
            break
    return sq, ("finished" if finished else "cut")


def known_lookup(ctx):
    kf = core.known_findings()
    ids = {f["id"] for f in kf.get("findings", []) if f.get("property") == "C11"}
    return lambda i: i in ids


def sequences(ctx, n, passes, fan):
    h = core.Interactive("item")
    known = known_lookup(ctx)
    all_lines = []
    seqs = []
    d12 = 0
    try:
        for _ in range(n):
            start = len(h.lines)
            sq, how = sequence(ctx, h, ctx.rng, passes, fan, known)
            ctx.count("seq:" + how)
            if how == "known-D12":
                d12 += 1
            seqs.append((start, len(h.lines)))
    finally:
        h.close()
    lines, impl = h.lines, h.outs
    rc, model, err = core.run_model("item", lines, timeout=3000)
    if len(model) != len(lines):
        raise RuntimeError("driver item: %d/%d lines %s" % (len(model), len(lines), err[-500:]))
    for (a0, a1) in seqs:
        ops = [json.loads(l) for l in lines[a0:a1]]
        sizes = [len(list(walk(parse_dump(o)))) for l, o in zip(ops, impl[a0:a1]) if l["op"] == "dump" or l["op"] == "dedupe"]
        ctx.case(json.dumps(ops), len(ops) > 6)
        ctx.count("seq-max-tree-size-bucket:%d" % (min(max(sizes or [1]), 199) // 20 * 20))
        for i in range(a0, a1):
            if impl[i] != model[i]:
                ctx.disagree({"ops": ops[:i - a0 + 1]}, impl[i], model[i])
                break
    if seqs:
        a0, a1 = seqs[0]
        ctx.sample({"pipeline_shaped_ops": [json.loads(l) for l in lines[a0:min(a1, a0 + 14)]]})
    if d12:
        ctx.known.append("D12 dedupe drops a processed node that has children in favour of an earlier duplicate "
                         "(%d occurrences in this run; witness in known_findings.json)" % d12)


def corpus(ctx):
    """stored witnesses: each file holds op lists; replayed on both sides, oracles applied"""
    d = os.path.join(core.VERIF, "corpus", "C11")
    out = []
    for f in sorted(os.listdir(d)) if os.path.isdir(d) else []:
        for l in open(os.path.join(d, f)):
            if l.strip():
                out.append(json.loads(l))
    return out


def replay_ops(ctx, ops, known):
    lines = [json.dumps(o) for o in ops]
    impl, model = ctx.pair("item", lines)
    for i, (a, b) in enumerate(zip(impl, model)):
        if a != b:
            ctx.disagree({"ops": ops[:i + 1]}, a, b)
            break
    # oracles on the implementation
    tree = None
    for o, a in zip(ops, impl):
        if o["op"] == "dedupe" and tree is not None:
            class _S:  # minimal stand-in for Seq
                pass
            s = _S(); s.ops = ops
            res = dedupe_oracle(ctx, s, tree, parse_dump(a), known)
            if res == "D12":
                ctx.known.append("D12 dedupe drops a processed node that has children in favour of an earlier fresh duplicate (stored witness)")
        if o["op"] in ("dump", "dedupe", "addchild", "removechild", "setstatus"):
            tree = parse_dump(a)
        elif o["op"] == "complete":
            tree = parse_dump(a.split(" ", 1)[1])
            if a.startswith("true") == any_pending(tree):
                ctx.violation("CompleteAndCheck disagrees with the pending scan", {"domain": "item", "ops": ops})


def concurrent(ctx, n):
    """AddChild / RemoveChild from several goroutines on one parent: links must stay exact"""
    lines = [json.dumps({"op": "concurrent", "children": ctx.rng.choice([4, 16, 64]), "workers": ctx.rng.choice([2, 4, 8]),
                         "rounds": 300, "seed": ctx.rng.randrange(1 << 30)}) for _ in range(n)]
    rc, out, err = core.run_impl("item", lines, timeout=900)
    for l, a in zip(lines, out):
        ctx.case("conc" + l, True)
        ctx.count("concurrent:" + a.split(" ")[0])
        if not a.startswith("ok"):
            ctx.violation("concurrent AddChild/RemoveChild broke the children list: " + a, {"domain": "item", "concurrent": json.loads(l), "impl": a})


def dedupe_in_the_pipeline(ctx, n):
    """de-duplication as the preprocessor applies it to a seed's tree, pass after pass (real preprocess / postprocess, scripted site): chains that
    come back to a URL already visited, requisites that redirect to one another, a lone fresh node that duplicates a processed one. Judged:
    no URL is fetched by two different non-seed nodes, and a URL the page planted is fetched (or excused) - never discarded altogether."""
    from . import stage
    r = ctx.rng
    h = core.Interactive("stage")
    run_ = stage.Run(ctx, h)
    try:
        for k in range(n):
            site = stage.Site()
            base = "http://site.example"
            shape = k % 4
            if shape == 0:      # start -> /b -> /c -> /b : the chain returns to a visited URL, alone on its level
                site.add(base + "/start%d" % k, status=302, location="/b%d" % k)
                site.add(base + "/b%d" % k, status=302, location="/c%d" % k)
                site.add(base + "/c%d" % k, status=302, location="/b%d" % k)
                seed, planted = base + "/start%d" % k, [base + "/b%d" % k, base + "/c%d" % k]
            elif shape == 1:    # a stylesheet-like document whose only requisite the page already had
                site.add(base + "/page%d" % k, assets=["/img/x%d.png" % k, "/data%d.json" % k], outlinks=[])
                site.add(base + "/img/x%d.png" % k, ctype="image/png", body="\x89PNG\r\n\x1a\n" + "0" * 20, kind="bin")
                site.add(base + "/data%d.json" % k, ctype="application/json", kind="json", assets=[base + "/img/x%d.png" % k], outlinks=[])
                seed, planted = base + "/page%d" % k, [base + "/img/x%d.png" % k, base + "/data%d.json" % k]
            elif shape == 2:    # two requisites redirecting to the same target, one of them via a detour
                site.add(base + "/hub%d" % k, assets=["/r1_%d" % k, "/r2_%d" % k, "/t%d.png" % k], outlinks=[])
                site.add(base + "/r1_%d" % k, status=301, location="/t%d.png" % k)
                site.add(base + "/r2_%d" % k, status=301, location="/r1_%d" % k)
                site.add(base + "/t%d.png" % k, ctype="image/png", body="\x89PNG\r\n\x1a\n" + "1" * 20, kind="bin")
                seed, planted = base + "/hub%d" % k, [base + "/r1_%d" % k, base + "/r2_%d" % k, base + "/t%d.png" % k]
            else:               # random duplicates among requisites
                names = ["/a%d.png" % k, "/b%d.png" % k, "/c%d.png" % k]
                assets = [r.choice(names) for _ in range(r.randrange(2, 8))]
                site.add(base + "/dups%d" % k, assets=assets, outlinks=[])
                seed, planted = base + "/dups%d" % k, [base + x for x in set(assets)]
            cfg = {"includeHosts": [], "includeStrings": [], "excludeHosts": list(stage.DEFAULT_EXCLUDED), "excludeStrings": [], "regexes": [], "disableAssets": False,
                   "maxHops": 0, "maxRedirect": 5, "disableSeencheck": True, "domainsCrawl": [], "disableHTMLTag": [], "captureAlternatePages": False}
            act, tree, trace = stage.run_seed(run_, cfg, site, seed, seed_id="dd%d" % k, max_passes=12)
            rp = {"domain": "stage", "cfg": cfg, "seed": seed, "site": site.pages}
            ctx.case("pipe-dedupe" + json.dumps([shape, seed, sorted(site.pages)]), True)
            ctx.count("pipeline-dedupe:shape%d" % shape)
            by = {}
            bad = False
            for q in trace["requests"]:
                if not q["chain"]:
                    continue
                if q["canon"] in by and by[q["canon"]] != q["id"]:
                    ctx.violation("%s is fetched by two different nodes of the tree of %s (de-duplication left two nodes for one URL)" % (q["canon"], seed), dict(rp, url=q["canon"]))
                    bad = True; break
                by[q["canon"]] = q["id"]
            if bad:
                continue
            got = {q["canon"] for q in trace["requests"]}
            for u in planted:
                if u not in got:
                    ctx.violation("%s, referenced in the tree of %s, was never fetched: de-duplication discarded the URL altogether" % (u, seed), dict(rp, url=u)); break
            else:
                if act not in ("finish",):
                    ctx.violation("the seed %s did not end (%s after %d passes): completion is not detected" % (seed, act, trace["passes"]), rp)
    finally:
        h.send({"op": "close"}); h.close()
    stage.compare(ctx, run_, "C11 dedupe in the pipeline")


def run(ctx):
    dedupe_in_the_pipeline(ctx, 200 if ctx.thorough() else 16)
    known = known_lookup(ctx)
    for ops in corpus(ctx):
        replay_ops(ctx, ops, known)
        ctx.case(json.dumps(ops), True)
    if ctx.thorough():
        exhaustive(ctx, 5, sample=0.25)
        sequences(ctx, 1500, 6, 4)
    else:
        exhaustive(ctx, 4)
        sequences(ctx, 120, 5, 3)
    concurrent(ctx, 40 if ctx.thorough() else 4)
    ctx.known = sorted(set(ctx.known))
    ctx.assumptions += ["node ids are unique (NewItem callers use fresh UUIDs / hashes)",
                        "childrenMu locking and data races are outside the model (single-goroutine use per seed)"]


def replay(ctx, doc):
    rp = doc.get("replay", doc)
    if rp.get("domain") == "stage":
        from . import stage
        h = core.Interactive("stage")
        run_ = stage.Run(ctx, h)
        try:
            site = stage.Site(); site.pages = rp["site"]
            act, tree, trace = stage.run_seed(run_, rp["cfg"], site, rp["seed"], seed_id="replay", max_passes=12)
            by = {}
            for q in trace["requests"]:
                if q["chain"]:
                    if q["canon"] in by and by[q["canon"]] != q["id"]:
                        ctx.violation("replay: %s fetched by two nodes" % q["canon"], rp)
                    by[q["canon"]] = q["id"]
            if rp.get("url") and rp["url"] not in {q["canon"] for q in trace["requests"]}:
                ctx.violation("replay: %s was never fetched" % rp["url"], rp)
        finally:
            h.send({"op": "close"}); h.close()
        return
    if "concurrent" in rp:
        rc, out, err = core.run_impl("item", [json.dumps(dict(rp["concurrent"], op="concurrent"))], timeout=900)
        if not out[0].startswith("ok"):
            ctx.violation("concurrent AddChild/RemoveChild broke the children list: " + out[0], rp)
        return
    ops = rp.get("ops") or rp.get("input", {}).get("ops")
    if ops:
        replay_ops(ctx, ops, known_lookup(ctx))
