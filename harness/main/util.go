//go:build verif

package main

import "bytes"

func bytesReader(b []byte) *bytes.Reader { return bytes.NewReader(b) }
