//go:build verif

package main

import (
	"sync/atomic"
	"sync"
	"bytes"
	"encoding/hex"
	"encoding/json"
	"fmt"
	"net/http"
	"os"
	"runtime"
	"sort"
	"strings"
	"time"

	"github.com/internetarchive/Zeno/internal/pkg/archiver"
	"github.com/internetarchive/Zeno/internal/pkg/config"
	"github.com/internetarchive/Zeno/internal/pkg/postprocessor"
	"github.com/internetarchive/Zeno/internal/pkg/postprocessor/domainscrawl"
	"github.com/internetarchive/Zeno/internal/pkg/postprocessor/extractor"
	"github.com/internetarchive/Zeno/pkg/models"
)

// extract domain: one document through the real body processing and the real extractor dispatch.

func bodyOf(in map[string]any) []byte {
	if h := str(in, "bodyhex"); h != "" {
		b, _ := hex.DecodeString(h)
		return b
	}
	return []byte(str(in, "body"))
}

// fetched builds an item as archive() leaves it: request, response (status, headers), body processed by ProcessBody.
func fetched(in map[string]any) (*models.Item, string) {
	u := &models.URL{Raw: str(in, "url"), Hops: num(in, "hops", 0)}
	if err := u.Parse(); err != nil {
		return nil, "unparsable"
	}
	req, err := http.NewRequest(http.MethodGet, u.String(), nil)
	if err != nil {
		return nil, "bad-request"
	}
	u.SetRequest(req)
	hdr := http.Header{}
	if ct := str(in, "ctype"); ct != "" {
		hdr.Set("Content-Type", ct)
	}
	if hs, ok := in["headers"].(map[string]any); ok {
		for k, v := range hs {
			hdr.Set(k, fmt.Sprint(v))
		}
	}
	cr := &countingReader{r: bytes.NewReader(bodyOf(in))}
	u.SetResponse(&http.Response{StatusCode: num(in, "status", 200), Header: hdr, Body: cr, Request: req})
	it := models.NewItem("doc", u, "")
	cfg := config.Get()
	if err := archiver.ProcessBody(u, cfg.DisableAssetsCapture, domainscrawl.Enabled(), cfg.MaxHops, os.TempDir()); err != nil {
		return nil, "processbody-error " + err.Error()
	}
	it.SetStatus(models.ItemArchived)
	return it, ""
}

func raws(us []*models.URL) []string {
	out := []string{}
	for _, u := range us {
		if u != nil {
			out = append(out, u.Raw)
		}
	}
	return out
}

func init() {
	register("extract", func() handler {
		baseInit()
		cfg := config.Get()
		cfg.MaxHops = 5
		cfg.UserAgent = "verif"
		return func(in map[string]any) string {
			switch str(in, "op") {
			case "cfg":
				cfg.DisableHTMLTag = strList(in, "disableHTMLTag")
				cfg.CaptureAlternatePages = boolean(in, "captureAlternatePages", false)
				cfg.MaxHops = num(in, "maxHops", 5)
				return "ok"
			case "ext":
				return fmt.Sprint(extractor.VerifHasFileExtension(str(in, "s")))
			case "jsonoracle":
				// for every string value of the document (embedded JSON included): is it a URL for the extractor?
				var doc any
				if err := json.Unmarshal(bodyOf(in), &doc); err != nil {
					return "{}"
				}
				out := map[string]bool{}
				var walk func(v any)
				walk = func(v any) {
					switch x := v.(type) {
					case string:
						out[x] = extractor.VerifIsValidURL(x)
						if !out[x] && extractor.VerifIsLikelyJSON(x) {
							var inner any
							if json.Unmarshal([]byte(x), &inner) == nil {
								walk(inner)
							}
						}
					case []any:
						for _, e := range x {
							walk(e)
						}
					case map[string]any:
						for _, e := range x {
							walk(e)
						}
					}
				}
				walk(doc)
				b, _ := json.Marshal(out)
				return string(b)
			case "concurrent":
				// {"docs":[{url,ctype,bodyhex,headers}...],"workers":n,"rounds":k}: the documents go through the extractors from n goroutines at
				// once, as the postprocessor's worker pool does (shared state of the extractors must hold up)
				docs := list(in, "docs")
				workers := num(in, "workers", 8)
				rounds := num(in, "rounds", 1)
				var wg sync.WaitGroup
				var crashes atomic.Int64
				var first atomic.Value
				for w := 0; w < workers; w++ {
					wg.Add(1)
					go func(w int) {
						defer wg.Done()
						for k := 0; k < rounds; k++ {
							for i := range docs {
								d, _ := docs[(i+w)%len(docs)].(map[string]any)
								func() {
									defer func() {
										if r := recover(); r != nil {
											crashes.Add(1)
											first.CompareAndSwap(nil, fmt.Sprint(r))
										}
									}()
									// every worker sees its own variant of the document (distinct <base> values, distinct URLs)
									dd := map[string]any{}
									for k2, v := range d {
										dd[k2] = v
									}
									if tmpl, ok := d["bodyTemplate"].(string); ok {
										dd["body"] = strings.ReplaceAll(tmpl, "{W}", fmt.Sprintf("w%dk%di%d", w, k, i))
										delete(dd, "bodyhex")
									}
									out := docOp(dd)
									if strings.HasPrefix(out, "crash") || strings.HasPrefix(out, "panic") {
										crashes.Add(1)
										first.CompareAndSwap(nil, out)
									}
								}()
							}
						}
					}(w)
				}
				finished := make(chan struct{})
				go func() { wg.Wait(); close(finished) }()
				select {
				case <-finished:
				case <-time.After(time.Duration(num(in, "timeoutMs", 60000)) * time.Millisecond):
					return "hang concurrent documents did not finish"
				}
				if crashes.Load() > 0 {
					return fmt.Sprintf("crash %d document(s): %v", crashes.Load(), first.Load())
				}
				return "ok"
			case "doc":
				// in its own goroutine, with a watchdog: a parser that spins must not take the harness with it
				done := make(chan string, 1)
				go func() {
					defer func() {
						if r := recover(); r != nil {
							done <- fmt.Sprintf("crash %v", r)
						}
					}()
					done <- docOp(in)
				}()
				select {
				case out := <-done:
					return out
				case <-time.After(time.Duration(num(in, "timeoutMs", 20000)) * time.Millisecond):
					// say where it spins: the package of the innermost non-runtime frame of the busiest-looking goroutine
					buf := make([]byte, 1<<20)
					nb := runtime.Stack(buf, true)
					where := "unknown"
					for _, g := range strings.Split(string(buf[:nb]), "\n\n") {
						if !strings.Contains(g, "main.docOp") {
							continue
						}
						for _, l := range strings.Split(g, "\n")[1:] {
							// the innermost frame outside the standard library (module paths start with a domain name)
							first := strings.SplitN(l, "/", 2)[0]
							if strings.HasPrefix(l, "\t") || !strings.Contains(first, ".") || !strings.Contains(l, "/") {
								continue
							}
							fn := strings.SplitN(l, "(", 2)[0]
							if i := strings.LastIndex(fn, "/"); i >= 0 {
								// keep "module/path/pkg", drop the function
								if j := strings.Index(fn[i:], "."); j >= 0 {
									fn = fn[:i+j]
								}
							}
							where = fn
							break
						}
						break
					}
					return "hang in " + where
				}
			}
			return "harness-error bad-op"
		}
	})
}

func docOp(in map[string]any) string {
	{
		{
			{
				// {"url","ctype","body"|"bodyhex","headers"}: what the extractors make of it
				it, msg := fetched(in)
				if it == nil {
					return msg
				}
				kept := it.GetURL().GetBody() != nil
				assets, fromAssets, aerr := postprocessor.VerifExtractAssets(it)
				var outs []*models.URL
				var oerr error
				if kept {
					outs, oerr = postprocessor.VerifExtractOutlinks(it)
				}
				a, o, f := raws(assets), raws(outs), raws(fromAssets)
				if !boolean(in, "ordered", false) {
					sort.Strings(a)
					sort.Strings(o)
					sort.Strings(f)
				}
				res := map[string]any{"kept": kept, "assets": a, "outlinks": o, "assetOutlinks": f, "mime": it.GetURL().GetMIMEType().String()}
				if aerr != nil {
					res["assetsErr"] = aerr.Error()
				}
				if oerr != nil {
					res["outlinksErr"] = oerr.Error()
				}
				if b := it.GetURL().GetBody(); b != nil {
					b.Close()
				}
				out, _ := json.Marshal(res)
				return string(out)
			}
		}
	}
}

var _ = strings.TrimSpace
