//go:build verif

package main

import (
	"fmt"
	"math/big"
	"sort"
	"strconv"
	"strings"

	"github.com/internetarchive/Zeno/internal/pkg/archiver/ratelimiter"
)

// ratToFloat parses "num/den" exactly and rounds once to float64.
func ratToFloat(s string) float64 {
	r, ok := new(big.Rat).SetString(s)
	if !ok {
		return 0
	}
	f, _ := r.Float64()
	return f
}

// secToNs: times travel as exact rationals of seconds that are whole numbers of nanoseconds.
func secToNs(s string) int64 {
	r, ok := new(big.Rat).SetString(s)
	if !ok {
		return 0
	}
	r.Mul(r, big.NewRat(1000000000, 1))
	if !r.IsInt() {
		return r.Num().Int64() / r.Denom().Int64()
	}
	return r.Num().Int64()
}

func init() {
	register("rl", func() handler {
		var b *ratelimiter.VerifBucket
		var m *ratelimiter.VerifManager
		show := func() string {
			tok, rate, pen, last, fails := b.State()
			return fmt.Sprintf("tokens=%s rate=%s pen=%d last=%d fails=%d", strconv.FormatFloat(tok, 'g', 17, 64),
				strconv.FormatFloat(rate, 'g', 17, 64), pen, last, fails)
		}
		return func(in map[string]any) string {
			switch str(in, "op") {
			case "new":
				b = ratelimiter.VerifNewBucket(ratToFloat(str(in, "cap")), ratToFloat(str(in, "rate")), secToNs(str(in, "t")))
				return "ok"
			case "try":
				b.At(secToNs(str(in, "t")))
				if b.TryOnce() {
					return "release " + show()
				}
				return "wait " + show()
			case "tryreal":
				b.At(secToNs(str(in, "t")))
				if b.TryReal() {
					return "release " + show()
				}
				return "wait " + show()
			case "fail":
				b.At(secToNs(str(in, "t")))
				b.Fail(num(in, "code", 0))
				return "- " + show()
			case "ok":
				b.At(secToNs(str(in, "t")))
				b.Success()
				return "- " + show()
			case "waitreal":
				b.At(secToNs(str(in, "t")))
				t, ok := b.WaitReal(50_000_000, 2000)
				if !ok {
					return "timeout"
				}
				return fmt.Sprintf("returned-at=%d", t)
			case "firstcontact":
				return ratelimiter.VerifFirstContact(num(in, "hosts", 20), num(in, "workers", 8))
			case "mgr":
				if m != nil {
					m.Close()
				}
				m = ratelimiter.VerifNewManager(num(in, "max", 1))
				return "ok"
			case "get":
				return fmt.Sprintf("size=%d", m.Get(str(in, "host")))
			case "mfail":
				return fmt.Sprintf("size=%d", m.Report(str(in, "host"), num(in, "code", 503)))
			case "msucc":
				return fmt.Sprintf("size=%d", m.Report(str(in, "host"), 0))
			case "hosts":
				var out []string
				for k, v := range m.Hosts() {
					out = append(out, fmt.Sprintf("%s:%d", k, v))
				}
				sort.Strings(out)
				return strings.Join(out, ",")
			}
			return "harness-error bad-op"
		}
	})
}
