//go:build verif

// verifharness: runs the real Zeno code on one JSON operation per input line and prints one
// canonical result line per operation. Lives in /verif/harness and is compiled into the Zeno
// module with `go build -overlay` (see /verif/DESIGN.md §1.2); never copied into /repo.
package main

import (
	"bufio"
	"encoding/json"
	"fmt"
	"os"
	"runtime"
	"syscall"
)

type handler func(in map[string]any) string

var domains = map[string]func() handler{}

func register(name string, mk func() handler) { domains[name] = mk }

func str(m map[string]any, k string) string {
	if v, ok := m[k]; ok {
		switch x := v.(type) {
		case string:
			return x
		case float64:
			return fmt.Sprintf("%v", x)
		case json.Number:
			return x.String()
		}
	}
	return ""
}

func num(m map[string]any, k string, d int) int {
	if v, ok := m[k]; ok {
		switch x := v.(type) {
		case json.Number:
			i, err := x.Int64()
			if err == nil {
				return int(i)
			}
		case string:
			var i int
			if _, err := fmt.Sscan(x, &i); err == nil {
				return i
			}
		}
	}
	return d
}

func boolean(m map[string]any, k string, d bool) bool {
	if v, ok := m[k]; ok {
		if b, ok := v.(bool); ok {
			return b
		}
	}
	return d
}

func list(m map[string]any, k string) []any {
	if v, ok := m[k]; ok {
		if a, ok := v.([]any); ok {
			return a
		}
	}
	return nil
}

// protocolOut is the original stdout (fd 1 itself is redirected to stderr because Zeno logs to it)
var protocolOut *os.File

func safely(h handler, in map[string]any) (out string) {
	defer func() {
		if r := recover(); r != nil {
			if _, isRuntime := r.(runtime.Error); isRuntime {
				out = fmt.Sprintf("crash %v", r) // nil dereference, index out of range, ...: never deliberate
			} else {
				out = fmt.Sprintf("panic %v", r)
			}
		}
	}()
	return h(in)
}

func main() {
	if len(os.Args) < 2 {
		fmt.Fprintln(os.Stderr, "usage: hbin <domain>")
		os.Exit(2)
	}
	mk, ok := domains[os.Args[1]]
	if !ok {
		fmt.Fprintln(os.Stderr, "unknown domain", os.Args[1])
		os.Exit(2)
	}
	// protocol output goes to the original stdout; anything Zeno logs to fd 1 is sent to stderr
	realFd, derr := syscall.Dup(1)
	if derr != nil {
		fmt.Fprintln(os.Stderr, "dup:", derr)
		os.Exit(2)
	}
	_ = syscall.Dup2(2, 1)
	realOut := os.NewFile(uintptr(realFd), "protocol-out")
	protocolOut = realOut
	h := mk()
	in := bufio.NewReaderSize(os.Stdin, 1<<20)
	out := bufio.NewWriter(realOut)
	defer out.Flush()
	for {
		line, err := in.ReadBytes('\n')
		if len(line) > 0 {
			if len(line) == 1 {
				fmt.Fprintln(out, "")
			} else {
				dec := json.NewDecoder(bytesReader(line))
				dec.UseNumber()
				var m map[string]any
				if e := dec.Decode(&m); e != nil {
					fmt.Fprintln(out, "harness-error parse", e)
				} else {
					fmt.Fprintln(out, safely(h, m))
				}
			}
			out.Flush()
		}
		if err != nil {
			return
		}
	}
}
