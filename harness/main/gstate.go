//go:build verif

package main

import (
	"bytes"
	"regexp"
	"runtime"
	"strconv"
	"strings"
	"time"
)

// goid returns the calling goroutine's id (parsed from its stack header).
func goid() int {
	buf := make([]byte, 64)
	n := runtime.Stack(buf, false)
	f := bytes.Fields(buf[:n])
	if len(f) >= 2 {
		if id, err := strconv.Atoi(string(f[1])); err == nil {
			return id
		}
	}
	return -1
}

var gHeader = regexp.MustCompile(`(?m)^goroutine (\d+) \[([^\]]*)\]:`)

type gInfo struct {
	state string
	stack string
}

// gSnapshot returns state and stack text of every goroutine.
var gBuf = make([]byte, 1<<16)

func gSnapshot() map[int]gInfo {
	var buf []byte
	for {
		n := runtime.Stack(gBuf, true)
		if n < len(gBuf) {
			buf = gBuf[:n]
			break
		}
		gBuf = make([]byte, 2*len(gBuf))
	}
	out := map[int]gInfo{}
	idx := gHeader.FindAllSubmatchIndex(buf, -1)
	for i, m := range idx {
		id, _ := strconv.Atoi(string(buf[m[2]:m[3]]))
		st := string(buf[m[4]:m[5]])
		end := len(buf)
		if i+1 < len(idx) {
			end = idx[i+1][0]
		}
		out[id] = gInfo{state: st, stack: string(buf[m[0]:end])}
	}
	return out
}

func parkedState(st string) bool {
	if i := strings.Index(st, ","); i >= 0 {
		st = st[:i]
	}
	switch st {
	case "select", "chan send", "chan receive", "semacquire", "sync.Mutex.Lock", "sync.RWMutex.Lock",
		"sync.RWMutex.RLock", "sync.WaitGroup.Wait", "sync.Cond.Wait", "select (no cases)", "chan send (nil chan)",
		"chan receive (nil chan)":
		return true
	}
	return false
}

// settle waits until every goroutine selected by `watch` (ids) and every goroutine whose stack
// mentions one of `fnames` is parked or gone, observed in two consecutive snapshots.
// Returns the set of watched ids that are parked (still alive).
func settle(watch []int, fnames []string, self int) map[int]bool {
	stable := 0
	var parked map[int]bool
	deadline := time.Now().Add(5 * time.Second)
	for time.Now().Before(deadline) {
		runtime.Gosched()
		snap := gSnapshot()
		ok := true
		parked = map[int]bool{}
		for _, id := range watch {
			if g, alive := snap[id]; alive {
				if parkedState(g.state) {
					parked[id] = true
				} else {
					ok = false
				}
			}
		}
		for id, g := range snap {
			if id == self {
				continue
			}
			for _, fnm := range fnames {
				if strings.Contains(g.stack, fnm) && !parkedState(g.state) {
					ok = false
				}
			}
		}
		if ok {
			stable++
			if stable >= 2 {
				return parked
			}
			time.Sleep(100 * time.Microsecond)
		} else {
			stable = 0
			time.Sleep(50 * time.Microsecond)
		}
	}
	return parked
}
