//go:build verif

package main

import (
	"errors"
	"fmt"
	"math/rand"
	"sort"
	"strings"
	"sync"
	"sync/atomic"
	"time"

	"github.com/internetarchive/Zeno/internal/pkg/reactor"
	"github.com/internetarchive/Zeno/pkg/models"
)

func reactorErr(err error) string {
	switch {
	case err == nil:
		return "ok"
	case errors.Is(err, reactor.ErrReactorFrozen):
		return "frozen"
	case errors.Is(err, reactor.ErrReactorShuttingDown):
		return "shutdown"
	case errors.Is(err, reactor.ErrReactorNotInitialized):
		return "notinit"
	case errors.Is(err, reactor.ErrFeedbackItemNotPresent):
		return "notpresent"
	case errors.Is(err, reactor.ErrFinisehdItemNotFound):
		return "notfound"
	case errors.Is(err, reactor.ErrReactorAlreadyInitialized):
		return "rejected"
	}
	return "err:" + err.Error()
}

type pendingOp struct {
	id   string
	gid  int
	done chan string
}

func init() {
	register("reactor", func() handler {
		var out chan *models.Item
		items := map[string]*models.Item{}
		var pending []*pendingOp
		dead := false
		self := goid()
		mkItem := func(id string) *models.Item {
			u := &models.URL{Raw: "http://h.example/" + id}
			_ = u.Parse()
			it := models.NewItem(id, u, "")
			items[id] = it
			return it
		}
		// launch runs f in its own goroutine and waits until it finished or parked
		launch := func(id string, f func() string) string {
			p := &pendingOp{id: id, done: make(chan string, 1)}
			started := make(chan struct{})
			go func() {
				p.gid = goid()
				close(started)
				defer func() {
					if r := recover(); r != nil {
						p.done <- "panic"
					}
				}()
				p.done <- f()
			}()
			<-started
			var ids []int
			for _, q := range pending {
				ids = append(ids, q.gid)
			}
			ids = append(ids, p.gid)
			settle(ids, []string{"reactor.(*reactor).run"}, self)
			select {
			case r := <-p.done:
				return r
			default:
				pending = append(pending, p)
				return "blocked"
			}
		}
		late := func() string {
			var ids []int
			for _, q := range pending {
				ids = append(ids, q.gid)
			}
			settle(ids, []string{"reactor.(*reactor).run"}, self)
			var res []string
			var keep []*pendingOp
			for _, q := range pending {
				select {
				case r := <-q.done:
					if r == "frozen" || r == "shutdown" {
						r = "rejected"
					}
					if r == "panic" {
						dead = true // the real process would have died here
					}
					res = append(res, q.id+"="+r)
				default:
					keep = append(keep, q)
				}
			}
			pending = keep
			if len(res) == 0 {
				return ""
			}
			sort.Strings(res)
			return " late:" + strings.Join(res, ",")
		}
		return func(in map[string]any) string {
			op := str(in, "op")
			if op == "racefinish" {
				if reactor.VerifRunning() {
					reactor.Stop()
				}
				return reactorRaceFinish(num(in, "rounds", 2000))
			}
			if op == "racefeedback" {
				if reactor.VerifRunning() {
					reactor.Stop()
				}
				return reactorRaceFeedback(num(in, "rounds", 2000))
			}
			if op == "racefreeze" {
				if reactor.VerifRunning() {
					reactor.Stop()
				}
				return reactorRaceFreeze(num(in, "rounds", 200))
			}
			if op == "stress" {
				if reactor.VerifRunning() {
					reactor.Stop()
				}
				return reactorStress(num(in, "tokens", 2), num(in, "producers", 2), num(in, "consumers", 2), num(in, "seeds", 100), int64(num(in, "seed", 1)))
			}
			if op == "reset" {
				if reactor.VerifRunning() {
					reactor.Stop()
				}
				late()
				// anything still parked after Stop is abandoned (wedged histories end here)
				pending = nil
				items = map[string]*models.Item{}
				dead = false
				return "reset"
			}
			if op == "start" {
				out = make(chan *models.Item)
				return reactorErr(reactor.Start(num(in, "tokens", 1), out))
			}
			if dead {
				return "dead"
			}
			if !reactor.VerifRunning() {
				return "notinit"
			}
			id := str(in, "id")
			switch op {
			case "insert":
				it := mkItem(id)
				r := launch(id, func() string { return reactorErr(reactor.ReceiveInsert(it)) })
				if r == "panic" {
					dead = true
				}
				return r + late()
			case "feedback":
				it, ok := items[id]
				if !ok {
					it = mkItem(id)
					delete(items, id)
				}
				r := launch(id, func() string { return reactorErr(reactor.ReceiveFeedback(it)) })
				if r == "blocked" {
					dead = true
				}
				return r + late()
			case "finish":
				it, ok := items[id]
				if !ok {
					it = mkItem(id)
					delete(items, id)
				}
				r := launch(id, func() string { return reactorErr(reactor.MarkAsFinished(it)) })
				if r == "blocked" {
					dead = true
				}
				return r + late()
			case "freeze":
				reactor.Freeze()
				return "ok" + late()
			case "stop":
				reactor.Stop()
				return "ok" + late()
			case "recv":
				settle(nil, []string{"reactor.(*reactor).run"}, self)
				select {
				case it := <-out:
					return "item:" + it.GetID() + late()
				default:
					return "empty"
				}
			case "state", "drained":
				t := reactor.GetStateTable()
				sort.Strings(t)
				return fmt.Sprintf("tokens=%d table=%s", reactor.VerifTokens(), strings.Join(t, ","))
			}
			return "harness-error bad-op"
		}
	})
}

// reactorStress drives the real reactor with concurrent producers and consumers and checks the
// accounting: never more tracked seeds than tokens, every seed finished exactly once, empty at
// the end, nothing accepted after Freeze.
func reactorStress(tokens, producers, consumers, seeds int, seed int64) string {
	out := make(chan *models.Item)
	if err := reactor.Start(tokens, out); err != nil {
		return "start-failed " + err.Error()
	}
	var finished, fbErr, finErr, maxTable, live atomic.Int64
	var wg, cwg sync.WaitGroup
	stopMon := make(chan struct{})
	go func() {
		for {
			select {
			case <-stopMon:
				return
			default:
			}
			// seeds accepted and not yet handed to MarkAsFinished: incremented after the insert
			// returned, decremented before the finish is called, so it can never exceed the tokens
			if n := live.Load(); n > maxTable.Load() {
				maxTable.Store(n)
			}
			time.Sleep(5 * time.Microsecond)
		}
	}()
	per := seeds / producers
	total := per * producers
	for p := 0; p < producers; p++ {
		wg.Add(1)
		go func(p int) {
			defer wg.Done()
			for i := 0; i < per; i++ {
				id := fmt.Sprintf("p%d-%d", p, i)
				u := &models.URL{Raw: "http://h.example/" + id}
				_ = u.Parse()
				if err := reactor.ReceiveInsert(models.NewItem(id, u, "")); err != nil {
					fbErr.Add(1)
				} else if n := live.Add(1); n > maxTable.Load() {
					maxTable.Store(n)
				}
			}
		}(p)
	}
	done := make(chan struct{})
	var mu sync.Mutex
	passes := map[string]int{}
	for c := 0; c < consumers; c++ {
		cwg.Add(1)
		go func(c int) {
			defer cwg.Done()
			rng := rand.New(rand.NewSource(seed + int64(c)))
			for {
				select {
				case <-done:
					return
				case it := <-out:
					mu.Lock()
					passes[it.GetID()]++
					n := passes[it.GetID()]
					mu.Unlock()
					if n < 4 && rng.Intn(2) == 0 {
						if err := reactor.ReceiveFeedback(it); err != nil {
							fbErr.Add(1)
						}
					} else {
						live.Add(-1)
						if err := reactor.MarkAsFinished(it); err != nil {
							finErr.Add(1)
						} else if finished.Add(1) == int64(total) {
							close(done)
						}
					}
				}
			}
		}(c)
	}
	wg.Wait()
	select {
	case <-done:
	case <-time.After(30 * time.Second):
		close(stopMon)
		return fmt.Sprintf("timeout finished=%d/%d tokens=%d table=%d", finished.Load(), total, reactor.VerifTokens(), len(reactor.GetStateTable()))
	}
	cwg.Wait()
	close(stopMon)
	tok, tab := reactor.VerifTokens(), len(reactor.GetStateTable())
	reactor.Freeze()
	accepted := 0
	for i := 0; i < 200; i++ {
		id := fmt.Sprintf("late-%d", i)
		u := &models.URL{Raw: "http://h.example/" + id}
		_ = u.Parse()
		res := make(chan error, 1)
		go func() { res <- reactor.ReceiveInsert(models.NewItem(id, u, "")) }()
		select {
		case err := <-res:
			if err == nil {
				accepted++
			}
		case <-time.After(2 * time.Second):
		}
	}
	reactor.Stop()
	status := "ok"
	if tok != 0 || tab != 0 || fbErr.Load() != 0 || finErr.Load() != 0 || maxTable.Load() > int64(tokens) || accepted != 0 {
		status = "bad"
	}
	return fmt.Sprintf("%s finished=%d/%d tokens-at-end=%d table-at-end=%d max-in-flight=%d/%d errors=%d/%d accepted-after-freeze=%d",
		status, finished.Load(), total, tok, tab, maxTable.Load(), tokens, fbErr.Load(), finErr.Load(), accepted)
}

// reactorRaceFinish: two goroutines finish the same tracked seed at the same moment; exactly one
// call may succeed and exactly one token may be released, every round.
func reactorRaceFinish(rounds int) string {
	out := make(chan *models.Item)
	if err := reactor.Start(2, out); err != nil {
		return "start-failed " + err.Error()
	}
	defer reactor.Stop()
	mk := func(id string) *models.Item {
		u := &models.URL{Raw: "http://h.example/" + id}
		_ = u.Parse()
		return models.NewItem(id, u, "")
	}
	keeper := mk("keeper")
	if err := reactor.ReceiveInsert(keeper); err != nil {
		return "insert-failed"
	}
	<-out
	double := 0
	for r := 0; r < rounds; r++ {
		it := mk(fmt.Sprintf("r%d", r))
		if err := reactor.ReceiveInsert(it); err != nil {
			return "insert-failed"
		}
		<-out
		var wg sync.WaitGroup
		var okCount atomic.Int64
		start := make(chan struct{})
		for g := 0; g < 2; g++ {
			wg.Add(1)
			go func() {
				defer wg.Done()
				<-start
				if reactor.MarkAsFinished(it) == nil {
					okCount.Add(1)
				}
			}()
		}
		close(start)
		done := make(chan struct{})
		go func() { wg.Wait(); close(done) }()
		select {
		case <-done:
		case <-time.After(3 * time.Second):
			return fmt.Sprintf("bad round=%d a finish call blocked (token pool drained)", r)
		}
		if okCount.Load() != 1 {
			double++
		}
		if reactor.VerifTokens() != 1 {
			return fmt.Sprintf("bad round=%d successes=%d tokens-in-use=%d tracked=%d (the keeper seed alone is tracked)", r, okCount.Load(), reactor.VerifTokens(), len(reactor.GetStateTable()))
		}
	}
	if double != 0 {
		return fmt.Sprintf("bad double-finish-accepted=%d", double)
	}
	return "ok"
}

// reactorRaceFeedback: a feedback and a finish of the same tracked seed at the same moment (the finisher of one pass and a
// late duplicate hand-over; or two finisher decisions about one seed). Whatever the order, afterwards the seed is either
// tracked with its token (feedback won: it comes out again, then we finish it) or gone with its token released - never
// tracked without a token, never delivered after it was finished.
func reactorRaceFeedback(rounds int) string {
	out := make(chan *models.Item, 4)
	if err := reactor.Start(2, out); err != nil {
		return "start-failed " + err.Error()
	}
	defer reactor.Stop()
	mk := func(id string) *models.Item {
		u := &models.URL{Raw: "http://h.example/" + id}
		_ = u.Parse()
		return models.NewItem(id, u, "")
	}
	keeper := mk("keeper")
	if err := reactor.ReceiveInsert(keeper); err != nil {
		return "insert-failed"
	}
	<-out
	for r := 0; r < rounds; r++ {
		it := mk(fmt.Sprintf("f%d", r))
		if err := reactor.ReceiveInsert(it); err != nil {
			return "insert-failed"
		}
		<-out
		var wg sync.WaitGroup
		start := make(chan struct{})
		var fbErr, finErr error
		wg.Add(2)
		go func() { defer wg.Done(); <-start; fbErr = reactor.ReceiveFeedback(it) }()
		go func() { defer wg.Done(); <-start; finErr = reactor.MarkAsFinished(it) }()
		close(start)
		done := make(chan struct{})
		go func() { wg.Wait(); close(done) }()
		select {
		case <-done:
		case <-time.After(3 * time.Second):
			return fmt.Sprintf("bad round=%d a call blocked", r)
		}
		// drain what the feedback may have put through
		delivered := 0
		for {
			select {
			case <-out:
				delivered++
				continue
			case <-time.After(150 * time.Microsecond):
			}
			break
		}
		tracked := len(reactor.GetStateTable())
		tokens := reactor.VerifTokens()
		if tokens != tracked {
			return fmt.Sprintf("bad round=%d feedback=%v finish=%v: tokens-in-use=%d tracked=%d delivered=%d", r, fbErr, finErr, tokens, tracked, delivered)
		}
		if finErr == nil && tracked != 1 {
			return fmt.Sprintf("bad round=%d the seed was finished (no error) but %d seeds are tracked (keeper + ghost)", r, tracked)
		}
		if tracked == 2 {
			// the feedback won and the finish found nothing (cannot happen: finish removes it) or ran first and failed: finish it now
			if err := reactor.MarkAsFinished(it); err != nil {
				return fmt.Sprintf("bad round=%d tracked seed cannot be finished: %v", r, err)
			}
		}
	}
	return "ok"
}

// reactorRaceFreeze: a saturated reactor with inserts waiting for a token; one seed is finished (its token passes to a waiting insert) and
// Freeze() follows at once - the shutdown sequence. Afterwards: an insert that was rejected left nothing behind (not tracked, no token), an
// insert that was accepted is tracked, holds a token and reaches the output once a consumer reads; tokens in use = tracked seeds.
func reactorRaceFreeze(rounds int) string {
	mk := func(id string) *models.Item {
		u := &models.URL{Raw: "http://h.example/" + id}
		_ = u.Parse()
		return models.NewItem(id, u, "")
	}
	for r := 0; r < rounds; r++ {
		out := make(chan *models.Item, 8)
		if err := reactor.Start(2, out); err != nil {
			return "start-failed " + err.Error()
		}
		a, b := mk(fmt.Sprintf("a%d", r)), mk(fmt.Sprintf("b%d", r))
		if reactor.ReceiveInsert(a) != nil || reactor.ReceiveInsert(b) != nil {
			reactor.Stop()
			return "insert-failed"
		}
		type res struct {
			it  *models.Item
			err error
		}
		results := make(chan res, 3)
		var waiting []*models.Item
		for k := 0; k < 3; k++ {
			it := mk(fmt.Sprintf("w%d_%d", r, k))
			waiting = append(waiting, it)
			go func(it *models.Item) { results <- res{it, reactor.ReceiveInsert(it)} }(it)
		}
		time.Sleep(time.Duration(200+r%7*100) * time.Microsecond) // the three inserts are parked on the token pool
		_ = reactor.MarkAsFinished(a)
		reactor.Freeze()
		accepted, rejected := map[string]bool{}, map[string]bool{}
		for k := 0; k < 3; k++ {
			select {
			case x := <-results:
				if x.err == nil {
					accepted[x.it.GetID()] = true
				} else {
					rejected[x.it.GetID()] = true
				}
			case <-time.After(3 * time.Second):
				reactor.Stop()
				return fmt.Sprintf("bad round=%d an insert waiting for a token was not woken by Freeze", r)
			}
		}
		// a consumer reads whatever the reactor still delivers
		got := map[string]bool{}
		deadline := time.After(3 * time.Second)
	drain:
		for {
			select {
			case it := <-out:
				got[it.GetID()] = true
			case <-deadline:
				break drain
			}
			if len(got) >= 2+len(accepted) {
				break
			}
		}
		tracked := map[string]bool{}
		for _, id := range reactor.GetStateTable() {
			tracked[id] = true
		}
		tokens := reactor.VerifTokens()
		reactor.Stop()
		for id := range rejected {
			if tracked[id] {
				return fmt.Sprintf("bad round=%d insert of %s was rejected (reactor frozen) but the seed is tracked; tokens-in-use=%d tracked=%d", r, id, tokens, len(tracked))
			}
		}
		for id := range accepted {
			if !tracked[id] {
				return fmt.Sprintf("bad round=%d insert of %s was accepted but the seed is not tracked", r, id)
			}
			if !got[id] {
				return fmt.Sprintf("bad round=%d accepted seed %s never reached the output although a consumer kept reading", r, id)
			}
		}
		if tokens != len(tracked) {
			return fmt.Sprintf("bad round=%d tokens-in-use=%d tracked=%d after a freeze raced the inserts", r, tokens, len(tracked))
		}
	}
	return "ok"
}
