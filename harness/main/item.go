//go:build verif

package main

import (
	"fmt"
	"math/rand"
	"sort"
	"strings"
	"sync"

	"github.com/internetarchive/Zeno/pkg/models"
)

var statusByName = map[string]models.ItemState{
	"Fresh": models.ItemFresh, "PreProcessed": models.ItemPreProcessed, "Archived": models.ItemArchived,
	"Failed": models.ItemFailed, "Completed": models.ItemCompleted, "Seen": models.ItemSeen,
	"GotRedirected": models.ItemGotRedirected, "GotChildren": models.ItemGotChildren,
}

// urlFor turns a model URL key into a real URL whose canonical string is stable.
func urlFor(key string) *models.URL {
	u := &models.URL{Raw: "http://h.example/" + key}
	_ = u.Parse()
	return u
}

func urlKey(u *models.URL) string {
	return strings.TrimPrefix(u.String(), "http://h.example/")
}

// buildTree builds a tree through the public API only (NewItem, AddChild, SetStatus).
func buildTree(spec []any, parent *models.Item, index map[string]*models.Item) (*models.Item, error) {
	if len(spec) < 5 {
		return nil, fmt.Errorf("bad node")
	}
	id, _ := spec[0].(string)
	key, _ := spec[1].(string)
	st, _ := spec[2].(string)
	via, _ := spec[3].(bool)
	kids, _ := spec[4].([]any)
	sv := ""
	if via {
		sv = "via"
	}
	u := urlFor(key)
	if len(spec) > 5 {
		u.Redirects = anyInt(spec[5])
	}
	if len(spec) > 6 {
		u.Hops = anyInt(spec[6])
	}
	it := models.NewItem(id, u, sv)
	if it == nil {
		return nil, fmt.Errorf("NewItem returned nil")
	}
	index[id] = it
	if parent != nil {
		if err := parent.AddChild(it, models.ItemGotChildren); err != nil {
			return nil, err
		}
	}
	for _, k := range kids {
		ka, _ := k.([]any)
		if _, err := buildTree(ka, it, index); err != nil {
			return nil, err
		}
	}
	it.SetStatus(statusByName[st])
	return it, nil
}

func anyInt(v any) int {
	switch x := v.(type) {
	case float64:
		return int(x)
	case interface{ Int64() (int64, error) }:
		i, _ := x.Int64()
		return int(i)
	}
	return 0
}

func dumpTree(it *models.Item) string {
	var b strings.Builder
	var rec func(n *models.Item)
	rec = func(n *models.Item) {
		fmt.Fprintf(&b, "%s|%s|%s[", n.GetID(), urlKey(n.GetURL()), n.GetStatus().String())
		for i, c := range n.GetChildren() {
			if i > 0 {
				b.WriteByte(',')
			}
			rec(c)
		}
		b.WriteByte(']')
	}
	rec(it)
	return b.String()
}

func badKind(err error) string {
	msg := err.Error()
	id := ""
	for strings.HasPrefix(msg, "child ") {
		rest := msg[len("child "):]
		i := strings.Index(rest, ": ")
		if i < 0 {
			break
		}
		id, msg = rest[:i], rest[i+2:]
	}
	kind := "other:" + msg
	switch {
	case strings.Contains(msg, "is a child but has a seedVia"):
		kind = "child-has-via"
	case strings.Contains(msg, "is fresh but has children"):
		kind = "fresh-has-children"
	case strings.Contains(msg, "parent is not ItemGotChildren or ItemGotRedirected"):
		kind = "fresh-bad-parent"
	case strings.Contains(msg, "more than one children but is ItemGotRedirected"):
		kind = "redirected-many-children"
	case strings.Contains(msg, "has children but is not"):
		kind = "children-bad-status"
	}
	return id + ":" + kind
}

func init() {
	register("item", func() handler {
		var root *models.Item
		index := map[string]*models.Item{}
		return func(in map[string]any) string {
			op := str(in, "op")
			if op == "concurrent" {
				return itemConcurrent(num(in, "children", 16), num(in, "workers", 4), num(in, "rounds", 100), int64(num(in, "seed", 1)))
			}
			if op == "tree" {
				index = map[string]*models.Item{}
				t, err := buildTree(list(in, "t"), nil, index)
				if err != nil {
					return "harness-error " + err.Error()
				}
				root = t
				return "ok"
			}
			if root == nil {
				return "harness-error no-tree"
			}
			switch op {
			case "check":
				if err := root.CheckConsistency(); err != nil {
					k := badKind(err)
					if strings.HasPrefix(k, ":") {
						k = root.GetID() + k
					}
					return "bad:" + k
				}
				return "ok"
			case "maxdepth":
				return fmt.Sprint(root.GetMaxDepth())
			case "level":
				ns, err := root.GetNodesAtLevel(int64(num(in, "n", 0)))
				if err != nil {
					return "err"
				}
				var ids []string
				for _, n := range ns {
					ids = append(ids, n.GetID())
				}
				return strings.Join(ids, ",")
			case "depths":
				var out []string
				root.Traverse(func(n *models.Item) {
					out = append(out, fmt.Sprintf("%s:%d:%d", n.GetID(), n.GetDepth(), n.GetDepthWithoutRedirections()))
				})
				return strings.Join(out, ",")
			case "dedupe":
				if err := root.DedupeItems(); err != nil {
					return "err"
				}
				return dumpTree(root)
			case "complete":
				b := root.CompleteAndCheck()
				return fmt.Sprintf("%v %s", b, dumpTree(root))
			case "addchild":
				p, ok := index[str(in, "pid")]
				if !ok {
					return dumpTree(root)
				}
				sv := ""
				if boolean(in, "via", false) {
					sv = "via"
				}
				c := models.NewItem(str(in, "id"), urlFor(str(in, "url")), sv)
				if err := p.AddChild(c, statusByName[str(in, "from")]); err != nil {
					return "err:bad-from"
				}
				index[c.GetID()] = c
				return dumpTree(root)
			case "removechild":
				p, ok1 := index[str(in, "pid")]
				c, ok2 := index[str(in, "cid")]
				if ok1 && ok2 {
					p.RemoveChild(c)
				}
				return dumpTree(root)
			case "setstatus":
				if n, ok := index[str(in, "id")]; ok {
					n.SetStatus(statusByName[str(in, "st")])
				}
				return dumpTree(root)
			case "dump":
				return dumpTree(root)
			}
			return "harness-error bad-op"
		}
	})
}

// itemConcurrent: several goroutines remove disjoint sets of children of one parent while others
// add new children; afterwards exactly the expected children must remain, each linked to the parent.
func itemConcurrent(children, workers, rounds int, seed int64) (res string) {
	defer func() {
		if r := recover(); r != nil {
			res = fmt.Sprintf("panic %v", r)
		}
	}()
	rng := rand.New(rand.NewSource(seed))
	for round := 0; round < rounds; round++ {
		parent := models.NewItem("p", urlFor("p"), "")
		kids := make([]*models.Item, children)
		for i := range kids {
			kids[i] = models.NewItem(fmt.Sprintf("k%d", i), urlFor(fmt.Sprintf("k%d", i)), "")
			if err := parent.AddChild(kids[i], models.ItemGotChildren); err != nil {
				return "err " + err.Error()
			}
		}
		// each worker removes its own share (chosen at random), and adds `adds` new children
		perm := rng.Perm(children)
		nrm := children / 2
		remove := perm[:nrm]
		var wg sync.WaitGroup
		start := make(chan struct{})
		panicked := make(chan string, workers)
		for w := 0; w < workers; w++ {
			wg.Add(1)
			go func(w int) {
				defer wg.Done()
				defer func() {
					if r := recover(); r != nil {
						panicked <- fmt.Sprint(r)
					}
				}()
				<-start
				for j := w; j < len(remove); j += workers {
					parent.RemoveChild(kids[remove[j]])
				}
				c := models.NewItem(fmt.Sprintf("n%d", w), urlFor(fmt.Sprintf("n%d", w)), "")
				_ = parent.AddChild(c, models.ItemGotChildren)
			}(w)
		}
		close(start)
		wg.Wait()
		select {
		case p := <-panicked:
			return "panic " + p
		default:
		}
		want := map[string]bool{}
		for _, idx := range perm[nrm:] {
			want[kids[idx].GetID()] = true
		}
		for w := 0; w < workers; w++ {
			want[fmt.Sprintf("n%d", w)] = true
		}
		got := map[string]bool{}
		for _, c := range parent.GetChildren() {
			if c.GetParent() != parent {
				return "bad child " + c.GetID() + " not linked to parent"
			}
			if got[c.GetID()] {
				return "bad duplicate child " + c.GetID()
			}
			got[c.GetID()] = true
		}
		if len(got) != len(want) {
			var g, wl []string
			for k := range got {
				g = append(g, k)
			}
			for k := range want {
				wl = append(wl, k)
			}
			sort.Strings(g)
			sort.Strings(wl)
			return fmt.Sprintf("bad round=%d children=%v want=%v", round, g, wl)
		}
		for k := range want {
			if !got[k] {
				return fmt.Sprintf("bad round=%d missing=%s", round, k)
			}
		}
	}
	return "ok"
}
