//go:build verif

package main

import (
	"fmt"
	"strings"
	"sync"
	"time"

	"github.com/internetarchive/Zeno/internal/pkg/config"
	"github.com/internetarchive/Zeno/internal/pkg/controler/pause"
	"github.com/internetarchive/Zeno/internal/pkg/controler/watchers"
	"github.com/internetarchive/Zeno/internal/pkg/stats"
)

var initOnce sync.Once

// baseInit prepares the global config and stats the way the command line would.
func baseInit() {
	initOnce.Do(func() {
		_ = config.InitConfig()
		_ = stats.Init()
	})
}

// diskwatch: the real CheckDiskUsage / WatchDiskSpace on the real volume of ".". "low" is
// produced by an operator setting no volume can satisfy (2^30 GiB), "not low" by a tiny one.
func init() {
	register("diskwatch", func() handler {
		baseInit()
		started := false
		return func(in map[string]any) string {
			var obs []string
			if str(in, "op") == "stopwhilelow" {
				// the watcher holds the pipeline paused because the disk is low; a stop request must still get through
				if !started {
					started = true
					config.Get().MinSpaceRequired = 1e-9
					go watchers.WatchDiskSpace(".", 2*time.Millisecond)
					time.Sleep(10 * time.Millisecond)
				}
				config.Get().MinSpaceRequired = 1073741824
				deadline := time.Now().Add(time.Second)
				for !pause.IsPaused() && time.Now().Before(deadline) {
					time.Sleep(time.Millisecond)
				}
				wasPaused := pause.IsPaused()
				done := make(chan struct{})
				go func() { watchers.StopDiskWatcher(); close(done) }()
				select {
				case <-done:
					return fmt.Sprintf("stopped pausedBefore=%v", wasPaused)
				case <-time.After(3 * time.Second):
					return fmt.Sprintf("hang pausedBefore=%v: StopDiskWatcher() did not return within 3s while the disk stayed low", wasPaused)
				}
			}
			if !started {
				started = true
				config.Get().MinSpaceRequired = 1e-9
				go watchers.WatchDiskSpace(".", 2*time.Millisecond)
			}
			for _, v := range list(in, "lows") {
				low, _ := v.(bool)
				if low {
					config.Get().MinSpaceRequired = 1073741824
				} else {
					config.Get().MinSpaceRequired = 1e-9
				}
				// start-up decision
				startRefused := watchers.CheckDiskUsage(".") != nil
				deadline := time.Now().Add(400 * time.Millisecond)
				for pause.IsPaused() != low && time.Now().Before(deadline) {
					time.Sleep(time.Millisecond)
				}
				o := "run"
				if pause.IsPaused() {
					o = "paused"
				}
				if startRefused {
					o += "+refuse-start"
				}
				obs = append(obs, o)
			}
			return strings.Join(obs, ",")
		}
	})
}
