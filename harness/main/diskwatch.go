//go:build verif

package main

import (
	"fmt"
	"strings"
	"sync"
	"sync/atomic"
	"syscall"
	"time"

	"github.com/internetarchive/Zeno/internal/pkg/config"
	"github.com/internetarchive/Zeno/internal/pkg/controler/pause"
	"github.com/internetarchive/Zeno/internal/pkg/controler/watchers"
	"github.com/internetarchive/Zeno/internal/pkg/stats"
)

var initOnce sync.Once

// baseInit prepares the global config and stats the way the command line would.
func baseInit() {
	initOnce.Do(func() {
		_ = config.InitConfig()
		_ = stats.Init()
	})
}

// diskwatch: the real CheckDiskUsage / WatchDiskSpace on the real volume of ".". "low" is
// produced by an operator setting no volume can satisfy (2^30 GiB), "not low" by a tiny one.
func init() {
	register("diskwatch", func() handler {
		baseInit()
		started := false
		return func(in map[string]any) string {
			var obs []string
			if str(in, "op") == "stopwhilelow" {
				// the watcher holds the pipeline paused because the disk is low; a stop request must still get through
				if !started {
					started = true
					config.Get().MinSpaceRequired = 1e-9
					go watchers.WatchDiskSpace(".", 2*time.Millisecond)
					time.Sleep(10 * time.Millisecond)
				}
				config.Get().MinSpaceRequired = 1073741824
				deadline := time.Now().Add(time.Second)
				for !pause.IsPaused() && time.Now().Before(deadline) {
					time.Sleep(time.Millisecond)
				}
				wasPaused := pause.IsPaused()
				done := make(chan struct{})
				go func() { watchers.StopDiskWatcher(); close(done) }()
				select {
				case <-done:
					return fmt.Sprintf("stopped pausedBefore=%v", wasPaused)
				case <-time.After(3 * time.Second):
					return fmt.Sprintf("hang pausedBefore=%v: StopDiskWatcher() did not return within 3s while the disk stayed low", wasPaused)
				}
			}
			if str(in, "op") == "statfs" {
				// the numbers CheckDiskUsage must use, taken independently, and its decision for settings just
				// below / just above the space available to the process and between "available" and "free"
				var st syscall.Statfs_t
				if err := syscall.Statfs(".", &st); err != nil {
					return "harness-error statfs: " + err.Error()
				}
				avail := st.Bavail * uint64(st.Bsize)
				free := st.Bfree * uint64(st.Bsize)
				old := config.Get().MinSpaceRequired
				defer func() { config.Get().MinSpaceRequired = old }()
				const gib = float64(1 << 30)
				decide := func(bytes float64) string {
					config.Get().MinSpaceRequired = bytes / gib
					if watchers.CheckDiskUsage(".") != nil {
						return "refuse"
					}
					return "accept"
				}
				margin := float64(256 << 20)
				out := fmt.Sprintf("avail=%d free=%d below=%s above=%s", avail, free, decide(float64(avail)-margin), decide(float64(avail)+margin))
				if float64(free) > float64(avail)+4*margin {
					out += " between=" + decide((float64(avail)+float64(free))/2)
				} else {
					out += " between=no-gap"
				}
				return out
			}
			if str(in, "op") == "slowworker" {
				// low → sufficient (one worker is slow to acknowledge the resume) → low again before that
				// acknowledgement → the worker acknowledges. The disk is low at the end: the pipeline must be paused.
				if !started {
					started = true
					config.Get().MinSpaceRequired = 1e-9
					go watchers.WatchDiskSpace(".", 2*time.Millisecond)
					time.Sleep(10 * time.Millisecond)
				}
				holdMs := num(in, "holdMs", 20)
				var workerPaused atomic.Bool
				release := make(chan struct{})
				quit := make(chan struct{})
				ch := pause.Subscribe()
				go func() {
					for {
						select {
						case <-quit:
							return
						case _, ok := <-ch.PauseCh:
							if !ok {
								return
							}
							workerPaused.Store(true)
							<-release
							select {
							case ch.ResumeCh <- struct{}{}:
							case <-quit:
								return
							}
							workerPaused.Store(false)
						}
					}
				}()
				wait := func(f func() bool) bool {
					deadline := time.Now().Add(time.Second)
					for !f() && time.Now().Before(deadline) {
						time.Sleep(time.Millisecond)
					}
					return f()
				}
				config.Get().MinSpaceRequired = 1073741824
				first := wait(func() bool { return pause.IsPaused() && workerPaused.Load() })
				config.Get().MinSpaceRequired = 1e-9
				time.Sleep(time.Duration(holdMs) * time.Millisecond)
				config.Get().MinSpaceRequired = 1073741824
				time.Sleep(time.Duration(holdMs) * time.Millisecond)
				close(release)
				// settle: several ticks
				time.Sleep(60 * time.Millisecond)
				end := wait(func() bool { return pause.IsPaused() && workerPaused.Load() })
				res := fmt.Sprintf("firstPause=%v lowAtEnd=true managerPaused=%v workerPaused=%v", first, pause.IsPaused(), workerPaused.Load())
				_ = end
				// leave the watcher running and un-paused for the next line
				config.Get().MinSpaceRequired = 1e-9
				wait(func() bool { return !pause.IsPaused() })
				close(quit)
				pause.Unsubscribe(ch)
				return res
			}
			if !started {
				started = true
				config.Get().MinSpaceRequired = 1e-9
				go watchers.WatchDiskSpace(".", 2*time.Millisecond)
			}
			for _, v := range list(in, "lows") {
				low, _ := v.(bool)
				if low {
					config.Get().MinSpaceRequired = 1073741824
				} else {
					config.Get().MinSpaceRequired = 1e-9
				}
				// start-up decision
				startRefused := watchers.CheckDiskUsage(".") != nil
				deadline := time.Now().Add(400 * time.Millisecond)
				for pause.IsPaused() != low && time.Now().Before(deadline) {
					time.Sleep(time.Millisecond)
				}
				o := "run"
				if pause.IsPaused() {
					o = "paused"
				}
				if startRefused {
					o += "+refuse-start"
				}
				obs = append(obs, o)
			}
			return strings.Join(obs, ",")
		}
	})
}
