//go:build verif

package main

import (
	"fmt"
	"sort"
	"strings"
	"sync"
	"time"

	"github.com/internetarchive/Zeno/internal/pkg/config"
	"github.com/internetarchive/Zeno/internal/pkg/finisher"
	"github.com/internetarchive/Zeno/internal/pkg/reactor"
	"github.com/internetarchive/Zeno/pkg/models"
)

// pipeline domain: the real reactor and the real finisher workers (several goroutines), wired the way
// controler/pipeline.go wires them, with the harness playing the three stages in between: each seed is
// inserted into the reactor, taken from its output, handed to the finisher with the tree the scenario
// prescribes for that pass, and followed through feedback rounds until it leaves the system.
func init() {
	register("pipeline", func() handler {
		baseInit()
		var (
			rOut, fIn, finishCh, produceCh chan *models.Item
			mu                             sync.Mutex
			acks, produced                 = map[string]int{}, map[string]int{}
			started                        bool
		)
		return func(in map[string]any) string {
			switch str(in, "op") {
			case "start":
				if started {
					finisher.Stop()
					reactor.Stop()
				}
				w := num(in, "workers", 2)
				config.Get().WorkersCount = w
				rOut = make(chan *models.Item, w)
				fIn = make(chan *models.Item, w)
				finishCh = make(chan *models.Item, w)
				produceCh = make(chan *models.Item, w)
				if err := reactor.Start(num(in, "tokens", w), rOut); err != nil {
					return "harness-error " + err.Error()
				}
				if err := finisher.Start(fIn, finishCh, produceCh); err != nil {
					return "harness-error " + err.Error()
				}
				mu.Lock()
				acks, produced = map[string]int{}, map[string]int{}
				mu.Unlock()
				go func(c chan *models.Item) {
					for it := range c {
						mu.Lock()
						acks[it.GetID()]++
						mu.Unlock()
					}
				}(finishCh)
				go func(c chan *models.Item) {
					for it := range c {
						mu.Lock()
						produced[it.GetID()]++
						mu.Unlock()
					}
				}(produceCh)
				started = true
				return "ok"
			case "seeds":
				// {"seeds":[{"tree":spec,"updates":[{"node":"status",...},...]}]} : all seeds run concurrently
				type result struct {
					id   string
					line string
				}
				specs := list(in, "seeds")
				type flight struct {
					seed    *models.Item
					index   map[string]*models.Item
					updates []any
					acts    []string
				}
				flights := map[string]*flight{}
				var order []string
				for _, s := range specs {
					sm, _ := s.(map[string]any)
					idx := map[string]*models.Item{}
					ta, _ := sm["tree"].([]any)
					seed, err := buildTree(ta, nil, idx)
					if err != nil {
						return "harness-error " + err.Error()
					}
					seed.SetSource(models.ItemSourceQueue)
					flights[seed.GetID()] = &flight{seed: seed, index: idx, updates: list(sm, "updates")}
					order = append(order, seed.GetID())
				}
				freezeAt := num(in, "freezeAtPass", -1)
				var freezeOnce sync.Once
				var wg sync.WaitGroup
				var smu sync.Mutex
				passes := map[string]int{}
				for _, id := range order {
					wg.Add(1)
					go func(f *flight) {
						defer wg.Done()
						if f.seed.GetStatus() == models.ItemFresh && len(f.seed.GetChildren()) == 0 {
							// a fresh item reaches the finisher straight from the postprocessor (a discovered outlink): never inserted
							smu.Lock()
							passes[f.seed.GetID()]++
							smu.Unlock()
							fIn <- f.seed
							return
						}
						if err := reactor.ReceiveInsert(f.seed); err != nil {
							f.acts = append(f.acts, "insert-error")
						}
					}(flights[id])
				}
				// the three stages: whatever comes out of the reactor goes to the finisher, after the next update of its tree
				done := make(chan struct{})
				if freezeAt >= 0 {
					wg.Wait() // every seed is inside before the stop request can arrive
				}
				go func() {
					for {
						select {
						case it := <-rOut:
							smu.Lock()
							f := flights[it.GetID()]
							k := passes[it.GetID()]
							passes[it.GetID()]++
							smu.Unlock()
							if f != nil && k > 0 && k-1 < len(f.updates) {
								if um, ok := f.updates[k-1].(map[string]any); ok {
									// deepest first is not needed: statuses are set directly
									for nid, st := range um {
										if n := f.index[nid]; n != nil {
											n.SetStatus(statusByName[st.(string)])
										}
									}
								}
							}
							if f != nil && k > len(f.updates) {
								continue // the scenario has no further pass for this seed: hold it
							}
							if freezeAt >= 0 && k == freezeAt {
								freezeOnce.Do(reactor.Freeze) // a stop request arrives while the stages still hold seeds
							}
							fIn <- it
						case <-done:
							return
						}
					}
				}()
				inserted := make(chan struct{})
				go func() { wg.Wait(); close(inserted) }()
				select {
				case <-inserted:
				case <-time.After(10 * time.Second):
					close(done)
					return "harness-error seeds could not be inserted (no token became free)"
				}
				// wait until every seed has left the system (ack or produced) or nothing moves any more
				deadline := time.Now().Add(time.Duration(num(in, "waitMs", 3000)) * time.Millisecond)
				for time.Now().Before(deadline) {
					mu.Lock()
					left := 0
					for _, id := range order {
						if acks[id]+produced[id] == 0 {
							left++
						}
					}
					mu.Unlock()
					if left == 0 {
						break
					}
					time.Sleep(5 * time.Millisecond)
				}
				time.Sleep(30 * time.Millisecond) // a second acknowledgement, if any, would arrive now
				close(done)
				tracked := map[string]bool{}
				for _, id := range reactor.GetStateTable() {
					tracked[id] = true
				}
				var out []string
				ids := append([]string(nil), order...)
				sort.Strings(ids)
				mu.Lock()
				smu.Lock()
				for _, id := range ids {
					f := flights[id]
					out = append(out, fmt.Sprintf("%s passes=%d acks=%d produced=%d tracked=%v %s", id, passes[id], acks[id], produced[id], tracked[id], dumpTree(f.seed)))
				}
				smu.Unlock()
				mu.Unlock()
				return strings.Join(out, " ; ")
			case "stopreport":
				// a stop request reaches the finisher while its workers are reporting finished seeds to a source that reads slowly:
				// every accepted seed must end up reported, or still be tracked by the reactor (so that the source can hand it back)
				if started {
					finisher.Stop()
					reactor.Stop()
					started = false
				}
				w := num(in, "workers", 2)
				n := num(in, "n", 8)
				every := time.Duration(num(in, "readEveryMs", 40)) * time.Millisecond
				config.Get().WorkersCount = w
				rO := make(chan *models.Item, w)
				fI := make(chan *models.Item, w)
				fin := make(chan *models.Item, w)
				prod := make(chan *models.Item, w)
				if err := reactor.Start(w, rO); err != nil {
					return "harness-error " + err.Error()
				}
				if err := finisher.Start(fI, fin, prod); err != nil {
					return "harness-error " + err.Error()
				}
				var lmu sync.Mutex
				acked, accepted := map[string]int{}, map[string]bool{}
				stopRead := make(chan struct{})
				readerDone := make(chan struct{})
				go func() {
					defer close(readerDone)
					for {
						select {
						case it := <-fin:
							lmu.Lock()
							acked[it.GetID()]++
							lmu.Unlock()
							time.Sleep(every)
						case <-prod:
						case <-stopRead:
							return
						}
					}
				}()
				fwdDone := make(chan struct{})
				go func() {
					for {
						select {
						case it := <-rO:
							select {
							case fI <- it:
							case <-fwdDone:
								return
							}
						case <-fwdDone:
							return
						}
					}
				}()
				for i := 0; i < n; i++ {
					u := &models.URL{Raw: fmt.Sprintf("http://site.example/sr/%d", i)}
					_ = u.Parse()
					it := models.NewItem(fmt.Sprintf("sr%d", i), u, "")
					it.SetSource(models.ItemSourceQueue)
					it.SetStatus(models.ItemCompleted)
					go func(it *models.Item) {
						if err := reactor.ReceiveInsert(it); err == nil {
							lmu.Lock()
							accepted[it.GetID()] = true
							lmu.Unlock()
						}
					}(it)
				}
				time.Sleep(time.Duration(num(in, "beforeStopMs", 100)) * time.Millisecond)
				reactor.Freeze()
				stopped := make(chan struct{})
				go func() { finisher.Stop(); close(stopped) }()
				hung := false
				select {
				case <-stopped:
				case <-time.After(10 * time.Second):
					hung = true
				}
				time.Sleep(200 * time.Millisecond)
				close(stopRead)
				<-readerDone
				close(fwdDone)
				// whatever still sits in a channel was not lost
				inChan := map[string]bool{}
				for _, c := range []chan *models.Item{rO, fI, fin} {
					for drained := false; !drained; {
						select {
						case it := <-c:
							inChan[it.GetID()] = true
						default:
							drained = true
						}
					}
				}
				tracked := map[string]bool{}
				for _, id := range reactor.GetStateTable() {
					tracked[id] = true
				}
				var dropped, twice []string
				lmu.Lock()
				na := 0
				for id := range accepted {
					if acked[id] > 1 {
						twice = append(twice, id)
					}
					if acked[id] > 0 {
						na++
						continue
					}
					if !tracked[id] && !inChan[id] {
						dropped = append(dropped, id)
					}
				}
				nacc := len(accepted)
				lmu.Unlock()
				sort.Strings(dropped)
				sort.Strings(twice)
				reactor.Stop()
				return fmt.Sprintf("accepted=%d acked=%d tracked=%d stopHung=%v dropped=%s twice=%s", nacc, na, len(tracked), hung, strings.Join(dropped, ","), strings.Join(twice, ","))
			case "close":
				if started {
					finisher.Stop()
					reactor.Stop()
					started = false
				}
				return "ok"
			}
			return "harness-error bad-op"
		}
	})
}
