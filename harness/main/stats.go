//go:build verif

package main

import (
	"fmt"
	"sort"
	"strconv"
	"strings"
	"sync"
	"time"

	"github.com/internetarchive/Zeno/internal/pkg/config"
	"github.com/internetarchive/Zeno/internal/pkg/postprocessor"
	"github.com/internetarchive/Zeno/internal/pkg/preprocessor"
	"github.com/internetarchive/Zeno/internal/pkg/stats"
	"github.com/internetarchive/Zeno/pkg/models"
)

func statsCall(c string) {
	k, arg, _ := strings.Cut(c, ":")
	switch k {
	case "u":
		stats.URLsCrawledIncr()
	case "ug":
		stats.URLsCrawledGet()
	case "ur":
		stats.URLsCrawledReset()
	case "s":
		stats.SeedsFinishedIncr()
	case "sg":
		stats.SeedsFinishedGet()
	case "h":
		stats.HTTPReturnCodesIncr(arg)
	case "hg":
		stats.HTTPReturnCodesGet(arg)
	case "m":
		v, _ := strconv.Atoi(arg)
		stats.MeanHTTPRespTimeAdd(time.Duration(v) * time.Millisecond)
	case "mg":
		stats.MeanHTTPRespTimeGet()
	case "g+", "g-", "gg":
		fs := map[string][3]func(){
			"pre":  {stats.PreprocessorRoutinesIncr, stats.PreprocessorRoutinesDecr, func() { stats.PreprocessorRoutinesGet() }},
			"arch": {stats.ArchiverRoutinesIncr, stats.ArchiverRoutinesDecr, func() { stats.ArchiverRoutinesGet() }},
			"post": {stats.PostprocessorRoutinesIncr, stats.PostprocessorRoutinesDecr, func() { stats.PostprocessorRoutinesGet() }},
		}[arg]
		switch k {
		case "g+":
			fs[0]()
		case "g-":
			fs[1]()
		default:
			fs[2]()
		}
	}
}

func init() {
	register("stats", func() handler {
		baseInit()
		return func(in map[string]any) string {
			if str(in, "op") == "startstop" {
				// a stage is started and stopped at once (a stop request right after start-up: some worker goroutines have not run yet);
				// its routine gauge must be back to 0 when Stop() has returned. One start per stage and process.
				config.Get().WorkersCount = num(in, "workers", 64)
				inCh, outCh := make(chan *models.Item), make(chan *models.Item)
				var get func() uint64
				switch str(in, "stage") {
				case "pre":
					if err := preprocessor.Start(inCh, outCh); err != nil {
						return "harness-error " + err.Error()
					}
					time.Sleep(time.Duration(num(in, "afterUs", 0)) * time.Microsecond)
					preprocessor.Stop()
					get = stats.PreprocessorRoutinesGet
				case "post":
					if err := postprocessor.Start(inCh, outCh); err != nil {
						return "harness-error " + err.Error()
					}
					time.Sleep(time.Duration(num(in, "afterUs", 0)) * time.Microsecond)
					postprocessor.Stop()
					get = stats.PostprocessorRoutinesGet
				default:
					return "harness-error bad-stage"
				}
				return fmt.Sprintf("gauge=%d", get())
			}
			// baselines (totals are monotone and cannot be reset)
			u0, s0 := stats.VerifTotals()
			h0 := stats.VerifHTTPTotals()
			stats.MeanHTTPRespTimeReset() // quiescent here: the mean is measured per burst through its public getter
			g0 := [3]uint64{stats.PreprocessorRoutinesGet(), stats.ArchiverRoutinesGet(), stats.PostprocessorRoutinesGet()}
			var wg sync.WaitGroup
			start := make(chan struct{})
			for _, g := range list(in, "goroutines") {
				calls, _ := g.([]any)
				wg.Add(1)
				go func(calls []any) {
					defer wg.Done()
					<-start
					for _, c := range calls {
						if s, ok := c.(string); ok {
							statsCall(s)
						}
					}
				}(calls)
			}
			close(start)
			wg.Wait()
			u1, s1 := stats.VerifTotals()
			h1 := stats.VerifHTTPTotals()
			mean := stats.MeanHTTPRespTimeGet()
			var hs []string
			for k, v := range h1 {
				if v-h0[k] != 0 {
					hs = append(hs, fmt.Sprintf("%s=%d", k, v-h0[k]))
				}
			}
			sort.Strings(hs)
			g1 := [3]uint64{stats.PreprocessorRoutinesGet(), stats.ArchiverRoutinesGet(), stats.PostprocessorRoutinesGet()}
			return fmt.Sprintf("urls=%d seeds=%d http=%s mean=%s gauges=pre=%d,arch=%d,post=%d", u1-u0, s1-s0, strings.Join(hs, ","),
				strconv.FormatFloat(mean, 'g', 17, 64), g1[0]-g0[0], g1[1]-g0[1], g1[2]-g0[2])
		}
	})
}
