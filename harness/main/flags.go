//go:build verif

package main

import (
	"encoding/json"
	"strconv"

	"github.com/internetarchive/Zeno/cmd"
	"github.com/internetarchive/Zeno/internal/pkg/controler/watchers"
)

// flags: one real command line per process (config.InitConfig is once-only). The line gives the
// arguments; the answer is what the configuration holds afterwards and, when total/free are given,
// what the disk guard decides with that configuration.
func init() {
	register("flags", func() handler {
		used := false
		return func(in map[string]any) string {
			if used {
				return "harness-error one-command-line-per-process"
			}
			used = true
			var args []string
			if l, ok := in["args"].([]any); ok {
				for _, a := range l {
					args = append(args, a.(string))
				}
			}
			c, err := cmd.VerifParse(args)
			out := map[string]any{}
			if err != nil {
				out["error"] = err.Error()
			}
			if c != nil {
				out["minSpaceRequired"] = strconv.FormatFloat(c.MinSpaceRequired, 'g', -1, 64)
				out["maxHops"] = c.MaxHops
				out["maxConcurrentAssets"] = c.MaxConcurrentAssets
				if l, ok := in["probes"].([]any); ok {
					ds := []string{}
					for _, pr := range l {
						pp := pr.([]any)
						total, _ := strconv.ParseUint(pp[0].(string), 10, 64)
						free, _ := strconv.ParseUint(pp[1].(string), 10, 64)
						if watchers.VerifCheckThreshold(total, free, c.MinSpaceRequired) != nil {
							ds = append(ds, "refuse")
						} else {
							ds = append(ds, "accept")
						}
					}
					out["decisions"] = ds
				}
			}
			b, _ := json.Marshal(out)
			return string(b)
		}
	})
}
