//go:build verif

package main

import (
	"bufio"
	"bytes"
	"compress/gzip"
	"crypto/sha1"
	"database/sql"
	"encoding/hex"
	"encoding/json"
	"fmt"
	"io"
	"net"
	"net/http"
	"os"
	"path/filepath"
	"runtime"
	"sort"
	"strconv"
	"strings"
	"sync"
	"time"

	"github.com/gobwas/ws"
	"github.com/gobwas/ws/wsutil"
	"github.com/internetarchive/Zeno/internal/pkg/archiver"
	"github.com/internetarchive/Zeno/internal/pkg/config"
	"github.com/internetarchive/Zeno/internal/pkg/controler"
	"github.com/internetarchive/Zeno/internal/pkg/controler/pause"
	"github.com/internetarchive/Zeno/internal/pkg/preprocessor/seencheck"
	"github.com/internetarchive/Zeno/internal/pkg/reactor"
	"github.com/internetarchive/Zeno/internal/pkg/source/lq"
	"github.com/internetarchive/Zeno/internal/pkg/stats"
	"github.com/internetarchive/gocrawlhq"
	_ "github.com/ncruces/go-sqlite3/driver"
	_ "github.com/ncruces/go-sqlite3/embed"
)

// e2e domain: one whole crawl per process. The real pipeline (controler.Start / Stop) runs against an
// origin server scripted by the scenario (reachable as 127.0.0.2: the normaliser rejects 127.0.0.1) and
// either the real local queue (pre-filled sqlite file) or a fake crawl HQ. The report lists the origin's
// request log, the acknowledgements the queue received, the rows left in the queue, every WARC record
// found on disk (read member by member with compress/gzip, not with the WARC library) and the
// process footprint.

type originReq struct {
	N       int    `json:"n"`
	Key     string `json:"key"`
	Attempt int    `json:"attempt"`
	T       int64  `json:"t"`
	Mode    string `json:"mode"`
	Status  int    `json:"status"`
	Len     int    `json:"len"`
	Sha1    string `json:"sha1"`
	Done    int64  `json:"done"`
}

type origin struct {
	mu    sync.Mutex
	site  map[string]any
	log   []*originReq
	count map[string]int
	t0    time.Time
	base  string
	gate  chan struct{} // closed when held requests may proceed
	journal *os.File
}

func genBytes(size, seed int) []byte {
	b := make([]byte, size)
	x := uint32(seed*2654435761 + 12345)
	for i := range b {
		x = x*1664525 + 1013904223
		b[i] = byte(x >> 24)
	}
	return b
}

func (o *origin) body(b map[string]any) []byte {
	spec, _ := b["body"].(map[string]any)
	if spec == nil {
		if s, ok := b["body"].(string); ok {
			return []byte(strings.ReplaceAll(s, "{BASE}", o.base))
		}
		return []byte("<html><head><title>t</title></head><body>ok</body></html>")
	}
	switch str(spec, "kind") {
	case "html":
		var sb strings.Builder
		sb.WriteString("<html><head><title>t</title></head><body>")
		for _, a := range list(spec, "assets") {
			fmt.Fprintf(&sb, `<img src="%s">`, strings.ReplaceAll(a.(string), "{BASE}", o.base))
		}
		for _, a := range list(spec, "outlinks") {
			fmt.Fprintf(&sb, `<a href="%s">l</a>`, strings.ReplaceAll(a.(string), "{BASE}", o.base))
		}
		if pad := num(spec, "pad", 0); pad > 0 {
			sb.WriteString("<!-- " + strings.Repeat("x", pad) + " -->")
		}
		sb.WriteString("</body></html>")
		return []byte(sb.String())
	case "bin":
		return genBytes(num(spec, "size", 100), num(spec, "seed", 1))
	case "png":
		return append([]byte("\x89PNG\r\n\x1a\n"), genBytes(num(spec, "size", 100), num(spec, "seed", 1))...)
	case "text":
		return bytes.Repeat([]byte("lorem ipsum dolor sit amet\n"), num(spec, "size", 100)/27+1)[:num(spec, "size", 100)]
	case "json":
		m := map[string]any{"items": list(spec, "urls")}
		out, _ := json.Marshal(m)
		return []byte(strings.ReplaceAll(string(out), "{BASE}", o.base))
	}
	return nil
}

func (o *origin) ServeHTTP(w http.ResponseWriter, r *http.Request) {
	key := r.URL.RequestURI()
	o.mu.Lock()
	attempt := o.count[key]
	o.count[key]++
	rec := &originReq{N: len(o.log), Key: key, Attempt: attempt, T: time.Since(o.t0).Nanoseconds()}
	o.log = append(o.log, rec)
	if o.journal != nil {
		fmt.Fprintln(o.journal, key) // survives a SIGKILL of this process
	}
	spec, _ := o.site[key].(map[string]any)
	o.mu.Unlock()
	defer func() {
		o.mu.Lock()
		rec.Done = time.Since(o.t0).Nanoseconds()
		o.mu.Unlock()
	}()
	if spec == nil {
		rec.Mode, rec.Status = "unknown", 404
		body := []byte("<html><body>not found</body></html>")
		rec.Len, rec.Sha1 = len(body), sha1hex(body)
		w.Header().Set("Content-Type", "text/html")
		w.WriteHeader(404)
		w.Write(body)
		return
	}
	b := spec
	if att := list(spec, "attempts"); len(att) > 0 {
		i := attempt
		if i >= len(att) {
			i = len(att) - 1
		}
		if m, ok := att[i].(map[string]any); ok {
			merged := map[string]any{}
			for k, v := range spec {
				merged[k] = v
			}
			for k, v := range m {
				merged[k] = v
			}
			b = merged
		}
	}
	if boolean(b, "hold", false) {
		<-o.gate
	}
	if d := num(b, "delayMs", 0); d > 0 {
		time.Sleep(time.Duration(d) * time.Millisecond)
	}
	if boolean(b, "reset", false) {
		rec.Mode = "reset"
		if hj, ok := w.(http.Hijacker); ok {
			c, _, _ := hj.Hijack()
			if tc, ok := c.(*net.TCPConn); ok {
				tc.SetLinger(0)
			}
			c.Close()
		}
		return
	}
	status := num(b, "status", 200)
	body := o.body(b)
	if boolean(b, "cf", false) {
		status = 403
		w.Header().Set("cf-mitigated", "challenge")
	}
	if ct := str(b, "ctype"); ct != "" {
		w.Header().Set("Content-Type", ct)
	}
	if loc := str(b, "location"); loc != "" {
		w.Header().Set("Location", strings.ReplaceAll(loc, "{BASE}", o.base))
	}
	if hs, ok := b["headers"].(map[string]any); ok {
		for k, v := range hs {
			w.Header().Set(k, fmt.Sprint(v))
		}
	}
	if boolean(b, "gzip", false) {
		var zb bytes.Buffer
		zw := gzip.NewWriter(&zb)
		zw.Write(body)
		zw.Close()
		body = zb.Bytes()
		w.Header().Set("Content-Encoding", "gzip")
	}
	rec.Mode, rec.Status, rec.Len, rec.Sha1 = "ok", status, len(body), sha1hex(body)
	if boolean(b, "chunked", false) {
		w.WriteHeader(status)
		fl, _ := w.(http.Flusher)
		for i := 0; i < len(body); i += 1000 {
			j := i + 1000
			if j > len(body) {
				j = len(body)
			}
			w.Write(body[i:j])
			if fl != nil {
				fl.Flush()
			}
		}
		return
	}
	w.Header().Set("Content-Length", strconv.Itoa(len(body)))
	w.WriteHeader(status)
	if cut := num(b, "truncateAt", 0); cut > 0 && cut < len(body) {
		// the connection dies in the middle of the body
		rec.Mode = "truncated"
		w.Write(body[:cut])
		if fl, ok := w.(http.Flusher); ok {
			fl.Flush()
		}
		if hj, ok := w.(http.Hijacker); ok {
			c, _, _ := hj.Hijack()
			c.Close() // an orderly close: the client receives everything sent so far, then an unexpected EOF
		}
		return
	}
	if slow := num(b, "slowMs", 0); slow > 0 && len(body) > 1 {
		// the body trickles out: half now, half later
		w.Write(body[:len(body)/2])
		if fl, ok := w.(http.Flusher); ok {
			fl.Flush()
		}
		time.Sleep(time.Duration(slow) * time.Millisecond)
		w.Write(body[len(body)/2:])
		return
	}
	w.Write(body)
}

func sha1hex(b []byte) string {
	h := sha1.Sum(b)
	return hex.EncodeToString(h[:])
}

// ---- fake crawl HQ for whole-pipeline runs: feed, add, delete (acks), seencheck, reset, websocket

type e2eHQ struct {
	mu       sync.Mutex
	feed     []gocrawlhq.URL
	claimed  map[string]bool
	acks     []map[string]any
	adds     []gocrawlhq.URL
	resets   []string
	seen     map[string]bool
	t0       time.Time
	o        *origin
	snapshot bool
	job      string
}

func (h *e2eHQ) ServeHTTP(w http.ResponseWriter, r *http.Request) {
	body, _ := io.ReadAll(r.Body)
	p := r.URL.Path
	switch {
	case strings.HasSuffix(p, "/api/ws"):
		conn, _, _, err := ws.UpgradeHTTP(r, w)
		if err != nil {
			return
		}
		go func() {
			defer conn.Close()
			for {
				if _, _, err := wsutil.ReadClientData(conn); err != nil {
					return
				}
			}
		}()
	case strings.HasSuffix(p, "/urls") && r.Method == http.MethodGet:
		size, _ := strconv.Atoi(r.URL.Query().Get("size"))
		h.mu.Lock()
		var out []gocrawlhq.URL
		for len(h.feed) > 0 && len(out) < size {
			out = append(out, h.feed[0])
			h.claimed[h.feed[0].ID] = true
			h.feed = h.feed[1:]
		}
		h.mu.Unlock()
		if len(out) == 0 {
			w.WriteHeader(204)
			return
		}
		w.WriteHeader(200)
		json.NewEncoder(w).Encode(out)
	case strings.HasSuffix(p, "/urls") && r.Method == http.MethodPost:
		var pl gocrawlhq.AddPayload
		json.Unmarshal(body, &pl)
		h.mu.Lock()
		h.adds = append(h.adds, pl.URLs...)
		h.mu.Unlock()
		w.WriteHeader(201)
	case strings.HasSuffix(p, "/urls") && r.Method == http.MethodDelete:
		var pl gocrawlhq.DeletePayload
		json.Unmarshal(body, &pl)
		h.mu.Lock()
		h.o.mu.Lock()
		nreq := len(h.o.log)
		h.o.mu.Unlock()
		// what is on disk at this very moment: the responses whose records are complete in the job's WARC files
		var onDisk []string
		if h.snapshot {
			matches, _ := filepath.Glob(filepath.Join("jobs", h.job, "warcs", "*"))
			for _, m := range matches {
				recs, _ := readWARC(m)
				for _, r := range recs {
					if (r.Type == "response" || r.Type == "revisit") && r.Complete {
						onDisk = append(onDisk, fmt.Sprintf("%s %d", r.URI, r.Status))
					}
				}
			}
		}
		for _, u := range pl.URLs {
			h.acks = append(h.acks, map[string]any{"id": u.ID, "t": time.Since(h.t0).Nanoseconds(), "requestsBefore": nreq, "onDisk": onDisk})
		}
		h.mu.Unlock()
		w.WriteHeader(204)
	case strings.HasSuffix(p, "/seencheck"):
		var in []gocrawlhq.URL
		json.Unmarshal(body, &in)
		h.mu.Lock()
		var out []gocrawlhq.URL
		for _, u := range in {
			if !h.seen[u.Value] {
				h.seen[u.Value] = true
				out = append(out, u)
			}
		}
		h.mu.Unlock()
		if len(out) == 0 {
			w.WriteHeader(204)
			return
		}
		w.WriteHeader(200)
		json.NewEncoder(w).Encode(out)
	case strings.Contains(p, "/reset"):
		h.mu.Lock()
		h.resets = append(h.resets, p+" "+string(body))
		h.mu.Unlock()
		w.WriteHeader(200)
		if r.Method == http.MethodPost && strings.HasSuffix(p, "/reset") {
			w.WriteHeader(202)
		}
	default:
		w.WriteHeader(404)
	}
}

// ---- a minimal SOCKS5 proxy (no auth, CONNECT only): the WARC library accepts only socks5:// proxies

func socks5Serve(ln net.Listener, count *int64, mu *sync.Mutex) {
	for {
		c, err := ln.Accept()
		if err != nil {
			return
		}
		go func(c net.Conn) {
			defer c.Close()
			br := bufio.NewReader(c)
			hdr := make([]byte, 2)
			if _, err := io.ReadFull(br, hdr); err != nil || hdr[0] != 5 {
				return
			}
			io.CopyN(io.Discard, br, int64(hdr[1]))
			c.Write([]byte{5, 0})
			req := make([]byte, 4)
			if _, err := io.ReadFull(br, req); err != nil || req[1] != 1 {
				return
			}
			var host string
			switch req[3] {
			case 1:
				b := make([]byte, 4)
				io.ReadFull(br, b)
				host = net.IP(b).String()
			case 3:
				l, _ := br.ReadByte()
				b := make([]byte, int(l))
				io.ReadFull(br, b)
				host = string(b)
			case 4:
				b := make([]byte, 16)
				io.ReadFull(br, b)
				host = net.IP(b).String()
			}
			pb := make([]byte, 2)
			io.ReadFull(br, pb)
			port := int(pb[0])<<8 | int(pb[1])
			up, err := net.Dial("tcp", net.JoinHostPort(host, strconv.Itoa(port)))
			if err != nil {
				c.Write([]byte{5, 5, 0, 1, 0, 0, 0, 0, 0, 0})
				return
			}
			defer up.Close()
			mu.Lock()
			*count++
			mu.Unlock()
			c.Write([]byte{5, 0, 0, 1, 0, 0, 0, 0, 0, 0})
			go io.Copy(up, br)
			io.Copy(c, up)
		}(c)
	}
}

// ---- reading what is on disk

type warcRec struct {
	File     string `json:"file"`
	Type     string `json:"type"`
	URI      string `json:"uri"`
	Status   int    `json:"status"`
	Len      int    `json:"len"`
	Sha1     string `json:"sha1"`
	Refers   string `json:"refers,omitempty"`
	Payload  string `json:"payloadDigest,omitempty"`
	Complete bool   `json:"complete"`
	Err      string `json:"err,omitempty"`
}

// readWARC reads a .warc.gz file member by member; every gzip member must hold exactly one complete record.
func readWARC(path string) (recs []warcRec, trailing string) {
	f, err := os.Open(path)
	if err != nil {
		return nil, err.Error()
	}
	defer f.Close()
	br := bufio.NewReaderSize(f, 1<<16)
	name := filepath.Base(path)
	for {
		if _, err := br.Peek(1); err == io.EOF {
			return recs, ""
		}
		zr, err := gzip.NewReader(br)
		if err != nil {
			return recs, "bad member header: " + err.Error()
		}
		zr.Multistream(false)
		data, err := io.ReadAll(zr)
		if err != nil {
			return recs, "incomplete member: " + err.Error()
		}
		rec := warcRec{File: name}
		if len(data) == 0 {
			// a writer that was closed before it wrote anything leaves an empty gzip member: no record at all
			rec.Type, rec.Complete = "empty-member", true
			recs = append(recs, rec)
			continue
		}
		hdrEnd := bytes.Index(data, []byte("\r\n\r\n"))
		if hdrEnd < 0 || !bytes.HasPrefix(data, []byte("WARC/1.")) {
			rec.Err = "no WARC header"
			recs = append(recs, rec)
			continue
		}
		hdr := map[string]string{}
		for _, l := range strings.Split(string(data[:hdrEnd]), "\r\n")[1:] {
			if i := strings.Index(l, ":"); i > 0 {
				hdr[strings.ToLower(strings.TrimSpace(l[:i]))] = strings.TrimSpace(l[i+1:])
			}
		}
		rec.Type, rec.URI = hdr["warc-type"], strings.Trim(hdr["warc-target-uri"], "<>")
		rec.Refers, rec.Payload = hdr["warc-refers-to-target-uri"], hdr["warc-payload-digest"]
		cl, _ := strconv.Atoi(hdr["content-length"])
		block := data[hdrEnd+4:]
		rec.Complete = len(block) == cl+4 && bytes.HasSuffix(block, []byte("\r\n\r\n"))
		if len(block) >= cl {
			block = block[:cl]
		}
		if rec.Type == "response" || rec.Type == "revisit" {
			resp, err := http.ReadResponse(bufio.NewReader(bytes.NewReader(block)), nil)
			if err != nil {
				rec.Err = "http: " + err.Error()
			} else {
				b, err := io.ReadAll(resp.Body)
				if err != nil && rec.Type != "revisit" { // a revisit record keeps the headers (with the original length) and omits the payload
					rec.Err = "http body: " + err.Error()
				}
				rec.Status, rec.Len, rec.Sha1 = resp.StatusCode, len(b), sha1hex(b)
			}
		}
		recs = append(recs, rec)
	}
}

func lqRows(job string) []string {
	db, err := sql.Open("sqlite3", "file:"+filepath.Join("jobs", job, "lq.db"))
	if err != nil {
		return []string{"err " + err.Error()}
	}
	defer db.Close()
	rows, err := db.Query("SELECT id, value, via, hops, status FROM urls")
	if err != nil {
		return []string{"err " + err.Error()}
	}
	defer rows.Close()
	var out []string
	for rows.Next() {
		var id, value, via, status string
		var hops int64
		rows.Scan(&id, &value, &via, &hops, &status)
		out = append(out, fmt.Sprintf("%s|%s|%s|%d|%s", id, value, via, hops, status))
	}
	sort.Strings(out)
	return out
}

func countFDs() int {
	es, err := os.ReadDir("/proc/self/fd")
	if err != nil {
		return -1
	}
	return len(es)
}

func listFiles(root string) []string {
	var out []string
	filepath.Walk(root, func(p string, info os.FileInfo, err error) error {
		if err == nil && !info.IsDir() {
			out = append(out, fmt.Sprintf("%s:%d", p, info.Size()))
		}
		return nil
	})
	sort.Strings(out)
	return out
}

func inspectJob(job string, report map[string]any) {
	var recs []warcRec
	trailing := map[string]string{}
	var files []string
	matches, _ := filepath.Glob(filepath.Join("jobs", job, "warcs", "*"))
	sort.Strings(matches)
	for _, m := range matches {
		files = append(files, filepath.Base(m))
		r, tr := readWARC(m)
		recs = append(recs, r...)
		if tr != "" {
			trailing[filepath.Base(m)] = tr
		}
	}
	report["warcFiles"] = files
	report["warcRecords"] = recs
	report["warcTrailing"] = trailing
	report["lqRows"] = lqRows(job)
	report["jobFiles"] = listFiles(filepath.Join("jobs", job))
}

func runE2E(in map[string]any) string {
	report := map[string]any{}
	cfgIn, _ := in["cfg"].(map[string]any)
	if cfgIn == nil {
		cfgIn = map[string]any{}
	}
	job := str(in, "job")
	if job == "" {
		job = "j"
	}
	if boolean(in, "inspectOnly", false) {
		inspectJob(job, report)
		// which of these canonical URLs does the persisted seen-store hold?
		if urls := strList(in, "seenQuery"); len(urls) > 0 {
			if _, err := os.Stat(filepath.Join("jobs", job, "seencheck")); err == nil {
				if err := seencheck.Start(filepath.Join("jobs", job)); err == nil {
					rec := map[string]string{}
					for _, u := range urls {
						if ok, typ := seencheck.VerifRecorded(u); ok {
							rec[u] = typ
						}
					}
					seencheck.Close()
					report["seenStore"] = rec
				}
			}
		}
		out, _ := json.Marshal(report)
		return string(out)
	}
	// origin
	ln, err := net.Listen("tcp", "0.0.0.0:"+strconv.Itoa(num(in, "port", 0)))
	if err != nil {
		return "harness-error " + err.Error()
	}
	port := ln.Addr().(*net.TCPAddr).Port
	site, _ := in["site"].(map[string]any)
	o := &origin{site: site, count: map[string]int{}, t0: time.Now(), base: fmt.Sprintf("http://127.0.0.2:%d", port), gate: make(chan struct{})}
	if jf, err := os.OpenFile("origin.journal", os.O_CREATE|os.O_APPEND|os.O_WRONLY, 0644); err == nil {
		o.journal = jf
		fmt.Fprintln(jf, "# run")
	}
	srv := &http.Server{Handler: o}
	go srv.Serve(ln)
	defer srv.Close()
	report["base"] = o.base
	abs := func(p string) string {
		if strings.HasPrefix(p, "http") {
			return strings.ReplaceAll(p, "{BASE}", o.base)
		}
		return o.base + p
	}

	config.InitConfig()
	c := config.Get()
	c.Job = job
	c.WorkersCount = num(cfgIn, "workers", 2)
	c.MaxConcurrentAssets = num(cfgIn, "maxConcurrentAssets", 2)
	c.MaxRetry = num(cfgIn, "maxRetry", 1)
	c.MaxRedirect = num(cfgIn, "maxRedirect", 20)
	c.MaxHops = num(cfgIn, "maxHops", 0)
	c.HTTPTimeout = num(cfgIn, "httpTimeout", 5)
	c.WARCWriteAsync = boolean(cfgIn, "warcAsync", false)
	c.WARCPoolSize = num(cfgIn, "warcPoolSize", 1)
	c.WARCSize = num(cfgIn, "warcSize", 1024)
	c.WARCPrefix = "VERIF"
	c.WARCOnDisk = boolean(cfgIn, "warcOnDisk", false)
	c.WARCDedupeSize = num(cfgIn, "warcDedupeSize", 1024)
	c.DisableLocalDedupe = boolean(cfgIn, "disableLocalDedupe", false)
	c.WARCDiscardStatus = nil
	for _, s := range list(cfgIn, "discardStatus") {
		c.WARCDiscardStatus = append(c.WARCDiscardStatus, anyInt(s))
	}
	c.DisableSeencheck = boolean(cfgIn, "disableSeencheck", false)
	c.DisableAssetsCapture = boolean(cfgIn, "disableAssets", false)
	c.DisableRateLimit = boolean(cfgIn, "disableRateLimit", true)
	c.RateLimitCapacity = float64(num(cfgIn, "rateLimitCapacity", 50))
	c.RateLimitRefillRate = float64(num(cfgIn, "rateLimitRefillRate", 50))
	c.RateLimitCleanupFrequency = time.Minute
	c.Proxy = str(cfgIn, "proxy")
	var proxied int64
	var pmu sync.Mutex
	if boolean(cfgIn, "socksProxy", false) {
		pln, err := net.Listen("tcp", "127.0.0.1:0")
		if err != nil {
			return "harness-error " + err.Error()
		}
		defer pln.Close()
		go socks5Serve(pln, &proxied, &pmu)
		c.Proxy = "socks5://" + pln.Addr().String()
	}
	c.MinSpaceRequired = 0
	c.UserAgent = "verif-e2e"
	c.NoStdoutLogging, c.NoStderrLogging, c.NoFileLogging = true, !boolean(in, "logs", false), true
	c.StdoutLogLevel = "debug"
	c.HQBatchSize = num(cfgIn, "hqBatchSize", 2)
	c.HQBatchConcurrency = num(cfgIn, "hqBatchConcurrency", 1)
	c.DomainsCrawl = strList(cfgIn, "domainsCrawl")
	c.ExcludeHosts = strList(cfgIn, "excludeHosts")
	for _, s := range strList(in, "inputSeeds") {
		c.InputSeeds = append(c.InputSeeds, abs(s))
	}
	useHQ := boolean(in, "useHQ", false)
	var hqf *e2eHQ
	if useHQ {
		hqf = &e2eHQ{claimed: map[string]bool{}, seen: map[string]bool{}, t0: o.t0, o: o, snapshot: boolean(in, "snapshotAtAck", false), job: job}
		for i, s := range strList(in, "seeds") {
			hqf.feed = append(hqf.feed, gocrawlhq.URL{ID: fmt.Sprintf("s%d", i), Value: abs(s), Path: ""})
		}
		hln, err := net.Listen("tcp", "127.0.0.1:0")
		if err != nil {
			return "harness-error " + err.Error()
		}
		hsrv := &http.Server{Handler: hqf}
		go hsrv.Serve(hln)
		defer hsrv.Close()
		c.HQAddress = "http://" + hln.Addr().String()
		c.HQProject, c.HQKey, c.HQSecret = "p", "k", "s"
	}
	if err := config.GenerateCrawlConfig(); err != nil {
		return "harness-error " + err.Error()
	}
	c.UseHQ = useHQ
	os.MkdirAll(c.JobPath, 0755)
	if !useHQ && !boolean(in, "restart", false) {
		db, err := sql.Open("sqlite3", "file:"+filepath.Join(c.JobPath, "lq.db"))
		if err != nil {
			return "harness-error " + err.Error()
		}
		db.Exec(lq.VerifDDL())
		for i, s := range strList(in, "seeds") {
			v := abs(s)
			if strings.HasPrefix(s, "raw:") {
				v = strings.ReplaceAll(s[4:], "{BASE}", o.base) // stored as it is, like an outlink found on a page
			}
			db.Exec("INSERT INTO urls (id, value, via, hops, status, timestamp) VALUES (?, ?, '', 0, 'FRESH', ?)", fmt.Sprintf("s%d", i), v, time.Now().Unix())
		}
		db.Close()
	}

	g0 := runtime.NumGoroutine()
	// how many spooled body files exist at the same time (sampled): shows that the scenario did spool to disk
	var maxSpooled int64
	spoolDone := make(chan struct{})
	go func() {
		for {
			select {
			case <-spoolDone:
				return
			case <-time.After(3 * time.Millisecond):
				n := int64(0)
				if es, err := os.ReadDir(c.WARCTempDir); err == nil {
					for _, e := range es {
						if strings.HasPrefix(e.Name(), "zeno-") {
							n++
						}
					}
				}
				if n > maxSpooled {
					maxSpooled = n
				}
			}
		}
	}()
	controler.Start()
	started := time.Now()
	if boolean(in, "announceStart", false) {
		fmt.Fprintln(protocolOut, "STARTED")
	}

	// ---- wait for the stop moment
	stop, _ := in["stop"].(map[string]any)
	if stop == nil {
		stop = map[string]any{"when": "drain"}
	}
	deadline := time.Now().Add(time.Duration(num(stop, "timeoutMs", 30000)) * time.Millisecond)
	nSeeds := len(strList(in, "seeds")) + len(strList(in, "inputSeeds"))
	reqCount := func() int { o.mu.Lock(); defer o.mu.Unlock(); return len(o.log) }
	idle := func() bool {
		if len(reactor.GetStateTable()) != 0 {
			return false
		}
		if useHQ {
			hqf.mu.Lock()
			defer hqf.mu.Unlock()
			return len(hqf.feed) == 0 && len(hqf.acks) >= nSeeds
		}
		for _, r := range lqRows(job) {
			if !strings.HasPrefix(r, "err") {
				return false
			}
		}
		return true
	}
	paused := false
	switch str(stop, "when") {
	case "drain":
		stable := 0
		for time.Now().Before(deadline) {
			if idle() {
				stable++
				if stable >= num(stop, "stable", 3) {
					break
				}
			} else {
				stable = 0
			}
			time.Sleep(100 * time.Millisecond)
		}
		report["drained"] = stable >= num(stop, "stable", 3)
	case "requests":
		for time.Now().Before(deadline) && reqCount() < num(stop, "n", 1) {
			time.Sleep(2 * time.Millisecond)
		}
		time.Sleep(time.Duration(num(stop, "extraMs", 0)) * time.Millisecond)
	case "time":
		time.Sleep(time.Duration(num(stop, "ms", 100)) * time.Millisecond)
	case "paused":
		for time.Now().Before(deadline) && reqCount() < num(stop, "n", 1) {
			time.Sleep(2 * time.Millisecond)
		}
		pdone := make(chan struct{})
		go func() { pause.Pause("verif"); close(pdone) }()
		select {
		case <-pdone:
			paused = true
		case <-time.After(10 * time.Second):
			report["pauseTimedOut"] = true
		}
		time.Sleep(time.Duration(num(stop, "extraMs", 50)) * time.Millisecond)
	case "pauseresume":
		// an operator pauses the running (or idle) pipeline, waits, resumes; then the crawl goes on until the queue is empty
		for time.Now().Before(deadline) && reqCount() < num(stop, "n", 0) {
			time.Sleep(2 * time.Millisecond)
		}
		pdone := make(chan struct{})
		go func() { pause.Pause("verif"); close(pdone) }()
		select {
		case <-pdone:
			paused = true
		case <-time.After(10 * time.Second):
			report["pauseTimedOut"] = true
		}
		time.Sleep(time.Duration(num(stop, "settleMs", 700)) * time.Millisecond)
		c1 := reqCount()
		time.Sleep(time.Duration(num(stop, "holdMs", 600)) * time.Millisecond)
		report["requestsWhilePaused"] = reqCount() - c1
		rdone := make(chan struct{})
		go func() { pause.Resume(); close(rdone) }()
		select {
		case <-rdone:
			paused = false
		case <-time.After(10 * time.Second):
			report["resumeHung"] = true
		}
		report["stillPausedAfterResume"] = pause.IsPaused()
		stable := 0
		for time.Now().Before(deadline) {
			if idle() {
				stable++
				if stable >= 3 {
					break
				}
			} else {
				stable = 0
			}
			time.Sleep(100 * time.Millisecond)
		}
		report["drained"] = stable >= 3
	case "lowdisk":
		// the volume "fills up" while the crawl runs: the disk watcher (not the harness) pauses the pipeline, then the stop request comes
		for time.Now().Before(deadline) && reqCount() < num(stop, "n", 1) {
			time.Sleep(2 * time.Millisecond)
		}
		config.Get().MinSpaceRequired = 1e9
		for time.Now().Before(deadline) && !pause.IsPaused() {
			time.Sleep(20 * time.Millisecond)
		}
		paused = pause.IsPaused()
		report["pausedByDiskWatcher"] = paused
		time.Sleep(time.Duration(num(stop, "extraMs", 50)) * time.Millisecond)
	}
	gauges := func() map[string]uint64 {
		return map[string]uint64{"pre": stats.PreprocessorRoutinesGet(), "arch": stats.ArchiverRoutinesGet(), "post": stats.PostprocessorRoutinesGet(), "fin": stats.FinisherRoutinesGet()}
	}
	report["gaugesBeforeStop"] = gauges()
	report["paused"] = paused
	close(spoolDone)
	report["maxSpooledBodyFiles"] = maxSpooled
	lb, lmax := archiver.VerifLimiterTable()
	tmpFiles := listFiles(c.WARCTempDir)
	report["footprintBeforeStop"] = map[string]any{"goroutines": runtime.NumGoroutine(), "fds": countFDs(), "tracked": len(reactor.GetStateTable()),
		"limiterBuckets": lb, "limiterMax": lmax, "tempFiles": tmpFiles, "systemTemp": listFiles(os.TempDir())}
	if boolean(in, "goroutineProfile", false) {
		buf := make([]byte, 4<<20)
		nb := runtime.Stack(buf, true)
		hist := map[string]int{}
		for _, g := range strings.Split(string(buf[:nb]), "\n\n") {
			lines := strings.Split(g, "\n")
			// the function that created the goroutine, or its top frame
			key := lines[len(lines)-2]
			for _, l := range lines {
				if strings.HasPrefix(l, "created by ") {
					key = strings.Fields(l)[2]
				}
			}
			hist[key]++
		}
		report["goroutineProfile"] = hist
	}
	if boolean(stop, "releaseHeld", true) {
		close(o.gate)
	}
	if boolean(stop, "noStop", false) {
		// the caller kills the process; keep the crawl going
		fmt.Fprintln(protocolOut, "READY")
		select {}
	}
	// ---- stop, with a watchdog
	stopDone := make(chan any, 1)
	t1 := time.Now()
	go func() {
		defer func() { stopDone <- recover() }()
		controler.Stop()
	}()
	select {
	case r := <-stopDone:
		if r != nil {
			report["stopPanic"] = fmt.Sprint(r)
		}
		report["stopMs"] = time.Since(t1).Milliseconds()
	case <-time.After(time.Duration(num(stop, "stopTimeoutMs", 20000)) * time.Millisecond):
		report["stopHung"] = true
		buf := make([]byte, 1<<20)
		n := runtime.Stack(buf, true)
		var blocked []string
		for _, g := range strings.Split(string(buf[:n]), "\n\n") {
			if strings.Contains(g, "internetarchive/Zeno/internal/pkg") && !strings.Contains(g, "verifharness.runE2E") {
				lines := strings.Split(g, "\n")
				if len(lines) > 6 {
					lines = lines[:6]
				}
				blocked = append(blocked, strings.Join(lines, " | "))
			}
		}
		if len(blocked) > 12 {
			blocked = blocked[:12]
		}
		report["blocked"] = blocked
	}
	pmu.Lock()
	report["proxiedConnections"] = proxied
	pmu.Unlock()
	report["runMs"] = time.Since(started).Milliseconds()
	stopReturned := time.Since(o.t0).Nanoseconds()
	// whatever the crawler still does after Stop() returned shows up now (late requests, a crash of a leftover goroutine)
	time.Sleep(time.Duration(num(stop, "afterStopMs", 100)) * time.Millisecond)
	late := 0
	o.mu.Lock()
	for _, q := range o.log {
		if q.T > stopReturned {
			late++
		}
	}
	o.mu.Unlock()
	report["requestsAfterStop"] = late
	report["gaugesAfterStop"] = gauges()
	report["footprintAfterStop"] = map[string]any{"goroutines": runtime.NumGoroutine(), "fds": countFDs(), "g0": g0}
	o.mu.Lock()
	report["requests"] = o.log
	o.mu.Unlock()
	if useHQ {
		hqf.mu.Lock()
		report["acks"] = hqf.acks
		var adds []string
		for _, a := range hqf.adds {
			adds = append(adds, fmt.Sprintf("%s|%s|%s", a.Value, a.Via, a.Path))
		}
		report["hqAdds"] = adds
		report["hqResets"] = hqf.resets
		var left []string
		for _, u := range hqf.feed {
			left = append(left, u.ID)
		}
		report["hqFeedLeft"] = left
		hqf.mu.Unlock()
	}
	inspectJob(job, report)
	out, _ := json.Marshal(report)
	return string(out)
}

func init() {
	register("e2e", func() handler {
		return func(in map[string]any) string {
			if str(in, "op") == "run" {
				return runE2E(in)
			}
			return "harness-error bad-op"
		}
	})
}
