//go:build verif

package main

import (
	"context"
	"fmt"
	"strings"
	"sync/atomic"

	"github.com/internetarchive/Zeno/internal/pkg/controler/pause"
)

// pauseWorker mirrors the select loop of the stage workers: stop, pause signal, (work is not
// modelled). `cancellable` says whether the acknowledgement is sent in a select with ctx.Done(), as
// the fact extractor found it in the stage workers.
type pauseWorker struct {
	state atomic.Int32 // 0 running, 1 acking, 2 exited
	gid   int
}

func (w *pauseWorker) loop(ctx context.Context, cancellable bool, started chan struct{}) {
	w.gid = goid()
	chans := pause.Subscribe()
	defer func() { w.state.Store(2) }()
	defer pause.Unsubscribe(chans)
	close(started)
	for {
		select {
		case <-ctx.Done():
			return
		case <-chans.PauseCh:
			w.state.Store(1)
			if cancellable {
				select {
				case chans.ResumeCh <- struct{}{}:
				case <-ctx.Done():
					return
				}
			} else {
				chans.ResumeCh <- struct{}{}
			}
			w.state.Store(0)
		}
	}
}

func init() {
	register("pause", func() handler {
		baseInit()
		var workers []*pauseWorker
		var cancel context.CancelFunc
		var calls []*pendingOp
		self := goid()
		settleAll := func() {
			var ids []int
			for _, w := range workers {
				ids = append(ids, w.gid)
			}
			for _, c := range calls {
				ids = append(ids, c.gid)
			}
			settle(ids, []string{"pause.Resume", "pause.Pause"}, self)
		}
		show := func() string {
			settleAll()
			var keep []*pendingOp
			for _, c := range calls {
				select {
				case <-c.done:
				default:
					keep = append(keep, c)
				}
			}
			calls = keep
			names := []string{"run", "ack", "exit"}
			var ws []string
			for _, w := range workers {
				ws = append(ws, names[w.state.Load()])
			}
			return fmt.Sprintf("paused=%v workers=%s pending=%d", pause.IsPaused(), strings.Join(ws, ","), len(calls))
		}
		launch := func(f func()) {
			p := &pendingOp{done: make(chan string, 1)}
			started := make(chan struct{})
			go func() {
				p.gid = goid()
				close(started)
				f()
				p.done <- "ok"
			}()
			<-started
			calls = append(calls, p)
		}
		return func(in map[string]any) string {
			switch str(in, "op") {
			case "init":
				if cancel != nil {
					cancel()
				}
				pause.VerifReset()
				workers, calls = nil, nil
				var ctx context.Context
				ctx, cancel = context.WithCancel(context.Background())
				for i := 0; i < num(in, "n", 1); i++ {
					w := &pauseWorker{}
					started := make(chan struct{})
					go w.loop(ctx, str(in, "ack") == "cancellable", started)
					<-started
					workers = append(workers, w)
				}
				return show()
			case "pause":
				launch(func() { pause.Pause() })
				return show()
			case "resume":
				launch(func() { pause.Resume() })
				return show()
			case "stop":
				cancel()
				return show()
			}
			return "harness-error bad-op"
		}
	})
}
