//go:build verif

package main

import (
	"context"
	"fmt"
	"strings"
	"sync/atomic"
	"time"

	"github.com/internetarchive/Zeno/internal/pkg/controler/pause"
)

// pauseWorker mirrors the select loop of the stage workers: stop, pause signal, (work is not
// modelled). `cancellable` says whether the acknowledgement is sent in a select with ctx.Done(), as
// the fact extractor found it in the stage workers.
type pauseWorker struct {
	state atomic.Int32 // 0 running, 1 acking, 2 exited
	gid   int
	busyReq chan chan struct{}
	release chan struct{}
}

func (w *pauseWorker) loop(ctx context.Context, cancellable bool, started chan struct{}) {
	w.gid = goid()
	w.busyReq = make(chan chan struct{})
	chans := pause.Subscribe()
	defer func() { w.state.Store(2) }()
	defer pause.Unsubscribe(chans)
	close(started)
	for {
		select {
		case <-ctx.Done():
			return
		case release := <-w.busyReq:
			// busy with a seed: the worker does not look at its control channels until the work is done
			select {
			case <-release:
			case <-ctx.Done():
				return
			}
		case <-chans.PauseCh:
			w.state.Store(1)
			if cancellable {
				select {
				case chans.ResumeCh <- struct{}{}:
				case <-ctx.Done():
					return
				}
			} else {
				chans.ResumeCh <- struct{}{}
			}
			w.state.Store(0)
		}
	}
}

func init() {
	register("pause", func() handler {
		baseInit()
		var workers []*pauseWorker
		var cancel context.CancelFunc
		var wctx context.Context
		var ackMode string
		var calls []*pendingOp
		self := goid()
		settleAll := func() {
			var ids []int
			for _, w := range workers {
				ids = append(ids, w.gid)
			}
			for _, c := range calls {
				ids = append(ids, c.gid)
			}
			settle(ids, []string{"pause.Resume", "pause.Pause"}, self)
		}
		show := func() string {
			settleAll()
			var keep []*pendingOp
			for _, c := range calls {
				select {
				case <-c.done:
				default:
					keep = append(keep, c)
				}
			}
			calls = keep
			names := []string{"run", "ack", "exit"}
			var ws []string
			for _, w := range workers {
				ws = append(ws, names[w.state.Load()])
			}
			return fmt.Sprintf("paused=%v workers=%s pending=%d", pause.IsPaused(), strings.Join(ws, ","), len(calls))
		}
		launch := func(f func()) {
			p := &pendingOp{done: make(chan string, 1)}
			started := make(chan struct{})
			go func() {
				p.gid = goid()
				close(started)
				f()
				p.done <- "ok"
			}()
			<-started
			calls = append(calls, p)
		}
		return func(in map[string]any) string {
			switch str(in, "op") {
			case "init":
				if cancel != nil {
					cancel()
				}
				pause.VerifReset()
				workers, calls = nil, nil
				var ctx context.Context
				ctx, cancel = context.WithCancel(context.Background())
				wctx, ackMode = ctx, str(in, "ack")
				for i := 0; i < num(in, "n", 1); i++ {
					w := &pauseWorker{}
					started := make(chan struct{})
					go w.loop(ctx, str(in, "ack") == "cancellable", started)
					<-started
					workers = append(workers, w)
				}
				return show()
			case "backpressure":
				return pauseBackPressure(num(in, "rounds", 8))
			case "exitduringresume":
				return pauseExitDuringResume(num(in, "rounds", 8))
			case "pause":
				launch(func() { pause.Pause() })
				return show()
			case "resume":
				launch(func() { pause.Resume() })
				return show()
			case "stop":
				cancel()
				return show()
			case "subscribe":
				// one more worker starts up and subscribes now (whatever the state of the pipeline)
				w := &pauseWorker{}
				started := make(chan struct{})
				go w.loop(wctx, ackMode == "cancellable", started)
				select {
				case <-started:
				case <-time.After(5 * time.Second):
					return "harness-error Subscribe() did not return"
				}
				workers = append(workers, w)
				return show()
			case "busy":
				i := num(in, "i", 0)
				if i < len(workers) && workers[i].release == nil && workers[i].state.Load() == 0 {
					workers[i].release = make(chan struct{})
					select {
					case workers[i].busyReq <- workers[i].release:
					case <-time.After(2 * time.Second):
						workers[i].release = nil
						return "harness-error worker not idle"
					}
				}
				return show()
			case "free":
				i := num(in, "i", 0)
				if i < len(workers) && workers[i].release != nil {
					close(workers[i].release)
					workers[i].release = nil
				}
				return show()
			}
			return "harness-error bad-op"
		}
	})
}

// pauseBackPressure: a two-stage pipeline with the loop shape of the real stage workers. The
// upstream worker is blocked handing a seed to the downstream worker (a send that only a stop can
// interrupt) while its pause signal is still unread; the downstream worker has acknowledged the
// pause. Resume must still return: it has to take the downstream acknowledgement first.
func pauseBackPressure(rounds int) string {
	const pairs = 8 // a Resume that serves its subscribers one after the other deadlocks as soon as it reaches one upstream worker first
	for r := 0; r < rounds; r++ {
		pause.VerifReset()
		ctx, cancel := context.WithCancel(context.Background())
		var downAcks atomic.Int32
		ready := make(chan struct{}, 2*pairs)
		for p := 0; p < pairs; p++ {
			ch := make(chan int) // unbuffered stage channel of this pair
			go func() {          // upstream
				chans := pause.Subscribe()
				defer pause.Unsubscribe(chans)
				ready <- struct{}{}
				for {
					select {
					case <-ctx.Done():
						return
					case <-chans.PauseCh:
						select {
						case chans.ResumeCh <- struct{}{}:
						case <-ctx.Done():
							return
						}
					default:
						select { // hand the seed over: only a stop interrupts this
						case <-ctx.Done():
							return
						case ch <- 1:
						}
					}
				}
			}()
			go func() { // downstream
				chans := pause.Subscribe()
				defer pause.Unsubscribe(chans)
				ready <- struct{}{}
				for {
					select {
					case <-ctx.Done():
						return
					case <-chans.PauseCh:
						downAcks.Add(1)
						select {
						case chans.ResumeCh <- struct{}{}:
						case <-ctx.Done():
							return
						}
						downAcks.Add(-1)
					case <-ch:
					}
				}
			}()
		}
		for p := 0; p < 2*pairs; p++ {
			<-ready
		}
		time.Sleep(2 * time.Millisecond)
		pause.Pause()
		// wait until the downstream workers wait for resume (the upstream ones are then stuck in their send,
		// or have acknowledged too — both are fine)
		deadline := time.Now().Add(2 * time.Second)
		for int(downAcks.Load()) < pairs && time.Now().Before(deadline) {
			time.Sleep(200 * time.Microsecond)
		}
		done := make(chan struct{})
		go func() { pause.Resume(); close(done) }()
		select {
		case <-done:
		case <-time.After(3 * time.Second):
			cancel()
			return fmt.Sprintf("bad round=%d Resume() did not return within 3s: upstream workers blocked handing over a seed (pause signal unread), downstream workers waiting for resume", r)
		}
		cancel()
		time.Sleep(time.Millisecond)
	}
	return "ok"
}

// pauseExitDuringResume: the pipeline is paused while a worker is busy (its pause signal unread), a
// Resume is already waiting for it, then the worker is stopped and leaves without acknowledging.
func pauseExitDuringResume(rounds int) string {
	for r := 0; r < rounds; r++ {
		pause.VerifReset()
		ctx, cancel := context.WithCancel(context.Background())
		ready := make(chan struct{})
		exited := make(chan struct{})
		go func() {
			chans := pause.Subscribe()
			defer close(exited)
			defer pause.Unsubscribe(chans)
			close(ready)
			<-ctx.Done() // busy with a long fetch, then told to stop: it never reads PauseCh
		}()
		<-ready
		pause.Pause()
		done := make(chan struct{})
		go func() { pause.Resume(); close(done) }()
		time.Sleep(2 * time.Millisecond)
		cancel()
		<-exited
		select {
		case <-done:
		case <-time.After(2 * time.Second):
			return fmt.Sprintf("bad round=%d Resume() still blocked 2s after the worker it waited for had exited", r)
		}
	}
	return "ok"
}
