//go:build verif

package main

import (
	"fmt"
	"os"
	"sort"
	"sync"

	"github.com/internetarchive/Zeno/internal/pkg/preprocessor/seencheck"
	"github.com/internetarchive/Zeno/pkg/models"
)

// seen: the real LevelDB-backed seen-store under concurrent preprocessor workers.
// {"op":"burst","workers":8,"each":200,"tag":"a"}: every worker checks its own, distinct, seeds (one single-node
// tree each) concurrently; afterwards every URL is checked once more, sequentially: it was recorded by its first
// check, so it must now be marked Seen. Prints the number of URLs checked and those not found again.
func init() {
	register("seen", func() handler {
		dir := ""
		mkSeed := func(u string) *models.Item {
			it := models.NewItem(fmt.Sprintf("s%x", len(u)*7919+int(u[len(u)-1])+int(u[8])*31)+u[len(u)-12:], &models.URL{Raw: u}, "")
			_ = it.GetURL().Parse()
			return it
		}
		return func(in map[string]any) string {
			switch str(in, "op") {
			case "open":
				if dir != "" {
					seencheck.Close()
					os.RemoveAll(dir)
				}
				d, err := os.MkdirTemp("", "verif-seen-")
				if err != nil {
					return "harness-error " + err.Error()
				}
				dir = d
				if err := seencheck.Start(dir); err != nil {
					return "harness-error " + err.Error()
				}
				return "ok"
			case "burst":
				workers, each, tag := num(in, "workers", 8), num(in, "each", 100), str(in, "tag")
				var wg sync.WaitGroup
				wrong := make([][]string, workers)
				for w := 0; w < workers; w++ {
					wg.Add(1)
					go func(w int) {
						defer wg.Done()
						for k := 0; k < each; k++ {
							u := fmt.Sprintf("http://h%d.example/%s/%d/p?w=%d&k=%d", w, tag, k, w, k)
							it := mkSeed(u)
							if err := seencheck.SeencheckItem(it); err != nil {
								wrong[w] = append(wrong[w], "error:"+u)
							} else if it.GetStatus() == models.ItemSeen {
								wrong[w] = append(wrong[w], "seen-at-first-check:"+u)
							}
						}
					}(w)
				}
				wg.Wait()
				var bad []string
				for _, l := range wrong {
					bad = append(bad, l...)
				}
				for w := 0; w < workers; w++ {
					for k := 0; k < each; k++ {
						u := fmt.Sprintf("http://h%d.example/%s/%d/p?w=%d&k=%d", w, tag, k, w, k)
						it := mkSeed(u)
						if err := seencheck.SeencheckItem(it); err != nil || it.GetStatus() != models.ItemSeen {
							bad = append(bad, "not-seen-again:"+u)
						}
					}
				}
				sort.Strings(bad)
				if len(bad) > 5 {
					return fmt.Sprintf("checked=%d bad=%d e.g. %v", workers*each, len(bad), bad[:5])
				}
				return fmt.Sprintf("checked=%d bad=%d %v", workers*each, len(bad), bad)
			case "close":
				if dir != "" {
					seencheck.Close()
					os.RemoveAll(dir)
					dir = ""
				}
				return "ok"
			}
			return "harness-error unknown op"
		}
	})
}
