//go:build verif

package main

import (
	"encoding/hex"
	"errors"
	"fmt"
	"net/url"
	"strings"

	"github.com/ada-url/goada"
	"github.com/internetarchive/Zeno/internal/pkg/preprocessor"
	"github.com/internetarchive/Zeno/pkg/models"
)

func normOnce(raw, parent string) (string, string) { return normWith(raw, parent, false) }

// normWith: preparsed = the URL object went through models.URL.Parse() before (as the seed sources do);
// the result must not depend on it ("a pure function of the URL text and its parent URL")
func normWith(raw, parent string, preparsed bool) (string, string) {
	u := &models.URL{Raw: raw}
	if preparsed {
		_ = u.Parse()
	}
	var p *models.URL
	if parent != "" {
		p = &models.URL{Raw: parent}
		if err := p.Parse(); err != nil {
			return "", "err:bad-parent"
		}
	}
	if err := preprocessor.NormalizeURL(u, p); err != nil {
		switch {
		case errors.Is(err, preprocessor.ErrUnsupportedScheme):
			return "", "err:unsupported-scheme"
		case errors.Is(err, preprocessor.ErrUnsupportedHost):
			return "", "err:unsupported-host"
		}
		return "", "err:parse"
	}
	return u.String(), ""
}

func hx(s string) string { return hex.EncodeToString([]byte(s)) }

func init() {
	register("url", func() handler {
		baseInit()
		return func(in map[string]any) string {
			switch str(in, "op") {
			case "norm":
				raw, parent := str(in, "raw"), str(in, "parent")
				first, e := normOnce(raw, parent)
				if e != "" {
					return e
				}
				distinct := map[string]bool{first: true}
				for i := 0; i < 6; i++ {
					s, e2 := normOnce(raw, parent)
					if e2 != "" {
						distinct["!"+e2] = true
					} else {
						distinct[s] = true
					}
				}
				if s, e2 := normWith(raw, parent, true); e2 != "" {
					distinct["!"+e2] = true
				} else {
					distinct[s] = true
				}
				again, e3 := normOnce(first, "")
				if e3 != "" {
					again = "!" + e3
				}
				proto, host := "", ""
				if a, err := goada.New(first); err == nil {
					proto, host = a.Protocol(), a.Hostname()
					a.Free()
				}
				// everything that may contain spaces or odd bytes travels hex-encoded
				return fmt.Sprintf("ok canon=%s det=%d again=%s proto=%s host=%s", hx(first), len(distinct), hx(again), hx(proto), hx(host))
			case "normseq":
				// one shared parent object, several references normalised against it in sequence
				parent := &models.URL{Raw: str(in, "parent")}
				if err := parent.Parse(); err != nil {
					return "err:bad-parent"
				}
				before := parent.String()
				var outs []string
				for _, e := range list(in, "raws") {
					raw, _ := e.(string)
					u := &models.URL{Raw: raw}
					if err := preprocessor.NormalizeURL(u, parent); err != nil {
						outs = append(outs, "!")
						continue
					}
					outs = append(outs, hx(u.String()))
				}
				after := &models.URL{Raw: parent.Raw}
				afterS := "!"
				if parent.GetParsed() != nil {
					afterS = parent.GetParsed().String()
				}
				_ = after
				return fmt.Sprintf("seq=%s parent-before=%s parent-after=%s", strings.Join(outs, ","), hx(before), hx(afterS))
			case "query":
				q, _ := hex.DecodeString(str(in, "qhex"))
				distinct := map[string]bool{}
				first := ""
				for i := 0; i < 8; i++ {
					u := &url.URL{Scheme: "http", Host: "h.example", Path: "/", RawQuery: string(q)}
					s := models.URLToString(u)
					s = strings.TrimPrefix(s, "http://h.example/")
					s = strings.TrimPrefix(s, "?")
					if i == 0 {
						first = s
					}
					distinct[s] = true
				}
				return fmt.Sprintf("q=%s det=%d", hx(first), len(distinct))
			case "escape":
				b, _ := hex.DecodeString(str(in, "hex"))
				e := url.QueryEscape(string(b))
				back, err := url.QueryUnescape(e)
				if err != nil {
					return "esc=" + hx(e) + " back=!"
				}
				return "esc=" + hx(e) + " back=" + hx(back)
			case "unescape":
				b, _ := hex.DecodeString(str(in, "hex"))
				back, err := url.QueryUnescape(string(b))
				if err != nil {
					return "back=!"
				}
				return "back=" + hx(back)
			}
			return "harness-error bad-op"
		}
	})
}
