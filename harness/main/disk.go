//go:build verif

package main

import (
	"strconv"

	"github.com/internetarchive/Zeno/internal/pkg/controler/watchers"
)

func init() {
	register("disk", func() handler {
		return func(in map[string]any) string {
			total, e1 := strconv.ParseUint(str(in, "total"), 10, 64)
			free, e2 := strconv.ParseUint(str(in, "free"), 10, 64)
			msr, e3 := strconv.ParseFloat(str(in, "msr"), 64)
			if e1 != nil || e2 != nil || e3 != nil {
				return "harness-error bad-input"
			}
			if watchers.VerifCheckThreshold(total, free, msr) != nil {
				return "refuse"
			}
			return "accept"
		}
	})
}
