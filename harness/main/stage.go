//go:build verif

package main

import (
	"bytes"
	"encoding/json"
	"fmt"
	"io"
	"net"
	"net/http"
	"os"
	"sort"
	"strings"
	"time"

	"github.com/internetarchive/Zeno/internal/pkg/archiver"
	"github.com/internetarchive/Zeno/internal/pkg/config"
	"github.com/internetarchive/Zeno/internal/pkg/postprocessor"
	"github.com/internetarchive/Zeno/internal/pkg/postprocessor/domainscrawl"
	"github.com/internetarchive/Zeno/internal/pkg/preprocessor"
	"github.com/internetarchive/Zeno/internal/pkg/preprocessor/seencheck"
	"github.com/internetarchive/Zeno/internal/pkg/source/hq"
	"github.com/internetarchive/Zeno/pkg/models"
)

// stage domain: the real preprocess / ProcessBody / postprocess / CompleteAndCheck on one seed at a
// time, with scripted server answers instead of the network (archive() itself is exercised end to end).

type countingReader struct {
	r      io.Reader
	n      int
	eof    bool
	closed bool
}

func (c *countingReader) Read(p []byte) (int, error) {
	n, err := c.r.Read(p)
	c.n += n
	if err == io.EOF {
		c.eof = true
	}
	return n, err
}
func (c *countingReader) Close() error { c.closed = true; return nil }

func strList(in map[string]any, k string) []string {
	var out []string
	for _, e := range list(in, k) {
		if s, ok := e.(string); ok {
			out = append(out, s)
		}
	}
	return out
}

// dump prints the tree: id|raw|canonical|status|hops|redirects|req[...]
func stageDump(it *models.Item) string {
	var b strings.Builder
	var rec func(n *models.Item)
	rec = func(n *models.Item) {
		canon := ""
		if n.GetURL().GetParsed() != nil {
			if n.GetStatus() == models.ItemFresh {
				// observing must not disturb: String() caches its first result, and a fresh node has not been normalised yet
				// (only a seed as the source hands it over is parsed and fresh; the model shows its text as given)
				canon = n.GetURL().Raw
			} else {
				canon = n.GetURL().String()
			}
		}
		req := 0
		if n.GetURL().GetRequest() != nil {
			req = 1
		}
		body := 0
		if n.GetURL().GetBody() != nil {
			body = 1
		}
		fmt.Fprintf(&b, "%s|%s|%s|%s|%d|%d|%d|%d[", n.GetID(), hx(n.GetURL().Raw), hx(canon), n.GetStatus().String(), n.GetURL().GetHops(),
			n.GetURL().GetRedirects(), req, body)
		for i, c := range n.GetChildren() {
			if i > 0 {
				b.WriteByte(',')
			}
			rec(c)
		}
		b.WriteByte(']')
	}
	rec(it)
	return b.String()
}

func init() {
	register("stage", func() handler {
		baseInit()
		var seed *models.Item
		seenDir := ""
		var hqFake *fakeHQ
		var viaWorker bool
		var preIn, preOut chan *models.Item
		var hqSrv *http.Server
		stopHQ := func() {
			if hqSrv != nil {
				hqSrv.Close()
				hqSrv, hqFake = nil, nil
			}
		}
		renames := map[*models.Item]string{} // stable ids for nodes created by the postprocessor (uuids otherwise)
		counter := 0
		nameOf := func(n *models.Item) string { return n.GetID() }
		_ = renames
		_ = nameOf
		findNode := func(id string) *models.Item {
			var found *models.Item
			if seed == nil {
				return nil
			}
			seed.Traverse(func(n *models.Item) {
				if n.GetID() == id {
					found = n
				}
			})
			return found
		}
		return func(in map[string]any) string {
			cfg := config.Get()
			switch str(in, "op") {
			case "cfg":
				cfg.IncludeHosts = strList(in, "includeHosts")
				cfg.IncludeString = strList(in, "includeStrings")
				cfg.ExcludeHosts = strList(in, "excludeHosts")
				cfg.ExcludeString = strList(in, "excludeStrings")
				cfg.ExclusionRegexes = nil
				cfg.ExclusionFile = nil
				if res := strList(in, "regexes"); len(res) > 0 {
					// through the real exclusion-file reader: one regex per line, last line with or without a newline
					f, err := os.CreateTemp("", "verif-excl-")
					if err != nil {
						return "harness-error " + err.Error()
					}
					text := strings.Join(res, "\n")
					if boolean(in, "exclusionFileTrailingNewline", true) {
						text += "\n"
					}
					if boolean(in, "exclusionFileLongLine", false) {
						// a first line longer than bufio.Scanner's token limit: reading the file fails half way
						text = strings.Repeat("a", 70000) + "\n" + text
					}
					f.WriteString(text)
					f.Close()
					defer os.Remove(f.Name())
					cfg.ExclusionFile = []string{f.Name()}
				}
				cfg.DisableHTMLTag = strList(in, "disableHTMLTag")
				cfg.CaptureAlternatePages = boolean(in, "captureAlternatePages", false)
				cfg.DisableAssetsCapture = boolean(in, "disableAssets", false)
				cfg.MaxHops = num(in, "maxHops", 0)
				cfg.MaxRedirect = num(in, "maxRedirect", 20)
				cfg.DisableSeencheck = boolean(in, "disableSeencheck", false)
				cfg.UseSeencheck = !cfg.DisableSeencheck
				cfg.UserAgent = "verif"
				domainscrawl.Reset()
				cfg.DomainsCrawl = strList(in, "domainsCrawl")
				cfg.Job = "verif"
				// the rest of the effective configuration (default excluded hosts, exclusion regexes,
				// domains-crawl patterns) is derived by the real GenerateCrawlConfig
				if err := config.GenerateCrawlConfig(); err != nil {
					return "harness-error " + err.Error()
				}
				cfg.UseHQ = boolean(in, "useHQ", false)
				viaWorker = boolean(in, "viaWorker", false)
				if boolean(in, "resetSeen", true) {
					stopHQ()
					if cfg.UseHQ {
						hqFake = &fakeHQ{seen: map[string]bool{}, record: true}
						for _, v := range strList(in, "hqSeen") {
							hqFake.seen[v] = true
						}
						ln, err := net.Listen("tcp", "127.0.0.1:0")
						if err != nil {
							return "harness-error " + err.Error()
						}
						hqSrv = &http.Server{Handler: hqFake}
						go hqSrv.Serve(ln)
						hq.VerifSetClient(newHQClient("http://"+ln.Addr().String(), 5*time.Second))
					}
					if seenDir != "" {
						seencheck.Close()
						os.RemoveAll(seenDir)
						seenDir = ""
					}
					// the pipeline opens the store only when seencheck is enabled (and HQ is not used)
					if cfg.UseSeencheck && !cfg.UseHQ {
						d, _ := os.MkdirTemp("", "verif-seen-")
						seenDir = d
						if err := seencheck.Start(d); err != nil {
							return "harness-error " + err.Error()
						}
					}
				}
				return "ok"
			case "seed":
				u := &models.URL{Raw: str(in, "url"), Hops: num(in, "hops", 0)}
				if err := u.Parse(); err != nil {
					return "unparsable"
				}
				seed = models.NewItem(str(in, "id"), u, str(in, "via"))
				counter = 0
				return stageDump(seed)
			case "oracle":
				// what the real normaliser answers for every node at the working depth (fed to the model)
				if seed == nil {
					return "{}"
				}
				items, _ := seed.GetNodesAtLevel(seed.GetMaxDepth())
				out := map[string]any{}
				for _, it := range items {
					cp := &models.URL{Raw: it.GetURL().Raw}
					var perr error
					if it.IsSeed() {
						perr = preprocessor.NormalizeURL(cp, nil)
					} else {
						perr = preprocessor.NormalizeURL(cp, it.GetParent().GetURL())
					}
					if perr != nil {
						out[it.GetID()] = nil
						continue
					}
					out[it.GetID()] = map[string]string{"canon": cp.String(), "host": cp.GetParsed().Host, "path": cp.GetParsed().Path, "href": cp.Raw}
				}
				b, _ := json.Marshal(out)
				return string(b)
			case "pre":
				n0 := 0
				if hqFake != nil {
					hqFake.mu.Lock()
					n0 = len(hqFake.seenLog)
					hqFake.mu.Unlock()
				}
				if viaWorker {
					// through the real stage worker (its goroutine, its channels), as in the running crawler
					if preIn == nil {
						config.Get().WorkersCount = 1
						preIn, preOut = make(chan *models.Item), make(chan *models.Item)
						if err := preprocessor.Start(preIn, preOut); err != nil {
							return "harness-error " + err.Error()
						}
					}
					select {
					case preIn <- seed:
					case <-time.After(10 * time.Second):
						return "harness-error the preprocessor worker does not take the seed"
					}
					select {
					case seed = <-preOut:
					case <-time.After(20 * time.Second):
						return "hang the preprocessor worker did not hand the seed on"
					}
				} else {
					preprocessor.VerifPreprocess(seed)
				}
				if cfg.UseHQ && hqFake != nil {
					var sent []string
					hqFake.mu.Lock()
					for _, req := range hqFake.seenLog[n0:] {
						for _, u := range req {
							sent = append(sent, hx(u.Value))
						}
					}
					hqFake.mu.Unlock()
					return stageDump(seed) + " sent=" + strings.Join(sent, ",")
				}
				return stageDump(seed)
			case "arch":
				// scripted outcomes for the nodes that carry a request
				outcomes, _ := in["outcomes"].(map[string]any)
				var info []string
				items, _ := seed.GetNodesAtLevel(seed.GetMaxDepth())
				for _, it := range items {
					if it.GetStatus() != models.ItemPreProcessed {
						continue
					}
					oc, _ := outcomes[it.GetID()].(map[string]any)
					if oc == nil || boolean(oc, "fail", false) {
						it.SetStatus(models.ItemFailed)
						continue
					}
					body := []byte(str(oc, "body"))
					cr := &countingReader{r: bytes.NewReader(body)}
					hdr := http.Header{}
					if ct := str(oc, "ctype"); ct != "" {
						hdr.Set("Content-Type", ct)
					}
					if loc := str(oc, "location"); loc != "" {
						hdr.Set("Location", loc)
					}
					if l := str(oc, "link"); l != "" {
						hdr.Set("Link", l)
					}
					resp := &http.Response{StatusCode: num(oc, "status", 200), Header: hdr, Body: cr, Request: it.GetURL().GetRequest()}
					it.GetURL().SetResponse(resp)
					err := archiver.ProcessBody(it.GetURL(), cfg.DisableAssetsCapture, domainscrawl.Enabled(), cfg.MaxHops, os.TempDir())
					if err != nil {
						it.SetStatus(models.ItemFailed)
						continue
					}
					it.SetStatus(models.ItemArchived)
					mt := ""
					if it.GetURL().GetMIMEType() != nil {
						mt = it.GetURL().GetMIMEType().String()
					}
					info = append(info, fmt.Sprintf("%s:read=%d/%d:eof=%v:closed=%v:mime=%s", it.GetID(), cr.n, len(body), cr.eof, cr.closed, mt))
				}
				sort.Strings(info)
				return stageDump(seed) + " " + strings.Join(info, ";")
			case "post":
				// name the nodes the postprocessor creates: c<k> in creation (traversal) order
				before := map[string]bool{}
				seed.Traverse(func(n *models.Item) { before[n.GetID()] = true })
				outlinks := postprocessor.VerifPostprocess(seed)
				_ = before
				var outs []string
				for _, o := range outlinks {
					outs = append(outs, fmt.Sprintf("%s|%d|%s", hx(o.GetURL().Raw), o.GetURL().GetHops(), hx(o.GetSeedVia())))
				}
				openBodies := 0
				seed.Traverse(func(n *models.Item) {
					if n.GetURL().GetBody() != nil {
						openBodies++
					}
				})
				_ = counter
				return stageDump(seed) + " outlinks=" + strings.Join(outs, ",") + fmt.Sprintf(" openBodies=%d", openBodies)
			case "fin":
				if seed.GetStatus() == models.ItemFresh {
					return "produce " + stageDump(seed)
				}
				if !seed.CompleteAndCheck() {
					return "feedback " + stageDump(seed)
				}
				return "finish " + stageDump(seed)
			case "check":
				if err := seed.CheckConsistency(); err != nil {
					return "bad " + err.Error()
				}
				return "ok"
			case "depths":
				var out []string
				seed.Traverse(func(n *models.Item) {
					out = append(out, fmt.Sprintf("%s:%d:%d", n.GetID(), n.GetDepth(), n.GetDepthWithoutRedirections()))
				})
				return strings.Join(out, ",")
			case "node":
				if n := findNode(str(in, "id")); n != nil {
					return n.GetStatus().String()
				}
				return "none"
			case "close":
				stopHQ()
				if seenDir != "" {
					seencheck.Close()
					os.RemoveAll(seenDir)
					seenDir = ""
				}
				return "ok"
			}
			return "harness-error bad-op"
		}
	})
}
