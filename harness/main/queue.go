//go:build verif

package main

import (
	"encoding/json"
	"fmt"
	"io"
	"net"
	"net/http"
	"net/url"
	"os"
	"path"
	"sort"
	"strings"
	"sync"
	"time"

	"github.com/internetarchive/Zeno/internal/pkg/config"
	"github.com/internetarchive/Zeno/internal/pkg/source/hq"
	"github.com/internetarchive/Zeno/internal/pkg/source/lq"
	"github.com/internetarchive/Zeno/pkg/models"
	"github.com/internetarchive/gocrawlhq"
)

func lqURLs(in map[string]any) []lq.VerifURL {
	var out []lq.VerifURL
	for _, e := range list(in, "urls") {
		a, _ := e.([]any)
		if len(a) < 4 {
			continue
		}
		id, _ := a[0].(string)
		v, _ := a[1].(string)
		via, _ := a[2].(string)
		out = append(out, lq.VerifURL{ID: id, Value: v, Via: via, Hops: anyInt(a[3])})
	}
	return out
}

// fakeHQ answers the add / delete / seencheck endpoints of crawl HQ; the first `fail` requests of
// each kind are refused the way the script says (500, reset, timeout).
type fakeHQ struct {
	mu       sync.Mutex
	failAdd  []string
	failDel  []string
	adds     [][]gocrawlhq.URL
	dels     [][]gocrawlhq.URL
	attempts int
	seen     map[string]bool // values the HQ reports as already seen
	seenLog  [][]gocrawlhq.URL
	record   bool // a seencheck records the values it answers as new
}

func (f *fakeHQ) ServeHTTP(w http.ResponseWriter, r *http.Request) {
	body, _ := io.ReadAll(r.Body)
	f.mu.Lock()
	f.attempts++
	var script *[]string
	switch {
	case strings.HasSuffix(r.URL.Path, "/urls") && r.Method == http.MethodPost:
		script = &f.failAdd
	case strings.HasSuffix(r.URL.Path, "/urls") && r.Method == http.MethodDelete:
		script = &f.failDel
	}
	mode := ""
	if script != nil && len(*script) > 0 {
		mode = (*script)[0]
		*script = (*script)[1:]
	}
	f.mu.Unlock()
	switch mode {
	case "500":
		w.WriteHeader(500)
		return
	case "reset":
		if hj, ok := w.(http.Hijacker); ok {
			c, _, _ := hj.Hijack()
			if tc, ok := c.(*net.TCPConn); ok {
				tc.SetLinger(0)
			}
			c.Close()
		}
		return
	case "timeout":
		time.Sleep(1500 * time.Millisecond)
		w.WriteHeader(201)
		return
	}
	f.mu.Lock()
	defer f.mu.Unlock()
	switch {
	case strings.HasSuffix(r.URL.Path, "/urls") && r.Method == http.MethodPost:
		var p gocrawlhq.AddPayload
		json.Unmarshal(body, &p)
		f.adds = append(f.adds, p.URLs)
		w.WriteHeader(201)
	case strings.HasSuffix(r.URL.Path, "/urls") && r.Method == http.MethodDelete:
		var p gocrawlhq.DeletePayload
		json.Unmarshal(body, &p)
		f.dels = append(f.dels, p.URLs)
		w.WriteHeader(204)
	case strings.HasSuffix(r.URL.Path, "/seencheck"):
		var in []gocrawlhq.URL
		json.Unmarshal(body, &in)
		f.seenLog = append(f.seenLog, in)
		var out []gocrawlhq.URL
		for _, u := range in {
			if !f.seen[u.Value] {
				out = append(out, u)
				if f.record {
					f.seen[u.Value] = true
				}
			}
		}
		if len(out) == 0 {
			w.WriteHeader(204)
			return
		}
		w.WriteHeader(200)
		json.NewEncoder(w).Encode(out)
	default:
		w.WriteHeader(404)
	}
}

func newHQClient(addr string, timeout time.Duration) *gocrawlhq.Client {
	c := &gocrawlhq.Client{Project: "p", HQAddress: addr, Identifier: "verif", HTTPClient: &http.Client{Timeout: timeout}}
	mk := func(parts ...string) *url.URL {
		u, _ := url.Parse(addr)
		u.Path = path.Join(append([]string{u.Path}, parts...)...)
		return u
	}
	c.URLsEndpoint = mk("api", "projects", "p", "urls")
	c.SeencheckEndpoint = mk("api", "projects", "p", "seencheck")
	c.ResetEndpoint = mk("api", "projects", "p", "reset")
	c.ProjectEndpoint = mk("api", "projects", "p")
	return c
}

// hqScenario: the real hq producer and finisher routines against a fake HQ that refuses the first
// requests as scripted. Returns what the HQ finally accepted.
func hqScenario(in map[string]any) string {
	cfg := config.Get()
	cfg.WorkersCount = num(in, "workers", 2)
	cfg.HQBatchSize = num(in, "batch", 3)
	f := &fakeHQ{}
	for _, m := range list(in, "failadd") {
		f.failAdd = append(f.failAdd, m.(string))
	}
	for _, m := range list(in, "faildel") {
		f.failDel = append(f.failDel, m.(string))
	}
	ln, err := net.Listen("tcp", "127.0.0.1:0")
	if err != nil {
		return "harness-error " + err.Error()
	}
	srv := &http.Server{Handler: f}
	go srv.Serve(ln)
	defer srv.Close()
	client := newHQClient("http://"+ln.Addr().String(), 1*time.Second)
	finishCh := make(chan *models.Item)
	produceCh := make(chan *models.Item)
	hq.VerifStartBatchers(client, finishCh, produceCh)
	for _, e := range list(in, "outlinks") {
		a, _ := e.([]any)
		raw, _ := a[0].(string)
		via, _ := a[1].(string)
		u := &models.URL{Raw: raw, Hops: anyInt(a[2])}
		produceCh <- models.NewItem(fmt.Sprintf("o%d", len(raw)), u, via)
	}
	for _, e := range list(in, "finished") {
		id, _ := e.(string)
		u := &models.URL{Raw: "http://s.example/" + id}
		_ = u.Parse()
		finishCh <- models.NewItem(id, u, "")
	}
	wantAdds, wantDels := len(list(in, "outlinks")), len(list(in, "finished"))
	deadline := time.Now().Add(time.Duration(num(in, "wait", 12)) * time.Second)
	for time.Now().Before(deadline) {
		f.mu.Lock()
		na, nd := 0, 0
		for _, b := range f.adds {
			na += len(b)
		}
		for _, b := range f.dels {
			nd += len(b)
		}
		f.mu.Unlock()
		if na >= wantAdds && nd >= wantDels {
			break
		}
		time.Sleep(50 * time.Millisecond)
	}
	time.Sleep(100 * time.Millisecond)
	hq.VerifStopBatchers()
	f.mu.Lock()
	defer f.mu.Unlock()
	var adds, dels []string
	for _, b := range f.adds {
		for _, u := range b {
			adds = append(adds, fmt.Sprintf("%s|%s|%s", u.Value, u.Via, u.Path))
		}
	}
	for _, b := range f.dels {
		for _, u := range b {
			dels = append(dels, u.ID)
		}
	}
	sort.Strings(adds)
	sort.Strings(dels)
	out, _ := json.Marshal(map[string]any{"adds": adds, "dels": dels, "attempts": f.attempts})
	return string(out)
}

func init() {
	register("queue", func() handler {
		baseInit()
		dir := ""
		return func(in map[string]any) string {
			switch str(in, "op") {
			case "hops":
				h := num(in, "h", 0)
				p := hq.VerifHopsToPath(h)
				return fmt.Sprintf("path=%s back=%d", p, hq.VerifPathToHops(p))
			case "path":
				return fmt.Sprintf("hops=%d", hq.VerifPathToHops(str(in, "p")))
			case "lqopen":
				if boolean(in, "new", false) || dir == "" {
					d, err := os.MkdirTemp("", "verif-lq-")
					if err != nil {
						return "harness-error " + err.Error()
					}
					if dir != "" {
						lq.VerifAbandon()
						os.RemoveAll(dir)
					}
					dir = d
				}
				config.Get().JobPath = dir
				if err := lq.VerifOpen(); err != nil {
					return "err " + err.Error()
				}
				return "ok"
			case "lqabandon":
				lq.VerifAbandon()
				return "ok"
			case "lqadd":
				if err := lq.VerifAdd(lqURLs(in)); err != nil {
					return "err"
				}
				return "ok"
			case "lqget":
				rows, err := lq.VerifGet(num(in, "limit", 1))
				if err != nil {
					return "err"
				}
				var ids []string
				for _, r := range rows {
					ids = append(ids, fmt.Sprintf("%s|%s|%s|%d", r.ID, r.Value, r.Via, r.Hops))
				}
				return "got " + strings.Join(ids, ",")
			case "lqdelete":
				var ids []string
				for _, e := range list(in, "ids") {
					ids = append(ids, e.(string))
				}
				if err := lq.VerifDelete(ids); err != nil {
					return "err"
				}
				return "ok"
			case "lqreset":
				if err := lq.VerifReset(str(in, "id")); err != nil {
					return "err"
				}
				return "ok"
			case "lqrows":
				rows, err := lq.VerifRows()
				if err != nil {
					return "err"
				}
				return "rows " + strings.Join(rows, ",")
			case "lqclose":
				lq.VerifAbandon()
				if dir != "" {
					os.RemoveAll(dir)
					dir = ""
				}
				return "ok"
			case "hqscenario":
				return hqScenario(in)
			}
			return "harness-error bad-op"
		}
	})
}
