//go:build verif

package extractor

func VerifHasFileExtension(s string) bool { return hasFileExtension(s) }
func VerifIsValidURL(s string) bool       { return isValidURL(s) }
func VerifIsLikelyJSON(s string) bool     { return isLikelyJSON(s) }
