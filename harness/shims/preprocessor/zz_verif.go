//go:build verif

package preprocessor

import (
	"github.com/internetarchive/Zeno/internal/pkg/log"
	"github.com/internetarchive/Zeno/pkg/models"
)

// VerifPreprocess runs the real preprocess() on a seed.
func VerifPreprocess(seed *models.Item) {
	log.Start()
	if logger == nil {
		logger = log.NewFieldedLogger(&log.Fields{"component": "preprocessor"})
	}
	preprocess("verif", seed)
}
