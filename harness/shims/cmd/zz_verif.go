//go:build verif

package cmd

import (
	"github.com/internetarchive/Zeno/internal/pkg/config"
	"github.com/spf13/cobra"
)

// VerifParse runs the real command line (flag definitions, cobra parsing, viper binding,
// config.InitConfig with its alias and edge-case handling) on args and returns the resulting
// configuration; the sub-commands' RunE is replaced so that no crawl starts.
func VerifParse(args []string) (*config.Config, error) {
	noop := func(_ *cobra.Command, _ []string) error { return nil }
	getURLCmd.RunE = noop
	getHQCmd.RunE = noop
	rootCmd.SetArgs(args)
	err := Run()
	return config.Get(), err
}
