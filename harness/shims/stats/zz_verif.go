//go:build verif

package stats

import "sync/atomic"

// VerifMeanCells returns count and sum of the mean HTTP response time metric.
func VerifMeanCells() (uint64, uint64) {
	m := globalStats.MeanHTTPResponseTime
	return atomic.LoadUint64(&m.count), atomic.LoadUint64(&m.sum)
}

// VerifTotals returns the monotone totals of the two rate metrics.
func VerifTotals() (urls, seeds uint64) {
	return globalStats.URLsCrawled.getTotal(), globalStats.SeedsFinished.getTotal()
}

// VerifHTTPTotals returns the per-status totals.
func VerifHTTPTotals() map[string]uint64 { return globalStats.HTTPReturnCodes.getAllTotal() }
