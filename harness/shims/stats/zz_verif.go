//go:build verif

package stats

// VerifTotals returns the monotone totals of the two rate metrics.
func VerifTotals() (urls, seeds uint64) {
	return globalStats.URLsCrawled.getTotal(), globalStats.SeedsFinished.getTotal()
}

// VerifHTTPTotals returns the per-status totals.
func VerifHTTPTotals() map[string]uint64 { return globalStats.HTTPReturnCodes.getAllTotal() }
