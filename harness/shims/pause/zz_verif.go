//go:build verif

package pause

// VerifReset installs a fresh manager (one history per manager).
func VerifReset() { manager = &pauseManager{} }
