//go:build verif

package lq

import (
	"context"
	"sort"

	"github.com/internetarchive/Zeno/internal/pkg/log"
	"github.com/internetarchive/Zeno/internal/pkg/source/lq/sqlc_model"
)

// VerifOpen opens (or re-opens) the job's queue database the way Start does, without the routines.
func VerifOpen() error {
	log.Start()
	logger = log.NewFieldedLogger(&log.Fields{"component": "lq"})
	c, err := Init("")
	if err != nil {
		return err
	}
	ctx, cancel := context.WithCancel(context.Background())
	globalLQ = &lq{ctx: ctx, cancel: cancel, client: c}
	return nil
}

// VerifAbandon forgets the client without any clean-up (what a killed process leaves behind).
func VerifAbandon() {
	if globalLQ != nil {
		globalLQ.client.dbWrite.Close()
		globalLQ = nil
	}
}

type VerifURL struct {
	ID, Value, Via string
	Hops           int
}

func VerifAdd(urls []VerifURL) error {
	var in []sqlc_model.Url
	for _, u := range urls {
		in = append(in, sqlc_model.Url{ID: u.ID, Value: u.Value, Via: u.Via, Hops: int64(u.Hops)})
	}
	return globalLQ.client.Add(context.Background(), in, false)
}

func VerifGet(limit int) ([]VerifURL, error) {
	rows, err := globalLQ.client.Get(context.Background(), limit)
	var out []VerifURL
	for _, r := range rows {
		out = append(out, VerifURL{ID: r.ID, Value: r.Value, Via: r.Via, Hops: int(r.Hops)})
	}
	return out, err
}

func VerifDelete(ids []string) error {
	var in []sqlc_model.Url
	for _, id := range ids {
		in = append(in, sqlc_model.Url{ID: id})
	}
	return globalLQ.client.Delete(context.Background(), in, false)
}

func VerifReset(id string) error { return globalLQ.client.ResetURL(context.Background(), id) }

// VerifRows returns "id|value|via|hops|status" for every row, sorted.
func VerifRows() ([]string, error) {
	rows, err := globalLQ.client.dbWrite.Query("SELECT id, value, via, hops, status FROM urls")
	if err != nil {
		return nil, err
	}
	defer rows.Close()
	var out []string
	for rows.Next() {
		var id, value, via, status string
		var hops int64
		if err := rows.Scan(&id, &value, &via, &hops, &status); err != nil {
			return nil, err
		}
		out = append(out, id+"|"+value+"|"+via+"|"+itoa(hops)+"|"+status)
	}
	sort.Strings(out)
	return out, nil
}

func itoa(n int64) string {
	if n == 0 {
		return "0"
	}
	neg := n < 0
	if neg {
		n = -n
	}
	var b []byte
	for n > 0 {
		b = append([]byte{byte('0' + n%10)}, b...)
		n /= 10
	}
	if neg {
		b = append([]byte{'-'}, b...)
	}
	return string(b)
}

// VerifDDL is the embedded schema (to pre-fill a job's queue file before the crawler starts).
func VerifDDL() string { return ddl }
