//go:build verif

package ratelimiter

import (
	"context"
	"fmt"
	"sync"
	"sync/atomic"
	"time"
)

// VerifBucket wraps a real tokenBucket driven by an injected clock.
type VerifBucket struct {
	tb  *tokenBucket
	now time.Time
}

var verifEpoch = time.Date(2026, 1, 1, 0, 0, 0, 0, time.UTC)

func VerifNewBucket(capacity, rate float64, ns int64) *VerifBucket {
	v := &VerifBucket{}
	v.now = verifEpoch.Add(time.Duration(ns))
	tb := newTokenBucket(capacity, rate)
	tb.nowFunc = func() time.Time { return v.now }
	tb.lastRefill = v.now
	tb.penaltyUntil = v.now
	v.tb = tb
	return v
}

func (v *VerifBucket) At(ns int64) { v.now = verifEpoch.Add(time.Duration(ns)) }

// TryOnce performs exactly one iteration of the loop of Wait(): refill, then take a token if one is
// there (the facts extractor pins that Wait() has this shape).
func (v *VerifBucket) TryOnce() bool {
	v.tb.mu.Lock()
	defer v.tb.mu.Unlock()
	v.tb.refill()
	if v.tb.tokens >= 1 {
		v.tb.tokens--
		return true
	}
	return false
}

// TryReal performs one attempt through the real Wait(): Wait() runs on a copy of the bucket under the frozen clock; when it starts a
// second attempt instead of returning (it sleeps 50 ms between attempts) the first one has failed and the state it left is taken over. The abandoned
// waiter is then let go (its clock jumps far ahead, so its next attempt succeeds and the goroutine ends).
func (v *VerifBucket) TryReal() bool {
	src := v.tb
	src.mu.Lock()
	cp := &tokenBucket{tokens: src.tokens, capacity: src.capacity, refillRate: src.refillRate, idealRate: src.idealRate,
		lastRefill: src.lastRefill, penaltyUntil: src.penaltyUntil, failureCount: src.failureCount}
	src.mu.Unlock()
	var abandoned atomic.Bool
	var calls atomic.Int64
	now := v.now
	cp.nowFunc = func() time.Time {
		calls.Add(1)
		if abandoned.Load() {
			return now.Add(100000 * time.Hour)
		}
		return now
	}
	done := make(chan struct{})
	go func() { cp.Wait(); close(done) }()
	// the attempt is over when Wait() has returned, or when it asks for the time a second time (it does so once per attempt, and sleeps
	// 50 ms between attempts): no guess about how long an attempt takes
	released := false
	deadline := time.Now().Add(5 * time.Second)
	for !released && calls.Load() < 2 && time.Now().Before(deadline) {
		select {
		case <-done:
			released = true
		case <-time.After(2 * time.Millisecond):
		}
	}
	if !released {
		select {
		case <-done:
			released = true
		default:
		}
	}
	cp.mu.Lock()
	src.mu.Lock()
	src.tokens, src.refillRate, src.lastRefill, src.penaltyUntil, src.failureCount = cp.tokens, cp.refillRate, cp.lastRefill, cp.penaltyUntil, cp.failureCount
	src.mu.Unlock()
	cp.mu.Unlock()
	if !released {
		abandoned.Store(true)
	}
	return released
}

// WaitReal calls the real blocking Wait() while a helper goroutine advances the injected clock by
// step every real millisecond; returns the virtual time at which Wait returned.
func (v *VerifBucket) WaitReal(step time.Duration, maxSteps int) (int64, bool) {
	done := make(chan struct{})
	go func() { v.tb.Wait(); close(done) }()
	for i := 0; i < maxSteps; i++ {
		select {
		case <-done:
			v.tb.mu.Lock()
			t := v.now.Sub(verifEpoch).Nanoseconds()
			v.tb.mu.Unlock()
			return t, true
		case <-time.After(60 * time.Millisecond):
			v.tb.mu.Lock()
			v.now = v.now.Add(step)
			v.tb.mu.Unlock()
		}
	}
	return 0, false
}

func (v *VerifBucket) Fail(code int) { v.tb.adjustOnFailure(code) }
func (v *VerifBucket) Success()      { v.tb.onSuccess() }

func (v *VerifBucket) State() (tokens, rate float64, penNs, lastNs int64, fails int) {
	v.tb.mu.Lock()
	defer v.tb.mu.Unlock()
	return v.tb.tokens, v.tb.refillRate, v.tb.penaltyUntil.Sub(verifEpoch).Nanoseconds(), v.tb.lastRefill.Sub(verifEpoch).Nanoseconds(), v.tb.failureCount
}

// VerifManager exposes the bucket table of a real BucketManager.
type VerifManager struct{ bm *BucketManager }

func VerifNewManager(maxBuckets int) *VerifManager {
	return &VerifManager{bm: NewBucketManager(context.Background(), maxBuckets, 1, 1, time.Hour)}
}
func (m *VerifManager) Get(host string) int {
	m.bm.getBucket(host)
	m.bm.mu.Lock()
	defer m.bm.mu.Unlock()
	return len(m.bm.buckets)
}
// Report goes through the manager's public entry points for the outcome of a request (they look the host's bucket up again)
func (m *VerifManager) Report(host string, code int) int {
	if code == 0 {
		m.bm.OnSuccess(host)
	} else {
		m.bm.AdjustOnFailure(host, code)
	}
	m.bm.mu.Lock()
	defer m.bm.mu.Unlock()
	return len(m.bm.buckets)
}
func (m *VerifManager) Hosts() map[string]int {
	m.bm.mu.Lock()
	defer m.bm.mu.Unlock()
	out := map[string]int{}
	for k, v := range m.bm.buckets {
		out[k] = v.usageCount
	}
	return out
}
func (m *VerifManager) Close() { m.bm.Close() }

// VerifFirstContact: `workers` goroutines contact each of `hosts` brand-new hosts at the same moment,
// while the manager's lock is contended (it is taken for a few milliseconds at a time, as a cleanup
// sweep or an LFU scan would), so that the arrivals queue on it. Capacity 1 and a negligible rate:
// per host at most one request may be released.
func VerifFirstContact(hosts, workers int) string {
	bm := NewBucketManager(context.Background(), 10*hosts+10, 1, 0.001, time.Hour)
	defer bm.Close()
	released := make([]atomic.Int64, hosts)
	start := make(chan struct{})
	var ready, wg sync.WaitGroup
	for h := 0; h < hosts; h++ {
		host := fmt.Sprintf("new-%d.example", h)
		for w := 0; w < workers; w++ {
			ready.Add(1)
			wg.Add(1)
			go func(h int, host string) {
				defer wg.Done()
				ready.Done()
				<-start
				mb := bm.getBucket(host)
				// one iteration of Wait(): refill, take a token if there is one
				mb.bucket.mu.Lock()
				mb.bucket.refill()
				if mb.bucket.tokens >= 1 {
					mb.bucket.tokens--
					released[h].Add(1)
				}
				mb.bucket.mu.Unlock()
			}(h, host)
		}
	}
	ready.Wait()
	bm.mu.Lock()
	close(start)
	time.Sleep(20 * time.Millisecond)
	for i := 0; i < 10; i++ {
		bm.mu.Unlock()
		bm.mu.Lock()
		time.Sleep(2 * time.Millisecond)
	}
	bm.mu.Unlock()
	wg.Wait()
	bad, worst := 0, int64(0)
	for h := range released {
		if n := released[h].Load(); n > 1 {
			bad++
			if n > worst {
				worst = n
			}
		}
	}
	if bad > 0 {
		return fmt.Sprintf("bad %d of %d new hosts released more than capacity=1 at once (worst %d, %d workers each)", bad, hosts, worst, workers)
	}
	return "ok"
}

// VerifSize reports the number of buckets in the table and the configured bound.
func (m *BucketManager) VerifSize() (int, int) {
	m.mu.Lock()
	defer m.mu.Unlock()
	return len(m.buckets), m.maxBuckets
}
