//go:build verif

package postprocessor

import (
	"github.com/internetarchive/Zeno/internal/pkg/log"
	"github.com/internetarchive/Zeno/pkg/models"
)

// VerifPostprocess runs the real postprocess() followed by closeBodies(), as the worker does.
func VerifPostprocess(seed *models.Item) []*models.Item {
	log.Start()
	if logger == nil {
		logger = log.NewFieldedLogger(&log.Fields{"component": "postprocessor"})
	}
	out := postprocess("verif", seed)
	closeBodies(seed)
	return out
}

// VerifPostprocessItem runs the real postprocessItem() on one node.
func VerifPostprocessItem(item *models.Item) []*models.Item {
	log.Start()
	if logger == nil {
		logger = log.NewFieldedLogger(&log.Fields{"component": "postprocessor"})
	}
	return postprocessItem(item)
}

// VerifExtractAssets / VerifExtractOutlinks run the real dispatchers on an item that carries a response and a body.
func VerifExtractAssets(item *models.Item) (assets, outlinks []*models.URL, err error) {
	log.Start()
	if logger == nil {
		logger = log.NewFieldedLogger(&log.Fields{"component": "postprocessor"})
	}
	if !shouldExtractAssets(item) {
		return nil, nil, nil
	}
	return extractAssets(item)
}

func VerifExtractOutlinks(item *models.Item) ([]*models.URL, error) {
	log.Start()
	if logger == nil {
		logger = log.NewFieldedLogger(&log.Fields{"component": "postprocessor"})
	}
	return extractOutlinks(item)
}
