//go:build verif

package hq

import (
	"context"
	"sync"

	"github.com/internetarchive/Zeno/internal/pkg/log"
	"github.com/internetarchive/Zeno/pkg/models"
	"github.com/internetarchive/gocrawlhq"
)

func VerifPathToHops(p string) int { return pathToHops(p) }
func VerifHopsToPath(h int) string { return hopsToPath(h) }

// VerifStartBatchers starts the real producer and finisher routines (not the consumer nor the
// websocket) against the given client.
func VerifStartBatchers(client *gocrawlhq.Client, finishCh, produceCh chan *models.Item) {
	log.Start()
	logger = log.NewFieldedLogger(&log.Fields{"component": "hq"})
	ctx, cancel := context.WithCancel(context.Background())
	globalHQ = &hq{wg: sync.WaitGroup{}, ctx: ctx, cancel: cancel, finishCh: finishCh, produceCh: produceCh, client: client}
	globalHQ.wg.Add(2)
	go producer()
	go finisher()
}

func VerifStopBatchers() {
	if globalHQ != nil {
		globalHQ.cancel()
		globalHQ.wg.Wait()
		globalHQ = nil
	}
}

// VerifSeencheck runs the real HQ seencheck on a seed.
func VerifSeencheck(client *gocrawlhq.Client, seed *models.Item) error {
	log.Start()
	logger = log.NewFieldedLogger(&log.Fields{"component": "hq"})
	if globalHQ == nil {
		ctx, cancel := context.WithCancel(context.Background())
		globalHQ = &hq{ctx: ctx, cancel: cancel, client: client}
	} else {
		globalHQ.client = client
	}
	return SeencheckItem(seed)
}

// VerifSetClient makes the package talk to the given crawl HQ (no routines are started).
func VerifSetClient(client *gocrawlhq.Client) {
	log.Start()
	logger = log.NewFieldedLogger(&log.Fields{"component": "hq"})
	if globalHQ == nil {
		ctx, cancel := context.WithCancel(context.Background())
		globalHQ = &hq{ctx: ctx, cancel: cancel, client: client}
	} else {
		globalHQ.client = client
	}
}
