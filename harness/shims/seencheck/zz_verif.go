//go:build verif

package seencheck

import (
	"hash/fnv"
	"strconv"
)

// VerifRecorded tells whether the open store holds a record for this canonical URL, and of which type.
func VerifRecorded(canonical string) (bool, string) {
	h := fnv.New64a()
	h.Write([]byte(canonical))
	return isSeen(strconv.FormatUint(h.Sum64(), 10))
}
