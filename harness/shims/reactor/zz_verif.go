//go:build verif

package reactor

// VerifTokens returns the number of tokens in use (-1 when the reactor is not running).
func VerifTokens() int {
	if globalReactor == nil {
		return -1
	}
	return len(globalReactor.tokenPool)
}

// VerifInputLen returns the number of items buffered in the input channel.
func VerifInputLen() int {
	if globalReactor == nil {
		return -1
	}
	return len(globalReactor.input)
}

// VerifRunning reports whether the global reactor exists.
func VerifRunning() bool { return globalReactor != nil }
