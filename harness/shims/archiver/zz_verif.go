//go:build verif

package archiver

// VerifLimiterTable reports (buckets in the per-host limiter table, configured bound); -1 when the limiter is off.
func VerifLimiterTable() (int, int) {
	if globalBucketManager == nil {
		return -1, -1
	}
	return globalBucketManager.VerifSize()
}
