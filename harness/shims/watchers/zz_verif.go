//go:build verif

package watchers

// VerifCheckThreshold exposes the unexported threshold decision to the verification harness.
func VerifCheckThreshold(total, free uint64, minSpaceRequired float64) error {
	return checkThreshold(total, free, minSpaceRequired)
}
