#!/usr/bin/env python3
"""Print the prompt for a mutation sub-agent: tools/seed_prompt.py C11 /tmp/wt/c11 [n]"""
import json, sys
pid, wt = sys.argv[1], sys.argv[2]
n = int(sys.argv[3]) if len(sys.argv) > 3 else 2
prop = [json.loads(l) for l in open('/verif/properties.jsonl') if json.loads(l)['id'] == pid][0]
print(f"""You are helping test a verification setup by writing *realistic, subtle bugs* ("seeded defects") into a Go code base. Work ONLY inside the git worktree {wt} (a checkout of internetarchive/Zeno, a Go web crawler: staged pipeline reactor -> preprocessor -> archiver -> postprocessor -> finisher, recording to WARC). Do not touch /repo or /verif, and do not read anything under /verif.

Go toolchain: always use this binary and environment (no network is available):
  export GOFLAGS=-mod=mod GOPROXY=off GOTOOLCHAIN=local
  GO=/root/go/pkg/mod/golang.org/toolchain@v0.0.1-go1.24.2.linux-amd64/bin/go
Whole suite: `cd {wt} && $GO test -vet=off -count=1 ./...` (~20 s).

The property to break (this is all the specification you get):

  {prop['id']} "{prop['title']}": {prop['statement']}
  Quantifier: {prop['quantifier']['text']}
  Anchors (files): {', '.join(prop['anchors']['files'])}
  Mechanisms: {'; '.join(m['name'] + ' (' + m['where'] + ')' for m in prop['anchors']['mechanism'])}

Task: produce {n} different, independent changes to the Zeno source (each as its own patch) that each BREAK this property while (a) the code still compiles, (b) the ENTIRE existing test suite still passes unchanged (you may not edit existing tests), and (c) the change looks like something a developer could plausibly write (a refactor gone slightly wrong, an "optimisation", an off-by-one, a wrong variable, a reordered pair of statements, a lost error check, a changed condition ...). Ask yourself what needs to happen for the bug to show: prefer changes that need something specific to manifest - a particular interleaving, a crash or fault at a particular point, a multi-step sequence of operations, an unusual input, a boundary value, or two cooperating sites that each look fine alone - NOT ones that any ordinary use exposes at once. Make the {n} changes different in kind from one another (different functions / different mechanisms of the property). At least one of them should sit OUTSIDE the most obvious function for this property - in a caller, a helper it relies on, configuration / flag handling, start-up or shut-down code, or another package the mechanism depends on - and at least one should need two or more steps, a particular timing, or a fault (error return, cancelled context, restart) to show.

For each change i in 1..{n} deliver, in {wt}-out/<i>/ :
  - patch.diff  : `git diff` of the change against the worktree's HEAD (must apply with `git apply` on a clean checkout)
  - a demonstration (a Go test file or small program) that FAILS with the change applied and PASSES without it; say in notes.md where the file must be placed (e.g. pkg/models/zz_demo_test.go) and the exact command to run it; name the test function TestDemo<Something>
  - notes.md : what the change does, what it needs in order to manifest, why the existing tests do not notice
Before finishing: verify for each change that the full suite passes with it, that the demo fails with it and passes without it; then restore the worktree to a clean state (`git -C {wt} checkout -- . && git -C {wt} clean -fd`). Report briefly (a few lines per change) what you produced.""")
