#!/usr/bin/env python3
"""Validate evidence/*.json against the schema and check that each was written on a quiet tree (no violations, proof complete)."""
import json, glob, sys, subprocess
try:
    import jsonschema
except ImportError:
    jsonschema = None
schema = json.load(open('/root/.vp/EVIDENCE.schema.json'))
bad = 0
staged = "--staged" in sys.argv
if staged:
    names = [n for n in subprocess.run(["git", "-C", "/verif", "diff", "--cached", "--name-only"], capture_output=True, text=True).stdout.split() if n.startswith("evidence/C")]
else:
    names = sorted(glob.glob('/verif/evidence/C*.json'))
for p in names:
    e = json.loads(subprocess.run(["git", "-C", "/verif", "show", ":" + p], capture_output=True, text=True).stdout) if staged else json.load(open(p))
    c = e['coverage']
    msgs = []
    if jsonschema:
        try: jsonschema.validate(e, schema)
        except Exception as x: msgs.append('schema: ' + str(x)[:200])
    if c.get('obligations') != c.get('discharged'): msgs.append('discharged %s != obligations %s' % (c.get('discharged'), c.get('obligations')))
    if e.get('violations'): msgs.append('violations=%s' % e['violations'])
    if c.get('proof_errors'): msgs.append('proof_errors')
    if c.get('facts_changed_vs_baseline'): msgs.append('facts differ from baseline: %s' % list(c['facts_changed_vs_baseline'])[:3])
    print(p.split('/')[-1], e['tier'], 'seed', e['seed'], 'OK' if not msgs else 'BAD ' + '; '.join(msgs))
    bad += bool(msgs)
sys.exit(1 if bad else 0)
