#!/usr/bin/env python3
"""Confirm and store the changes a mutation sub-agent produced.
usage: tools/ingest_seed.py C19 /tmp/wt/c19r2-out /tmp/wt/c19r2 [--breaks-json file]
For each <out>/<i>/ : find the demo file, where it goes (notes.md) and its TestDemo name, run
tools/confirm_seed.sh in the scratch worktree, and on CONFIRMED store seeded/<Cxx>-<n>/ (next free n)."""
import json, os, re, shutil, subprocess, sys
V = os.path.dirname(os.path.dirname(os.path.abspath(__file__)))
prop, out, wt = sys.argv[1], sys.argv[2], sys.argv[3]
existing = [int(d.split("-")[1]) for d in os.listdir(os.path.join(V, "seeded")) if d.startswith(prop + "-")]
nxt = max(existing + [0]) + 1
for sub in sorted(os.listdir(out)):
    d = os.path.join(out, sub)
    if not os.path.isdir(d) or not os.path.exists(os.path.join(d, "patch.diff")):
        continue
    demos = [f for f in os.listdir(d) if f.endswith(".go")]
    if not demos:
        print(sub, "NO DEMO"); continue
    demo = demos[0]
    src = open(os.path.join(d, demo)).read()
    m = re.search(r"func (TestDemo\w*)", src)
    run = m.group(1) if m else "TestDemo"
    notes = open(os.path.join(d, "notes.md")).read() if os.path.exists(os.path.join(d, "notes.md")) else ""
    pm = re.search(r"((?:internal|pkg|cmd)/[\w/.-]*?)/?" + re.escape(demo), notes) or re.search(r"`((?:internal|pkg|cmd)/[\w/.-]+_test\.go)`", notes)
    if not pm:
        pm = re.search(re.escape(demo) + r"`?\s+(?:in|into|under)\s+`((?:internal|pkg|cmd)/[\w/.-]+?)/?`", notes)
    if pm:
        target = pm.group(1)
        if not target.endswith(".go"):
            target = target.rstrip("/") + "/" + demo
    else:
        pk = re.search(r"^package (\w+)", src, re.M).group(1)
        print(sub, "placement not found in notes; package", pk); continue
    pkg = "./" + os.path.dirname(target) + "/"
    r = subprocess.run([os.path.join(V, "tools", "confirm_seed.sh"), wt, os.path.join(d, "patch.diff"), os.path.join(d, demo),
                        os.path.join(wt, target), pkg, "^" + run + "$"], capture_output=True, text=True, timeout=1800)
    ok = "CONFIRMED" in r.stdout
    print(sub, demo, target, run, "CONFIRMED" if ok else "NOT CONFIRMED")
    if not ok:
        print(r.stdout[-1500:], r.stderr[-500:]); continue
    sid = "%s-%d" % (prop, nxt); nxt += 1
    dst = os.path.join(V, "seeded", sid)
    os.makedirs(dst, exist_ok=True)
    for f in os.listdir(d):
        shutil.copy2(os.path.join(d, f), dst)
    first = [l.strip() for l in notes.splitlines() if l.strip() and not l.startswith("#")]
    meta = {"property": prop, "breaks": (first[0] if first else "")[:400], "needs": "", "origin": "independent sub-agent given only the property text (later round)",
            "confirmed": "tools/confirm_seed.sh in a scratch worktree: whole suite passes with the patch; the demo fails with it and passes without it",
            "demo_placement": target, "demo_run": run}
    json.dump(meta, open(os.path.join(dst, "meta.json"), "w"), indent=1)
    print("stored", sid)
