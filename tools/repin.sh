#!/bin/sh
# Re-pin the baseline facts (lean/Zeno/Base/*.lean, base_facts.json) to /repo's current tree.
set -e
cd "$(dirname "$0")/.."
GO=$(go env GOMODCACHE)/golang.org/toolchain@v0.0.1-go1.24.2.linux-amd64/bin/go
(cd tools/facts && GOFLAGS=-mod=mod GOPROXY=off GOTOOLCHAIN=local $GO build -o ../../build/facts .)
build/facts --repo /repo --out lean/Zeno/Base --ns Base --json base_facts.json
