package main

import (
	"fmt"
	"go/ast"
	"go/token"
	"strings"
)

// The stats translator: every method of counter / mean / rate becomes a list of micro-ops over
// named cells (the struct's fields). Recognised atomic calls become one atomic micro-op; any other
// access to a field becomes a separate non-atomic read and write (`rawRead` / `rawWrite`).

type microOp struct{ lean, js string }

func valOf(e ast.Expr, param string) (string, string, bool) {
	t := strings.ReplaceAll(src(e), " ", "")
	switch {
	case t == param && param != "":
		return ".arg", "arg", true
	case param != "" && t == "^uint64("+param+"-1)":
		return ".negArg", "negArg", true
	}
	if bl, ok := e.(*ast.BasicLit); ok && bl.Kind == token.INT {
		return ".const " + bl.Value, bl.Value, true
	}
	return "", "", false
}

// fieldOf returns the cell name for `&x.f`, `x.f` (x being the receiver).
func fieldOf(e ast.Expr, recv string) (string, bool) {
	if u, ok := e.(*ast.UnaryExpr); ok && u.Op == token.AND {
		e = u.X
	}
	if s, ok := e.(*ast.SelectorExpr); ok {
		if id, ok := s.X.(*ast.Ident); ok && id.Name == recv {
			return s.Sel.Name, true
		}
	}
	return "", false
}

func translateMethod(fd *ast.FuncDecl) ([]microOp, bool) {
	if fd == nil || fd.Recv == nil || len(fd.Recv.List) != 1 || len(fd.Recv.List[0].Names) != 1 {
		return nil, false
	}
	recv := fd.Recv.List[0].Names[0].Name
	param := ""
	if fd.Type.Params != nil && len(fd.Type.Params.List) == 1 && len(fd.Type.Params.List[0].Names) == 1 {
		param = fd.Type.Params.List[0].Names[0].Name
	}
	var ops []microOp
	covered := map[ast.Node]bool{}
	var visit func(n ast.Node) bool
	visit = func(n ast.Node) bool {
		switch x := n.(type) {
		case *ast.CallExpr:
			f := src(x.Fun)
			// package-level atomics: atomic.AddUint64(&c.f, v) / LoadUint64 / StoreUint64
			if strings.HasPrefix(f, "atomic.") && len(x.Args) >= 1 {
				if cell, ok := fieldOf(x.Args[0], recv); ok {
					switch {
					case strings.HasPrefix(f, "atomic.Add") && len(x.Args) == 2:
						if l, j, ok := valOf(x.Args[1], param); ok {
							ops = append(ops, microOp{fmt.Sprintf(".add %q (%s)", cell, l), "add " + cell + " " + j})
							covered[x.Args[0]] = true
							return false
						}
					case strings.HasPrefix(f, "atomic.Load"):
						ops = append(ops, microOp{fmt.Sprintf(".read %q", cell), "read " + cell})
						return false
					case strings.HasPrefix(f, "atomic.Store") && len(x.Args) == 2:
						if l, j, ok := valOf(x.Args[1], param); ok {
							ops = append(ops, microOp{fmt.Sprintf(".set %q (%s)", cell, l), "set " + cell + " " + j})
							return false
						}
						ops = append(ops, microOp{fmt.Sprintf(".setLocal %q", cell), "setLocal " + cell})
						return false
					}
				}
			}
			// typed atomics: x.f.Add(v) / Load() / Store(v) / Swap(v)
			if sel, ok := x.Fun.(*ast.SelectorExpr); ok {
				if cell, ok := fieldOf(sel.X, recv); ok {
					switch sel.Sel.Name {
					case "Add":
						if len(x.Args) == 1 {
							if l, j, ok := valOf(x.Args[0], param); ok {
								ops = append(ops, microOp{fmt.Sprintf(".add %q (%s)", cell, l), "add " + cell + " " + j})
								return false
							}
						}
					case "Load":
						ops = append(ops, microOp{fmt.Sprintf(".read %q", cell), "read " + cell})
						return false
					case "Store":
						if len(x.Args) == 1 {
							if l, j, ok := valOf(x.Args[0], param); ok {
								ops = append(ops, microOp{fmt.Sprintf(".set %q (%s)", cell, l), "set " + cell + " " + j})
							} else {
								ops = append(ops, microOp{fmt.Sprintf(".setLocal %q", cell), "setLocal " + cell})
							}
							return false
						}
					case "Swap":
						if len(x.Args) == 1 {
							if l, j, ok := valOf(x.Args[0], param); ok {
								ops = append(ops, microOp{fmt.Sprintf(".swap %q (%s)", cell, l), "swap " + cell + " " + j})
								return false
							}
						}
					}
					// an unrecognised method on a field: treat as a non-atomic read-modify-write
					ops = append(ops, microOp{fmt.Sprintf(".rawRead %q", cell), "rawRead " + cell},
						microOp{fmt.Sprintf(".rawWrite %q", cell), "rawWrite " + cell})
					return false
				}
			}
		case *ast.AssignStmt:
			// plain assignments to a field: non-atomic
			for _, l := range x.Lhs {
				if cell, ok := fieldOf(l, recv); ok {
					for _, r := range x.Rhs {
						ast.Inspect(r, visit)
					}
					if x.Tok != token.ASSIGN {
						ops = append(ops, microOp{fmt.Sprintf(".rawRead %q", cell), "rawRead " + cell})
					}
					ops = append(ops, microOp{fmt.Sprintf(".rawWrite %q", cell), "rawWrite " + cell})
					return false
				}
			}
		case *ast.IncDecStmt:
			if cell, ok := fieldOf(x.X, recv); ok {
				ops = append(ops, microOp{fmt.Sprintf(".rawRead %q", cell), "rawRead " + cell},
					microOp{fmt.Sprintf(".rawWrite %q", cell), "rawWrite " + cell})
				return false
			}
		case *ast.SelectorExpr:
			// a bare field read
			if cell, ok := fieldOf(x, recv); ok {
				ops = append(ops, microOp{fmt.Sprintf(".rawRead %q", cell), "rawRead " + cell})
				return false
			}
		}
		return true
	}
	ast.Inspect(fd.Body, visit)
	return ops, true
}

func (s *section) program(name string, fd *ast.FuncDecl) {
	ops, ok := translateMethod(fd)
	if !ok {
		s.missing(name, "List TInstr", "[]")
		return
	}
	l := make([]string, len(ops))
	j := make([]string, len(ops))
	for i, o := range ops {
		l[i], j[i] = o.lean, o.js
	}
	s.raw(name, "List TInstr", "["+strings.Join(l, ", ")+"]", j)
}

func extractStats() {
	s := newSection("Stats")
	for _, m := range []struct{ file, typ string }{{"counter.go", "counter"}, {"mean.go", "mean"}, {"rate.go", "rate"}} {
		f := load("internal/pkg/stats/" + m.file)
		if f == nil {
			continue
		}
		for _, d := range f.Decls {
			if fd, ok := d.(*ast.FuncDecl); ok && fd.Recv != nil && strings.Contains(src(fd.Recv.List[0].Type), m.typ) {
				s.program(m.typ+"_"+fd.Name.Name, fd)
			}
		}
	}
	// rateBucket: every method holds the mutex for its whole body; incr creates missing keys under it
	rb := load("internal/pkg/stats/rate_bucket.go")
	locked := rb != nil
	var rbMethods []string
	if rb != nil {
		for _, d := range rb.Decls {
			if fd, ok := d.(*ast.FuncDecl); ok && fd.Recv != nil && strings.Contains(src(fd.Recv.List[0].Type), "rateBucket") {
				rbMethods = append(rbMethods, fd.Name.Name)
				body := strings.ReplaceAll(src(fd.Body), " ", "")
				if !strings.HasPrefix(body, "{rb.Lock()deferrb.Unlock()") {
					locked = false
				}
			}
		}
	}
	s.boolean("rateBucketAllLocked", locked)
	s.strs("rateBucketMethods", rbMethods, rb != nil)
	incr := strings.ReplaceAll(src(fn("internal/pkg/stats/rate_bucket.go", "rateBucket.incr")), " ", "")
	s.boolean("rateBucketIncrShape", strings.Contains(incr, "ifrps,ok:=rb.data[key];ok{rps.incr(step)return}rps:=&rate{}rps.incr(step)rb.data[key]=rps"))

	// the exported entry points: which primitive method of which metric, with what argument
	mf := load("internal/pkg/stats/methods.go")
	var wiring []string
	if mf != nil {
		for _, d := range mf.Decls {
			fd, ok := d.(*ast.FuncDecl)
			if !ok || fd.Recv != nil {
				continue
			}
			for _, c := range calls(fd.Body) {
				t := strings.ReplaceAll(src(c), " ", "")
				if strings.HasPrefix(t, "globalStats.") && !strings.Contains(t, "globalPromStats") {
					wiring = append(wiring, fd.Name.Name+"="+strings.TrimPrefix(t, "globalStats."))
					break
				}
			}
		}
	}
	s.strs("wiring", wiring, mf != nil)

	// worker gauges: Incr at worker start, deferred Decr
	for _, w := range []struct{ name, file, recv, metric string }{
		{"preprocessor", "internal/pkg/preprocessor/preprocessor.go", "preprocessor.worker", "PreprocessorRoutines"},
		{"archiver", "internal/pkg/archiver/archiver.go", "archiver.worker", "ArchiverRoutines"},
		{"postprocessor", "internal/pkg/postprocessor/postprocessor.go", "postprocessor.worker", "PostprocessorRoutines"},
	} {
		fd := fn(w.file, w.recv)
		ok := false
		if fd != nil && fd.Body != nil {
			// both statements at the top level of the worker body, before the loop, Incr directly followed by defer Decr
			for i, st := range fd.Body.List {
				if strings.ReplaceAll(src(st), " ", "") == "stats."+w.metric+"Incr()" && i+1 < len(fd.Body.List) {
					if strings.ReplaceAll(src(fd.Body.List[i+1]), " ", "") == "deferstats."+w.metric+"Decr()" {
						ok = true
						for _, before := range fd.Body.List[:i] {
							if _, isFor := before.(*ast.ForStmt); isFor {
								ok = false
							}
						}
					}
				}
			}
		}
		s.boolean(w.name+"GaugeIncrDeferDecr", ok)
	}
}
