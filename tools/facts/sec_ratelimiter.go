package main

import (
	"go/ast"
	"go/constant"
	"regexp"
	"strconv"
	"strings"
)

func extractRateLimiter() {
	s := newSection("RateLimiter")
	const rl = "internal/pkg/archiver/ratelimiter/ratelimiter.go"
	const adj = "internal/pkg/archiver/ratelimiter/adjust.go"
	const mgr = "internal/pkg/archiver/ratelimiter/manager.go"
	env := fileConsts(rl)
	get := func(n string) (constant.Value, bool) { v, ok := env[n]; return v, ok }
	v, ok := get("minRefillRate")
	s.rat("minRefillRate", v, ok)
	v, ok = get("recoveryFactor")
	s.rat("recoveryFactor", v, ok)
	v, ok = get("maxPenaltyDuration") // nanoseconds
	s.nat("maxPenaltyNs", v, ok)
	v, ok = get("basePenaltyDuration")
	s.nat("basePenaltyNs", v, ok)

	// refill
	rf := fn(rl, "tokenBucket.refill")
	rs := src(rf)
	s.boolean("refillSkipsInPenalty", rf != nil && strings.Contains(rs, "if now.Before(tb.penaltyUntil) { return }"))
	s.boolean("refillFromLaterOfLastAndPenalty", strings.Contains(rs, "lastRefillOrPenaltyUntil := tb.lastRefill") &&
		strings.Contains(rs, "if tb.penaltyUntil.After(tb.lastRefill) { lastRefillOrPenaltyUntil = tb.penaltyUntil }") &&
		strings.Contains(rs, "elapsed := now.Sub(lastRefillOrPenaltyUntil).Seconds()"))
	s.boolean("refillFormula", strings.Contains(rs, "if elapsed > 0 { tb.tokens = math.Min(tb.capacity, tb.tokens+elapsed*tb.refillRate) tb.lastRefill = now }"))

	// Wait: refill, then `tokens >= 1` → `tokens--`
	w := fn(rl, "tokenBucket.Wait")
	ws := src(w)
	s.boolean("waitShape", w != nil && strings.Contains(ws, "tb.mu.Lock() tb.refill() if tb.tokens >= 1 { tb.tokens-- tb.mu.Unlock() return } tb.mu.Unlock()"))
	c, okc := findCmp(w, "tb.tokens", "1")
	if !okc {
		// the attempt may live in a helper method of the bucket that Wait() calls
		if f := load(rl); f != nil {
			for _, d := range f.Decls {
				if fd, ok := d.(*ast.FuncDecl); ok && fd.Recv != nil && w != nil && strings.Contains(src(w), "."+fd.Name.Name+"()") {
					if c2, ok2 := findCmp(fd, "tb.tokens", "1"); ok2 {
						c, okc = c2, true
					}
				}
			}
		}
	}
	s.op("acquireOp", c, okc)
	nb := fn(rl, "newTokenBucket")
	nbs := src(nb)
	s.boolean("newBucketFull", nb != nil && strings.Contains(nbs, "tokens: capacity") && strings.Contains(nbs, "idealRate: refillRate") && strings.Contains(nbs, "refillRate: refillRate"))

	// adjustOnFailure
	af := fn(adj, "tokenBucket.adjustOnFailure")
	var penalised []int
	serverOp, serverOk := cmp{}, false
	for _, c := range cmps(af) {
		if c.L == "statusCode" {
			if n, err := strconv.Atoi(c.R); err == nil {
				if c.Op == "==" {
					penalised = append(penalised, n)
				} else {
					serverOp, serverOk = c, true
					s.natLit("serverErrorFrom", n)
				}
			}
		}
	}
	s.nats("penalisedStatuses", penalised, af != nil)
	s.op("serverErrorOp", serverOp, serverOk)
	if !serverOk {
		s.missing("serverErrorFrom", "Nat", "0")
	}
	as := strings.ReplaceAll(src(af), " ", "")
	// penalty expression: where is the cap applied?
	pen := "unknown"
	switch {
	case strings.Contains(as, "penalty:=min(time.Duration(float64(basePenaltyDuration)*math.Pow(2,float64(tb.failureCount-1))),maxPenaltyDuration)"):
		pen = "capAfterConversion" // int64 conversion of an unbounded float: overflows for large streaks
	case strings.Contains(as, "penalty:=time.Duration(math.Min(float64(basePenaltyDuration)*math.Pow(2,float64(tb.failureCount-1)),float64(maxPenaltyDuration)))"):
		pen = "capBeforeConversion"
	}
	if pen == "unknown" {
		s.missing("penaltyCap", "String", "\"unknown\"")
	} else {
		s.str("penaltyCap", pen, true)
	}
	s.boolean("penaltySetsUntilAndZeroes", strings.Contains(as, "tb.penaltyUntil=now.Add(penalty)") && strings.Count(as, "tb.tokens=0") == 2)
	s.boolean("failureCountIncrBoth", strings.Count(as, "tb.failureCount++") == 2)
	floor := "unknown"
	switch {
	case strings.Contains(as, "newRefillRate:=max(tb.refillRate*math.Pow(0.5,float64(tb.failureCount)),minRefillRate)"):
		floor = "constant" // may exceed the configured rate when that is below the constant
	case strings.Contains(as, "newRefillRate:=max(tb.refillRate*math.Pow(0.5,float64(tb.failureCount)),min(minRefillRate,tb.idealRate))"),
		strings.Contains(as, "newRefillRate:=max(tb.refillRate*math.Pow(0.5,float64(tb.failureCount)),math.Min(minRefillRate,tb.idealRate))"):
		floor = "minOfConstantAndIdeal"
	}
	if floor == "unknown" {
		s.missing("rateFloor", "String", "\"unknown\"")
	} else {
		s.str("rateFloor", floor, true)
	}
	s.boolean("rateCutAssigns", strings.Contains(as, "tb.refillRate=newRefillRate"))

	// onSuccess
	os := strings.ReplaceAll(src(fn(adj, "tokenBucket.onSuccess")), " ", "")
	s.boolean("successShape", strings.Contains(os, "ifnow.After(tb.penaltyUntil){iftb.refillRate<tb.idealRate{tb.refillRate+=(tb.idealRate-tb.refillRate)*recoveryFactoriftb.refillRate>tb.idealRate{tb.refillRate=tb.idealRate}}iftb.failureCount>0{tb.failureCount--}}"))

	// manager: eviction condition and LFU choice
	gb := fn(mgr, "BucketManager.getBucket")
	c, okc = findCmp(gb, "len(bm.buckets)", "bm.maxBuckets")
	s.op("evictOp", c, okc)
	gs := strings.ReplaceAll(src(gb), " ", "")
	s.boolean("getBucketShape", strings.Contains(gs, "ifmb,ok:=bm.buckets[host];ok{mb.usageCount++") && strings.Contains(gs, "usageCount:1") &&
		strings.Contains(gs, "bm.buckets[host]=mb"))
	ev := strings.ReplaceAll(src(fn(mgr, "BucketManager.evictLFU")), " ", "")
	s.boolean("evictShape", strings.Contains(ev, "lfuUsage:=math.MaxInt32") && strings.Contains(ev, "ifmb.usageCount<lfuUsage{lfuUsage=mb.usageCountlfuKey=key}") &&
		strings.Contains(ev, "iflfuKey!=\"\"{delete(bm.buckets,lfuKey)}"))
	_ = ast.Inspect
	_ = regexp.MustCompile
}
