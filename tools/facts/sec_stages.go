package main

import (
	"go/ast"
	"strconv"
	"strings"
)

func extractStages() {
	s := newSection("Stages")
	// ---------------- preprocess
	const pf = "internal/pkg/preprocessor/preprocessor.go"
	pre := canonFn(pf, "preprocess")
	ps := strings.ReplaceAll(src(pre), " ", "")
	s.boolean("preWorksAtMaxDepth", strings.Contains(ps, "operatingDepth:=seed.GetMaxDepth()") && strings.Contains(ps, "seed.GetNodesAtLevel(operatingDepth)"))
	s.boolean("prePanicsOnNonFresh", strings.Contains(ps, "ifitems[i].GetStatus()!=models.ItemFresh{dumper.PanicWithDump("))
	s.boolean("preSeedNormErrorFails", strings.Contains(ps, "err:=NormalizeURL(items[i].GetURL(),nil)iferr!=nil{") && strings.Contains(ps, "items[i].SetStatus(models.ItemFailed)return}"))
	s.boolean("preChildNormErrorRemoves", strings.Contains(ps, "err:=NormalizeURL(items[i].GetURL(),items[i].GetParent().GetURL())iferr!=nil{") &&
		strings.Contains(ps, "items[i].GetParent().RemoveChild(items[i])continue}"))
	incl := `iflen(config.Get().IncludeHosts)>0||len(config.Get().IncludeString)>0{if!utils.StringContainsSliceElements(items[i].GetURL().GetParsed().Host,config.Get().IncludeHosts)&&!utils.StringContainsSliceElements(items[i].GetURL().String(),config.Get().IncludeString){`
	excl := `ifutils.StringContainsSliceElements(items[i].GetURL().GetParsed().Host,config.Get().ExcludeHosts)||utils.StringContainsSliceElements(items[i].GetURL().String(),config.Get().ExcludeString)||matchRegexExclusion(items[i]){`
	s.boolean("preIncludeShape", strings.Contains(ps, incl))
	s.boolean("preExcludeShape", strings.Contains(ps, excl))
	extractScope(s)
	earlyGuards := extractPostEarly(s)
	extractGuards(s)
	s.boolean("preIncludeBeforeExclude", strings.Index(ps, incl) >= 0 && strings.Index(ps, incl) < strings.Index(ps, excl))
	reject := "ifitems[i].IsChild()||items[i].IsRedirection(){items[i].GetParent().RemoveChild(items[i])continue}items[i].SetStatus(models.ItemCompleted)return}"
	s.boolean("preRejectRemovesChildCompletesSeed", strings.Count(ps, reject) == 2)
	s.boolean("preEmptyPathChildRemoved", strings.Contains(ps, `ifitems[i].IsChild(){ifitems[i].GetURL().GetParsed().Path==""||items[i].GetURL().GetParsed().Path=="/"{`))
	iDed := strings.Index(ps, "seed.DedupeItems()")
	iSeen := strings.Index(ps, "seencheck.SeencheckItem(seed)")
	iReq := strings.Index(ps, "http.NewRequest(http.MethodGet,items[i].GetURL().String(),nil)")
	s.boolean("preDedupeThenSeencheckThenRequests", iDed >= 0 && iDed < iSeen && iSeen < iReq && strings.Index(ps, excl) < iDed)
	s.boolean("preNoWorkCompletesSeed", strings.Count(ps, "iflen(items)==0{") == 2 && strings.Count(ps, "seed.SetStatus(models.ItemCompleted)return}") == 2)
	s.boolean("preOnlyFreshGetRequests", strings.Contains(ps, "ifitems[i].GetStatus()!=models.ItemFresh{items=append(items[:i],items[i+1:]...)}") &&
		strings.Contains(ps, "items[i].GetURL().SetRequest(req)items[i].SetStatus(models.ItemPreProcessed)"))
	seen := "unknown"
	switch {
	case strings.Contains(ps, "ifconfig.Get().UseHQ{err=hq.SeencheckItem(seed)") && strings.Contains(ps, "}else{err=seencheck.SeencheckItem(seed)") &&
		!strings.Contains(ps, "UseSeencheck"):
		seen = "always" // the local store is consulted even with --disable-seencheck (when it was never opened)
	case strings.Contains(ps, "ifconfig.Get().UseSeencheck{ifconfig.Get().UseHQ{err=hq.SeencheckItem(seed)") &&
		strings.Contains(ps, "}else{err=seencheck.SeencheckItem(seed)"):
		seen = "guarded" // either store is consulted only when seencheck is enabled
	}
	if seen == "unknown" {
		s.missing("preSeencheckGuard", "String", "\"unknown\"")
	} else {
		s.str("preSeencheckGuard", seen, true)
	}
	// the seen-store is opened at start-up under this condition
	pl := strings.ReplaceAll(src(fn("internal/pkg/controler/pipeline.go", "startPipeline")), " ", "")
	s.boolean("seenStoreOpenedIfEnabledAndNoHQ", strings.Contains(pl, "ifconfig.Get().UseSeencheck&&!config.Get().UseHQ{err:=seencheck.Start(config.Get().JobPath)"))
	sc := strings.ReplaceAll(src(fn("internal/pkg/preprocessor/seencheck/seencheck.go", "SeencheckItem")), " ", "")
	s.boolean("seenLocalRule", strings.Contains(sc, `ifitems[i].IsChild(){URLType="asset"}else{URLType="seed"}`) &&
		strings.Contains(sc, `if!found{seen(hash,URLType)h.Reset()continue}`) &&
		strings.Contains(sc, `iffoundType=="asset"&&URLType=="seed"{seen(hash,"seed")h.Reset()continue}`) &&
		strings.Contains(sc, "items[i].SetStatus(models.ItemSeen)h.Reset()"))
	s.boolean("seenLocalKeyCanonical", strings.Contains(sc, "h.Write([]byte(items[i].GetURL().String()))"))
	hs := strings.ReplaceAll(src(fn("internal/pkg/source/hq/seencheck.go", "SeencheckItem")), " ", "")
	sent := "unknown"
	switch {
	case strings.Contains(hs, "Value:items[i].GetURL().Raw,"):
		sent = "raw"
	case strings.Contains(hs, "Value:items[i].GetURL().String(),"):
		sent = "canonical"
	}
	if sent == "unknown" {
		s.missing("seenHQSends", "String", "\"unknown\"")
	} else {
		s.str("seenHQSends", sent, true)
	}
	s.boolean("seenHQSeedNeverChecked", strings.Contains(hs, "iflen(items)==1&&items[0].IsSeed(){returnnil}") &&
		strings.Contains(hs, "ifitems[i].IsSeed(){continue}"))
	s.boolean("seenHQOnlyFreshSent", strings.Contains(hs, "ifitems[i].GetStatus()==models.ItemFresh{"))
	s.boolean("seenHQAbsentMarkedSeen", strings.Contains(hs, "if!found{items[i].SetStatus(models.ItemSeen)}") &&
		strings.Contains(hs, "outputURLs,err:=globalHQ.client.Seencheck(context.TODO(),URLsToSeencheck)iferr!=nil{returnerr}"))
	s.boolean("seenHQComparesCanonical", strings.Contains(hs, "ifitems[i].GetURL().String()==outputURLs[j].Value{found=truebreak}"))
	cg := strings.ReplaceAll(src(fn("internal/pkg/config/config.go", "GenerateCrawlConfig")), " ", "")
	var defaults []string
	if i := strings.Index(cg, "append(config.ExcludeHosts,"); i >= 0 {
		rest := cg[i+len("append(config.ExcludeHosts,"):]
		if j := strings.Index(rest, ")"); j >= 0 {
			for _, t := range strings.Split(rest[:j], ",") {
				defaults = append(defaults, strings.Trim(t, `"`))
			}
		}
	}
	s.strs("defaultExcludedHosts", defaults, len(defaults) > 0)

	// ---------------- postprocess
	const itf = "internal/pkg/postprocessor/item.go"
	pi := canonFn(itf, "postprocessItem")
	is := strings.ReplaceAll(src(pi), " ", "")
	var redir []int
	for _, n := range allNodes(fn("internal/pkg/postprocessor/utils.go", "isStatusCodeRedirect")) {
		if cc, ok := n.(*ast.CaseClause); ok {
			for _, e := range cc.List {
				if v, err := strconv.Atoi(src(e)); err == nil {
					redir = append(redir, v)
				}
			}
		}
	}
	s.nats("redirectStatuses", redir, len(redir) > 0)
	s.boolean("postOnlyArchived", strings.Contains(is, "ifitem.GetStatus()!=models.ItemArchived{"))
	c, ok := findCmp(pi, "item.GetURL().GetRedirects()", "config.Get().MaxRedirect")
	s.op("redirectLimitOp", c, ok)
	s.boolean("redirectLimitCompletes", strings.Contains(is, "config.Get().MaxRedirect{") && strings.Contains(is, "item.SetStatus(models.ItemCompleted)returnoutlinks}//Preparethenewitem") ||
		strings.Contains(is, `logger.Warn("maxredirectsreached","item_id",item.GetShortID())item.SetStatus(models.ItemCompleted)returnoutlinks}`))
	s.boolean("redirectChildFields", strings.Contains(is, `Raw:item.GetURL().GetResponse().Header.Get("Location"),Redirects:item.GetURL().GetRedirects()+1,Hops:item.GetURL().GetHops(),`) &&
		strings.Contains(is, "item.AddChild(newChild,models.ItemGotRedirected)"))
	c, ok = findCmp(pi, "item.GetDepthWithoutRedirections()", "2")
	s.op("depthCutOp", c, ok && c.R == "2")
	if ok {
		v, _ := strconv.Atoi(c.R)
		s.natLit("depthCut", v)
	} else {
		s.missing("depthCut", "Nat", "0")
	}
	// the three arms of the "nothing to extract here" chain, read off its translation (what exactly the arms decide is the theorem
	// c06_depth_tests_translated; these flags only say which arms exist)
	has := func(parts ...string) bool {
		for _, g := range earlyGuards {
			all := true
			for _, p := range parts {
				all = all && strings.Contains(g, p)
			}
			if all {
				return true
			}
		}
		return false
	}
	understood := len(earlyGuards) > 0
	for _, g := range earlyGuards {
		understood = understood && !strings.Contains(g, ".unknown")
	}
	s.boolean("postTestsUnderstood", understood)
	s.boolean("depthCutShape", has("(.not (.atom .domainsCrawl))", "(.atom (.depthCmp "))
	s.boolean("depthOneHtmlRule", has("(.not (.atom .domainsCrawl))", "(.atom (.depthCmp .eq 1))", "(.atom .mimeHtml)"))
	dar := "unknown"
	switch {
	case has("(.atom .disableAssets)", "(.not (.atom .domainsCrawl))", "(.atom (.maxHopsCmp .eq 0))"):
		dar = "whenNoHops"
	case has("(.atom .disableAssets)", "(.not (.atom .domainsCrawl))"):
		dar = "always" // completes the node before the outlink extraction even when hops are allowed
	}
	s.str("disableAssetsRule", dar, dar != "unknown")
	s.boolean("only200Extracted", strings.Contains(is, "ifitem.GetURL().GetResponse()!=nil&&item.GetURL().GetResponse().StatusCode==200{"))
	s.boolean("assetsBecomeChildren", strings.Contains(is, "newChild:=models.NewItem(uuid.New().String(),assets[i],\"\")err=item.AddChild(newChild,models.ItemGotChildren)"))
	s.boolean("outlinkDomainsCrawlRule", strings.Contains(is, "ifdomainscrawl.Enabled()&&domainscrawl.Match(newOutlinks[i].Raw){") &&
		strings.Contains(is, "newOutlinks[i].SetHops(0)}elseifdomainscrawl.Enabled()&&!domainscrawl.Match(newOutlinks[i].Raw)&&item.GetURL().GetHops()>=config.Get().MaxHops{") )
	s.boolean("outlinksIncludeAssetOutlinks", strings.Contains(is, "newOutlinks=append(newOutlinks,outlinksFromAssets...)"))
	s.boolean("postCompletionRule", strings.Contains(is, "if!item.HasChildren()&&!item.HasRedirection()&&item.GetStatus()!=models.ItemFailed{") &&
		strings.Contains(is, "item.SetStatus(models.ItemCompleted)}returnoutlinks}"))
	s.boolean("postDefersCloseBody", strings.HasPrefix(strings.ReplaceAll(src(pi.Body), " ", ""), "{defercloseBody(item)"))
	po := strings.ReplaceAll(src(fn("internal/pkg/postprocessor/postprocessor.go", "postprocess")), " ", "")
	s.boolean("postWorksAtMaxDepth", strings.Contains(po, "childs,err:=seed.GetNodesAtLevel(seed.GetMaxDepth())"))
	pw := strings.ReplaceAll(src(fn("internal/pkg/postprocessor/postprocessor.go", "postprocessor.worker")), " ", "")
	s.boolean("postWorkerClosesBodies", strings.Contains(pw, "closeBodies(seed)") && strings.Index(pw, "closeBodies(seed)") < strings.LastIndex(pw, "p.outputCh<-seed"))
	so := strings.ReplaceAll(src(fn("internal/pkg/postprocessor/outlinks.go", "shouldExtractOutlinks")), " ", "")
	c, ok = findCmp(fn("internal/pkg/postprocessor/outlinks.go", "shouldExtractOutlinks"), "item.GetURL().GetHops()", "config.Get().MaxHops")
	s.op("outlinkHopsOp", c, ok)
	s.boolean("outlinkGuardShape", strings.Contains(so, "ifdomainscrawl.Enabled()&&item.GetURL().GetBody()!=nil{returntrue}") &&
		strings.Contains(so, "config.Get().MaxHops&&item.GetURL().GetBody()!=nil{returntrue}returnfalse"))
	eo := strings.ReplaceAll(src(fn("internal/pkg/postprocessor/outlinks.go", "extractOutlinks")), " ", "")
	s.boolean("outlinkHopsPlusOne", strings.Contains(eo, "outlink.SetHops(item.GetURL().GetHops()+1)"))
	ea := strings.ReplaceAll(src(fn("internal/pkg/postprocessor/assets.go", "extractAssets")), " ", "")
	s.boolean("assetHopsSame", strings.Contains(ea, "asset.SetHops(item.GetURL().GetHops())"))
	s.boolean("assetOutlinkHopsPlusOne", strings.Contains(ea, "outlink.SetHops(item.GetURL().GetHops()+1)"))
	s.boolean("assetSelfDuplicateRemoved", strings.Contains(ea, "ifitemURL!=nil&&asset.Raw==itemURL.String(){"))
	sa := strings.ReplaceAll(src(fn("internal/pkg/postprocessor/assets.go", "shouldExtractAssets")), " ", "")
	s.boolean("assetGuardShape", strings.Contains(sa, "return!config.Get().DisableAssetsCapture&&item.GetURL().GetBody()!=nil"))

	// ---------------- finisher
	fw := strings.ReplaceAll(src(canonFn("internal/pkg/finisher/finisher.go", "finisher.worker")), " ", "")
	iFresh := strings.Index(fw, "ifseed.GetStatus()==models.ItemFresh{")
	iComp := strings.Index(fw, "if!seed.CompleteAndCheck(){")
	iFb := strings.Index(fw, "reactor.ReceiveFeedback(seed)")
	iFin := strings.Index(fw, "reactor.MarkAsFinished(seed)")
	s.boolean("finisherDecisionOrder", iFresh >= 0 && iFresh < iComp && iComp < iFb && iFb < iFin)
	s.boolean("finisherFreshToProduce", strings.Contains(fw, "ifseed.GetStatus()==models.ItemFresh{") && strings.Contains(fw, "f.sourceProducedCh<-seedcontinue}"))
	s.boolean("finisherFeedbackTolerant", strings.Contains(fw, "iferr!=nil&&err!=reactor.ErrReactorFrozen{panic(err)}continue}"))
}
