package main

import (
	"go/ast"
	"strconv"
	"strings"
)

func extractArchiver() {
	s := newSection("Archiver")
	const file = "internal/pkg/archiver/archiver.go"
	ar := fn(file, "archive")
	as := strings.ReplaceAll(src(ar), " ", "")

	// retry loop: `for retry := 0; retry <= config.Get().MaxRetry; retry++`
	var loopOp cmp
	loopOk := false
	for _, n := range allNodes(ar) {
		if fs, ok := n.(*ast.ForStmt); ok && fs.Cond != nil && strings.Contains(src(fs.Cond), "MaxRetry") {
			if c, ok := findCmp(fs.Cond, "retry", "MaxRetry"); ok {
				loopOp, loopOk = c, true
			}
			s.boolean("retryStartsAtZero", strings.ReplaceAll(src(fs.Init), " ", "") == "retry:=0")
			s.boolean("retryIncrements", strings.ReplaceAll(src(fs.Post), " ", "") == "retry++")
			// the counter is written by nothing but the loop header, and nothing jumps backwards
			touched := false
			for _, m := range allNodes(fs.Body) {
				switch x := m.(type) {
				case *ast.AssignStmt:
					for _, l := range x.Lhs {
						if src(l) == "retry" {
							touched = true
						}
					}
				case *ast.IncDecStmt:
					if src(x.X) == "retry" {
						touched = true
					}
				case *ast.UnaryExpr:
					if x.Op.String() == "&" && src(x.X) == "retry" {
						touched = true
					}
				case *ast.BranchStmt:
					if x.Tok.String() == "goto" {
						touched = true
					}
				}
			}
			s.boolean("retryCounterOnlyInHeader", !touched)
			// the guards that decide between "try again" and "give up": `retry < MaxRetry`, all with one operator
			var inner cmp
			nInner, same := 0, true
			for _, c := range cmps(fs.Body) {
				if c.L == "retry" && strings.Contains(c.R, "MaxRetry") {
					if nInner > 0 && c.Op != inner.Op {
						same = false
					}
					inner = c
					nInner++
				}
			}
			s.op("retryInnerOp", inner, nInner == 2 && same)
			// exactly one request per iteration, sent by the loop body itself (no helper that could loop on its own)
			nDo := 0
			for _, c := range calls(fs.Body) {
				if src(c.Fun) == "client.Do" {
					nDo++
				}
			}
			bodySrc := strings.ReplaceAll(src(fs.Body), " ", "")
			s.boolean("oneRequestPerIteration", nDo == 1 && strings.Contains(bodySrc, "resp,err=client.Do(req)") && !strings.Contains(bodySrc, "for"))
		}
	}
	s.op("retryLoopOp", loopOp, loopOk)
	c, ok := findCmp(ar, "retry", "config.Get().MaxRetry")
	_ = c
	_ = ok
	// which responses are retried
	c5, ok5 := findCmp(ar, "resp.StatusCode", "500")
	s.op("badStatusFromOp", c5, ok5)
	var bad []int
	if i := strings.Index(as, "slices.Contains([]int{"); i >= 0 {
		j := strings.Index(as[i:], "}")
		for _, t := range strings.Split(as[i+len("slices.Contains([]int{"):i+j], ",") {
			if n, err := strconv.Atoi(t); err == nil {
				bad = append(bad, n)
			}
		}
	}
	s.nats("badStatusList", bad, len(bad) > 0)
	s.boolean("challengePagesRetried", strings.Contains(as, "isDiscardedChallengePage:=discarded&&reasoncode.IsChallengePage(discardReason)") &&
		strings.Contains(as, "ifisBadStatusCode||isDiscardedChallengePage{"))
	s.boolean("onlyPreProcessedFetched", strings.Contains(as, "ifitems[i].GetStatus()!=models.ItemPreProcessed{") && strings.Contains(as, "continue}") &&
		strings.Index(as, "ifitems[i].GetStatus()!=models.ItemPreProcessed{") < strings.Index(as, "guard<-struct{}{}") && strings.Count(as, "guard<-struct{}{}") == 1)
	s.boolean("noNewCapturesAfterStop", strings.Contains(as, "ifglobalArchiver.ctx.Err()!=nil{") && strings.Contains(as, "break}guard<-struct{}{}"))
	s.boolean("workAtMaxDepth", strings.Contains(as, "items,err:=seed.GetNodesAtLevel(seed.GetMaxDepth())"))

	// synchronous WARC writing: the feedback channel is created unless async, and awaited before Archived
	s.boolean("feedbackChanUnlessAsync", strings.Contains(as, "if!config.Get().WARCWriteAsync{feedbackChan=make(chanstruct{},1)") &&
		strings.Contains(as, `context.WithValue(req.Context(),"feedback",feedbackChan)`))
	iWait := strings.Index(as, "feedbackTime:=time.Now()<-feedbackChan") // the wait of the successful attempt
	iArch := strings.Index(as, "item.SetStatus(models.ItemArchived)")
	s.boolean("feedbackAwaitedBeforeArchived", iWait >= 0 && iArch > iWait &&
		strings.Contains(as, "if!config.Get().WARCWriteAsync{feedbackTime:=time.Now()<-feedbackChan"))
	// the exits of an attempt that got a response but ends in retry / "retries exceeded":
	// is the WARC feedback awaited there too (after draining the body)?
	retryWaits := strings.Count(as, "io.Copy(io.Discard,resp.Body)resp.Body.Close()") == 2 &&
		strings.Count(as, "io.Copy(io.Discard,resp.Body)resp.Body.Close()iffeedbackChan!=nil{<-feedbackChan}") == 2
	s.boolean("failedAttemptsDrainBody", strings.Count(as, "io.Copy(io.Discard,resp.Body)resp.Body.Close()") == 2)
	s.boolean("failedAttemptsAwaitFeedback", retryWaits)
	s.boolean("failedStatusOnExhaustion", strings.Count(as, "item.SetStatus(models.ItemFailed)") == 3)
	s.boolean("processBodyBeforeWait", strings.Index(as, "err=ProcessBody(") >= 0 && strings.Index(as, "err=ProcessBody(") < iWait)
	s.boolean("clientByProxySetting", strings.Contains(as, `ifconfig.Get().Proxy!=""{client=globalArchiver.ClientWithProxy}else{client=globalArchiver.Client}`))
	s.boolean("rateLimitWaitOncePerItem", strings.Count(as, "globalBucketManager.Wait(") == 1 &&
		strings.Index(as, "globalBucketManager.Wait(") < strings.Index(as, "forretry:=0"))
	s.boolean("adjustOnBadStatus", strings.Contains(as, "globalBucketManager.AdjustOnFailure(req.URL.Host,resp.StatusCode)") &&
		strings.Contains(as, "globalBucketManager.OnSuccess(req.URL.Host)"))

	// Stop(): which clients are dereferenced
	st := strings.ReplaceAll(src(fn(file, "Stop")), " ", "")
	stopShape := "unknown"
	switch {
	case strings.Contains(st, "globalArchiver.Client.WaitGroup.Wait()") && !strings.Contains(st, "ifglobalArchiver.Client!=nil") &&
		!strings.Contains(st, "rangeGetClients()"):
		stopShape = "derefsDirectClient" // nil when --proxy is set
	case strings.Contains(st, "rangeGetClients()") || (strings.Contains(st, "ifglobalArchiver.Client!=nil{") && strings.Contains(st, "ifglobalArchiver.ClientWithProxy!=nil{")):
		stopShape = "nilSafe"
	}
	if stopShape == "unknown" {
		s.missing("stopClients", "String", "\"unknown\"")
	} else {
		s.str("stopClients", stopShape, true)
	}
	s.boolean("stopCancelsThenWaits", strings.Index(st, "globalArchiver.cancel()") >= 0 && strings.Index(st, "globalArchiver.cancel()") < strings.Index(st, "globalArchiver.wg.Wait()"))
	s.boolean("stopClosesAfterWriters", strings.Contains(st, "WaitGroup.Wait()") && strings.Contains(st, ".Close()") &&
		strings.Index(st, "WaitGroup.Wait()") < strings.Index(st, ".Close()"))

	// the per-host limiter is addressed by one and the same key when waiting, on failure and on success
	s.boolean("limiterKeysAgree", strings.Count(as, "globalBucketManager.Wait(req.URL.Host)") == 1 &&
		strings.Count(as, "globalBucketManager.AdjustOnFailure(req.URL.Host,resp.StatusCode)") == 1 &&
		strings.Count(as, "globalBucketManager.OnSuccess(req.URL.Host)") == 1 && strings.Count(as, "globalBucketManager.") == 3)
	extractBody(s)
	// body.go: every branch drains the body
	pb := strings.ReplaceAll(src(fn("internal/pkg/archiver/body.go", "ProcessBody")), " ", "")
	s.boolean("bodySniff2048", strings.Contains(pb, "copyWithTimeoutN(buffer,u.GetResponse().Body,2048,conn)"))
	s.boolean("bodyKeptDrains", strings.Contains(pb, "copyWithTimeout(spooledBuff,u.GetResponse().Body,conn)"))
	s.boolean("bodyDiscardedDrains", strings.Contains(pb, "}else{iferr:=copyWithTimeout(io.Discard,u.GetResponse().Body,conn);err!=nil{returnerr}}"))
	s.boolean("bodySpoolThreshold2MiB", strings.Contains(pb, `spooledtempfile.NewSpooledTempFile("zeno",WARCTempDir,2097152,false,-1)`))
	keep := "unknown"
	switch {
	case strings.Contains(pb, `if(u.GetMIMEType().Parent()!=nil&&utils.IsMIMETypeInHierarchy(u.GetMIMEType().Parent(),"text/plain"))||u.GetMIMEType().Is("application/pdf")||strings.Contains(u.GetMIMEType().String(),"text/"){`):
		keep = "textPdf" // playlists (application/vnd.apple.mpegurl, parent octet-stream) are discarded
	case strings.Contains(pb, "mpegurl"):
		keep = "textPdfPlaylist"
	}
	if keep == "unknown" {
		s.missing("bodyKeepRule", "String", "\"unknown\"")
	} else {
		s.str("bodyKeepRule", keep, true)
	}
	s.boolean("bodyClosesResponse", strings.HasPrefix(strings.ReplaceAll(src(fn("internal/pkg/archiver/body.go", "ProcessBody").Body), " ", ""), "{deferu.GetResponse().Body.Close()"))

	// discard hooks
	wf := strings.ReplaceAll(src(fn("internal/pkg/archiver/warc.go", "startWARCWriter")), " ", "")
	s.boolean("discardHookWired", strings.Contains(wf, "discardBuilder.AddDefaultHooks()") && strings.Contains(wf, "DiscardHook:discardHooksChain,"))
	db := strings.ReplaceAll(src(fn("internal/pkg/archiver/discard/discard.go", "Builder.AddDefaultHooks")), " ", "")
	var hookOrder []string
	for _, c := range calls(fn("internal/pkg/archiver/discard/discard.go", "Builder.AddDefaultHooks")) {
		if strings.HasSuffix(src(c.Fun), "AddHook") && len(c.Args) == 1 {
			hookOrder = append(hookOrder, src(c.Args[0]))
		}
	}
	s.strs("discardHookOrder", hookOrder, db != "")
	cf := strings.ReplaceAll(src(fn("internal/pkg/archiver/discard/discarder/cloudflare/cloudflare.go", "ChallengePageHook")), " ", "")
	s.boolean("cloudflareRule", strings.Contains(cf, `ifresp.StatusCode==403&&resp.Header.Get("cf-mitigated")=="challenge"{returntrue,ChallengeDetected}`))
	ws := strings.ReplaceAll(src(fn("internal/pkg/archiver/discard/discarder/warcdiscardstatus/warcdiscardstatus.go", "WARCDiscardStatusHook")), " ", "")
	s.boolean("discardStatusRule", strings.Contains(ws, "iflen(config.Get().WARCDiscardStatus)>0&&slices.Contains(config.Get().WARCDiscardStatus,resp.StatusCode){returntrue,InWARCDiscardStatus}"))
	bld := strings.ReplaceAll(src(fn("internal/pkg/archiver/discard/discard.go", "Builder.Build")), " ", "")
	s.boolean("discardChainFirstWins", strings.Contains(bld, "for_,hook:=rangeb.hooks{discard,reason:=hook(resp)ifdiscard{returntrue,reason}}returnfalse,reasoncode.AllPassed"))
}
