package main

import (
	"go/ast"
	"strings"
)

// statusNamesIn collects, in source order, the Item* status names compared with `op` against an
// expression whose text contains lhsSub inside root.
func statusNamesIn(root ast.Node, lhsSub, op string) []string {
	var out []string
	for _, c := range cmps(root) {
		if c.Op == op && strings.Contains(c.L, lhsSub) && strings.HasPrefix(c.R, "Item") {
			out = append(out, strings.TrimPrefix(c.R, "Item"))
		}
	}
	return out
}

// ifWithErr finds the if statement of CheckConsistency whose error message contains msg.
func ifWithMsg(f *ast.FuncDecl, msg string) *ast.IfStmt {
	for _, n := range allNodes(f) {
		if is, ok := n.(*ast.IfStmt); ok && strings.Contains(src(is.Body), msg) {
			return is
		}
	}
	return nil
}

func extractItem() {
	s := newSection("Item")
	const file = "pkg/models/item.go"
	const dfile = "pkg/models/item_dedupe.go"

	hw := fn(file, "Item.HasWork")
	nw := statusNamesIn(hw, "i.status", "!=")
	if len(nw) == 0 && hw != nil && hw.Body != nil && len(hw.Body.List) == 1 {
		// the same test as a switch: `switch i.status { case A, B, C: return false; default: return true }`
		if sw, ok := hw.Body.List[0].(*ast.SwitchStmt); ok && nospace(sw.Tag) == "i.status" && len(sw.Body.List) == 2 {
			var names []string
			okShape := true
			for _, c := range sw.Body.List {
				cc := c.(*ast.CaseClause)
				body := nospace(&ast.BlockStmt{List: cc.Body})
				if cc.List == nil {
					okShape = okShape && body == "{returntrue}"
				} else {
					okShape = okShape && body == "{returnfalse}"
					for _, e := range cc.List {
						names = append(names, strings.TrimPrefix(nospace(e), "Item"))
					}
				}
			}
			if okShape {
				nw = names
			}
		}
	}
	s.strs("noWorkStatuses", nw, hw != nil)

	cc := fn(file, "Item.CheckConsistency")
	fp := ifWithMsg(cc, "parent is not ItemGotChildren or ItemGotRedirected")
	s.strs("freshParentStatuses", statusNamesIn(fp, "i.parent.status", "!="), fp != nil)
	wc := ifWithMsg(cc, "item has children but is not")
	s.strs("withChildrenStatuses", statusNamesIn(wc, "i.status", "!="), wc != nil)
	// order of the checks inside CheckConsistency
	var order []string
	for _, n := range allNodes(cc) {
		if is, ok := n.(*ast.IfStmt); ok {
			b := src(is.Body)
			switch {
			case strings.Contains(b, "item is a child but has a seedVia"):
				order = append(order, "childHasVia")
			case strings.Contains(b, "item is fresh but has children"):
				order = append(order, "freshHasChildren")
			case strings.Contains(b, "parent is not ItemGotChildren or ItemGotRedirected"):
				order = append(order, "freshBadParent")
			case strings.Contains(b, "more than one children but is ItemGotRedirected"):
				order = append(order, "redirectedManyChildren")
			case strings.Contains(b, "item has children but is not"):
				order = append(order, "childrenBadStatus")
			}
		}
	}
	s.strs("checkOrder", order, cc != nil)
	rc := ifWithMsg(cc, "more than one children but is ItemGotRedirected")
	s.boolean("redirectedRule", rc != nil && strings.Contains(src(rc.Cond), "len(i.children) > 1") && strings.Contains(src(rc.Cond), "i.status == ItemGotRedirected"))
	fc := ifWithMsg(cc, "item is fresh but has children")
	s.boolean("freshRule", fc != nil && strings.Contains(src(fc.Cond), "i.status == ItemFresh") && strings.Contains(src(fc.Cond), "len(i.children) > 0"))

	mk := fn(dfile, "markCompleted")
	var markable []string
	for _, n := range statusNamesIn(mk, "node.status", "==") {
		if n != "Completed" {
			markable = append(markable, n)
		}
	}
	s.strs("markableStatuses", markable, mk != nil)
	mks := src(mk)
	s.boolean("markBottomUp", mk != nil && strings.Index(mks, "markCompleted(children[i])") >= 0 &&
		strings.Index(mks, "markCompleted(children[i])") < strings.Index(mks, "node.status = ItemCompleted"))
	s.boolean("markNeedsAllChildrenDone", strings.Contains(mks, "len(node.GetChildren()) == 0 || allChildrenCompleted(node.GetChildren())"))
	acc := fn(dfile, "allChildrenCompleted")
	s.boolean("allDoneUsesHasWork", acc != nil && strings.Contains(src(acc), "children[i].HasWork()"))

	dd := fn(dfile, "Item.DedupeItems")
	dds := src(dd)
	pref := ""
	switch {
	case strings.Contains(dds, "existing.status != ItemCompleted && !existing.IsSeed() && node.status == ItemCompleted"):
		pref = "completed" // pinned tree before the D12 repair
	case strings.Contains(dds, "existing.status == ItemFresh && !existing.IsSeed() && node.status != ItemFresh"):
		pref = "processed"
	}
	if pref == "" {
		s.missing("dedupePrefers", "String", "\"unknown\"")
	} else {
		s.str("dedupePrefers", pref, true)
	}
	s.boolean("dedupeSkipsSeed", strings.Contains(dds, "node == nil || node.parent == nil"))
	s.boolean("dedupeKeyIsCanonical", strings.Contains(dds, "urls[node.url.String()]"))
	s.boolean("dedupeMarksCompleted", dd != nil && hasCall(dd, "markCompleted"))
	s.boolean("dedupeFlattensFirst", strings.Index(dds, "flattenTree(i)") >= 0 && strings.Index(dds, "flattenTree(i)") < strings.Index(dds, "range nodes"))

	cac := fn(file, "Item.CompleteAndCheck")
	cs := src(cac)
	s.boolean("completeShape", cac != nil && strings.Contains(cs, "if !i.HasWork() { return true }") &&
		strings.Contains(cs, "markCompleted(i)") && strings.Contains(cs, "return !i.HasWork()"))

	ac := fn(file, "Item.AddChild")
	as := src(ac)
	s.boolean("addChildShape", ac != nil && strings.Contains(as, "i.children = append(i.children, child)") &&
		strings.Contains(as, "child.parent.status = from") && strings.Contains(as, "child.status = ItemFresh"))
	s.strs("addChildFrom", statusNamesIn(ifWithMsg(ac, "from state is invalid"), "from", "!="), ac != nil)

	// locking: the whole of AddChild / RemoveChild runs under the parent's write lock
	rm := strings.ReplaceAll(src(fn(file, "Item.RemoveChild")), " ", "")
	s.boolean("removeChildAtomic", strings.Contains(rm, "parent.childrenMu.Lock()deferparent.childrenMu.Unlock()_unsafeRemoveChild(parent,child.GetID())") &&
		!strings.Contains(rm, "RLock"))
	ur := strings.ReplaceAll(src(fn(file, "_unsafeRemoveChild")), " ", "")
	s.boolean("removeFirstById", strings.Contains(ur, "ifparent.children[i].GetID()==childID{parent.children=append(parent.children[:i],parent.children[i+1:]...)return}"))
	s.boolean("addChildAtomic", ac != nil && strings.HasPrefix(strings.ReplaceAll(src(ac.Body), " ", ""), "{i.childrenMu.Lock()deferi.childrenMu.Unlock()"))
	dnr := fn(file, "Item.GetDepthWithoutRedirections")
	ds := src(dnr)
	s.boolean("dnrShape", dnr != nil && strings.Contains(ds, "return -1") && strings.Contains(ds, "return i.parent.GetDepthWithoutRedirections() + 1") &&
		strings.Contains(ds, "if i.status == ItemGotRedirected { return i.parent.GetDepthWithoutRedirections() }"))
}
