package main

import (
	"strings"
)

// Pipeline: the wiring of the stages (controler/pipeline.go), what each stage worker does with a
// seed it received, and the finisher's three exits.
func extractPipeline() {
	s := newSection("Pipeline")
	pl := strings.ReplaceAll(src(fn("internal/pkg/controler/pipeline.go", "startPipeline")), " ", "")
	// reactor -> preprocessor -> archiver -> postprocessor -> finisher, finisher -> source (finish / produce)
	wiring := []string{
		"reactor.Start(config.Get().WorkersCount,reactorOutputChan)",
		"preprocessor.Start(reactorOutputChan,preprocessorOutputChan)",
		"archiver.Start(preprocessorOutputChan,archiverOutputChan)",
		"postprocessor.Start(archiverOutputChan,postprocessorOutputChan)",
		"finisher.Start(postprocessorOutputChan,finisherFinishChan,finisherProduceChan)",
	}
	ok := true
	last := -1
	for _, w := range wiring {
		i := strings.Index(pl, w)
		if i < 0 || i < last {
			ok = false
		}
		last = i
	}
	s.boolean("stagesWiredInOrder", ok)
	s.boolean("sourceGetsFinisherChans", strings.Contains(pl, "hq.Start(finisherFinishChan,finisherProduceChan)") &&
		strings.Contains(pl, "lq.Start(finisherFinishChan,finisherProduceChan)"))
	sp := strings.ReplaceAll(src(fn("internal/pkg/controler/pipeline.go", "stopPipeline")), " ", "")
	order := []string{"reactor.Freeze()", "preprocessor.Stop()", "archiver.Stop()", "postprocessor.Stop()", "finisher.Stop()", "lq.Stop()", "reactor.Stop()"}
	ok, last = true, -1
	for _, w := range order {
		i := strings.Index(sp, w)
		if i < 0 || i < last {
			ok = false
		}
		last = i
	}
	s.boolean("stopOrderFreezeStagesSourceReactor", ok)

	// every stage worker hands on each seed it received, exactly once, unless the context is cancelled
	forward := func(file, recv, outName string) bool {
		w := strings.ReplaceAll(src(fn(file, recv+".worker")), " ", "")
		hand := "select{case<-" + outName[:1] + ".ctx.Done():"
		_ = hand
		return strings.Count(w, "."+outName+"<-seed:") == 1 && strings.Contains(w, "caseseed,ok:=<-") && !strings.Contains(w, outName+"<-seed\n")
	}
	s.boolean("preForwardsEverySeedOnce", forward("internal/pkg/preprocessor/preprocessor.go", "preprocessor", "outputCh"))
	s.boolean("archForwardsEverySeedOnce", forward("internal/pkg/archiver/archiver.go", "archiver", "outputCh"))
	s.boolean("postForwardsEverySeedOnce", forward("internal/pkg/postprocessor/postprocessor.go", "postprocessor", "outputCh"))

	fw := strings.ReplaceAll(src(fn("internal/pkg/finisher/finisher.go", "finisher.worker")), " ", "")
	iFresh := strings.Index(fw, "ifseed.GetStatus()==models.ItemFresh{")
	iComplete := strings.Index(fw, "isComplete:=seed.CompleteAndCheck()")
	iFeedback := strings.Index(fw, "if!isComplete{")
	iMark := strings.Index(fw, "err:=reactor.MarkAsFinished(seed)")
	iNotify := strings.Index(fw, "iff.sourceFinishedCh!=nil{f.sourceFinishedCh<-seed}")
	s.boolean("finFreshGoesToProduce", iFresh >= 0 && strings.Contains(fw, "ifseed.GetStatus()==models.ItemFresh{logger.Debug(\"freshseedreceived\",\"seed\",seed)f.sourceProducedCh<-seedcontinue}"))
	s.boolean("finIncompleteGoesToFeedback", iFeedback > iComplete && iComplete > iFresh &&
		strings.Contains(fw, "err:=reactor.ReceiveFeedback(seed)iferr!=nil&&err!=reactor.ErrReactorFrozen{panic(err)}continue}"))
	s.boolean("finCompleteMarksThenNotifies", iMark > iFeedback && iNotify > iMark)
	// the notification is guarded by nothing but the channel's existence
	s.boolean("finNotifyUnconditional", iNotify >= 0 && strings.Count(fw, "sourceFinishedCh<-seed") == 1 &&
		strings.Contains(fw, "err:=reactor.MarkAsFinished(seed)iferr!=nil{panic(err)}iff.sourceFinishedCh!=nil{f.sourceFinishedCh<-seed}"))
	s.boolean("finOneExitPerSeed", strings.Count(fw, "continue}") == 2 && strings.Count(fw, "sourceProducedCh<-seed") == 1 &&
		strings.Count(fw, "reactor.ReceiveFeedback(seed)") == 1 && strings.Count(fw, "reactor.MarkAsFinished(seed)") == 1)
	s.boolean("finChecksConsistency", strings.Contains(fw, "iferr:=seed.CheckConsistency();err!=nil{panic("))
}
