package main

import (
	"go/ast"
	"strings"
)

// Pipeline: the wiring of the stages (controler/pipeline.go), what each stage worker does with a
// seed it received, and the finisher's three exits.
func extractPipeline() {
	s := newSection("Pipeline")
	pl := strings.ReplaceAll(src(fn("internal/pkg/controler/pipeline.go", "startPipeline")), " ", "")
	// reactor -> preprocessor -> archiver -> postprocessor -> finisher, finisher -> source (finish / produce)
	wiring := []string{
		"reactor.Start(config.Get().WorkersCount,reactorOutputChan)",
		"preprocessor.Start(reactorOutputChan,preprocessorOutputChan)",
		"archiver.Start(preprocessorOutputChan,archiverOutputChan)",
		"postprocessor.Start(archiverOutputChan,postprocessorOutputChan)",
		"finisher.Start(postprocessorOutputChan,finisherFinishChan,finisherProduceChan)",
	}
	ok := true
	last := -1
	for _, w := range wiring {
		i := strings.Index(pl, w)
		if i < 0 || i < last {
			ok = false
		}
		last = i
	}
	s.boolean("stagesWiredInOrder", ok)
	// capacities: every stage channel is buffered with the number of workers; the reactor gets as many tokens; every stage
	// starts that many workers (Model/Flow.lean: tokens = cap = workers >= 1)
	plAll := strings.ReplaceAll(src(fn("internal/pkg/controler/pipeline.go", "startPipeline")), " ", "")
	s.boolean("stageChannelsBufferedWithWorkers", strings.Count(plAll, ":=makeStageChannel(config.Get().WorkersCount)") == 6 &&
		strings.Count(plAll, "makeStageChannel(") == 6)
	mk := strings.ReplaceAll(src(fn("internal/pkg/controler/channels.go", "makeStageChannel")), " ", "")
	s.boolean("makeStageChannelUsesItsSize", strings.Contains(mk, "parsedSize=bufferSize[0]") && strings.Contains(mk, "ch:=make(chan*models.Item,parsedSize)") && strings.HasSuffix(mk, "returnch}"))
	s.boolean("reactorTokensAreWorkers", strings.Contains(plAll, "reactor.Start(config.Get().WorkersCount,reactorOutputChan)"))
	nw := 0
	for _, f := range []struct{ file, fn string }{{"internal/pkg/preprocessor/preprocessor.go", "Start"}, {"internal/pkg/archiver/archiver.go", "Start"},
		{"internal/pkg/postprocessor/postprocessor.go", "Start"}, {"internal/pkg/finisher/finisher.go", "Start"}} {
		st := strings.ReplaceAll(src(fn(f.file, f.fn)), " ", "")
		if strings.Contains(st, "fori:=0;i<config.Get().WorkersCount;i++{") {
			nw++
		}
	}
	s.boolean("everyStageStartsWorkersCountWorkers", nw == 4)
	s.boolean("sourceGetsFinisherChans", strings.Contains(pl, "hq.Start(finisherFinishChan,finisherProduceChan)") &&
		strings.Contains(pl, "lq.Start(finisherFinishChan,finisherProduceChan)"))
	sp := strings.ReplaceAll(src(fn("internal/pkg/controler/pipeline.go", "stopPipeline")), " ", "")
	order := []string{"reactor.Freeze()", "preprocessor.Stop()", "archiver.Stop()", "postprocessor.Stop()", "finisher.Stop()", "lq.Stop()", "reactor.Stop()"}
	ok, last = true, -1
	for _, w := range order {
		i := strings.Index(sp, w)
		if i < 0 || i < last {
			ok = false
		}
		last = i
	}
	s.boolean("stopOrderFreezeStagesSourceReactor", ok)

	// the first things stopPipeline waits for are the two watchers: does each of their goroutines return once its context is cancelled,
	// whatever state it is in (the disk watcher may hold the pipeline paused at that moment)?
	s.str("diskWatcherOnStop", watcherOnStop(fn("internal/pkg/controler/watchers/disk.go", "WatchDiskSpace"), "diskWatcherCtx.Done()"), true)
	s.str("warcWatcherOnStop", watcherOnStop(fn("internal/pkg/controler/watchers/warc.go", "StartWatchWARCWritingQueue"), "wwqCtx.Done()"), true)
	// a source blocked in reactor.ReceiveInsert (no token free) is woken by Freeze: the select that takes the token also waits for the
	// freeze context and for the reactor's context
	ri := fn("internal/pkg/reactor/reactor.go", "ReceiveInsert")
	wakes := false
	if ri != nil {
		for _, n := range allNodes(ri) {
			sel, ok := n.(*ast.SelectStmt)
			if !ok {
				continue
			}
			tok, frz, ctx := false, false, false
			for _, c := range sel.Body.List {
				if cc, ok := c.(*ast.CommClause); ok && cc.Comm != nil {
					t := strings.ReplaceAll(src(cc.Comm), " ", "")
					switch {
					case strings.Contains(t, "tokenPool<-"):
						tok = true
					case strings.Contains(t, "<-globalReactor.freezeCtx.Done()"):
						frz = true
					case strings.Contains(t, "<-globalReactor.ctx.Done()"):
						ctx = true
					}
				}
			}
			if tok {
				wakes = frz && ctx
			}
		}
	}
	s.boolean("insertWaitWokenByFreeze", wakes)

	// every stage worker hands on each seed it received, exactly once, unless the context is cancelled
	forward := func(file, recv, outName string) bool {
		w := strings.ReplaceAll(src(fn(file, recv+".worker")), " ", "")
		hand := "select{case<-" + outName[:1] + ".ctx.Done():"
		_ = hand
		return strings.Count(w, "."+outName+"<-seed:") == 1 && strings.Contains(w, "caseseed,ok:=<-") && !strings.Contains(w, outName+"<-seed\n")
	}
	s.boolean("preForwardsEverySeedOnce", forward("internal/pkg/preprocessor/preprocessor.go", "preprocessor", "outputCh"))
	s.boolean("archForwardsEverySeedOnce", forward("internal/pkg/archiver/archiver.go", "archiver", "outputCh"))
	s.boolean("postForwardsEverySeedOnce", forward("internal/pkg/postprocessor/postprocessor.go", "postprocessor", "outputCh"))

	// every send a stage does on its way out can be interrupted by the stop: it sits in a select with ctx.Done()
	// (exceptions: the bounded asset semaphore of archive() and Stop()'s own watcher signal)
	sendsOK := func(rel string) bool {
		f := load(rel)
		if f == nil {
			return false
		}
		for _, d := range f.Decls {
			fd, ok := d.(*ast.FuncDecl)
			if !ok {
				continue
			}
			for _, op := range chanOps(fd.Body) {
				if op.Kind != "send" {
					continue
				}
				t := strings.ReplaceAll(op.Text, " ", "")
				if t == "guard<-struct{}{}" || t == "stopLocalWatcher<-struct{}{}" {
					continue
				}
				if !(op.InSelect && (op.CtxDone || op.HasDefaul)) {
					return false
				}
			}
		}
		return true
	}
	s.boolean("preSendsCancellable", sendsOK("internal/pkg/preprocessor/preprocessor.go"))
	s.boolean("archSendsCancellable", sendsOK("internal/pkg/archiver/archiver.go"))
	s.boolean("postSendsCancellable", sendsOK("internal/pkg/postprocessor/postprocessor.go"))
	// archive() leaves only after every capture it started has ended: one wg.Wait() at the end, no return in the loop over the items
	ar := fn("internal/pkg/archiver/archiver.go", "archive")
	early := false
	if ar != nil {
		for _, n := range ar.Body.List {
			if fs, ok := n.(*ast.ForStmt); ok {
				var walk func(x ast.Node) bool
				walk = func(x ast.Node) bool {
					found := false
					ast.Inspect(x, func(y ast.Node) bool {
						switch y.(type) {
						case *ast.FuncLit:
							return false
						case *ast.ReturnStmt:
							found = true
						}
						return true
					})
					return found
				}
				if walk(fs.Body) {
					early = true
				}
			}
		}
	}
	ars := strings.ReplaceAll(src(ar), " ", "")
	s.boolean("archiveWaitsForItsCaptures", !early && strings.Count(ars, "wg.Wait()") == 1 && strings.HasSuffix(strings.TrimSuffix(ars, "}"), "wg.Wait()return"))

	fw := strings.ReplaceAll(src(canonFn("internal/pkg/finisher/finisher.go", "finisher.worker")), " ", "")
	iFresh := strings.Index(fw, "ifseed.GetStatus()==models.ItemFresh{")
	iComplete := strings.Index(fw, "if!seed.CompleteAndCheck(){")
	iFeedback := iComplete + 1
	iMark := strings.Index(fw, "err:=reactor.MarkAsFinished(seed)")
	iNotify := strings.Index(fw, "iff.sourceFinishedCh!=nil{f.sourceFinishedCh<-seed}")
	s.boolean("finFreshGoesToProduce", iFresh >= 0 && strings.Contains(fw, "ifseed.GetStatus()==models.ItemFresh{logger.Debug(\"freshseedreceived\",\"seed\",seed)f.sourceProducedCh<-seedcontinue}"))
	s.boolean("finIncompleteGoesToFeedback", iFeedback > iComplete && iComplete > iFresh &&
		strings.Contains(fw, "err:=reactor.ReceiveFeedback(seed)iferr!=nil&&err!=reactor.ErrReactorFrozen{panic(err)}continue}"))
	s.boolean("finCompleteMarksThenNotifies", iMark > iFeedback && iNotify > iMark)
	// the notification is guarded by nothing but the channel's existence
	s.boolean("finNotifyUnconditional", iNotify >= 0 && strings.Count(fw, "sourceFinishedCh<-seed") == 1 &&
		strings.Contains(fw, "err:=reactor.MarkAsFinished(seed)iferr!=nil{panic(err)}iff.sourceFinishedCh!=nil{f.sourceFinishedCh<-seed}"))
	s.boolean("finOneExitPerSeed", strings.Count(fw, "continue}") == 2 && strings.Count(fw, "sourceProducedCh<-seed") == 1 &&
		strings.Count(fw, "reactor.ReceiveFeedback(seed)") == 1 && strings.Count(fw, "reactor.MarkAsFinished(seed)") == 1)
	s.boolean("finChecksConsistency", strings.Contains(fw, "iferr:=seed.CheckConsistency();err!=nil{panic("))
}

// watcherOnStop classifies what every `case <-<ctxDone>:` clause of a watcher does: "returns" (its last statement is an unconditional
// return), "returnsSecondRound" (the shape `if paused && !flag { flag = true } else { return }`: the cancelled context fires again at
// once and the second round returns), otherwise "mayWait".
func watcherOnStop(fd *ast.FuncDecl, done string) string {
	if fd == nil {
		return "missing"
	}
	res := "missing"
	for _, n := range allNodes(fd) {
		cc, ok := n.(*ast.CommClause)
		if !ok || cc.Comm == nil || !strings.Contains(strings.ReplaceAll(src(cc.Comm), " ", ""), "<-"+done) {
			continue
		}
		this := "mayWait"
		if len(cc.Body) > 0 {
			if _, ok := cc.Body[len(cc.Body)-1].(*ast.ReturnStmt); ok {
				this = "returns"
			} else if len(cc.Body) == 1 {
				t := strings.ReplaceAll(src(cc.Body[0]), " ", "")
				if strings.HasPrefix(t, "ifpaused&&!returnAfterResume{") && strings.Contains(t, "returnAfterResume=true}else{return}") {
					this = "returnsSecondRound"
				}
			}
		}
		if res == "missing" || this == "mayWait" || (this == "returnsSecondRound" && res == "returns") {
			res = this
		}
	}
	return res
}
