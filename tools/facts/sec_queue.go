package main

import (
	"regexp"
	"strings"
)

func extractQueue() {
	s := newSection("Queue")
	// hops <-> path
	u := "internal/pkg/source/hq/utils.go"
	pth := strings.ReplaceAll(src(fn(u, "pathToHops")), " ", "")
	htp := strings.ReplaceAll(src(fn(u, "hopsToPath")), " ", "")
	letter := ""
	if m := regexp.MustCompile(`strings\.Repeat\("(.)",hops\)`).FindStringSubmatch(htp); m != nil {
		letter = m[1]
	}
	s.str("hopLetter", letter, letter != "")
	s.boolean("pathToHopsCounts", letter != "" && strings.Contains(pth, `returnstrings.Count(path,"`+letter+`")`))

	// HQ producer: fields of the URL sent, batch size, retry without give-up
	pf := "internal/pkg/source/hq/producer.go"
	pr := strings.ReplaceAll(src(fn(pf, "producerReceiver")), " ", "")
	s.boolean("hqProduceFields", strings.Contains(pr, "Value:item.GetURL().Raw,Via:item.GetSeedVia(),Path:hopsToPath(item.GetURL().GetHops())"))
	s.boolean("hqProduceFlushOnSize", strings.Contains(pr, "iflen(batch.URLs)>=batchSize{"))
	s.boolean("hqProduceFlushOnTick", strings.Contains(pr, "case<-ticker.C:iflen(batch.URLs)>0{"))
	ps := strings.ReplaceAll(src(fn(pf, "producerSender")), " ", "")
	s.boolean("hqProduceRetriesForever", strings.Contains(ps, "for{err:=globalHQ.client.Add(") && strings.Contains(ps, "iferr!=nil{") &&
		strings.Contains(ps, "continue}return}") && !strings.Contains(ps, "break"))
	ff := "internal/pkg/source/hq/finisher.go"
	fr := strings.ReplaceAll(src(fn(ff, "finisherReceiver")), " ", "")
	s.boolean("hqFinishById", strings.Contains(fr, "ID:item.GetID(),"))
	s.boolean("hqFinishFlushOnSize", strings.Contains(fr, "iflen(batch.URLs)>=batchSize{"))
	s.boolean("hqFinishFlushOnTick", strings.Contains(fr, "case<-ticker.C:iflen(batch.URLs)>0{"))
	fs := strings.ReplaceAll(src(fn(ff, "finisherSender")), " ", "")
	s.boolean("hqFinishRetriesForever", strings.Contains(fs, "for{err:=globalHQ.client.Delete(") && strings.Contains(fs, "iferr!=nil{") &&
		strings.Contains(fs, "continue}return}") && !strings.Contains(fs, "break"))
	cs := strings.ReplaceAll(src(fn("internal/pkg/source/hq/consumer.go", "consumerSender")), " ", "")
	s.boolean("hqConsumeFields", strings.Contains(cs, "Raw:URL.Value,Hops:pathToHops(URL.Path),") && strings.Contains(cs, "models.NewItem(URL.ID,&parsedURL,URL.Via)"))

	// LQ
	lp := strings.ReplaceAll(src(fn("internal/pkg/source/lq/producer.go", "producerReceiver")), " ", "")
	s.boolean("lqProduceFields", strings.Contains(lp, "Value:item.GetURL().Raw,Via:item.GetSeedVia(),Hops:int64(item.GetURL().GetHops()),"))
	lc := strings.ReplaceAll(src(fn("internal/pkg/source/lq/consumer.go", "consumerSender")), " ", "")
	s.boolean("lqConsumeFields", strings.Contains(lc, "Raw:URL.Value,Hops:int(URL.Hops),") && strings.Contains(lc, "models.NewItem(URL.ID,&parsedURL,URL.Via)"))
	// the consumer: what happens to each claimed URL. The "could not be parsed" flag is declared per URL (inside the receive case),
	// an unparsable URL goes straight to the finish channel, every other one is inserted into the reactor
	iCase, iFlag, iLoop := strings.Index(lc, "caseURL:=<-urlBuffer:"), strings.Index(lc, "vardiscardbool"), strings.Index(lc, "for{")
	scope := "unknown"
	if iCase >= 0 && iFlag > iCase {
		scope = "perURL"
	} else if iFlag >= 0 && (iLoop < 0 || iFlag < iLoop || iFlag < iCase) {
		scope = "hoisted"
	}
	s.str("lqDiscardFlagScope", scope, scope != "unknown")
	s.boolean("lqUnparsableGoesToFinish", strings.Contains(lc, "err:=parsedURL.Parse()iferr!=nil{discard=true}") &&
		strings.Contains(lc, "ifdiscard{") && strings.Contains(lc, "globalLQ.finishCh<-newItembreak}"))
	s.boolean("lqParsableGoesToReactor", strings.Count(lc, "reactor.ReceiveInsert(newItem)") == 1 &&
		strings.Index(lc, "reactor.ReceiveInsert(newItem)") > strings.Index(lc, "ifdiscard{") && strings.Count(lc, "discard=") == 1)
	add := strings.ReplaceAll(src(fn("internal/pkg/source/lq/client.go", "LQClient.Add")), " ", "")
	s.boolean("lqAddSkipsDuplicateValue", strings.Contains(add, `iferr.Error()=="sqlite3:constraintfailed:UNIQUEconstraintfailed:urls.value"{`) &&
		strings.Contains(add, "continue}"))
	s.boolean("lqAddOneTransaction", strings.Contains(add, "dbWrite.Begin()") && strings.Contains(add, "defertx.Rollback()") && strings.Contains(add, "tx.Commit()"))
	get := strings.ReplaceAll(src(fn("internal/pkg/source/lq/client.go", "LQClient.Get")), " ", "")
	s.boolean("lqGetClaimsInTransaction", strings.Contains(get, "dbWrite.Begin()") && strings.Contains(get, "qtx.GetFreshURLs(") &&
		strings.Contains(get, "qtx.ClaimThisURL(") && strings.Contains(get, "tx.Commit()") &&
		strings.Index(get, "qtx.ClaimThisURL(") < strings.Index(get, "tx.Commit()"))
	schema, ok := readText("internal/pkg/source/lq/schema.sql")
	s.boolean("lqUniqueValueIndex", ok && strings.Contains(schema, "CREATE UNIQUE INDEX IF NOT EXISTS urls_value ON urls (value)"))
	q, ok2 := readText("internal/pkg/source/lq/query.sql")
	s.boolean("lqSqlStatuses", ok2 && strings.Contains(q, "WHERE status = 'FRESH'") && strings.Contains(q, "SET status = 'CLAIMED'") &&
		strings.Contains(q, "SET status = 'FRESH'") && strings.Contains(q, "DELETE FROM urls\nWHERE id = ?"))
	// does Init hand CLAIMED rows back (rows claimed by a previous, stopped or killed, run)?
	ini := strings.ReplaceAll(src(fn("internal/pkg/source/lq/client.go", "Init")), " ", "")
	s.boolean("lqInitReclaims", strings.Contains(ini, "UPDATEurlsSETstatus='FRESH'") && strings.Contains(ini, "WHEREstatus='CLAIMED'"))
	st := strings.ReplaceAll(src(fn("internal/pkg/source/lq/lq.go", "Stop")), " ", "")
	s.boolean("lqStopResetsTracked", strings.Contains(st, "seedsToReset:=reactor.GetStateTable()") && strings.Contains(st, "globalLQ.client.ResetURL("))
	// finisher of the pipeline: notifies the source only after MarkAsFinished
	fin := strings.ReplaceAll(src(fn("internal/pkg/finisher/finisher.go", "finisher.worker")), " ", "")
	s.boolean("finishNotifiesAfterMark", strings.Index(fin, "reactor.MarkAsFinished(seed)") >= 0 && strings.Index(fin, "f.sourceFinishedCh<-seed") > strings.Index(fin, "reactor.MarkAsFinished(seed)"))
	// outlinks: via = parent canonical URL
	pp := strings.ReplaceAll(src(fn("internal/pkg/postprocessor/item.go", "postprocessItem")), " ", "")
	s.boolean("outlinkViaIsParentCanonical", strings.Contains(pp, "models.NewItem(uuid.New().String(),newOutlinks[i],item.GetURL().String())"))
}
