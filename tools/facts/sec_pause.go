package main

import (
	"go/ast"
	"strings"
)

// pauseCaseAck inspects a stage worker: in the `case <-controlChans.PauseCh:` clause, is the
// acknowledgement `controlChans.ResumeCh <- struct{}{}` a bare send or inside a select that also
// waits for the stage's ctx.Done()?
func pauseCaseAck(fd *ast.FuncDecl) string {
	if fd == nil {
		return "missing"
	}
	res := "missing"
	for _, n := range allNodes(fd) {
		cc, ok := n.(*ast.CommClause)
		if !ok || cc.Comm == nil || !strings.Contains(src(cc.Comm), "controlChans.PauseCh") {
			continue
		}
		for _, st := range cc.Body {
			for _, op := range chanOps(st) {
				if op.Kind == "send" && strings.Contains(op.Text, "controlChans.ResumeCh <-") {
					if op.InSelect && op.CtxDone && !op.HasDefaul {
						res = "cancellable"
					} else {
						res = "bare"
					}
				}
			}
		}
	}
	return res
}

// pauseWhileIdle: the select in which the worker waits for its next seed (a receive from its input channel) also has the
// `<-controlChans.PauseCh` case and a `ctx.Done()` case — an idle worker sees a pause (and a stop) at once.
func pauseWhileIdle(fd *ast.FuncDecl) bool {
	if fd == nil {
		return false
	}
	found := false
	for _, n := range allNodes(fd) {
		sel, ok := n.(*ast.SelectStmt)
		if !ok {
			continue
		}
		work, pauseCase, done := false, false, false
		for _, c := range sel.Body.List {
			cc, ok := c.(*ast.CommClause)
			if !ok || cc.Comm == nil {
				continue
			}
			t := strings.ReplaceAll(src(cc.Comm), " ", "")
			switch {
			case strings.Contains(t, "<-controlChans.PauseCh"):
				pauseCase = true
			case strings.Contains(t, ".Done()"):
				done = true
			case strings.Contains(t, "nputCh") && strings.Contains(t, "<-"):
				work = true
			}
		}
		if work {
			if !(pauseCase && done) {
				return false
			}
			found = true
		}
	}
	return found
}

func extractPause() {
	s := newSection("Pause")
	const file = "internal/pkg/controler/pause/pause.go"
	sub := strings.ReplaceAll(src(fn(file, "Subscribe")), " ", "")
	s.boolean("pauseChBuffered1", strings.Contains(sub, "PauseCh:make(chanstruct{},1)"))
	s.boolean("resumeChUnbuffered", strings.Contains(sub, "ResumeCh:make(chanstruct{})"))
	// joining: serialised with Resume (same mutex, taken before the table is written), and a newcomer gets the signal when paused
	iLock, iStore := strings.Index(sub, "manager.resumeMu.Lock()defermanager.resumeMu.Unlock()"), strings.Index(sub, "manager.subscribers.Store(chans")
	s.boolean("subscribeSerialised", iLock >= 0 && iStore > iLock)
	iSig := strings.Index(sub, "ifmanager.isPaused.Load(){select{casechans.PauseCh<-struct{}{}:default:}}")
	s.boolean("subscribeSignalsWhenPaused", iSig > iStore && iStore >= 0)
	un := strings.ReplaceAll(src(fn(file, "Unsubscribe")), " ", "")
	s.boolean("unsubscribeDeletesThenCloses", strings.Contains(un, "manager.subscribers.Delete(chans)") &&
		strings.Contains(un, "close(chans.PauseCh)close(chans.ResumeCh)") &&
		strings.Index(un, "manager.subscribers.Delete(chans)") < strings.Index(un, "close(chans.PauseCh)"))
	p := ""
	if pf := canonFn(file, "Pause"); pf != nil {
		p = strings.ReplaceAll(src(pf.Body), " ", "")
	}
	s.boolean("pauseCasFalseTrueFirst", strings.HasPrefix(p, "{if!manager.isPaused.CompareAndSwap(false,true){return}"))
	s.boolean("pauseSendNonBlocking", strings.Contains(p, "select{casechans.PauseCh<-struct{}{}:default:}"))
	rf := fn(file, "Resume")
	r := strings.ReplaceAll(src(rf), " ", "")
	// serialised: the body starts by taking a mutex that is released on return
	serial := strings.Contains(r, "manager.resumeMu.Lock()defermanager.resumeMu.Unlock()") &&
		strings.Index(r, "manager.resumeMu.Lock()") < strings.Index(r, "manager.subscribers.Range")
	s.boolean("resumeSerialised", serial)
	flag := strings.Contains(r, "if!manager.isPaused.Load(){return}") &&
		strings.Index(r, "if!manager.isPaused.Load(){return}") < strings.Index(r, "manager.subscribers.Range")
	s.boolean("resumeChecksFlagFirst", flag)
	s.boolean("resumeCollectsThenClears", strings.Contains(r, "wg.Wait()") && strings.Contains(r, "manager.isPaused.CompareAndSwap(true,false)") &&
		strings.Index(r, "wg.Wait()") < strings.Index(r, "manager.isPaused.CompareAndSwap(true,false)"))
	// a receive returns at once on a closed channel whatever its form (`<-ch`, `_, ok := <-ch`)
	s.boolean("resumeHandlesClosed", strings.Contains(r, "<-chans.ResumeCh") && !strings.Contains(r, "chans.ResumeCh<-"))

	for _, w := range []struct{ name, file, recv string }{
		{"preprocessor", "internal/pkg/preprocessor/preprocessor.go", "preprocessor.worker"},
		{"archiver", "internal/pkg/archiver/archiver.go", "archiver.worker"},
		{"postprocessor", "internal/pkg/postprocessor/postprocessor.go", "postprocessor.worker"},
		{"finisher", "internal/pkg/finisher/finisher.go", "finisher.worker"},
	} {
		fd := fn(w.file, w.recv)
		s.str(w.name+"Ack", pauseCaseAck(fd), true)
		ws := strings.ReplaceAll(src(fd), " ", "")
		s.boolean(w.name+"ListensWhileIdle", pauseWhileIdle(fd))
		s.boolean(w.name+"SubscribesAndDefersUnsubscribe", strings.Contains(ws, "controlChans:=pause.Subscribe()deferpause.Unsubscribe(controlChans)"))
	}
}
