package main

