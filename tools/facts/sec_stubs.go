package main

func extractPause()       {}
func extractQueue()       {}
func extractUrl()         {}
func extractStages()      {}
func extractExtractors()  {}
func extractArchiver()    {}
func extractPipeline()    {}
