package main

func extractQueue()       {}
func extractUrl()         {}
func extractStages()      {}
func extractExtractors()  {}
func extractArchiver()    {}
func extractPipeline()    {}
