package main

func extractPause()       {}
func extractStats()       {}
func extractQueue()       {}
func extractUrl()         {}
func extractStages()      {}
func extractExtractors()  {}
func extractArchiver()    {}
func extractPipeline()    {}
