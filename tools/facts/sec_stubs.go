package main

func extractExtractors()  {}
