package main

func extractStages()      {}
func extractExtractors()  {}
func extractPipeline()    {}
