package main

func extractRateLimiter() {}
func extractItem()        {}
func extractPause()       {}
func extractStats()       {}
func extractQueue()       {}
func extractUrl()         {}
func extractStages()      {}
func extractExtractors()  {}
func extractArchiver()    {}
func extractPipeline()    {}
