package main

func extractExtractors()  {}
func extractPipeline()    {}
