package main

func extractStages()      {}
func extractExtractors()  {}
func extractArchiver()    {}
func extractPipeline()    {}
