package main

func extractQueue()       {}
func extractStages()      {}
func extractExtractors()  {}
func extractArchiver()    {}
func extractPipeline()    {}
