package main

import (
	"strings"
)

// Extractors: shapes of the structured-document extractors (json.go, xml.go, m3u8.go, s3.go, utils.go) and of
// the dispatch in assets.go / outlinks.go.
func extractExtractors() {
	s := newSection("Extractors")
	const dir = "internal/pkg/postprocessor/extractor/"
	// ---- hasFileExtension
	hf := strings.ReplaceAll(src(fn(dir+"utils.go", "hasFileExtension")), " ", "")
	s.boolean("extStripsFragmentThenQuery", strings.Index(hf, "strings.IndexByte(s,'#')") >= 0 && strings.Index(hf, "strings.IndexByte(s,'#')") < strings.Index(hf, "strings.IndexByte(s,'?')"))
	s.boolean("extKeepsAfterLastSlash", strings.Contains(hf, "ifslashPos:=strings.LastIndexByte(s,'/');slashPos!=-1{s=s[slashPos+1:]}"))
	s.boolean("extNeedsDotNotLast", strings.Contains(hf, "dotPos:=strings.LastIndexByte(s,'.')ifdotPos==-1||dotPos==len(s)-1{returnfalse}returntrue"))
	// ---- JSON
	fu := strings.ReplaceAll(src(fn(dir+"json.go", "findURLs")), " ", "")
	s.boolean("jsonWalksStringsArraysObjects", strings.Contains(fu, "casestring:") && strings.Contains(fu, "case[]interface{}:for_,element:=rangev{findURLs(element,links)}") &&
		strings.Contains(fu, "casemap[string]interface{}:for_,value:=rangev{findURLs(value,links)}"))
	s.boolean("jsonURLOrEmbedded", strings.Contains(fu, "ifisValidURL(v){*links=append(*links,v)}elseifisLikelyJSON(v){") &&
		strings.Contains(fu, "err:=json.Unmarshal([]byte(v),&jsonstringdata)iferr==nil{findURLs(jsonstringdata,links)}"))
	gj := strings.ReplaceAll(src(fn(dir+"json.go", "GetURLsFromJSON")), " ", "")
	s.boolean("jsonSplitByExtension", strings.Contains(gj, "for_,link:=rangelinks{ifhasFileExtension(link){assets=append(assets,link)}else{outlinks=append(outlinks,link)}}"))
	// ---- XML
	xm := strings.ReplaceAll(src(fn(dir+"xml.go", "XML")), " ", "")
	s.boolean("xmlAttrsWithHTTPPrefix", strings.Contains(xm, `casexml.StartElement:for_,attr:=rangetok.Attr{ifstrings.HasPrefix(attr.Value,"http"){rawURLs=append(rawURLs,attr.Value)}}`))
	s.boolean("xmlTextPrefixOrRegex", strings.Contains(xm, `casexml.CharData:ifbytes.HasPrefix(tok,[]byte("http")){rawURLs=append(rawURLs,string(tok))}else{`) &&
		strings.Contains(xm, "rawURLs=append(rawURLs,utils.DedupeStrings(LinkRegexStrict.FindAllString(string(tok),-1))...)"))
	s.boolean("xmlSplitByExtension", strings.Contains(xm, "for_,rawURL:=rangerawURLs{ifhasFileExtension(rawURL){assets=append(assets,&models.URL{Raw:rawURL,})}else{outlinks=append(outlinks,&models.URL{Raw:rawURL,})}}"))
	// ---- M3U8
	m3 := strings.ReplaceAll(src(fn(dir+"m3u8.go", "M3U8")), " ", "")
	s.boolean("m3u8Segments", strings.Contains(m3, `for_,segment:=rangemediapl.Segments{ifsegment!=nil&&segment.URI!=""{rawAssets=append(rawAssets,segment.URI)}}`))
	s.boolean("m3u8VariantsAndAlternatives", strings.Contains(m3, `ifvariant.URI!=""{rawAssets=append(rawAssets,variant.URI)}for_,alt:=rangevariant.Alternatives{ifalt!=nil&&alt.URI!=""{rawAssets=append(rawAssets,alt.URI)}}`))
	// ---- S3
	sl := strings.ReplaceAll(src(fn(dir+"s3.go", "s3Legacy")), " ", "")
	s.boolean("s3LegacyNextWhenNonEmpty", strings.Contains(sl, `iflen(result.Contents)>0{lastKey:=result.Contents[len(result.Contents)-1].Key`) && strings.Contains(sl, `q.Set("marker",lastKey)`))
	sv := strings.ReplaceAll(src(fn(dir+"s3.go", "s3V2")), " ", "")
	objLoop := `for_,obj:=rangeresult.Contents{ifobj.Size>0{fileURL:=*parsedBasefileURL.Path+="/"+obj.Keyoutlinks=append(outlinks,fileURL.String())}}`
	s.boolean("s3SkipsEmptyObjects", strings.Contains(sl, objLoop) && strings.Contains(sv, objLoop))
	mixed := "unknown"
	switch {
	case strings.Contains(sv, "iflen(result.CommonPrefixes)>0{") && strings.Contains(sv, "}else{"+objLoop+"}"):
		mixed = "prefixesOnly" // a page with common prefixes loses its objects
	case strings.Contains(sv, objLoop) && !strings.Contains(sv, "}else{"+objLoop):
		mixed = "both"
	}
	if mixed == "unknown" {
		s.missing("s3V2MixedPages", "String", "\"unknown\"")
	} else {
		s.str("s3V2MixedPages", mixed, true)
	}
	s.boolean("s3V2ContinuationWhenTruncated", strings.Contains(sv, `ifresult.IsTruncated&&result.NextContinuationToken!=""{`) && strings.Contains(sv, `q.Set("continuation-token",result.NextContinuationToken)`))
	s.boolean("s3V2SubfolderLinks", strings.Contains(sv, `for_,p:=rangeprefix.Prefix{nextURL:=*reqURLq:=nextURL.Query()q.Set("prefix",p)`))
	// ---- which bodies reach the extractors (archiver/body.go) and the dispatch
	as := strings.ReplaceAll(src(fn("internal/pkg/postprocessor/assets.go", "extractAssets")), " ", "")
	order := []string{"caseextractor.IsM3U8(", "caseextractor.IsJSON(", "caseextractor.IsXML(", "caseextractor.IsHTML("}
	ok, last := true, -1
	for _, o := range order {
		i := strings.Index(as, o)
		if i < 0 || i < last {
			ok = false
		}
		last = i
	}
	s.boolean("assetDispatchOrder", ok)
	pb := strings.ReplaceAll(src(fn("internal/pkg/archiver/body.go", "ProcessBody")), " ", "")
	s.boolean("bodyKeptForPlaylists", strings.Contains(pb, `mpegurl`))
}

// Containment (C10): what happens to an error or a panic raised while a server-controlled body is processed.
func extractContainment() {
	s := newSection("Containment")
	rec := `deferfunc(){ifr:=recover();r!=nil{`
	as := strings.ReplaceAll(src(fn("internal/pkg/postprocessor/assets.go", "extractAssets")), " ", "")
	ol := strings.ReplaceAll(src(fn("internal/pkg/postprocessor/outlinks.go", "extractOutlinks")), " ", "")
	s.boolean("assetsRecover", strings.HasPrefix(strings.SplitN(as, "{", 2)[1], rec) && strings.Contains(as, `assets,outlinks=nil,nilerr=fmt.Errorf(`))
	s.boolean("outlinksRecover", strings.HasPrefix(strings.SplitN(ol, "{", 2)[1], rec) && strings.Contains(ol, `outlinks=nilerr=fmt.Errorf(`))
	it := strings.ReplaceAll(src(fn("internal/pkg/postprocessor/item.go", "postprocessItem")), " ", "")
	s.boolean("assetsErrorLoggedNotFatal", strings.Contains(it, `assets,outlinksFromAssets,err=extractAssets(item)iferr!=nil{logger.Error("unabletoextractassets"`) && strings.Contains(it, `}else{fori:=rangeassets{`))
	s.boolean("outlinksErrorLoggedNotFatal", strings.Contains(it, `newOutlinks,err:=extractOutlinks(item)iferr!=nil{logger.Error("unabletoextractoutlinks"`))
	ar := strings.ReplaceAll(src(fn("internal/pkg/archiver/archiver.go", "archive")), " ", "")
	s.boolean("processBodyErrorFailsItem", strings.Contains(ar, `err=ProcessBody(`) && strings.Contains(ar, `iferr!=nil{logger.Error("unabletoprocessbody"`) && strings.Contains(ar, `item.SetStatus(models.ItemFailed)return}stats.MeanProcessBodyTimeAdd`))
	nu := strings.ReplaceAll(src(fn("internal/pkg/preprocessor/url.go", "NormalizeURL")), " ", "")
	s.boolean("normaliserReturnsErrors", strings.Count(nu, "returnerr") >= 3 && !strings.Contains(nu, "panic("))
	// panics that remain in postprocessItem are on tree invariants (AddChild), not on input
	s.natLit("postprocessItemPanics", strings.Count(it, "panic("))
}
