// Fact extractor library: small helpers over go/ast. Stdlib only.
//
// Every helper returns an explicit "missing" marker when the pattern it looks for is not
// found; a missing fact is never replaced by an old value.
package main

import (
	"bytes"
	"fmt"
	"go/ast"
	"go/constant"
	"go/parser"
	"go/printer"
	"go/token"
	"os"
	"path/filepath"
	"reflect"
	"sort"
	"strings"
)

var (
	repoRoot string
	fset     = token.NewFileSet()
	fileMemo = map[string]*ast.File{}
)

func load(rel string) *ast.File {
	if f, ok := fileMemo[rel]; ok {
		return f
	}
	p := filepath.Join(repoRoot, rel)
	f, err := parser.ParseFile(fset, p, nil, parser.ParseComments)
	if err != nil {
		fmt.Fprintf(os.Stderr, "facts: cannot parse %s: %v\n", rel, err)
		fileMemo[rel] = nil
		return nil
	}
	fileMemo[rel] = f
	return f
}

func readText(rel string) (string, bool) {
	b, err := os.ReadFile(filepath.Join(repoRoot, rel))
	if err != nil {
		return "", false
	}
	return string(b), true
}

// src prints a node on one line with normalised whitespace.
func src(n ast.Node) string {
	if n == nil || (reflect.ValueOf(n).Kind() == reflect.Ptr && reflect.ValueOf(n).IsNil()) {
		return ""
	}
	var b bytes.Buffer
	printer.Fprint(&b, fset, n)
	return strings.Join(strings.Fields(b.String()), " ")
}

// fn finds a function or method by name; recv "" matches plain functions and any receiver
// when no plain function of that name exists.
func fn(rel, name string) *ast.FuncDecl {
	f := load(rel)
	if f == nil {
		return nil
	}
	recv := ""
	if i := strings.Index(name, "."); i >= 0 {
		recv, name = name[:i], name[i+1:]
	}
	for _, d := range f.Decls {
		fd, ok := d.(*ast.FuncDecl)
		if !ok || fd.Name.Name != name {
			continue
		}
		if recv == "" {
			return fd
		}
		if fd.Recv != nil && len(fd.Recv.List) == 1 && strings.Contains(src(fd.Recv.List[0].Type), recv) {
			return fd
		}
	}
	return nil
}

// ---- constants -----------------------------------------------------------------------

// constEnv evaluates constant expressions made of literals, arithmetic, conversions and
// identifiers bound in env (plus time.* durations, expressed in nanoseconds).
type constEnv map[string]constant.Value

var timeUnits = map[string]int64{
	"Nanosecond": 1, "Microsecond": 1e3, "Millisecond": 1e6, "Second": 1e9, "Minute": 60e9, "Hour": 3600e9,
}

func (env constEnv) eval(e ast.Expr) (constant.Value, bool) {
	switch x := e.(type) {
	case *ast.BasicLit:
		v := constant.MakeFromLiteral(x.Value, x.Kind, 0)
		return v, v.Kind() != constant.Unknown
	case *ast.ParenExpr:
		return env.eval(x.X)
	case *ast.Ident:
		v, ok := env[x.Name]
		return v, ok
	case *ast.SelectorExpr:
		if id, ok := x.X.(*ast.Ident); ok && id.Name == "time" {
			if u, ok := timeUnits[x.Sel.Name]; ok {
				return constant.MakeInt64(u), true
			}
		}
		if id, ok := x.X.(*ast.Ident); ok && id.Name == "math" && x.Sel.Name == "MaxInt32" {
			return constant.MakeInt64(1<<31 - 1), true
		}
		return nil, false
	case *ast.UnaryExpr:
		v, ok := env.eval(x.X)
		if !ok {
			return nil, false
		}
		return constant.UnaryOp(x.Op, v, 0), true
	case *ast.BinaryExpr:
		a, ok1 := env.eval(x.X)
		b, ok2 := env.eval(x.Y)
		if !ok1 || !ok2 {
			return nil, false
		}
		switch x.Op {
		case token.SHL, token.SHR:
			s, ok := constant.Uint64Val(b)
			if !ok {
				return nil, false
			}
			return constant.Shift(a, x.Op, uint(s)), true
		case token.QUO:
			if a.Kind() == constant.Int && b.Kind() == constant.Int {
				return constant.BinaryOp(a, token.QUO_ASSIGN, b), true
			}
		}
		return constant.BinaryOp(a, x.Op, b), true
	case *ast.CallExpr: // conversions: float64(x), uint64(x), time.Duration(x), int64(x)
		if len(x.Args) == 1 {
			switch src(x.Fun) {
			case "float64", "uint64", "int64", "int", "time.Duration", "float32", "uint32", "int32":
				return env.eval(x.Args[0])
			}
		}
	}
	return nil, false
}

// fileConsts collects the package-level and function-level const declarations of a file
// (function-level ones are namespaced by nothing: later declarations win, fine for our use).
func fileConsts(rel string) constEnv {
	env := constEnv{}
	f := load(rel)
	if f == nil {
		return env
	}
	ast.Inspect(f, func(n ast.Node) bool {
		gd, ok := n.(*ast.GenDecl)
		if !ok || gd.Tok != token.CONST {
			return true
		}
		for _, s := range gd.Specs {
			vs := s.(*ast.ValueSpec)
			for i, nm := range vs.Names {
				if i < len(vs.Values) {
					if v, ok := env.eval(vs.Values[i]); ok {
						env[nm.Name] = v
					}
				}
			}
		}
		return true
	})
	return env
}

// ---- searching -----------------------------------------------------------------------

// allNodes returns every node of the subtree in source order.
func allNodes(root ast.Node) []ast.Node {
	var out []ast.Node
	if root == nil || (reflect.ValueOf(root).Kind() == reflect.Ptr && reflect.ValueOf(root).IsNil()) {
		return out
	}
	ast.Inspect(root, func(n ast.Node) bool {
		if n != nil {
			out = append(out, n)
		}
		return true
	})
	return out
}

// cmps lists binary comparisons (lhs, op, rhs) in a subtree, in source order.
type cmp struct {
	L, Op, R string
	Node     *ast.BinaryExpr
}

func cmps(root ast.Node) []cmp {
	var out []cmp
	for _, n := range allNodes(root) {
		if b, ok := n.(*ast.BinaryExpr); ok {
			switch b.Op {
			case token.LSS, token.LEQ, token.GTR, token.GEQ, token.EQL, token.NEQ:
				out = append(out, cmp{src(b.X), b.Op.String(), src(b.Y), b})
			}
		}
	}
	return out
}

// findCmp returns the first comparison whose lhs contains lsub and whose rhs contains rsub.
func findCmp(root ast.Node, lsub, rsub string) (cmp, bool) {
	for _, c := range cmps(root) {
		if strings.Contains(c.L, lsub) && strings.Contains(c.R, rsub) {
			return c, true
		}
	}
	return cmp{}, false
}

// calls lists call expressions (printed callee) in a subtree in source order.
func calls(root ast.Node) []*ast.CallExpr {
	var out []*ast.CallExpr
	for _, n := range allNodes(root) {
		if c, ok := n.(*ast.CallExpr); ok {
			out = append(out, c)
		}
	}
	return out
}

func hasCall(root ast.Node, calleeSub string) bool {
	for _, c := range calls(root) {
		if strings.Contains(src(c.Fun), calleeSub) {
			return true
		}
	}
	return false
}

// callOrder returns, in source order, which of the given callee substrings occur.
func callOrder(root ast.Node, subs ...string) []string {
	var out []string
	for _, c := range calls(root) {
		s := src(c.Fun)
		for _, sub := range subs {
			if strings.Contains(s, sub) {
				out = append(out, sub)
				break
			}
		}
	}
	return out
}

// pos returns the source offset of the first node whose printed form contains sub (-1 if none).
func posOf(root ast.Node, sub string) int {
	best := -1
	for _, n := range allNodes(root) {
		switch n.(type) {
		case ast.Stmt, *ast.CallExpr, *ast.UnaryExpr, *ast.BinaryExpr:
			if strings.Contains(src(n), sub) {
				p := int(n.Pos())
				// the innermost/first match in source order is what we want: allNodes is
				// preorder so an outer node comes first; keep refining to the latest start
				// that is still the first occurrence
				if best == -1 || p < best {
					best = p
				}
				_ = p
			}
		}
	}
	return best
}

// ---- channel operations ----------------------------------------------------------------

type chanOp struct {
	Kind      string // "send" | "recv"
	Text      string
	InSelect  bool
	CtxDone   bool // the enclosing select has a case receiving from something ending in ".Done()"
	HasDefaul bool
}

func selectInfo(sel *ast.SelectStmt) (ctxDone, hasDefault bool) {
	for _, cl := range sel.Body.List {
		cc := cl.(*ast.CommClause)
		if cc.Comm == nil {
			hasDefault = true
			continue
		}
		if strings.Contains(src(cc.Comm), ".Done()") {
			ctxDone = true
		}
	}
	return
}

// chanOps lists every send and receive in the subtree with its select context.
func chanOps(root ast.Node) []chanOp {
	var out []chanOp
	var walk func(n ast.Node, sel *ast.SelectStmt, inComm bool)
	walk = func(n ast.Node, sel *ast.SelectStmt, inComm bool) {
		if n == nil {
			return
		}
		switch x := n.(type) {
		case *ast.SelectStmt:
			for _, cl := range x.Body.List {
				cc := cl.(*ast.CommClause)
				if cc.Comm != nil {
					walk(cc.Comm, x, true)
				}
				for _, s := range cc.Body {
					walk(s, nil, false)
				}
			}
			return
		case *ast.SendStmt:
			op := chanOp{Kind: "send", Text: src(x)}
			if inComm && sel != nil {
				op.InSelect = true
				op.CtxDone, op.HasDefaul = selectInfo(sel)
			}
			out = append(out, op)
			return
		case *ast.UnaryExpr:
			if x.Op == token.ARROW {
				op := chanOp{Kind: "recv", Text: src(x)}
				if inComm && sel != nil {
					op.InSelect = true
					op.CtxDone, op.HasDefaul = selectInfo(sel)
				}
				out = append(out, op)
				return
			}
		case *ast.FuncLit:
			// still part of the function's behaviour (goroutines, closures)
		}
		// generic descent
		children := directChildren(n)
		for _, c := range children {
			walk(c, sel, inComm)
		}
	}
	walk(root, nil, false)
	return out
}

func directChildren(n ast.Node) []ast.Node {
	var out []ast.Node
	first := true
	ast.Inspect(n, func(c ast.Node) bool {
		if c == nil {
			return false
		}
		if first {
			first = false
			return true
		}
		out = append(out, c)
		return false
	})
	return out
}

// ---- output ----------------------------------------------------------------------------

type fact struct {
	Name  string // lean identifier inside the namespace
	Type  string // Lean type
	Value string // Lean term
	JSON  any
	Miss  bool
}

type section struct {
	Name  string // e.g. "Disk" → Zeno/Gen/Disk.lean, namespace Zeno.Gen.Disk
	Facts []fact
}

func (s *section) missing(name, typ, dflt string) {
	s.Facts = append(s.Facts, fact{Name: name, Type: typ, Value: dflt, JSON: nil, Miss: true})
}

func (s *section) nat(name string, v constant.Value, ok bool) {
	if !ok || v == nil || v.Kind() != constant.Int || constant.Sign(v) < 0 {
		s.missing(name, "Nat", "0")
		return
	}
	s.Facts = append(s.Facts, fact{Name: name, Type: "Nat", Value: v.ExactString(), JSON: v.ExactString()})
}

func (s *section) natLit(name string, n int) {
	s.Facts = append(s.Facts, fact{Name: name, Type: "Nat", Value: fmt.Sprint(n), JSON: n})
}

// rat emits an exact rational (num/den) from a constant value.
func (s *section) rat(name string, v constant.Value, ok bool) {
	if !ok || v == nil || (v.Kind() != constant.Int && v.Kind() != constant.Float) {
		s.missing(name, "Rat", "0")
		return
	}
	num := constant.Num(v)
	den := constant.Denom(v)
	txt := fmt.Sprintf("((%s : Int) : Rat) / (%s : Rat)", num.ExactString(), den.ExactString())
	s.Facts = append(s.Facts, fact{Name: name, Type: "Rat", Value: txt, JSON: num.ExactString() + "/" + den.ExactString()})
}

func (s *section) boolean(name string, b bool) {
	v := "false"
	if b {
		v = "true"
	}
	s.Facts = append(s.Facts, fact{Name: name, Type: "Bool", Value: v, JSON: b})
}

var opNames = map[string]string{"<": ".lt", "<=": ".le", ">": ".gt", ">=": ".ge", "==": ".eq", "!=": ".ne"}

func (s *section) op(name string, c cmp, ok bool) {
	if !ok {
		s.missing(name, "Cmp", ".unknown")
		return
	}
	s.Facts = append(s.Facts, fact{Name: name, Type: "Cmp", Value: opNames[c.Op], JSON: c.Op})
}

func (s *section) str(name, v string, ok bool) {
	if !ok {
		s.missing(name, "String", "\"\"")
		return
	}
	s.Facts = append(s.Facts, fact{Name: name, Type: "String", Value: fmt.Sprintf("%q", v), JSON: v})
}

func (s *section) strs(name string, v []string, ok bool) {
	if !ok {
		s.missing(name, "List String", "[]")
		return
	}
	q := make([]string, len(v))
	for i, x := range v {
		q[i] = fmt.Sprintf("%q", x)
	}
	if v == nil {
		v = []string{}
	}
	s.Facts = append(s.Facts, fact{Name: name, Type: "List String", Value: "[" + strings.Join(q, ", ") + "]", JSON: v})
}

func (s *section) nats(name string, v []int, ok bool) {
	if !ok {
		s.missing(name, "List Nat", "[]")
		return
	}
	q := make([]string, len(v))
	for i, x := range v {
		q[i] = fmt.Sprint(x)
	}
	if v == nil {
		v = []int{}
	}
	s.Facts = append(s.Facts, fact{Name: name, Type: "List Nat", Value: "[" + strings.Join(q, ", ") + "]", JSON: v})
}

// raw emits an arbitrary Lean term of a given type.
func (s *section) raw(name, typ, term string, js any) {
	s.Facts = append(s.Facts, fact{Name: name, Type: typ, Value: term, JSON: js})
}

func (s *section) lean(ns string) string {
	var b strings.Builder
	b.WriteString("-- GENERATED by /verif/tools/facts from /repo's working tree. Do not edit.\n")
	if ns == "Base" {
		b.WriteString("import Zeno.Facts\n")
	} else {
		fmt.Fprintf(&b, "import Zeno.Base.%s\n", s.Name)
	}
	fmt.Fprintf(&b, "namespace Zeno.%s.%s\nopen Zeno\n\n", ns, s.Name)
	var miss []string
	if ns == "Base" {
		b.WriteString("/-- The facts the model of this package is parameterised by. -/\nstructure Facts where\n")
		for _, f := range s.Facts {
			fmt.Fprintf(&b, "  %s : %s\n", f.Name, f.Type)
		}
		b.WriteString("deriving Repr\n\n")
	}
	typ := "Facts"
	if ns != "Base" {
		typ = "Zeno.Base." + s.Name + ".Facts"
	}
	fmt.Fprintf(&b, "def facts : %s where\n", typ)
	for _, f := range s.Facts {
		if f.Miss {
			miss = append(miss, f.Name)
			fmt.Fprintf(&b, "  -- MISSING: pattern not found in source\n")
		}
		fmt.Fprintf(&b, "  %s := %s\n", f.Name, f.Value)
	}
	sort.Strings(miss)
	q := make([]string, len(miss))
	for i, m := range miss {
		q[i] = fmt.Sprintf("%q", m)
	}
	fmt.Fprintf(&b, "\ndef missing : List String := [%s]\n", strings.Join(q, ", "))
	fmt.Fprintf(&b, "\nend Zeno.%s.%s\n", ns, s.Name)
	return b.String()
}

// writeIfChanged keeps mtimes stable for unchanged content.
func writeIfChanged(path, content string) error {
	old, err := os.ReadFile(path)
	if err == nil && string(old) == content {
		return nil
	}
	if err := os.MkdirAll(filepath.Dir(path), 0o755); err != nil {
		return err
	}
	return os.WriteFile(path, []byte(content), 0o644)
}
