package main

import (
	"go/ast"
	"go/constant"
	"go/token"
	"strings"
)

// unwrapConv strips parentheses and numeric conversions.
func unwrapConv(e ast.Expr) ast.Expr {
	for {
		switch x := e.(type) {
		case *ast.ParenExpr:
			e = x.X
			continue
		case *ast.CallExpr:
			if len(x.Args) == 1 {
				switch src(x.Fun) {
				case "float64", "uint64", "int64", "int":
					e = x.Args[0]
					continue
				}
			}
		}
		return e
	}
}

func extractDisk() {
	s := newSection("Disk")
	const file = "internal/pkg/controler/watchers/disk.go"
	f := fn(file, "checkThreshold")
	env := fileConsts(file)
	gb, okGB := env["GB"]
	s.nat("gb", gb, okGB)

	// `minSpaceRequired > 0`
	c, ok := findCmp(f, "minSpaceRequired", "0")
	s.op("msrOp", c, ok && c.L == "minSpaceRequired" && c.R == "0")

	// `total <= 256*GB`
	c, ok = findCmp(f, "total", "GB")
	s.op("limitOp", c, ok && c.L == "total")
	if ok {
		v, ok2 := env.eval(c.Node.Y)
		s.nat("limitBytes", v, ok2)
	} else {
		s.missing("limitBytes", "Nat", "0")
	}

	// assignments to threshold: operator branch, small-disk branch, large-disk branch
	var assigns []ast.Expr
	for _, n := range allNodes(f) {
		if a, ok := n.(*ast.AssignStmt); ok && len(a.Lhs) == 1 && src(a.Lhs[0]) == "threshold" && len(a.Rhs) == 1 {
			assigns = append(assigns, a.Rhs[0])
		}
	}
	okShape := len(assigns) == 3
	var msrScale, smallNum, smallDen, large constant.Value
	okM, okS, okL := false, false, false
	if okShape {
		// threshold = float64(minSpaceRequired) * float64(GB)
		if b, ok := unwrapConv(assigns[0]).(*ast.BinaryExpr); ok && b.Op == token.MUL && src(unwrapConv(b.X)) == "minSpaceRequired" {
			msrScale, okM = env.eval(b.Y)
		}
		// threshold = float64(50*GB) * (float64(total) / float64(256*GB))
		if b, ok := unwrapConv(assigns[1]).(*ast.BinaryExpr); ok && b.Op == token.MUL {
			if q, ok := unwrapConv(b.Y).(*ast.BinaryExpr); ok && q.Op == token.QUO && src(unwrapConv(q.X)) == "total" {
				var o1, o2 bool
				smallNum, o1 = env.eval(b.X)
				smallDen, o2 = env.eval(q.Y)
				okS = o1 && o2
			}
		}
		large, okL = env.eval(assigns[2])
	}
	s.nat("msrScale", msrScale, okM)
	s.nat("smallNum", smallNum, okS)
	s.nat("smallDen", smallDen, okS)
	s.nat("largeThreshold", large, okL)

	// `free < uint64(threshold)`
	c, ok = findCmp(f, "free", "threshold")
	s.op("freeOp", c, ok && c.L == "free")
	conv := ""
	if ok {
		r := strings.ReplaceAll(c.R, " ", "")
		switch r {
		case "uint64(threshold)":
			conv = "trunc"
		case "uint64(math.Ceil(threshold))":
			conv = "ceil"
		}
	}
	if conv == "" {
		s.missing("conv", "Conv", ".unknown")
	} else {
		s.raw("conv", "Conv", "."+conv, conv)
	}
	// the error is returned exactly in the branch guarded by that comparison
	retInIf := false
	for _, n := range allNodes(f) {
		if is, ok := n.(*ast.IfStmt); ok && strings.Contains(src(is.Cond), "free") {
			for _, st := range is.Body.List {
				if r, ok := st.(*ast.ReturnStmt); ok && len(r.Results) == 1 && src(r.Results[0]) != "nil" {
					retInIf = true
				}
			}
		}
	}
	s.boolean("refuseInBranch", retInIf)

	// callers: CheckDiskUsage passes config MinSpaceRequired; watcher pauses on err / resumes on nil
	cu := fn(file, "CheckDiskUsage")
	s.boolean("usageUsesConfigMsr", cu != nil && strings.Contains(src(cu), "checkThreshold(total, free, config.Get().MinSpaceRequired)"))
	s.boolean("usageTotalBlocks", cu != nil && strings.Contains(src(cu), "total := stat.Blocks * uint64(stat.Bsize)"))
	s.boolean("usageFreeBavail", cu != nil && strings.Contains(src(cu), "free := stat.Bavail * uint64(stat.Bsize)"))
	w := fn(file, "WatchDiskSpace")
	s.boolean("watchPausesOnErr", w != nil && strings.Contains(src(w), "err != nil && !paused") && hasCall(w, "pause.Pause"))
	s.boolean("watchResumesOnOk", w != nil && strings.Contains(src(w), "err == nil && paused") && hasCall(w, "pause.Resume"))

	// the way from the command line to that setting: the flag's declared default, and what
	// config.handleFlagsAliases does to the key afterwards
	extractMsrFlag(s)
}

// callArg0 returns (callee, first string-literal argument) of e when e is `pkg.Fn("lit", …)`.
func callArg0(e ast.Expr) (string, string, bool) {
	c, ok := unwrapParen(e).(*ast.CallExpr)
	if !ok || len(c.Args) == 0 {
		return "", "", false
	}
	l, ok := c.Args[0].(*ast.BasicLit)
	if !ok || l.Kind != token.STRING {
		return "", "", false
	}
	return src(c.Fun), strings.Trim(l.Value, "\""), true
}

func unwrapParen(e ast.Expr) ast.Expr {
	for {
		p, ok := e.(*ast.ParenExpr)
		if !ok {
			return e
		}
		e = p.X
	}
}

func extractMsrFlag(s *section) {
	// cmd/get.go: getCmd.PersistentFlags().Float64("min-space-required", D, …); is a flag "msr" declared?
	var dflt constant.Value
	okD, aliasDeclared := false, false
	var aliasD constant.Value = constant.MakeInt64(0)
	if g := fn("cmd/get.go", "getCMDsFlags"); g != nil {
		for _, c := range calls(g) {
			if len(c.Args) < 2 {
				continue
			}
			l, ok := c.Args[0].(*ast.BasicLit)
			if !ok || l.Kind != token.STRING {
				continue
			}
			name := strings.Trim(l.Value, "\"")
			sel, ok := c.Fun.(*ast.SelectorExpr)
			if !ok {
				continue
			}
			switch sel.Sel.Name {
			case "Float64", "Int", "Uint", "Float32", "Int64", "Uint64":
				v, okv := constEnv{}.eval(c.Args[1])
				if name == "min-space-required" {
					dflt, okD = v, okv
				}
				if name == "msr" {
					aliasDeclared = true
					if okv {
						aliasD = v
					}
				}
			}
		}
	}
	s.rat("msrFlagDefault", dflt, okD)
	s.boolean("msrAliasDeclared", aliasDeclared)
	s.rat("msrAliasDefault", aliasD, true)

	// config.go handleFlagsAliases: `if viper.GetX("msr") != C1 && viper.GetX("min-space-required") == C2 { viper.Set("min-space-required", viper.GetX("msr")) }`
	h := fn("internal/pkg/config/config.go", "handleFlagsAliases")
	rule := "none"
	getter := ""
	var c1, c2 constant.Value
	if h != nil {
		for _, n := range allNodes(h) {
			is, ok := n.(*ast.IfStmt)
			if !ok || !strings.Contains(src(is.Cond), "\"min-space-required\"") {
				continue
			}
			rule = "other"
			and, ok := unwrapParen(is.Cond).(*ast.BinaryExpr)
			if !ok || and.Op != token.LAND {
				continue
			}
			a, okA := unwrapParen(and.X).(*ast.BinaryExpr)
			b, okB := unwrapParen(and.Y).(*ast.BinaryExpr)
			if !okA || !okB || a.Op != token.NEQ || b.Op != token.EQL {
				continue
			}
			fa, ka, o1 := callArg0(a.X)
			fb, kb, o2 := callArg0(b.X)
			v1, o3 := constEnv{}.eval(a.Y)
			v2, o4 := constEnv{}.eval(b.Y)
			if !(o1 && o2 && o3 && o4) || ka != "msr" || kb != "min-space-required" || fa != fb {
				continue
			}
			// the body copies the alias into the key with the same getter
			body := strings.ReplaceAll(src(is.Body), " ", "")
			if len(is.Body.List) != 1 || !strings.Contains(body, "viper.Set(\"min-space-required\","+fa+"(\"msr\"))") || is.Else != nil {
				continue
			}
			rule, getter, c1, c2 = "copyAlias", strings.TrimPrefix(fa, "viper."), v1, v2
		}
	}
	s.str("msrAliasRule", rule, h != nil)
	s.str("msrAliasGetter", getter, true)
	s.rat("msrAliasUnsetConst", orZero(c1), true)
	s.rat("msrAliasKeyConst", orZero(c2), true)
}

func orZero(v constant.Value) constant.Value {
	if v == nil {
		return constant.MakeInt64(0)
	}
	return v
}
