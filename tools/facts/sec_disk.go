package main

import (
	"go/ast"
	"go/constant"
	"go/token"
	"strings"
)

// unwrapConv strips parentheses and numeric conversions.
func unwrapConv(e ast.Expr) ast.Expr {
	for {
		switch x := e.(type) {
		case *ast.ParenExpr:
			e = x.X
			continue
		case *ast.CallExpr:
			if len(x.Args) == 1 {
				switch src(x.Fun) {
				case "float64", "uint64", "int64", "int":
					e = x.Args[0]
					continue
				}
			}
		}
		return e
	}
}

func extractDisk() {
	s := newSection("Disk")
	const file = "internal/pkg/controler/watchers/disk.go"
	f := fn(file, "checkThreshold")
	env := fileConsts(file)
	gb, okGB := env["GB"]
	s.nat("gb", gb, okGB)

	// `minSpaceRequired > 0`
	c, ok := findCmp(f, "minSpaceRequired", "0")
	s.op("msrOp", c, ok && c.L == "minSpaceRequired" && c.R == "0")

	// `total <= 256*GB`
	c, ok = findCmp(f, "total", "GB")
	s.op("limitOp", c, ok && c.L == "total")
	if ok {
		v, ok2 := env.eval(c.Node.Y)
		s.nat("limitBytes", v, ok2)
	} else {
		s.missing("limitBytes", "Nat", "0")
	}

	// assignments to threshold: operator branch, small-disk branch, large-disk branch
	var assigns []ast.Expr
	for _, n := range allNodes(f) {
		if a, ok := n.(*ast.AssignStmt); ok && len(a.Lhs) == 1 && src(a.Lhs[0]) == "threshold" && len(a.Rhs) == 1 {
			assigns = append(assigns, a.Rhs[0])
		}
	}
	okShape := len(assigns) == 3
	var msrScale, smallNum, smallDen, large constant.Value
	okM, okS, okL := false, false, false
	if okShape {
		// threshold = float64(minSpaceRequired) * float64(GB)
		if b, ok := unwrapConv(assigns[0]).(*ast.BinaryExpr); ok && b.Op == token.MUL && src(unwrapConv(b.X)) == "minSpaceRequired" {
			msrScale, okM = env.eval(b.Y)
		}
		// threshold = float64(50*GB) * (float64(total) / float64(256*GB))
		if b, ok := unwrapConv(assigns[1]).(*ast.BinaryExpr); ok && b.Op == token.MUL {
			if q, ok := unwrapConv(b.Y).(*ast.BinaryExpr); ok && q.Op == token.QUO && src(unwrapConv(q.X)) == "total" {
				var o1, o2 bool
				smallNum, o1 = env.eval(b.X)
				smallDen, o2 = env.eval(q.Y)
				okS = o1 && o2
			}
		}
		large, okL = env.eval(assigns[2])
	}
	s.nat("msrScale", msrScale, okM)
	s.nat("smallNum", smallNum, okS)
	s.nat("smallDen", smallDen, okS)
	s.nat("largeThreshold", large, okL)

	// `free < uint64(threshold)`
	c, ok = findCmp(f, "free", "threshold")
	s.op("freeOp", c, ok && c.L == "free")
	conv := ""
	if ok {
		r := strings.ReplaceAll(c.R, " ", "")
		switch r {
		case "uint64(threshold)":
			conv = "trunc"
		case "uint64(math.Ceil(threshold))":
			conv = "ceil"
		}
	}
	if conv == "" {
		s.missing("conv", "Conv", ".unknown")
	} else {
		s.raw("conv", "Conv", "."+conv, conv)
	}
	// the error is returned exactly in the branch guarded by that comparison
	retInIf := false
	for _, n := range allNodes(f) {
		if is, ok := n.(*ast.IfStmt); ok && strings.Contains(src(is.Cond), "free") {
			for _, st := range is.Body.List {
				if r, ok := st.(*ast.ReturnStmt); ok && len(r.Results) == 1 && src(r.Results[0]) != "nil" {
					retInIf = true
				}
			}
		}
	}
	s.boolean("refuseInBranch", retInIf)

	// callers: CheckDiskUsage passes config MinSpaceRequired; watcher pauses on err / resumes on nil
	cu := fn(file, "CheckDiskUsage")
	s.boolean("usageUsesConfigMsr", cu != nil && strings.Contains(src(cu), "checkThreshold(total, free, config.Get().MinSpaceRequired)"))
	s.boolean("usageTotalBlocks", cu != nil && strings.Contains(src(cu), "total := stat.Blocks * uint64(stat.Bsize)"))
	s.boolean("usageFreeBavail", cu != nil && strings.Contains(src(cu), "free := stat.Bavail * uint64(stat.Bsize)"))
	w := fn(file, "WatchDiskSpace")
	s.boolean("watchPausesOnErr", w != nil && strings.Contains(src(w), "err != nil && !paused") && hasCall(w, "pause.Pause"))
	s.boolean("watchResumesOnOk", w != nil && strings.Contains(src(w), "err == nil && paused") && hasCall(w, "pause.Resume"))
}
