// facts: regenerate lean/Zeno/<ns>/*.lean and facts.json from /repo's working tree.
package main

import (
	"encoding/json"
	"flag"
	"fmt"
	"os"
	"path/filepath"
	"sort"
)

var sections []*section

func newSection(name string) *section {
	s := &section{Name: name}
	sections = append(sections, s)
	return s
}

func main() {
	repo := flag.String("repo", "/repo", "repository root")
	out := flag.String("out", "", "directory for generated Lean files (…/Zeno/Gen)")
	ns := flag.String("ns", "Gen", "namespace / directory name (Gen or Base)")
	js := flag.String("json", "", "path of facts.json")
	flag.Parse()
	repoRoot = *repo

	extractDisk()
	extractRateLimiter()
	extractReactor()
	extractItem()
	extractPause()
	extractStats()
	extractQueue()
	extractUrl()
	extractStages()
	extractExtractors()
	extractHtml()
	extractContainment()
	extractArchiver()
	extractPipeline()
	extractRateProg()
	extractDiskProg()

	all := map[string]any{}
	var missing []string
	for _, s := range sections {
		m := map[string]any{}
		for _, f := range s.Facts {
			m[f.Name] = f.JSON
			if f.Miss {
				missing = append(missing, s.Name+"."+f.Name)
			}
		}
		all[s.Name] = m
		if *out != "" {
			if err := writeIfChanged(filepath.Join(*out, s.Name+".lean"), s.lean(*ns)); err != nil {
				fmt.Fprintln(os.Stderr, "facts:", err)
				os.Exit(2)
			}
		}
	}
	sort.Strings(missing)
	if missing == nil {
		missing = []string{}
	}
	all["_missing"] = missing
	if *js != "" {
		b, _ := json.MarshalIndent(all, "", " ")
		if err := writeIfChanged(*js, string(b)+"\n"); err != nil {
			fmt.Fprintln(os.Stderr, "facts:", err)
			os.Exit(2)
		}
	}
	for _, m := range missing {
		fmt.Println("MISSING", m)
	}
}
