package main

// canon: a few behaviour-preserving normalisations applied to a function before its text is compared with the expected shapes, so that an
// equivalent re-arrangement does not flip a fact:
//   * a local that is defined once (`x := e`), used exactly once, in the condition of the `if` that follows immediately, is inlined;
//   * negations are pushed inward in conditions (De Morgan; `!(a == b)` becomes `a != b`, and so on; `!!a` becomes `a`).
// The function is re-parsed from its file, so the shared syntax trees are never modified.

import (
	"go/ast"
	"go/parser"
	"go/token"
	"path/filepath"
)

func canonFn(rel, name string) *ast.FuncDecl {
	f, err := parser.ParseFile(fset, filepath.Join(repoRoot, rel), nil, 0)
	if err != nil {
		return nil
	}
	save := fileMemo[rel]
	fileMemo[rel] = f
	fd := fn(rel, name)
	if save != nil {
		fileMemo[rel] = save
	} else {
		delete(fileMemo, rel)
	}
	if fd == nil || fd.Body == nil {
		return fd
	}
	inlineIndexAliases(fd)
	inlineLocals(fd)
	ast.Inspect(fd, func(n ast.Node) bool {
		switch x := n.(type) {
		case *ast.IfStmt:
			x.Cond = nnf(x.Cond, false)
		case *ast.ForStmt:
			if x.Cond != nil {
				x.Cond = nnf(x.Cond, false)
			}
		}
		return true
	})
	return fd
}

func countIdent(root ast.Node, name string) int {
	n := 0
	ast.Inspect(root, func(x ast.Node) bool {
		if id, ok := x.(*ast.Ident); ok && id.Name == name {
			n++
		}
		return true
	})
	return n
}

func inlineLocals(fd *ast.FuncDecl) {
	var visit func(list []ast.Stmt) []ast.Stmt
	visit = func(list []ast.Stmt) []ast.Stmt {
		var out []ast.Stmt
		for i := 0; i < len(list); i++ {
			st := list[i]
			if as, ok := st.(*ast.AssignStmt); ok && as.Tok == token.DEFINE && len(as.Lhs) == 1 && len(as.Rhs) == 1 && i+1 < len(list) {
				if id, ok := as.Lhs[0].(*ast.Ident); ok && id.Name != "_" && id.Name != "err" {
					if ifs, ok := list[i+1].(*ast.IfStmt); ok && ifs.Init == nil && countIdent(ifs.Cond, id.Name) == 1 && countIdent(fd, id.Name) == 2 {
						ifs.Cond = substIdent(ifs.Cond, id.Name, as.Rhs[0])
						continue
					}
				}
			}
			out = append(out, st)
		}
		return out
	}
	ast.Inspect(fd, func(n ast.Node) bool {
		switch x := n.(type) {
		case *ast.BlockStmt:
			x.List = visit(x.List)
		case *ast.CaseClause:
			x.Body = visit(x.Body)
		case *ast.CommClause:
			x.Body = visit(x.Body)
		}
		return true
	})
}

func substIdent(e ast.Expr, name string, by ast.Expr) ast.Expr {
	switch x := e.(type) {
	case *ast.Ident:
		if x.Name == name {
			if _, simple := by.(*ast.CallExpr); simple {
				return by
			}
			return &ast.ParenExpr{X: by}
		}
	case *ast.ParenExpr:
		x.X = substIdent(x.X, name, by)
	case *ast.UnaryExpr:
		x.X = substIdent(x.X, name, by)
	case *ast.BinaryExpr:
		x.X = substIdent(x.X, name, by)
		x.Y = substIdent(x.Y, name, by)
	}
	return e
}

var negCmp = map[token.Token]token.Token{token.EQL: token.NEQ, token.NEQ: token.EQL, token.LSS: token.GEQ, token.GEQ: token.LSS, token.GTR: token.LEQ, token.LEQ: token.GTR}

func paren(e ast.Expr, parentOp token.Token) ast.Expr {
	if b, ok := e.(*ast.BinaryExpr); ok && b.Op.Precedence() < parentOp.Precedence() {
		return &ast.ParenExpr{X: e}
	}
	return e
}

// nnf returns e (neg = false) or its negation (neg = true) with negations pushed inward
func nnf(e ast.Expr, neg bool) ast.Expr {
	switch x := e.(type) {
	case *ast.ParenExpr:
		return nnf(x.X, neg)
	case *ast.UnaryExpr:
		if x.Op == token.NOT {
			return nnf(x.X, !neg)
		}
	case *ast.BinaryExpr:
		switch x.Op {
		case token.LAND, token.LOR:
			op := x.Op
			if neg {
				if op == token.LAND {
					op = token.LOR
				} else {
					op = token.LAND
				}
			}
			l, r := nnf(x.X, neg), nnf(x.Y, neg)
			return &ast.BinaryExpr{X: paren(l, op), Op: op, Y: paren(r, op)}
		}
		if n, ok := negCmp[x.Op]; ok && neg {
			// ordered comparisons are only flipped for operands that cannot be NaN: integers are the only ordered operands in the shapes read here
			return &ast.BinaryExpr{X: x.X, Op: n, Y: x.Y}
		}
	}
	if neg {
		if _, ok := e.(*ast.BinaryExpr); ok {
			return &ast.UnaryExpr{Op: token.NOT, X: &ast.ParenExpr{X: e}}
		}
		return &ast.UnaryExpr{Op: token.NOT, X: e}
	}
	return e
}

// inlineIndexAliases: `x := a[i]` (identifiers only), x never assigned again: every use of x becomes a[i] and the definition goes away
func inlineIndexAliases(fd *ast.FuncDecl) {
	type alias struct {
		name string
		by   *ast.IndexExpr
	}
	var found []alias
	ast.Inspect(fd, func(n ast.Node) bool {
		as, ok := n.(*ast.AssignStmt)
		if !ok || as.Tok != token.DEFINE || len(as.Lhs) != 1 || len(as.Rhs) != 1 {
			return true
		}
		id, ok1 := as.Lhs[0].(*ast.Ident)
		ix, ok2 := as.Rhs[0].(*ast.IndexExpr)
		if !ok1 || !ok2 {
			return true
		}
		_, a1 := ix.X.(*ast.Ident)
		_, a2 := ix.Index.(*ast.Ident)
		if a1 && a2 {
			found = append(found, alias{id.Name, ix})
		}
		return true
	})
	for _, al := range found {
		reassigned := 0
		ast.Inspect(fd, func(n ast.Node) bool {
			switch x := n.(type) {
			case *ast.AssignStmt:
				for _, l := range x.Lhs {
					if id, ok := l.(*ast.Ident); ok && id.Name == al.name {
						reassigned++
					}
				}
			case *ast.IncDecStmt:
				if id, ok := x.X.(*ast.Ident); ok && id.Name == al.name {
					reassigned++
				}
			case *ast.UnaryExpr:
				if id, ok := x.X.(*ast.Ident); ok && x.Op == token.AND && id.Name == al.name {
					reassigned++
				}
			}
			return true
		})
		if reassigned != 1 {
			continue // only its definition may assign it
		}
		// drop the definition, rewrite the uses
		ast.Inspect(fd, func(n ast.Node) bool {
			drop := func(list []ast.Stmt) []ast.Stmt {
				var out []ast.Stmt
				for _, st := range list {
					if as, ok := st.(*ast.AssignStmt); ok && as.Tok == token.DEFINE && len(as.Lhs) == 1 {
						if id, ok := as.Lhs[0].(*ast.Ident); ok && id.Name == al.name {
							continue
						}
					}
					out = append(out, st)
				}
				return out
			}
			switch x := n.(type) {
			case *ast.BlockStmt:
				x.List = drop(x.List)
			case *ast.CaseClause:
				x.Body = drop(x.Body)
			}
			return true
		})
		replaceIdentEverywhere(fd, al.name, al.by)
	}
}

func replaceIdentEverywhere(root ast.Node, name string, by ast.Expr) {
	rep := func(e ast.Expr) ast.Expr {
		if id, ok := e.(*ast.Ident); ok && id.Name == name {
			return by
		}
		return e
	}
	ast.Inspect(root, func(n ast.Node) bool {
		switch x := n.(type) {
		case *ast.SelectorExpr:
			x.X = rep(x.X)
		case *ast.CallExpr:
			for i := range x.Args {
				x.Args[i] = rep(x.Args[i])
			}
			x.Fun = rep(x.Fun)
		case *ast.BinaryExpr:
			x.X, x.Y = rep(x.X), rep(x.Y)
		case *ast.UnaryExpr:
			x.X = rep(x.X)
		case *ast.ParenExpr:
			x.X = rep(x.X)
		case *ast.IndexExpr:
			x.X = rep(x.X)
		case *ast.AssignStmt:
			for i := range x.Rhs {
				x.Rhs[i] = rep(x.Rhs[i])
			}
		case *ast.ReturnStmt:
			for i := range x.Results {
				x.Results[i] = rep(x.Results[i])
			}
		case *ast.KeyValueExpr:
			x.Value = rep(x.Value)
		}
		return true
	})
}
