package main

import (
	"go/ast"
	"strings"
)

// firstStmtIndex returns the index (in the function's top-level statement list) of the first
// statement whose source contains sub, or -1.
func stmtIndex(f *ast.FuncDecl, sub string) int {
	if f == nil || f.Body == nil {
		return -1
	}
	for i, st := range f.Body.List {
		if strings.Contains(src(st), sub) {
			return i
		}
	}
	return -1
}

// closedCheckBeforeSelect: does the function test the stop/freeze contexts (ctx.Err() != nil or a
// non-blocking select on Done() with a default) in a top-level statement that precedes the blocking
// select / the first state-table mutation?
func closedCheckFirst(f *ast.FuncDecl, mutSub string) bool {
	if f == nil || f.Body == nil {
		return false
	}
	for _, st := range f.Body.List {
		s := src(st)
		if mutSub != "" && strings.Contains(s, mutSub) {
			return false
		}
		if sel, ok := st.(*ast.SelectStmt); ok {
			ctxDone, hasDefault := selectInfo(sel)
			if ctxDone && hasDefault {
				// non-blocking priority check must mention both contexts
				if strings.Contains(s, "ctx.Done()") && strings.Contains(s, "freezeCtx.Done()") {
					return true
				}
			}
			return false
		}
		if is, ok := st.(*ast.IfStmt); ok {
			if strings.Contains(s, "ctx.Err()") && strings.Contains(s, "freezeCtx.Err()") && hasReturn(is) {
				return true
			}
			// helper of the form `if err := globalReactor.closedErr(); err != nil { return err }`
			if strings.Contains(s, "closedErr()") && hasReturn(is) {
				h := fn("internal/pkg/reactor/reactor.go", "closedErr")
				if h != nil {
					hs := src(h)
					if strings.Contains(hs, "r.ctx.Err()") && strings.Contains(hs, "r.freezeCtx.Err()") &&
						strings.Contains(hs, "ErrReactorShuttingDown") && strings.Contains(hs, "ErrReactorFrozen") {
						return true
					}
				}
			}
		}
	}
	return false
}

func hasReturn(n ast.Node) bool {
	for _, x := range allNodes(n) {
		if _, ok := x.(*ast.ReturnStmt); ok {
			return true
		}
	}
	return false
}

func extractReactor() {
	s := newSection("Reactor")
	const file = "internal/pkg/reactor/reactor.go"
	start := fn(file, "Start")
	ss := src(start)
	s.boolean("tokenCapIsMax", strings.Contains(ss, "tokenPool: make(chan struct{}, maxTokens)"))
	s.boolean("inputCapIsMax", strings.Contains(ss, "input: make(chan *models.Item, maxTokens)"))

	ins := fn(file, "ReceiveInsert")
	// order of events inside ReceiveInsert: token acquire (select case), LoadOrStore, enqueue
	var seq []string
	for _, n := range allNodes(ins) {
		switch x := n.(type) {
		case *ast.SendStmt:
			t := src(x)
			if strings.Contains(t, "tokenPool <-") {
				seq = append(seq, "acquire")
			} else if strings.Contains(t, ".input <-") {
				seq = append(seq, "enqueue")
			}
		case *ast.CallExpr:
			t := src(x.Fun)
			if strings.HasSuffix(t, "stateTable.LoadOrStore") {
				seq = append(seq, "loadOrStore")
			}
		}
	}
	s.strs("insertSeq", seq, ins != nil)
	acquireInSelect := false
	for _, op := range chanOps(ins) {
		if op.Kind == "send" && strings.Contains(op.Text, "tokenPool <-") && op.InSelect && op.CtxDone && !op.HasDefaul {
			acquireInSelect = true
		}
	}
	s.boolean("insertAcquireCancellable", acquireInSelect)
	s.boolean("insertChecksClosedFirst", closedCheckFirst(ins, "stateTable"))
	s.boolean("insertPanicsOnDuplicate", ins != nil && strings.Contains(src(ins), `panic("item already present in reactor")`))

	fb := fn(file, "ReceiveFeedback")
	fbs := src(fb)
	how := "unknown"
	switch {
	case strings.Contains(fbs, "stateTable.Swap("):
		how = "swap" // stores even when the key is absent
	case strings.Contains(fbs, "stateTable.Load(") && strings.Contains(fbs, "stateTable.CompareAndSwap("):
		how = "loadCas" // no effect when the key is absent
	}
	if how == "unknown" {
		s.missing("feedbackUpdate", "String", "\"unknown\"")
	} else {
		s.str("feedbackUpdate", how, true)
	}
	s.boolean("feedbackChecksClosedFirst", closedCheckFirst(fb, "stateTable"))
	fbEnq := false
	fbTakesToken := false
	for _, op := range chanOps(fb) {
		if op.Kind == "send" && strings.Contains(op.Text, ".input <-") && op.InSelect && op.CtxDone {
			fbEnq = true
		}
		if strings.Contains(op.Text, "tokenPool") {
			fbTakesToken = true
		}
	}
	s.boolean("feedbackEnqueueCancellable", fbEnq)
	s.boolean("feedbackTakesNoToken", fb != nil && !fbTakesToken)

	fin := fn(file, "MarkAsFinished")
	var fseq []string
	releaseGuarded := false
	for _, n := range allNodes(fin) {
		switch x := n.(type) {
		case *ast.IfStmt:
			if strings.Contains(src(x.Init), "LoadAndDelete") || strings.Contains(src(x.Cond), "loaded") {
				for _, op := range chanOps(x.Body) {
					if op.Kind == "recv" && strings.Contains(op.Text, "tokenPool") {
						releaseGuarded = true
					}
				}
			}
		case *ast.CallExpr:
			if strings.HasSuffix(src(x.Fun), "stateTable.LoadAndDelete") {
				fseq = append(fseq, "loadAndDelete")
			}
		case *ast.UnaryExpr:
			if strings.Contains(src(x), "<-") && strings.Contains(src(x), "tokenPool") {
				fseq = append(fseq, "release")
			}
		}
	}
	// the same guard written the other way round: `if _, loaded := …LoadAndDelete(…); !loaded { return <error> }`, the release after it
	if fin != nil && fin.Body != nil && !releaseGuarded {
		guarded := false
		for _, st := range fin.Body.List {
			if ifs, ok := st.(*ast.IfStmt); ok && strings.Contains(src(ifs.Init), "LoadAndDelete") && nospace(ifs.Cond) == "!loaded" && len(ifs.Body.List) > 0 && ifs.Else == nil {
				if _, ok := ifs.Body.List[len(ifs.Body.List)-1].(*ast.ReturnStmt); ok {
					guarded = true
					continue
				}
			}
			if guarded {
				for _, op := range chanOps(st) {
					if op.Kind == "recv" && strings.Contains(op.Text, "tokenPool") {
						releaseGuarded = true
					}
				}
			}
		}
	}
	s.strs("finishSeq", fseq, fin != nil)
	s.boolean("finishReleaseOnlyIfLoaded", releaseGuarded)

	run := fn(file, "reactor.run")
	deliver := false
	for _, op := range chanOps(run) {
		if op.Kind == "send" && strings.Contains(op.Text, "r.output <-") && op.InSelect && op.CtxDone {
			deliver = true
		}
	}
	s.boolean("runDeliverCancellable", deliver)
	fr := fn(file, "Freeze")
	s.boolean("freezeCancelsFreezeCtx", fr != nil && hasCall(fr, "freezeCancel"))
	st := fn(file, "Stop")
	s.strs("stopSeq", callOrder(st, "globalReactor.cancel", "wg.Wait", "close"), st != nil)
	s.boolean("freezeCtxChildOfCtx", strings.Contains(ss, "freezeCtx, freezeCancel := context.WithCancel(ctx)"))
}
