package main

import (
	"strings"
)

// Html: which elements / attributes extractor/html.go reads, and what it does with url(...) in <style>.
func extractHtml() {
	s := newSection("Html")
	ha := strings.ReplaceAll(src(fn("internal/pkg/postprocessor/extractor/html.go", "HTMLAssets")), " ", "")
	tagGuard := func(tag string) bool {
		return strings.Contains(ha, `if!slices.Contains(config.Get().DisableHTMLTag,"`+tag+`"){`)
	}
	for _, t := range []string{"a", "img", "video", "audio", "style", "script", "link", "meta", "source"} {
		s.boolean("guard_"+t, tagGuard(t))
	}
	s.boolean("imgAttrs", strings.Contains(ha, `document.Find("img").Each(`) && strings.Contains(ha, `link,exists:=i.Attr("src")ifexists{rawAssets=append(rawAssets,link)}link,exists=i.Attr("data-src")`) &&
		strings.Contains(ha, `link,exists=i.Attr("data-lazy-src")`) && strings.Contains(ha, `link,exists=i.Attr("data-srcset")`) && strings.Contains(ha, `link,exists=i.Attr("srcset")`))
	s.boolean("srcsetSplit", strings.Count(ha, `links:=strings.Split(link,",")for_,link:=rangelinks{rawAssets=append(rawAssets,strings.Split(strings.TrimSpace(link),"")[0])}`) == 4)
	s.boolean("videoAudioSrc", strings.Contains(ha, `targetElements=append(targetElements,"video[src]")`) && strings.Contains(ha, `targetElements=append(targetElements,"audio[src]")`) &&
		strings.Contains(ha, `iflink,exists:=i.Attr("src");exists{rawAssets=append(rawAssets,link)}`))
	s.boolean("scriptSrc", strings.Contains(ha, `document.Find("script").Each(func(indexint,i*goquery.Selection){link,exists:=i.Attr("src")ifexists{rawAssets=append(rawAssets,link)}`))
	s.boolean("linkHrefUnlessAlternate", strings.Contains(ha, `document.Find("link").Each(func(indexint,i*goquery.Selection){if!config.Get().CaptureAlternatePages{relation,exists:=i.Attr("rel")ifexists&&relation=="alternate"{return}}link,exists:=i.Attr("href")ifexists{rawAssets=append(rawAssets,link)}})`))
	s.boolean("sourceAttrs", strings.Contains(ha, `document.Find("source").Each(func(indexint,i*goquery.Selection){link,exists:=i.Attr("src")ifexists{rawAssets=append(rawAssets,link)}link,exists=i.Attr("srcset")`))
	s.boolean("styleElementURLs", strings.Contains(ha, `document.Find("style").Each(func(indexint,i*goquery.Selection){matches:=urlRegex.FindAllStringSubmatch(i.Text(),-1)`))
	s.boolean("styleAttrURLs", strings.Contains(ha, `document.Find("[data-item],[style],[data-preview]").Each(`) && strings.Contains(ha, `matches:=backgroundImageRegex.FindAllStringSubmatch(style,-1)`))
	rel := "keeps"
	if strings.Contains(ha, `if!strings.Contains(matchReplacement,"http"){matchReplacement=strings.Replace(matchReplacement,"//","http://",-1)}`) {
		rel = "forcesHttp" // url(//host/x) in a <style> element is turned into http://host/x whatever the page's scheme
	}
	s.str("styleSchemeRelative", rel, true)
	s.boolean("everyRawAssetReturned", strings.Contains(ha, `for_,rawAsset:=rangerawAssets{assets=append(assets,&models.URL{Raw:rawAsset,})}returnassets,nil`))
	ho := strings.ReplaceAll(src(fn("internal/pkg/postprocessor/extractor/html.go", "HTMLOutlinks")), " ", "")
	s.boolean("anchorAttrs", strings.Contains(ho, `attrs:=[]string{"href","data-href","data-url","data-link","data-redirect-url","ping","onclick","router-link","to",}`) &&
		strings.Contains(ho, `document.Find("a").Each(`))
	s.boolean("outlinksResolved", strings.Contains(ho, `resolvedURL,err:=resolveURL(rawOutlink,item)`) && strings.Contains(ho, `}elseifresolvedURL!=""{outlinks=append(outlinks,&models.URL{Raw:resolvedURL,})continue}`))
	s.boolean("outlinkGuardA", strings.Contains(ho, `if!slices.Contains(config.Get().DisableHTMLTag,"a"){`))
	vars := strings.ReplaceAll(readTextOr("internal/pkg/postprocessor/extractor/html.go"), " ", "")
	s.boolean("regexes", strings.Contains(vars, "backgroundImageRegex=regexp.MustCompile(`(?:\\(['\"]?)(.*?)(?:['\"]?\\))`)") && strings.Contains(vars, "urlRegex=regexp.MustCompile(`(?m)url\\((.*?)\\)`)"))
}

func readTextOr(rel string) string {
	t, _ := readText(rel)
	return t
}
