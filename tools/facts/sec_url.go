package main

import (
	"go/ast"
	"strings"
)

func extractUrl() {
	s := newSection("Url")
	const nf = "internal/pkg/preprocessor/url.go"
	const mf = "pkg/models/url.go"
	n := fn(nf, "NormalizeURL")
	ns := strings.ReplaceAll(src(n), " ", "")
	// scheme guard: `scheme != "http:" && scheme != "https:"`
	var schemes, hosts []string
	for _, c := range cmps(n) {
		if c.L == "scheme" && c.Op == "!=" {
			schemes = append(schemes, strings.Trim(c.R, `"`))
		}
		if c.L == "host" && c.Op == "==" {
			hosts = append(hosts, strings.Trim(c.R, `"`))
		}
	}
	s.strs("schemes", schemes, n != nil)
	s.strs("rejectedHosts", hosts, n != nil)
	s.boolean("requiresDot", strings.Contains(ns, `if!strings.Contains(host,"."){returnErrUnsupportedHost}`))
	s.boolean("hashCleared", strings.Contains(ns, `adaParse.SetHash("")`))
	s.boolean("schemeFromProtocol", strings.Contains(ns, `ifscheme:=adaParse.Protocol();scheme!=`))
	s.boolean("hostFromHostname", strings.Contains(ns, `host:=adaParse.Hostname()`))
	s.boolean("quotesTrimmed", strings.Contains(ns, "URL.Raw=strings.Trim(URL.Raw,`\"'`)"))
	s.boolean("defaultSchemeHttp", strings.Contains(ns, `ifparsedURL.Scheme==""{parsedURL.Scheme="http"}`))
	// order of the guards: hash, scheme, rejected hosts, dot, then Href
	order := []string{}
	for _, key := range []string{`adaParse.SetHash("")`, "returnErrUnsupportedScheme", `host=="localhost"`, `strings.Contains(host,".")`, "URL.Raw=adaParse.Href()"} {
		order = append(order, key)
	}
	okOrder := true
	last := -1
	for _, key := range order {
		i := strings.Index(ns, key)
		if i < 0 || i < last {
			okOrder = false
		}
		last = i
	}
	s.boolean("guardOrder", okOrder)
	s.boolean("resultIsHref", strings.Contains(ns, "URL.Raw=adaParse.Href()") && strings.Contains(ns, "returnURL.Parse()"))

	// URLToString / encodeQuery
	ts := strings.ReplaceAll(src(fn(mf, "URLToString")), " ", "")
	eq := fn(mf, "encodeQuery")
	es := strings.ReplaceAll(src(eq), " ", "")
	order2 := "unknown"
	switch {
	case strings.Contains(es, "fork,vs:=rangev{") && strings.Contains(ts, "encodeQuery(URL.Query())"):
		order2 = "map" // ranges over url.Values: Go randomises the key order
	case strings.Contains(ts, "encodeQuery(URL.RawQuery)") && strings.Contains(es, `strings.Cut(query,"&")`) &&
		!strings.Contains(es, "range"):
		order2 = "ordered"
	}
	if order2 == "unknown" {
		s.missing("encodeOrder", "String", "\"unknown\"")
	} else {
		s.str("encodeOrder", order2, true)
	}
	s.boolean("encodeEscapesBoth", strings.Contains(es, "url.QueryEscape(") && strings.Count(es, "url.QueryEscape(") >= 2 && strings.Contains(es, "buf.WriteByte('=')") && strings.Contains(es, "buf.WriteByte('&')"))
	var exempt []string
	for _, nn := range allNodes(fn(mf, "URLToString")) {
		if cc, ok := nn.(*ast.CaseClause); ok {
			for _, e := range cc.List {
				exempt = append(exempt, strings.Trim(src(e), `"`))
			}
		}
	}
	s.strs("queryExemptHosts", exempt, true)
	s.boolean("stringCachedOnce", strings.Contains(strings.ReplaceAll(src(fn(mf, "URL.String")), " ", ""), "u.once.Do(func(){u.stringCache=URLToString(u.parsed)})"))
}
