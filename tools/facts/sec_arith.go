package main

// Translator for the arithmetic methods of the token bucket (refill, Wait, adjustOnFailure, onSuccess, newTokenBucket):
// every statement becomes a term of AStmt / ABlock (lean/Zeno/Facts.lean), every expression a term of RExp / IExp / CExp.
// Anything the translator does not understand becomes `.opaque` / `.unknown` — never a guess.

import (
	"fmt"
	"go/ast"
	"go/constant"
	"go/token"
	"strings"
)

type arith struct {
	recv   string            // receiver name ("tb")
	fields map[string]string // field → "R" (float64, time.Time, time.Duration) | "I" (int) | "?"
	params map[string]string // parameter → "R" | "I"
	consts constEnv
	names  map[string]int // local variables and parameters → number, in order of first appearance
	order  []string
	rels   []string // files in which other methods of the receiver are looked up (for inlining a test-and-return helper)
	depth  int
}

var knownFld = map[string]bool{"tokens": true, "capacity": true, "refillRate": true, "idealRate": true, "lastRefill": true, "penaltyUntil": true, "failureCount": true}

func fldTerm(f string) string {
	if knownFld[f] {
		return "." + f
	}
	return fmt.Sprintf("(.other %q)", f)
}

func (a *arith) num(name string) int {
	if n, ok := a.names[name]; ok {
		return n
	}
	n := len(a.order)
	a.names[name] = n
	a.order = append(a.order, name)
	return n
}

func ratTerm(v constant.Value) string {
	num := constant.Num(v)
	den := constant.Denom(v)
	if den.ExactString() == "1" {
		return fmt.Sprintf("(%s : Rat)", num.ExactString())
	}
	return fmt.Sprintf("((%s : Rat) / (%s : Rat))", num.ExactString(), den.ExactString())
}

func structFields(rel, name string) map[string]string {
	out := map[string]string{}
	f := load(rel)
	if f == nil {
		return out
	}
	ast.Inspect(f, func(n ast.Node) bool {
		ts, ok := n.(*ast.TypeSpec)
		if !ok || ts.Name.Name != name {
			return true
		}
		st, ok := ts.Type.(*ast.StructType)
		if !ok {
			return false
		}
		for _, fl := range st.Fields.List {
			k := "?"
			switch nospace(fl.Type) {
			case "float64", "time.Time", "time.Duration":
				k = "R"
			case "int":
				k = "I"
			}
			for _, nm := range fl.Names {
				out[nm.Name] = k
			}
		}
		return false
	})
	return out
}

func (a *arith) isRecvField(e ast.Expr) (string, bool) {
	s, ok := e.(*ast.SelectorExpr)
	if !ok {
		return "", false
	}
	id, ok := s.X.(*ast.Ident)
	if !ok || id.Name != a.recv {
		return "", false
	}
	return s.Sel.Name, true
}

func callName(c *ast.CallExpr) string { return nospace(c.Fun) }

func (a *arith) constOf(e ast.Expr) (constant.Value, bool) {
	v, ok := a.consts.eval(e)
	if !ok || v == nil || (v.Kind() != constant.Int && v.Kind() != constant.Float) {
		return nil, false
	}
	return v, true
}

func (a *arith) iexp(e ast.Expr) (string, bool) {
	switch x := e.(type) {
	case *ast.ParenExpr:
		return a.iexp(x.X)
	case *ast.BasicLit:
		if x.Kind == token.INT {
			return "(.lit " + x.Value + ")", true
		}
	case *ast.Ident:
		if a.params[x.Name] == "I" {
			return fmt.Sprintf("(.param %d)", a.num(x.Name)), true
		}
	case *ast.SelectorExpr:
		if f, ok := a.isRecvField(x); ok && a.fields[f] == "I" {
			return "(.fld " + fldTerm(f) + ")", true
		}
	case *ast.BinaryExpr:
		l, ok1 := a.iexp(x.X)
		r, ok2 := a.iexp(x.Y)
		if ok1 && ok2 {
			switch x.Op {
			case token.ADD:
				return "(.add " + l + " " + r + ")", true
			case token.SUB:
				return "(.sub " + l + " " + r + ")", true
			}
		}
	}
	return "(.unknown " + q(src(e)) + ")", false
}

func (a *arith) rexp(e ast.Expr) string {
	unknown := "(.unknown " + q(src(e)) + ")"
	if v, ok := a.constOf(e); ok {
		// literals, named constants, constant expressions (a Duration constant is its number of nanoseconds)
		if _, isCall := e.(*ast.CallExpr); !isCall {
			return "(.lit " + ratTerm(v) + ")"
		}
	}
	switch x := e.(type) {
	case *ast.ParenExpr:
		return a.rexp(x.X)
	case *ast.Ident:
		if a.params[x.Name] == "I" {
			return unknown
		}
		return fmt.Sprintf("(.loc %d)", a.num(x.Name))
	case *ast.SelectorExpr:
		if f, ok := a.isRecvField(x); ok && a.fields[f] == "R" {
			return "(.fld " + fldTerm(f) + ")"
		}
	case *ast.BinaryExpr:
		l, r := a.rexp(x.X), a.rexp(x.Y)
		switch x.Op {
		case token.ADD:
			return "(.add " + l + " " + r + ")"
		case token.SUB:
			return "(.sub " + l + " " + r + ")"
		case token.MUL:
			return "(.mul " + l + " " + r + ")"
		case token.QUO:
			return "(.div " + l + " " + r + ")"
		}
	case *ast.CallExpr:
		name := callName(x)
		switch {
		case name == a.recv+".nowFunc" && len(x.Args) == 0:
			return ".now"
		case name == "float64" && len(x.Args) == 1:
			if v, ok := a.constOf(x.Args[0]); ok {
				return "(.lit " + ratTerm(v) + ")"
			}
			if ie, ok := a.iexp(x.Args[0]); ok {
				return "(.ofInt " + ie + ")"
			}
			return a.rexp(x.Args[0])
		case (name == "math.Min" || name == "min") && len(x.Args) == 2:
			return "(.min " + a.rexp(x.Args[0]) + " " + a.rexp(x.Args[1]) + ")"
		case (name == "math.Max" || name == "max") && len(x.Args) == 2:
			return "(.max " + a.rexp(x.Args[0]) + " " + a.rexp(x.Args[1]) + ")"
		case name == "math.Pow" && len(x.Args) == 2:
			base, ok := a.constOf(x.Args[0])
			if !ok {
				return unknown
			}
			arg := x.Args[1]
			if c, ok := arg.(*ast.CallExpr); ok && callName(c) == "float64" && len(c.Args) == 1 {
				arg = c.Args[0]
			}
			ie, ok := a.iexp(arg)
			if !ok {
				return unknown
			}
			return "(.pow " + ratTerm(base) + " " + ie + ")"
		case name == "math.Ceil" && len(x.Args) == 1:
			return "(.ceil " + a.rexp(x.Args[0]) + ")"
		case name == "uint64" && len(x.Args) == 1:
			return "(.u64 " + a.rexp(x.Args[0]) + ")"
		case name == "time.Duration" && len(x.Args) == 1:
			return "(.durOfNs " + a.rexp(x.Args[0]) + ")"
		}
		if sel, ok := x.Fun.(*ast.SelectorExpr); ok {
			switch {
			case sel.Sel.Name == "Seconds" && len(x.Args) == 0:
				// t.Sub(u).Seconds()
				if inner, ok := sel.X.(*ast.CallExpr); ok {
					if is, ok := inner.Fun.(*ast.SelectorExpr); ok && is.Sel.Name == "Sub" && len(inner.Args) == 1 {
						return "(.sub " + a.rexp(is.X) + " " + a.rexp(inner.Args[0]) + ")"
					}
				}
			case sel.Sel.Name == "Add" && len(x.Args) == 1:
				return "(.add " + a.rexp(sel.X) + " " + a.rexp(x.Args[0]) + ")"
			}
		}
	}
	return unknown
}

var cmpCtor = map[token.Token]string{token.LSS: ".lt", token.LEQ: ".le", token.GTR: ".gt", token.GEQ: ".ge", token.EQL: ".eq", token.NEQ: ".ne"}

func (a *arith) cexp(e ast.Expr) string {
	switch x := e.(type) {
	case *ast.ParenExpr:
		return a.cexp(x.X)
	case *ast.UnaryExpr:
		if x.Op == token.NOT {
			return "(.not " + a.cexp(x.X) + ")"
		}
	case *ast.BinaryExpr:
		switch x.Op {
		case token.LAND:
			return "(.and " + a.cexp(x.X) + " " + a.cexp(x.Y) + ")"
		case token.LOR:
			return "(.or " + a.cexp(x.X) + " " + a.cexp(x.Y) + ")"
		}
		if c, ok := cmpCtor[x.Op]; ok {
			l, ok1 := a.iexp(x.X)
			r, ok2 := a.iexp(x.Y)
			if ok1 && ok2 {
				return "(.cmpI " + c + " " + l + " " + r + ")"
			}
			return "(.cmpR " + c + " " + a.rexp(x.X) + " " + a.rexp(x.Y) + ")"
		}
	case *ast.CallExpr:
		if sel, ok := x.Fun.(*ast.SelectorExpr); ok && len(x.Args) == 1 {
			switch sel.Sel.Name {
			case "Before":
				return "(.cmpR .lt " + a.rexp(sel.X) + " " + a.rexp(x.Args[0]) + ")"
			case "After":
				return "(.cmpR .gt " + a.rexp(sel.X) + " " + a.rexp(x.Args[0]) + ")"
			}
		}
	}
	return "(.unknown " + q(src(e)) + ")"
}

func (a *arith) stmts(list []ast.Stmt) []string {
	var out []string
	for i, st := range list {
		// `if recv.helper() { … }` where helper is another method of the receiver that only tests and returns true / false: the helper is
		// inlined (its `return true` continues with the body of the if and what follows it, its `return false` with what follows the if)
		if ifs, ok := st.(*ast.IfStmt); ok && ifs.Init == nil && ifs.Else == nil && a.depth < 2 {
			if call, ok := ifs.Cond.(*ast.CallExpr); ok && len(call.Args) == 0 {
				if sel, ok := call.Fun.(*ast.SelectorExpr); ok {
					if id, ok := sel.X.(*ast.Ident); ok && id.Name == a.recv && a.recv != "" && sel.Sel.Name != "refill" {
						if callee := a.findMethod(sel.Sel.Name); callee != nil && callee.Body != nil && callee.Type.Results != nil && len(callee.Type.Results.List) == 1 && nospace(callee.Type.Results.List[0].Type) == "bool" &&
							callee.Recv != nil && len(callee.Recv.List) == 1 && len(callee.Recv.List[0].Names) == 1 && callee.Recv.List[0].Names[0].Name == a.recv {
							a.depth++
							rest := a.stmts(list[i+1:])
							onTrue := append(a.stmts(ifs.Body.List), rest...)
							inl, ok := a.inlineBool(callee.Body.List, onTrue, rest)
							a.depth--
							if ok {
								return append(out, inl...)
							}
						}
					}
				}
			}
		}
		if t := a.stmt(st); t != "" {
			out = append(out, t)
		}
	}
	return out
}

func (a *arith) findMethod(name string) *ast.FuncDecl {
	for _, rel := range a.rels {
		if f := load(rel); f != nil {
			for _, d := range f.Decls {
				if fd, ok := d.(*ast.FuncDecl); ok && fd.Recv != nil && fd.Name.Name == name {
					return fd
				}
			}
		}
	}
	return nil
}

// inlineBool translates the statements of a test-and-return helper; onTrue / onFalse are the (already translated) continuations
func (a *arith) inlineBool(list []ast.Stmt, onTrue, onFalse []string) ([]string, bool) {
	if len(list) == 0 {
		return nil, false
	}
	switch x := list[0].(type) {
	case *ast.ReturnStmt:
		if len(x.Results) == 1 {
			switch nospace(x.Results[0]) {
			case "true":
				return onTrue, true
			case "false":
				return onFalse, true
			}
		}
		return nil, false
	case *ast.IfStmt:
		if x.Init == nil && x.Else == nil && len(x.Body.List) > 0 {
			if _, endsInReturn := x.Body.List[len(x.Body.List)-1].(*ast.ReturnStmt); endsInReturn {
				th, ok1 := a.inlineBool(x.Body.List, onTrue, onFalse)
				el, ok2 := a.inlineBool(list[1:], onTrue, onFalse)
				if ok1 && ok2 {
					return []string{".ite " + a.cexp(x.Cond) + " " + block(th) + " " + block(el)}, true
				}
				return nil, false
			}
		}
	}
	rest, ok := a.inlineBool(list[1:], onTrue, onFalse)
	if !ok {
		return nil, false
	}
	if t := a.stmt(list[0]); t != "" {
		return append([]string{t}, rest...), true
	}
	return rest, true
}

func (a *arith) assign(lhs ast.Expr, op token.Token, rhs ast.Expr, whole ast.Node) string {
	opaque := ".opaque " + q(src(whole))
	if f, ok := a.isRecvField(lhs); ok {
		switch a.fields[f] {
		case "R":
			cur := "(.fld " + fldTerm(f) + ")"
			switch op {
			case token.ASSIGN:
				return fmt.Sprintf(".setF %s %s", fldTerm(f), a.rexp(rhs))
			case token.ADD_ASSIGN:
				return fmt.Sprintf(".setF %s (.add %s %s)", fldTerm(f), cur, a.rexp(rhs))
			case token.SUB_ASSIGN:
				return fmt.Sprintf(".setF %s (.sub %s %s)", fldTerm(f), cur, a.rexp(rhs))
			}
		case "I":
			cur := "(.fld " + fldTerm(f) + ")"
			r, _ := a.iexp(rhs)
			switch op {
			case token.ASSIGN:
				return fmt.Sprintf(".setI %s %s", fldTerm(f), r)
			case token.ADD_ASSIGN:
				return fmt.Sprintf(".setI %s (.add %s %s)", fldTerm(f), cur, r)
			case token.SUB_ASSIGN:
				return fmt.Sprintf(".setI %s (.sub %s %s)", fldTerm(f), cur, r)
			}
		}
		return opaque
	}
	if id, ok := lhs.(*ast.Ident); ok && (op == token.DEFINE || op == token.ASSIGN) {
		r := a.rexp(rhs)
		return fmt.Sprintf(".setL %d %s", a.num(id.Name), r)
	}
	return opaque
}

func (a *arith) stmt(st ast.Stmt) string {
	opaque := ".opaque " + q(src(st))
	switch x := st.(type) {
	case *ast.AssignStmt:
		if len(x.Lhs) == 1 && len(x.Rhs) == 1 {
			return a.assign(x.Lhs[0], x.Tok, x.Rhs[0], x)
		}
	case *ast.IncDecStmt:
		one := &ast.BasicLit{Kind: token.INT, Value: "1"}
		if x.Tok == token.INC {
			return a.assign(x.X, token.ADD_ASSIGN, one, x)
		}
		return a.assign(x.X, token.SUB_ASSIGN, one, x)
	case *ast.ReturnStmt:
		if len(x.Results) == 0 {
			return ".ret"
		}
		if len(x.Results) == 1 {
			if nospace(x.Results[0]) == "nil" {
				return ".retNil"
			}
			return ".retErr"
		}
	case *ast.DeclStmt:
		if gd, ok := x.Decl.(*ast.GenDecl); ok {
			if gd.Tok == token.CONST {
				return "" // constants are folded into the expressions that use them
			}
			if gd.Tok == token.VAR && len(gd.Specs) == 1 {
				if vs, ok := gd.Specs[0].(*ast.ValueSpec); ok && len(vs.Names) == 1 && len(vs.Values) == 0 {
					switch nospace(vs.Type) {
					case "float64", "uint64":
						return fmt.Sprintf(".setL %d (.lit (0 : Rat))", a.num(vs.Names[0].Name))
					}
				}
			}
		}
	case *ast.IfStmt:
		if x.Init != nil {
			return opaque
		}
		els := ".nil"
		switch e := x.Else.(type) {
		case nil:
		case *ast.BlockStmt:
			els = block(a.stmts(e.List))
		default:
			els = block([]string{a.stmt(e.(ast.Stmt))})
		}
		return ".ite " + a.cexp(x.Cond) + " " + block(a.stmts(x.Body.List)) + " " + els
	case *ast.SwitchStmt:
		if x.Init != nil || x.Tag != nil {
			return opaque
		}
		// switch { case c1: …; case c2: …; default: … }  →  if c1 {…} else if c2 {…} else {…}
		type arm struct {
			cond string
			body string
		}
		var arms []arm
		dflt := ".nil"
		for _, cl := range x.Body.List {
			cc, ok := cl.(*ast.CaseClause)
			if !ok {
				return opaque
			}
			for _, s := range cc.Body {
				if b, ok := s.(*ast.BranchStmt); ok && b.Tok == token.FALLTHROUGH {
					return opaque
				}
			}
			if cc.List == nil {
				dflt = block(a.stmts(cc.Body))
				continue
			}
			c := a.cexp(cc.List[0])
			for _, more := range cc.List[1:] {
				c = "(.or " + c + " " + a.cexp(more) + ")"
			}
			arms = append(arms, arm{c, block(a.stmts(cc.Body))})
		}
		if len(arms) == 0 {
			return opaque
		}
		// the outermost arm as a statement
		return ".ite " + arms[0].cond + " " + arms[0].body + " " + func() string {
			rest := dflt
			for i := len(arms) - 1; i >= 1; i-- {
				rest = block([]string{".ite " + arms[i].cond + " " + arms[i].body + " " + rest})
			}
			return rest
		}()
	case *ast.DeferStmt:
		if nospace(x.Call) == a.recv+".mu.Unlock()" {
			return ".deferUnlock"
		}
	case *ast.ExprStmt:
		if c, ok := x.X.(*ast.CallExpr); ok {
			switch n := nospace(c); {
			case n == a.recv+".mu.Lock()":
				return ".lock"
			case n == a.recv+".mu.Unlock()":
				return ".unlock"
			case strings.HasPrefix(n, "time.Sleep("):
				return ".sleep"
			case strings.HasPrefix(n, a.recv+".") && len(c.Args) == 0:
				if sel, ok := c.Fun.(*ast.SelectorExpr); ok {
					if id, ok := sel.X.(*ast.Ident); ok && id.Name == a.recv {
						if sel.Sel.Name == "refill" {
							return ".callRefill"
						}
					}
				}
			}
		}
	}
	return opaque
}

func (a *arith) forFunc(fd *ast.FuncDecl) {
	a.recv = ""
	a.params = map[string]string{}
	a.names = map[string]int{}
	a.order = nil
	if fd == nil {
		return
	}
	if fd.Recv != nil && len(fd.Recv.List) == 1 && len(fd.Recv.List[0].Names) == 1 {
		a.recv = fd.Recv.List[0].Names[0].Name
	}
	for _, p := range fd.Type.Params.List {
		k := "?"
		switch nospace(p.Type) {
		case "int":
			k = "I"
		case "float64", "time.Time", "time.Duration", "uint64":
			k = "R"
		}
		for _, nm := range p.Names {
			a.params[nm.Name] = k
			a.num(nm.Name)
		}
	}
}

func (a *arith) method(s *section, factName, rel, name string) {
	fd := fn(rel, name)
	if fd == nil || fd.Body == nil {
		s.Facts = append(s.Facts, fact{Name: factName, Type: "ABlock", Value: "(.cons (.opaque \"" + name + " not found\") .nil)", JSON: nil, Miss: true})
		return
	}
	a.forFunc(fd)
	items := a.stmts(fd.Body.List)
	s.raw(factName, "ABlock", block(items), map[string]any{"program": items, "names": a.order})
}

func extractRateProg() {
	s := newSection("RateProg")
	const rl = "internal/pkg/archiver/ratelimiter/ratelimiter.go"
	const adj = "internal/pkg/archiver/ratelimiter/adjust.go"
	a := &arith{fields: structFields(rl, "tokenBucket"), consts: fileConsts(rl), rels: []string{rl, adj}}

	a.method(s, "refill", rl, "tokenBucket.refill")
	a.method(s, "adjustOnFailure", adj, "tokenBucket.adjustOnFailure")
	a.method(s, "onSuccess", adj, "tokenBucket.onSuccess")

	// Wait: a bare `for { … }` whose body is one attempt; the attempt is translated
	w := fn(rl, "tokenBucket.Wait")
	done := false
	if w != nil && w.Body != nil && len(w.Body.List) == 1 {
		if loop, ok := w.Body.List[0].(*ast.ForStmt); ok && loop.Init == nil && loop.Cond == nil && loop.Post == nil {
			a.forFunc(w)
			items := a.stmts(loop.Body.List)
			s.raw("waitAttempt", "ABlock", block(items), map[string]any{"program": items, "names": a.order})
			done = true
		}
	}
	if !done {
		s.Facts = append(s.Facts, fact{Name: "waitAttempt", Type: "ABlock", Value: "(.cons (.opaque \"Wait is not a bare loop\") .nil)", JSON: nil, Miss: true})
	}

	// newTokenBucket: the composite literal it returns, field by field (parameters appear as locals)
	nb := fn(rl, "newTokenBucket")
	var inits []string
	okInit := false
	if nb != nil && nb.Body != nil {
		a.forFunc(nb)
		for k := range a.params { // float parameters are read like locals
			if a.params[k] == "R" {
				delete(a.params, k)
			}
		}
		ast.Inspect(nb.Body, func(n ast.Node) bool {
			cl, ok := n.(*ast.CompositeLit)
			if !ok || nospace(cl.Type) != "tokenBucket" {
				return true
			}
			okInit = true
			for _, el := range cl.Elts {
				kv, ok := el.(*ast.KeyValueExpr)
				if !ok {
					okInit = false
					continue
				}
				key := nospace(kv.Key)
				if a.fields[key] != "R" && a.fields[key] != "I" {
					continue // mutex, nowFunc
				}
				val := a.rexp(kv.Value)
				if nospace(kv.Value) == "now" || nospace(kv.Value) == "time.Now()" {
					val = ".now"
				}
				inits = append(inits, fmt.Sprintf("(%s, %s)", fldTerm(key), val))
			}
			return false
		})
	}
	if okInit {
		s.raw("newBucket", "List (Fld × RExp)", "["+strings.Join(inits, ", ")+"]", inits)
	} else {
		s.Facts = append(s.Facts, fact{Name: "newBucket", Type: "List (Fld × RExp)", Value: "[]", JSON: nil, Miss: true})
	}
}

// checkThreshold(total, free uint64, minSpaceRequired float64) error — parameters are numbered 0, 1, 2 and read like locals
func extractDiskProg() {
	s := newSection("DiskProg")
	const file = "internal/pkg/controler/watchers/disk.go"
	a := &arith{fields: map[string]string{}, consts: fileConsts(file)}
	fd := fn(file, "checkThreshold")
	if fd == nil || fd.Body == nil {
		s.Facts = append(s.Facts, fact{Name: "checkThreshold", Type: "ABlock", Value: "(.cons (.opaque \"checkThreshold not found\") .nil)", JSON: nil, Miss: true})
		return
	}
	a.forFunc(fd)
	sig := []string{}
	for _, p := range fd.Type.Params.List {
		for range p.Names {
			sig = append(sig, nospace(p.Type))
		}
	}
	items := a.stmts(fd.Body.List)
	s.raw("checkThreshold", "ABlock", block(items), map[string]any{"program": items, "names": a.order})
	s.strs("checkThresholdParams", sig, true)
}
