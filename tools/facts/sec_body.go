package main

import (
	"fmt"
	"go/ast"
	"strings"
)

// ProcessBody translated statement by statement into the little language of Zeno/Facts.lean (BStmt / BBlock): what each
// statement does to the response body (drain, sniff n bytes, spool), where the function returns, and the branch conditions.
// Anything the translator does not recognise becomes `opaque`, which the model treats as "may do anything".

func nospace(n ast.Node) string { return strings.ReplaceAll(src(n), " ", "") }

func stmtHasReturn(n ast.Node) bool {
	found := false
	ast.Inspect(n, func(x ast.Node) bool {
		switch x.(type) {
		case *ast.FuncLit:
			return false
		case *ast.ReturnStmt:
			found = true
		}
		return true
	})
	return found
}

// readsBody: the response body is mentioned other than in a type assertion or a Close()
func readsBody(n ast.Node) bool {
	t := nospace(n)
	for {
		i := strings.Index(t, "GetResponse().Body")
		if i < 0 {
			return false
		}
		rest := t[i+len("GetResponse().Body"):]
		if !strings.HasPrefix(rest, ".(") && !strings.HasPrefix(rest, ".Close()") {
			return true
		}
		t = rest
	}
}

// bodyCall classifies a call that reads the response body.
func bodyCall(c *ast.CallExpr) (string, bool) {
	callee := nospace(c.Fun)
	args := make([]string, len(c.Args))
	for i, a := range c.Args {
		args[i] = nospace(a)
	}
	isBody := func(s string) bool { return s == "u.GetResponse().Body" }
	switch {
	case callee == "copyWithTimeout" && len(args) == 3 && isBody(args[1]) && args[0] == "io.Discard":
		return ".drain", true
	case callee == "copyWithTimeout" && len(args) == 3 && isBody(args[1]) && args[0] == "spooledBuff":
		return ".spool", true
	case callee == "copyWithTimeoutN" && len(args) == 4 && isBody(args[1]) && args[0] == "buffer":
		if lit, ok := c.Args[2].(*ast.BasicLit); ok {
			return ".sniff " + lit.Value, true
		}
	case callee == "io.Copy" && len(args) == 2 && isBody(args[1]) && args[0] == "io.Discard":
		return ".drain", true
	}
	return "", false
}

func q(s string) string {
	if len(s) > 120 {
		s = s[:120]
	}
	return fmt.Sprintf("%q", s)
}

func block(items []string) string {
	out := ".nil"
	for i := len(items) - 1; i >= 0; i-- {
		out = "(.cons (" + items[i] + ") " + out + ")"
	}
	return out
}

func translateStmts(list []ast.Stmt) []string {
	var out []string
	for _, st := range list {
		out = append(out, translateStmt(st)...)
	}
	return out
}

func errorExit(body *ast.BlockStmt) bool {
	// an error branch: ends in `return err` (or another non-nil value), never returns nil
	if body == nil || len(body.List) == 0 {
		return false
	}
	last, ok := body.List[len(body.List)-1].(*ast.ReturnStmt)
	if !ok || len(last.Results) != 1 || nospace(last.Results[0]) == "nil" {
		return false
	}
	n := 0
	ast.Inspect(body, func(x ast.Node) bool {
		if _, ok := x.(*ast.ReturnStmt); ok {
			n++
		}
		return true
	})
	return n == 1
}

func translateStmt(st ast.Stmt) []string {
	switch x := st.(type) {
	case *ast.DeferStmt:
		return []string{".skip " + q(src(x))}
	case *ast.ReturnStmt:
		if len(x.Results) == 1 && nospace(x.Results[0]) == "nil" {
			return []string{".ret"}
		}
		return []string{".retErr"}
	case *ast.IfStmt:
		cond := nospace(x.Cond)
		// if err := <call reading the body>; err != nil { …; return err }
		if x.Init != nil && cond == "err!=nil" && x.Else == nil && errorExit(x.Body) {
			if as, ok := x.Init.(*ast.AssignStmt); ok && len(as.Rhs) == 1 {
				if c, ok := as.Rhs[0].(*ast.CallExpr); ok {
					if op, ok := bodyCall(c); ok {
						return []string{op}
					}
					if !readsBody(c) {
						return []string{".skip " + q(src(x.Init))}
					}
				}
			}
			return []string{".opaque " + q(src(x))}
		}
		if x.Init == nil && cond == "err!=nil" && x.Else == nil && errorExit(x.Body) {
			return []string{".skip " + q("if err != nil { … return err }")}
		}
		if x.Init != nil {
			return []string{".opaque " + q(src(x))}
		}
		c := ".other " + q(src(x.Cond))
		switch {
		case cond == "disableAssetsCapture&&!domainsCrawl&&maxHops==0":
			c = ".noPostProcessing"
		case strings.Contains(cond, "u.GetMIMEType()"):
			c = ".mimeNeedsPost"
		}
		els := ".nil"
		switch e := x.Else.(type) {
		case nil:
		case *ast.BlockStmt:
			els = block(translateStmts(e.List))
		default:
			els = block(translateStmt(e.(ast.Stmt)))
		}
		return []string{".ite (" + c + ") " + block(translateStmts(x.Body.List)) + " " + els}
	case *ast.ExprStmt:
		if c, ok := x.X.(*ast.CallExpr); ok {
			if op, ok := bodyCall(c); ok {
				return []string{op}
			}
			if nospace(c) == "u.SetBody(spooledBuff)" {
				return []string{".keep"}
			}
		}
	}
	if stmtHasReturn(st) || readsBody(st) {
		return []string{".opaque " + q(src(st))}
	}
	return []string{".skip " + q(src(st))}
}

func extractBody(s *section) {
	fd := fn("internal/pkg/archiver/body.go", "ProcessBody")
	if fd == nil || fd.Body == nil {
		s.Facts = append(s.Facts, fact{Name: "processBody", Type: "BBlock", Value: "(.cons (.opaque \"ProcessBody not found\") .nil)", JSON: nil, Miss: true})
		return
	}
	items := translateStmts(fd.Body.List)
	s.raw("processBody", "BBlock", block(items), items)
	// the two helpers read their source to its end (resp. n bytes): their loops have no early success exit
	cw := nospace(fn("internal/pkg/archiver/body.go", "copyWithTimeout"))
	s.boolean("copyWithTimeoutReadsToEOF", strings.Contains(cw, "for{n,err:=src.Read(buf)") && strings.Contains(cw, "iferr==io.EOF{break}returnerr}") &&
		strings.Count(cw, "returnnil") == 1 && strings.HasSuffix(cw, "}returnnil}") && strings.Count(cw, "break") == 1)
	cn := nospace(fn("internal/pkg/archiver/body.go", "copyWithTimeoutN"))
	s.boolean("copyWithTimeoutNReadsN", strings.Contains(cn, "_,err:=io.CopyN(dst,src,n)"))
}
