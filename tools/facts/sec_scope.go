package main

// The operator's scope as preprocess() applies it, translated: every place in the per-item loop where an item is rejected because of the
// include / exclude configuration becomes a guard (the conjunction of the enclosing `if` conditions), a term of SCond (lean/Zeno/Facts.lean).
// The model's scope predicate is compared with these guards for every valuation of the atoms (Props/C05), so a re-arranged but
// equivalent condition still checks and a condition that means something else does not.

import (
	"go/ast"
	"go/token"
	"strings"
)

var scopeAtoms = map[string]string{
	"utils.StringContainsSliceElements(items[i].GetURL().GetParsed().Host,config.Get().IncludeHosts)": ".hostInInclude",
	"utils.StringContainsSliceElements(items[i].GetURL().String(),config.Get().IncludeString)":        ".textInInclude",
	"utils.StringContainsSliceElements(items[i].GetURL().GetParsed().Host,config.Get().ExcludeHosts)": ".hostInExclude",
	"utils.StringContainsSliceElements(items[i].GetURL().String(),config.Get().ExcludeString)":        ".textInExclude",
	"matchRegexExclusion(items[i])": ".regexExcluded",
}

func scopeCond(e ast.Expr) string {
	switch x := e.(type) {
	case *ast.ParenExpr:
		return scopeCond(x.X)
	case *ast.UnaryExpr:
		if x.Op == token.NOT {
			return "(.not " + scopeCond(x.X) + ")"
		}
	case *ast.BinaryExpr:
		switch x.Op {
		case token.LAND:
			return "(.and " + scopeCond(x.X) + " " + scopeCond(x.Y) + ")"
		case token.LOR:
			return "(.or " + scopeCond(x.X) + " " + scopeCond(x.Y) + ")"
		}
		// len(config.Get().IncludeHosts) > 0 and its spellings
		t := nospace(x)
		for field, atom := range map[string]string{"IncludeHosts": ".anyIncludeHosts", "IncludeString": ".anyIncludeStrings"} {
			l := "len(config.Get()." + field + ")"
			switch t {
			case l + ">0", l + "!=0", l + ">=1", "0<" + l:
				return "(.atom " + atom + ")"
			case l + "==0", l + "<1":
				return "(.not (.atom " + atom + "))"
			}
		}
	case *ast.CallExpr:
		if a, ok := scopeAtoms[nospace(x)]; ok {
			return "(.atom " + a + ")"
		}
	}
	return "(.unknown " + q(src(e)) + ")"
}

func mentionsScopeConfig(e ast.Expr) bool {
	t := nospace(e)
	return strings.Contains(t, "config.Get().Include") || strings.Contains(t, "config.Get().Exclude") || strings.Contains(t, "matchRegexExclusion")
}

// rejects: the block removes a child / completes the seed and leaves the iteration (the shape recorded by preRejectRemovesChildCompletesSeed)
func rejectsItem(b *ast.BlockStmt) bool {
	t := nospace(b)
	return strings.Contains(t, "items[i].GetParent().RemoveChild(items[i])continue}") && strings.Contains(t, "items[i].SetStatus(models.ItemCompleted)return}")
}

func scopeGuards(list []ast.Stmt, path string, out *[]string) {
	for _, st := range list {
		ifs, ok := st.(*ast.IfStmt)
		if !ok || ifs.Init != nil || !mentionsScopeConfig(ifs.Cond) {
			continue
		}
		c := scopeCond(ifs.Cond)
		if path != "" {
			c = "(.and " + path + " " + c + ")"
		}
		// a nested scope test first (include filters: `if any { if !a && !b { reject } }`)
		before := len(*out)
		scopeGuards(ifs.Body.List, c, out)
		if len(*out) == before && rejectsItem(ifs.Body) {
			*out = append(*out, c)
		}
		if ifs.Else != nil {
			*out = append(*out, "(.unknown \"else branch of a scope test\")")
		}
	}
}

func extractScope(s *section) {
	pre := fn("internal/pkg/preprocessor/preprocessor.go", "preprocess")
	var guards []string
	found := false
	if pre != nil {
		for _, n := range allNodes(pre) {
			loop, ok := n.(*ast.RangeStmt)
			if !ok || !strings.Contains(nospace(loop.Body), "NormalizeURL(items[i].GetURL()") {
				continue
			}
			scopeGuards(loop.Body.List, "", &guards)
			found = true
			break
		}
	}
	if !found || len(guards) == 0 {
		s.Facts = append(s.Facts, fact{Name: "scopeGuards", Type: "List SCond", Value: "[]", JSON: nil, Miss: true})
		return
	}
	s.raw("scopeGuards", "List SCond", "["+strings.Join(guards, ", ")+"]", guards)
}

// ---- postprocessItem: the chain of tests that complete an archived item without extracting anything from it

func postCond(e ast.Expr) string {
	switch x := e.(type) {
	case *ast.ParenExpr:
		return postCond(x.X)
	case *ast.UnaryExpr:
		if x.Op == token.NOT {
			return "(.not " + postCond(x.X) + ")"
		}
	case *ast.BinaryExpr:
		switch x.Op {
		case token.LAND:
			return "(.and " + postCond(x.X) + " " + postCond(x.Y) + ")"
		case token.LOR:
			return "(.or " + postCond(x.X) + " " + postCond(x.Y) + ")"
		}
		if c, ok := cmpCtor[x.Op]; ok {
			if nospace(x.X) == "item.GetURL().GetHops()" && nospace(x.Y) == "config.Get().MaxHops" {
				return "(.atom (.hopsCmpMaxHops " + c + "))"
			}
			if nospace(x.X) == "item.GetURL().GetBody()" && nospace(x.Y) == "nil" {
				if x.Op == token.NEQ {
					return "(.atom .hasBody)"
				}
				if x.Op == token.EQL {
					return "(.not (.atom .hasBody))"
				}
			}
			if lit, ok := x.Y.(*ast.BasicLit); ok && lit.Kind == token.INT {
				switch nospace(x.X) {
				case "item.GetDepthWithoutRedirections()":
					return "(.atom (.depthCmp " + c + " " + lit.Value + "))"
				case "config.Get().MaxHops":
					return "(.atom (.maxHopsCmp " + c + " " + lit.Value + "))"
				}
			}
		}
	case *ast.Ident:
		if x.Name == "true" || x.Name == "false" {
			return "(.const " + x.Name + ")"
		}
	case *ast.CallExpr:
		switch nospace(x) {
		case "domainscrawl.Enabled()":
			return "(.atom .domainsCrawl)"
		case `strings.Contains(item.GetURL().GetMIMEType().String(),"html")`:
			return "(.atom .mimeHtml)"
		}
	case *ast.SelectorExpr:
		if nospace(x) == "config.Get().DisableAssetsCapture" {
			return "(.atom .disableAssets)"
		}
	}
	return "(.unknown " + q(src(e)) + ")"
}

func completesAndReturns(b *ast.BlockStmt) bool {
	t := nospace(b)
	return strings.Contains(t, "item.SetStatus(models.ItemCompleted)") && strings.HasSuffix(t, "returnoutlinks}") && !strings.Contains(t, "AddChild")
}

// extractPostEarly finds the if / else-if chain of postprocessItem that mentions the depth without redirections and collects the condition
// of every arm that completes the item and returns (an arm reached through `else if` carries the negation of the arms before it).
func extractPostEarly(s *section) []string {
	fd := fn("internal/pkg/postprocessor/item.go", "postprocessItem")
	var guards []string
	if fd != nil && fd.Body != nil {
		// the run of consecutive top-level `if` statements (each possibly an if / else-if chain) that starts with the first one looking at the
		// depth without redirections and goes on as long as every arm completes the item and returns
		started := false
		for _, st := range fd.Body.List {
			ifs, ok := st.(*ast.IfStmt)
			if !started {
				if !ok || ifs.Init != nil || !strings.Contains(nospace(ifs.Cond), "GetDepthWithoutRedirections()") {
					continue
				}
				started = true
			} else if !ok || ifs.Init != nil || !completesAndReturns(ifs.Body) {
				break
			}
			prev := ""
			for cur := ifs; cur != nil; {
				c := postCond(cur.Cond)
				g := c
				if prev != "" {
					g = "(.and " + prev + " " + c + ")"
				}
				if completesAndReturns(cur.Body) {
					guards = append(guards, g)
				} else {
					guards = append(guards, "(.unknown \"an arm of the chain that does not complete the item\")")
				}
				if prev == "" {
					prev = "(.not " + c + ")"
				} else {
					prev = "(.and " + prev + " (.not " + c + "))"
				}
				switch e := cur.Else.(type) {
				case *ast.IfStmt:
					cur = e
				case nil:
					cur = nil
				default:
					guards = append(guards, "(.unknown \"final else of the chain\")")
					cur = nil
				}
			}
		}
	}
	if len(guards) == 0 {
		s.Facts = append(s.Facts, fact{Name: "postEarlyGuards", Type: "List PCond", Value: "[]", JSON: nil, Miss: true})
		return nil
	}
	s.raw("postEarlyGuards", "List PCond", "["+strings.Join(guards, ", ")+"]", guards)
	return guards
}

// boolFunc translates a function that only tests and returns booleans: `if c { return true }` / `if c { return false }` … `return e`
func boolFunc(fd *ast.FuncDecl) (string, bool) {
	if fd == nil || fd.Body == nil {
		return "", false
	}
	var rec func(list []ast.Stmt) (string, bool)
	rec = func(list []ast.Stmt) (string, bool) {
		if len(list) == 0 {
			return "", false
		}
		switch x := list[0].(type) {
		case *ast.ReturnStmt:
			if len(x.Results) == 1 {
				return postCond(x.Results[0]), true
			}
		case *ast.IfStmt:
			if x.Init == nil && x.Else == nil && len(x.Body.List) == 1 {
				if r, ok := x.Body.List[0].(*ast.ReturnStmt); ok && len(r.Results) == 1 {
					rest, ok := rec(list[1:])
					if !ok {
						return "", false
					}
					c := postCond(x.Cond)
					switch nospace(r.Results[0]) {
					case "true":
						return "(.or " + c + " " + rest + ")", true
					case "false":
						return "(.and (.not " + c + ") " + rest + ")", true
					}
				}
			}
		}
		return "", false
	}
	return rec(fd.Body.List)
}

func extractGuards(s *section) {
	for _, g := range []struct{ name, file, fn string }{
		{"wantAssetsCond", "internal/pkg/postprocessor/assets.go", "shouldExtractAssets"},
		{"wantOutlinksCond", "internal/pkg/postprocessor/outlinks.go", "shouldExtractOutlinks"},
	} {
		t, ok := boolFunc(fn(g.file, g.fn))
		if !ok {
			s.Facts = append(s.Facts, fact{Name: g.name, Type: "PCond", Value: "(.unknown \"not a test-and-return function\")", JSON: nil, Miss: true})
			continue
		}
		s.raw(g.name, "PCond", t, t)
	}
}
