package main

// The operator's scope as preprocess() applies it, translated: every place in the per-item loop where an item is rejected because of the
// include / exclude configuration becomes a guard (the conjunction of the enclosing `if` conditions), a term of SCond (lean/Zeno/Facts.lean).
// The model's scope predicate is compared with these guards for every valuation of the atoms (Props/C05), so a re-arranged but
// equivalent condition still checks and a condition that means something else does not.

import (
	"go/ast"
	"go/token"
	"strings"
)

var scopeAtoms = map[string]string{
	"utils.StringContainsSliceElements(items[i].GetURL().GetParsed().Host,config.Get().IncludeHosts)": ".hostInInclude",
	"utils.StringContainsSliceElements(items[i].GetURL().String(),config.Get().IncludeString)":        ".textInInclude",
	"utils.StringContainsSliceElements(items[i].GetURL().GetParsed().Host,config.Get().ExcludeHosts)": ".hostInExclude",
	"utils.StringContainsSliceElements(items[i].GetURL().String(),config.Get().ExcludeString)":        ".textInExclude",
	"matchRegexExclusion(items[i])": ".regexExcluded",
}

func scopeCond(e ast.Expr) string {
	switch x := e.(type) {
	case *ast.ParenExpr:
		return scopeCond(x.X)
	case *ast.UnaryExpr:
		if x.Op == token.NOT {
			return "(.not " + scopeCond(x.X) + ")"
		}
	case *ast.BinaryExpr:
		switch x.Op {
		case token.LAND:
			return "(.and " + scopeCond(x.X) + " " + scopeCond(x.Y) + ")"
		case token.LOR:
			return "(.or " + scopeCond(x.X) + " " + scopeCond(x.Y) + ")"
		}
		// len(config.Get().IncludeHosts) > 0 and its spellings
		t := nospace(x)
		for field, atom := range map[string]string{"IncludeHosts": ".anyIncludeHosts", "IncludeString": ".anyIncludeStrings"} {
			l := "len(config.Get()." + field + ")"
			switch t {
			case l + ">0", l + "!=0", l + ">=1", "0<" + l:
				return "(.atom " + atom + ")"
			case l + "==0", l + "<1":
				return "(.not (.atom " + atom + "))"
			}
		}
	case *ast.CallExpr:
		if a, ok := scopeAtoms[nospace(x)]; ok {
			return "(.atom " + a + ")"
		}
	}
	return "(.unknown " + q(src(e)) + ")"
}

func mentionsScopeConfig(e ast.Expr) bool {
	t := nospace(e)
	return strings.Contains(t, "config.Get().Include") || strings.Contains(t, "config.Get().Exclude") || strings.Contains(t, "matchRegexExclusion")
}

// rejects: the block removes a child / completes the seed and leaves the iteration (the shape recorded by preRejectRemovesChildCompletesSeed)
func rejectsItem(b *ast.BlockStmt) bool {
	t := nospace(b)
	return strings.Contains(t, "items[i].GetParent().RemoveChild(items[i])continue}") && strings.Contains(t, "items[i].SetStatus(models.ItemCompleted)return}")
}

func scopeGuards(list []ast.Stmt, path string, out *[]string) {
	for _, st := range list {
		ifs, ok := st.(*ast.IfStmt)
		if !ok || ifs.Init != nil || !mentionsScopeConfig(ifs.Cond) {
			continue
		}
		c := scopeCond(ifs.Cond)
		if path != "" {
			c = "(.and " + path + " " + c + ")"
		}
		// a nested scope test first (include filters: `if any { if !a && !b { reject } }`)
		before := len(*out)
		scopeGuards(ifs.Body.List, c, out)
		if len(*out) == before && rejectsItem(ifs.Body) {
			*out = append(*out, c)
		}
		if ifs.Else != nil {
			*out = append(*out, "(.unknown \"else branch of a scope test\")")
		}
	}
}

func extractScope(s *section) {
	pre := fn("internal/pkg/preprocessor/preprocessor.go", "preprocess")
	var guards []string
	found := false
	if pre != nil {
		for _, n := range allNodes(pre) {
			loop, ok := n.(*ast.RangeStmt)
			if !ok || !strings.Contains(nospace(loop.Body), "NormalizeURL(items[i].GetURL()") {
				continue
			}
			scopeGuards(loop.Body.List, "", &guards)
			found = true
			break
		}
	}
	if !found || len(guards) == 0 {
		s.Facts = append(s.Facts, fact{Name: "scopeGuards", Type: "List SCond", Value: "[]", JSON: nil, Miss: true})
		return
	}
	s.raw("scopeGuards", "List SCond", "["+strings.Join(guards, ", ")+"]", guards)
}
