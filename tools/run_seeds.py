#!/usr/bin/env python3
"""Apply every stored seeded change to /repo in turn, run the quick check(s) of its property, restore /repo.
Writes seeded/RESULTS.md. Usage: tools/run_seeds.py [ids...]   (never run while another check is running)"""
import json, os, subprocess, sys
V = os.path.dirname(os.path.dirname(os.path.abspath(__file__)))
ids = sys.argv[1:] or sorted(d for d in os.listdir(os.path.join(V, "seeded")) if os.path.isdir(os.path.join(V, "seeded", d)))
EXTRA = {"C15-3": ["C01"], "C08-2": ["C09"], "C08-4": ["C09"], "C15-5": ["C01"], "C04-6": ["C01"], "C01-5": ["C11", "C08"], "C09-11": ["C07"], "C11-11": ["C08"], "C15-8": ["C06"]}
rows = []
# the evidence files describe the unchanged tree: keep them out of the way while /repo is being mutated
import shutil, tempfile
keep = tempfile.mkdtemp(prefix="verif-evidence-")
for f in os.listdir(os.path.join(V, "evidence")):
    shutil.copy2(os.path.join(V, "evidence", f), keep)
for sid in ids:
    d = os.path.join(V, "seeded", sid)
    patch = os.path.join(d, "patch.diff")
    if not os.path.exists(patch):
        continue
    prop = json.load(open(os.path.join(d, "meta.json")))["property"] if os.path.exists(os.path.join(d, "meta.json")) else sid.split("-")[0]
    subprocess.run(["git", "-C", "/repo", "checkout", "--", "."], check=True)
    ap = subprocess.run(["git", "-C", "/repo", "apply", patch], capture_output=True, text=True)
    if ap.returncode != 0:
        rows.append((sid, prop, "PATCH DOES NOT APPLY", ap.stderr.strip()[:100]))
        continue
    try:
        for p in [prop] + EXTRA.get(sid, []):
            r = subprocess.run([os.path.join(V, "check"), p, "quick"], capture_output=True, text=True, timeout=1500, cwd=V)
            last = [l for l in r.stdout.splitlines() if l.startswith("VIOLATION") or l.startswith("OK ")]
            viol = [l.strip() for l in (r.stdout + "\n" + r.stderr).splitlines() if l.strip().startswith("violation:")]
            verdict = "missed" if r.returncode == 0 else ("detected (no failing input)" if last and last[-1].endswith("no-failing-input-found") else "detected with replay")
            rows.append((sid, p, verdict, (viol[0][11:160] if viol else "")))
    finally:
        subprocess.run(["git", "-C", "/repo", "checkout", "--", "."], check=True)
    print(rows[-1], flush=True)
for f in os.listdir(keep):
    shutil.copy2(os.path.join(keep, f), os.path.join(V, "evidence", f))
shutil.rmtree(keep, ignore_errors=True)
if sys.argv[1:]:
    # partial run: keep the rows of the seeds that were not run
    old = []
    rp = os.path.join(V, "seeded", "RESULTS.md")
    if os.path.exists(rp):
        for l in open(rp):
            c = [x.strip() for x in l.strip().strip("|").split("|")]
            if len(c) == 4 and c[0] not in ("seed", "---") and c[0] not in ids:
                old.append(tuple(c))
    rows = sorted(old + rows)
with open(os.path.join(V, "seeded", "RESULTS.md"), "w") as f:
    f.write("# Seeded changes against the quick checks (tools/run_seeds.py)\n\n| seed | check | verdict | first violation line |\n|---|---|---|---|\n")
    for r in rows:
        f.write("| %s | %s | %s | %s |\n" % tuple(str(x).replace("|", "/") for x in r))
print("written", len(rows))
