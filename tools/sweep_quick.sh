#!/bin/bash
# Quick tier of the given checks (default: all) over several seeds, on the unchanged tree; prints every run that is not OK.
# usage: tools/sweep_quick.sh "1 2 3" [C01 C02 ...]     (parallelism 4: the end-to-end scenarios are timing-sensitive under load)
cd "$(dirname "$0")/.."
seeds=${1:-"1 2 3"}; shift
props=${@:-C01 C02 C03 C04 C05 C06 C07 C08 C09 C10 C11 C12 C13 C14 C15 C16 C17 C18 C19}
mkdir -p build/sweep
for s in $seeds; do for p in $props; do echo "$s $p"; done; done | xargs -P 4 -L 1 bash -c 'VERIF_SEED=$0 ./check $1 quick > build/sweep/$1-$0.log 2>&1; echo "$1 seed=$0 rc=$? $(grep -v "^KNOWN-FINDING" build/sweep/$1-$0.log | tail -1 | cut -c1-200)"' | grep -v "rc=0 OK" 
echo "sweep done"
