#!/usr/bin/env python3
"""Regenerate the table of seeded changes in DESIGN.md (section 12.4) from seeded/*/meta.json and seeded/RESULTS.md."""
import json, os, re
V = os.path.dirname(os.path.dirname(os.path.abspath(__file__)))
res = {}
for l in open(os.path.join(V, "seeded", "RESULTS.md")):
    c = [x.strip() for x in l.strip().strip("|").split("|")]
    if len(c) == 4 and re.match(r"C\d+-\d+$", c[0]):
        res.setdefault(c[0], []).append("%s: %s" % (c[1], c[2]))
rows = []
def key(d):
    a, b = d.split("-"); return (a, int(b))
for d in sorted((x for x in os.listdir(os.path.join(V, "seeded")) if re.match(r"C\d+-\d+$", x)), key=key):
    m = json.load(open(os.path.join(V, "seeded", d, "meta.json")))
    det = m.get("detected_by") or "; ".join(res.get(d, ["(not run)"]))
    cut = lambda s, n: (s[:n - 1] + "…") if len(s) > n else s
    rows.append("| %s | %s | %s | %s |" % (d, cut(m.get("breaks", "").replace("|", "/"), 300), cut(m.get("needs", "").replace("|", "/"), 200), det.replace("|", "/")))
p = os.path.join(V, "DESIGN.md")
s = open(p).read()
head = "| seed | breaks | needs | detected by |\n|---|---|---|---|\n"
a = s.index(head) + len(head)
b = s.index("\n\n", a)
s = s[:a] + "\n".join(rows) + s[b:]
open(p, "w").write(s)
print(len(rows), "rows")
