#!/bin/bash
# Thorough tier of every check on the unchanged tree, one after the other. Usage: tools/run_thorough.sh [seed]
cd "$(dirname "$0")/.."
export VERIF_SEED=${1:-0}
mkdir -p build; ./setup.sh > build/setup.log 2>&1 || { echo "setup failed"; tail -5 build/setup.log; exit 2; }
for c in C18 C09 C11 C13 C17 C12 C14 C15 C05 C06 C08 C19 C07 C10 C01 C02 C03 C04 C16; do
  s=$(date +%s)
  out=$(timeout 7200 ./check $c thorough 2>&1 | grep -v "^KNOWN-FINDING" | tail -3 | cut -c1-600)
  echo "== $c ($(( $(date +%s) - s )) s)"; echo "$out"
done
