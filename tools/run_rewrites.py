#!/usr/bin/env python3
"""Behaviour-preserving rewrites (from sub-agents) against the quick checks of the properties anchored in the touched file: every alarm here is a
false alarm of the tie (allowed by the brief as `no-failing-input-found`, but the fewer the better). usage: tools/run_rewrites.py <out-dir>..."""
import os, subprocess, sys, shutil, tempfile, re
V = os.path.dirname(os.path.dirname(os.path.abspath(__file__)))
MAP = [("ratelimiter/", ["C13", "C16"]), ("watchers/disk.go", ["C18", "C14", "C03"]), ("preprocessor/preprocessor.go", ["C05", "C08", "C01"]),
       ("postprocessor/item.go", ["C06", "C07", "C01"]), ("reactor/reactor.go", ["C12", "C01"]), ("pause/pause.go", ["C14"]),
       ("finisher/finisher.go", ["C01", "C15"]), ("pkg/models/", ["C11", "C01"])]
keep = tempfile.mkdtemp(prefix="verif-evidence-")
for f in os.listdir(os.path.join(V, "evidence")):
    shutil.copy2(os.path.join(V, "evidence", f), keep)
rows = []
for out in sys.argv[1:]:
    for sub in sorted(os.listdir(out)):
        patch = os.path.join(out, sub, "patch.diff")
        if not os.path.exists(patch):
            continue
        txt = open(patch).read()
        files = re.findall(r"^\+\+\+ b/(\S+)", txt, re.M)
        checks = []
        for key, cs in MAP:
            if any(key in f for f in files):
                checks += [c for c in cs if c not in checks]
        subprocess.run(["git", "-C", "/repo", "checkout", "--", "."], check=True)
        if subprocess.run(["git", "-C", "/repo", "apply", patch]).returncode != 0:
            rows.append((out, sub, "-", "PATCH DOES NOT APPLY")); continue
        try:
            for c in checks:
                r = subprocess.run([os.path.join(V, "check"), c, "quick"], capture_output=True, text=True, timeout=1500, cwd=V)
                viol = [l.strip() for l in r.stdout.splitlines() if l.strip().startswith("violation:")]
                verdict = "quiet" if r.returncode == 0 else ("ALARM (no failing input)" if "no-failing-input-found" in r.stdout else "ALARM WITH REPLAY")
                rows.append((os.path.basename(out), sub, c, verdict + ((" — " + viol[0][11:200]) if viol else "")))
                print(rows[-1], flush=True)
        finally:
            subprocess.run(["git", "-C", "/repo", "checkout", "--", "."], check=True)
for f in os.listdir(keep):
    shutil.copy2(os.path.join(keep, f), os.path.join(V, "evidence", f))
shutil.rmtree(keep, ignore_errors=True)
with open(os.path.join(V, "seeded", "REWRITES.md"), "w") as f:
    f.write("# Behaviour-preserving rewrites against the quick checks (tools/run_rewrites.py)\n\n| set | patch | check | verdict |\n|---|---|---|---|\n")
    for r in rows:
        f.write("| %s | %s | %s | %s |\n" % tuple(str(x).replace("|", "/") for x in r))
print("written", len(rows))
