#!/usr/bin/env python3
"""Regenerate MANIFEST.json from vlib/manifest_data.py."""
import json, os, sys
sys.path.insert(0, os.path.join(os.path.dirname(os.path.abspath(__file__)), ".."))
from vlib import manifest_data as md

GO = "$(go env GOMODCACHE)/golang.org/toolchain@v0.0.1-go1.24.2.linux-amd64/bin/go"
m = {
 "version": 1,
 "setup_cmd": "./setup.sh",
 "hooks": {
  "guard": "verif",
  "enable": "go build -tags verif -overlay /verif/build/overlay.json ./internal/verifharness (harness and shim files live in /verif/harness and are injected at build time; add-only; /repo carries no hook code)",
  "baseline_off_cmd": "cd /repo && GOFLAGS=-mod=mod GOPROXY=off go test -vet=off -count=1 ./...",
  "source_commits": [],
  "add_only": True,
 },
 "engines": [
  {"name": "lean-model", "path": "lean/", "serves_properties": sorted(md.CHECKS),
   "kind_free_text": "Lean 4 model (Zeno/Model), helper lemmas (Zeno/Proofs), property theorems (Zeno/Props), facts regenerated from /repo (Zeno/Gen), line-protocol driver (Driver, Main)"},
  {"name": "facts", "path": "tools/facts/", "serves_properties": sorted(md.CHECKS),
   "kind_free_text": "Go AST fact extractor: regenerates the model's parameters from /repo's working tree on every run"},
  {"name": "harness", "path": "harness/", "serves_properties": sorted(md.CHECKS),
   "kind_free_text": "Go harness compiled into the Zeno module with -overlay; runs the real code on the same inputs as the model"},
 ],
 "checks": [],
 "not_applicable": [],
 "notes": "See DESIGN.md. Fixed defects and known findings: known_findings.json.",
}
for pid in sorted(md.CHECKS):
    c = md.CHECKS[pid]
    m["checks"].append({
        "property_id": pid,
        "quick_cmd": "./check %s quick" % pid,
        "thorough_cmd": "./check %s thorough" % pid,
        "evidence_file": "evidence/%s.json" % pid,
        "replay_cmd_template": "./check %s quick --replay {path}" % pid,
        "engine": "lean-model",
        "level_claimed": {"category": c.get("category", "proof"), "text": c["text"], "design_ref": c.get("design_ref", "DESIGN.md §4 " + pid)},
        "level_note": c["note"],
        "technique": c.get("technique", "Lean 4 theorems over a model parameterised by facts regenerated from the source + differential correspondence"),
    })
for pid in sorted(md.NOT_APPLICABLE):
    m["not_applicable"].append({"property_id": pid, "reason": md.NOT_APPLICABLE[pid]})
p = os.path.join(os.path.dirname(os.path.abspath(__file__)), "..", "MANIFEST.json")
open(p, "w").write(json.dumps(m, indent=1) + "\n")
print("wrote", os.path.normpath(p), len(m["checks"]), "checks")
