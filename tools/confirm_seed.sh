#!/bin/bash
# confirm_seed.sh <worktree> <patch.diff> <demo file> <demo target path rel to worktree> <go test pkg> <run regex>
# Confirms: suite passes with the patch; demo fails with it and passes without it. Leaves the worktree clean.
set -u
WT=$1; PATCH=$2; DEMO=$3; TARGET=$4; PKG=$5; RUN=$6
export GOFLAGS=-mod=mod GOPROXY=off GOTOOLCHAIN=local
GO=$(go env GOMODCACHE)/golang.org/toolchain@v0.0.1-go1.24.2.linux-amd64/bin/go
cd "$WT" || exit 2
git checkout -q -- . && git clean -fdq
git apply "$PATCH" || { echo "PATCH DOES NOT APPLY"; exit 2; }
echo "-- suite with patch"
$GO test -vet=off -count=1 ./... 2>&1 | grep -v "^ok\|no test files" | tail -5
SUITE=${PIPESTATUS[0]}
cp "$DEMO" "$TARGET"
echo "-- demo with patch (must FAIL)"
$GO test -vet=off -count=1 -run "$RUN" "$PKG" 2>&1 | tail -4
WITH=${PIPESTATUS[0]}
git checkout -q -- .
echo "-- demo without patch (must PASS)"
$GO test -vet=off -count=1 -run "$RUN" "$PKG" 2>&1 | tail -3
WITHOUT=${PIPESTATUS[0]}
rm -f "$TARGET"; git checkout -q -- . ; git clean -fdq
echo "RESULT suite=$SUITE demo_with_patch=$WITH demo_without_patch=$WITHOUT"
[ "$SUITE" = 0 ] && [ "$WITH" != 0 ] && [ "$WITHOUT" = 0 ] && echo CONFIRMED
