-- Root of the `Zeno` library: every property module (which pulls in models, proofs and facts).
import Zeno.Props.C18
import Zeno.Props.C19
import Zeno.Props.C12
import Zeno.Props.C11
import Zeno.Props.C13
import Zeno.Props.C17
import Zeno.Props.C14
import Zeno.Props.C09
import Zeno.Props.C15
import Zeno.Props.C16
import Zeno.Props.C04
import Zeno.Props.C01
import Zeno.Props.C02
import Zeno.Props.C03
import Zeno.Props.C05
import Zeno.Props.C06
import Zeno.Props.C08
