import Zeno.Base.Reactor
/-!
The reactor under concurrent callers: `ReceiveInsert`, `MarkAsFinished` and `ReceiveFeedback` are not atomic — each is a short
sequence of operations on the token pool (a channel), the state table (a `sync.Map`) and the input channel, and calls of
different goroutines interleave between those operations. The sequences are *facts read from the source*
(`insertSeq`, `finishSeq`); this model interprets whatever sequence it is given, so that a reordering in the code
(store before the token is held; load and delete as two operations) is a different transition system, in which the
accounting invariant may fail — and does, see the counterexamples in `Props/C12.lean`.
-/
namespace Zeno.Model.ReactorFine
open Zeno

abbrev Facts := Zeno.Base.Reactor.Facts
abbrev Id := String

/-- a call in flight: which seed, how many operations of its sequence are done, and what its load saw -/
inductive Call
  | ins (x : Id) (pc : Nat)
  | fin (x : Id) (pc : Nat) (loaded : Bool)
  | fb (x : Id) (pc : Nat)
deriving DecidableEq, Repr

structure S where
  cap : Nat
  tokens : Nat := 0            -- tokens in use (length of the token channel)
  table : List Id := []        -- tracked seeds
  queue : List Id := []        -- the input channel (capacity `cap`)
  calls : List Call := []
  out : List Id := []          -- handed to the pipeline by `run`
  dead : Bool := false         -- a caller panicked ("item already present in reactor")
deriving Repr

inductive Act
  | call (c : Call)            -- a goroutine enters one of the three functions
  | step (i : Nat)             -- the i-th call in flight performs its next operation
  | deliver                    -- `run` forwards the head of the input channel
deriving Repr

/-- the next operation of a call, by name -/
def nextOp (F : Facts) : Call → Option String
  | .ins _ pc => F.insertSeq[pc]?
  | .fin _ pc _ => F.finishSeq[pc]?
  | .fb _ pc => ["loadCas", "enqueue"][pc]?

/-- what one operation does: the new state and what becomes of the call (`none` = it returned) -/
def doOp (s : S) (c : Call) (op : String) : Option (S × Option Call) :=
  match c with
  | .ins x pc =>
    if op == "acquire" then
      if s.tokens < s.cap then some ({ s with tokens := s.tokens + 1 }, some (.ins x (pc + 1))) else none     -- blocks: pool full
    else if op == "loadOrStore" then
      if x ∈ s.table then some ({ s with dead := true }, none)
      else some ({ s with table := x :: s.table }, some (.ins x (pc + 1)))
    else if op == "enqueue" then
      if s.queue.length < s.cap then some ({ s with queue := s.queue ++ [x] }, some (.ins x (pc + 1))) else none
    else none
  | .fin x pc loaded =>
    if op == "loadAndDelete" then
      if x ∈ s.table then some ({ s with table := s.table.erase x }, some (.fin x (pc + 1) true))
      else some (s, none)                                              -- not found: returns at once
    else if op == "load" then
      if x ∈ s.table then some (s, some (.fin x (pc + 1) true)) else some (s, none)
    else if op == "delete" then some ({ s with table := s.table.erase x }, some (.fin x (pc + 1) loaded))
    else if op == "release" then
      if loaded then (if 0 < s.tokens then some ({ s with tokens := s.tokens - 1 }, some (.fin x (pc + 1) loaded)) else none)   -- blocks: pool empty
      else some (s, some (.fin x (pc + 1) loaded))
    else none
  | .fb x pc =>
    if op == "loadCas" then
      if x ∈ s.table then some (s, some (.fb x (pc + 1))) else some (s, none)
    else if op == "enqueue" then
      if s.queue.length < s.cap then some ({ s with queue := s.queue ++ [x] }, some (.fb x (pc + 1))) else none
    else none

/-- has the call performed its whole sequence? -/
def finished (F : Facts) (c : Call) : Bool := (nextOp F c).isNone

/-- the next operation of call `c` performed on `s`; a call with nothing left to do returns -/
def opResult (F : Facts) (s : S) (c : Call) : Option (S × Option Call) :=
  match nextOp F c with
  | none => some (s, none)
  | some op => doOp s c op

def step (F : Facts) (s : S) : Act → Option S
  | .call c =>
    if s.dead then none else
    match c with
    | .ins x 0 => some { s with calls := s.calls ++ [.ins x 0] }
    | .fin x 0 false => some { s with calls := s.calls ++ [.fin x 0 false] }
    | .fb x 0 => some { s with calls := s.calls ++ [.fb x 0] }
    | _ => none                                       -- calls start at their first operation
  | .deliver =>
    if s.dead then none else
    match s.queue with
    | [] => none
    | x :: q => some { s with queue := q, out := s.out ++ [x] }
  | .step i =>
    if s.dead then none else
    match s.calls[i]? with
    | none => none
    | some c =>
      match opResult F s c with
      | none => none                                              -- blocked
      | some (s', some c') => some { s' with calls := s'.calls.set i c' }
      | some (s', none) => some { s' with calls := s'.calls.eraseIdx i }

/-- run a schedule; a step that is not enabled is skipped -/
def run (F : Facts) (s : S) (acts : List Act) : S :=
  acts.foldl (fun s a => (step F s a).getD s) s

/-- calls that hold a token without a table entry yet (insert), or a table entry's token without the entry (finish) -/
def holdsExtra (F : Facts) : Call → Bool
  | .ins _ pc => (F.insertSeq.take pc).contains "acquire" && !(F.insertSeq.take pc).contains "loadOrStore"
  | .fin _ pc loaded => loaded && ((F.finishSeq.take pc).contains "loadAndDelete" || (F.finishSeq.take pc).contains "delete") &&
      !(F.finishSeq.take pc).contains "release"
  | .fb _ _ => false

def extra (F : Facts) (s : S) : Nat := s.calls.countP (holdsExtra F)

end Zeno.Model.ReactorFine
