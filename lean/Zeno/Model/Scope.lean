import Zeno.Model.Stages
/-!
The scope tests of `preprocess()` as translated from the source (`Gen.Stages.facts.scopeGuards`, tools/facts/sec_scope.go): one guard per
place where the per-item loop rejects an item because of the include / exclude configuration. An item is rejected when some guard holds.
-/
namespace Zeno.Model.Scope
open Zeno Zeno.Model.Stages

def _root_.Zeno.SCond.eval (v : SAtom → Bool) : SCond → Bool
  | .atom a => v a
  | .not c => !c.eval v
  | .and a b => a.eval v && b.eval v
  | .or a b => a.eval v || b.eval v
  | .unknown _ => true            -- a test the translator does not understand may reject anything

def rejectsBy (gs : List SCond) (v : SAtom → Bool) : Bool := gs.any (fun g => g.eval v)

/-- nothing in the condition is opaque to the translator -/
def _root_.Zeno.SCond.known : SCond → Bool
  | .atom _ => true
  | .not c => c.known
  | .and a b => a.known && b.known
  | .or a b => a.known && b.known
  | .unknown _ => false

/-- the operator's scope as the property states it: with include filters, none of them matches; or an exclude host / string occurs; or an
exclusion regex matches -/
def specRejects (v : SAtom → Bool) : Bool :=
  ((v .anyIncludeHosts || v .anyIncludeStrings) && !v .hostInInclude && !v .textInInclude) ||
  v .hostInExclude || v .textInExclude || v .regexExcluded

/-- what the atoms mean for a configuration and a normalised URL -/
def atomsOf (cfg : Cfg) (r : NormRes) : SAtom → Bool
  | .anyIncludeHosts => !cfg.includeHosts.isEmpty
  | .anyIncludeStrings => !cfg.includeStrings.isEmpty
  | .hostInInclude => containsAny r.host cfg.includeHosts
  | .textInInclude => containsAny r.canon cfg.includeStrings
  | .hostInExclude => containsAny r.host cfg.excludeHosts
  | .textInExclude => containsAny r.canon cfg.excludeStrings
  | .regexExcluded => cfg.regexExcluded.contains r.canon

def valuation (b1 b2 b3 b4 b5 b6 b7 : Bool) : SAtom → Bool
  | .anyIncludeHosts => b1 | .anyIncludeStrings => b2 | .hostInInclude => b3 | .textInInclude => b4
  | .hostInExclude => b5 | .textInExclude => b6 | .regexExcluded => b7

theorem valuation_eta (v : SAtom → Bool) :
    v = valuation (v .anyIncludeHosts) (v .anyIncludeStrings) (v .hostInInclude) (v .textInInclude) (v .hostInExclude) (v .textInExclude)
      (v .regexExcluded) := by
  funext a; cases a <;> rfl

/-- the model's scope predicate is the negation of the specification's "rejected" -/
theorem passes_iff (cfg : Cfg) (r : NormRes) : passesFilters cfg r = !specRejects (atomsOf cfg r) := by
  simp only [passesFilters, specRejects, atomsOf]
  cases cfg.includeHosts.isEmpty <;> cases cfg.includeStrings.isEmpty <;> cases containsAny r.host cfg.includeHosts <;>
    cases containsAny r.canon cfg.includeStrings <;> cases containsAny r.host cfg.excludeHosts <;>
    cases containsAny r.canon cfg.excludeStrings <;> cases cfg.regexExcluded.contains r.canon <;> rfl

end Zeno.Model.Scope

/-! ### the tests of `postprocessItem()` that complete an archived item without extracting anything (`Gen.Stages.facts.postEarlyGuards`) -/
namespace Zeno.Model.Scope
open Zeno Zeno.Model.Stages

/-- what the tests look at -/
structure PEnv where
  domainsCrawl : Bool
  depth : Int               -- GetDepthWithoutRedirections()
  html : Bool               -- the sniffed MIME type contains "html"
  disableAssets : Bool
  maxHops : Nat
  body : Bool := true       -- the body was kept for post-processing
  hops : Nat := 0           -- the page's hops

def _root_.Zeno.PAtom.eval (e : PEnv) : PAtom → Bool
  | .domainsCrawl => e.domainsCrawl
  | .depthCmp op n => op.eval e.depth n
  | .mimeHtml => e.html
  | .disableAssets => e.disableAssets
  | .maxHopsCmp op n => op.eval e.maxHops n
  | .hasBody => e.body
  | .hopsCmpMaxHops op => op.eval e.hops e.maxHops

def _root_.Zeno.PCond.eval (e : PEnv) : PCond → Bool
  | .const b => b
  | .atom a => a.eval e
  | .not c => !c.eval e
  | .and a b => a.eval e && b.eval e
  | .or a b => a.eval e || b.eval e
  | .unknown _ => true

def completesEarly (gs : List PCond) (e : PEnv) : Bool := gs.any (fun g => g.eval e)

/-- nothing in the condition is opaque to the translator -/
def _root_.Zeno.PCond.known : PCond → Bool
  | .const _ => true
  | .atom _ => true
  | .not c => c.known
  | .and a b => a.known && b.known
  | .or a b => a.known && b.known
  | .unknown _ => false

/-- the same decision as the model's `postAct` takes it (its second to fourth branch) -/
def modelCompletesEarly (S : SF) (e : PEnv) : Bool :=
  (!e.domainsCrawl && S.depthCutOp.eval e.depth (S.depthCut : Int)) ||
  (!e.domainsCrawl && e.depth == 1 && e.html) ||
  (e.disableAssets && !e.domainsCrawl && (S.disableAssetsRule == "always" || e.maxHops == 0))

/-- `postAct` completes a non-redirect item when `modelCompletesEarly` says so (otherwise it goes on to extraction) -/
theorem postAct_early (S : SF) (cfg : Cfg) (ex : String → Extract) (i : Zeno.Model.Item.Info) (dnr : Int) (hr : isRedirect S i.resp = false)
    (h : modelCompletesEarly S { domainsCrawl := cfg.domainsCrawl, depth := dnr, html := i.html, disableAssets := cfg.disableAssets,
                                 maxHops := cfg.maxHops } = true) :
    postAct S cfg ex i dnr = .complete := by
  unfold postAct
  simp only [hr, Bool.false_eq_true, if_false]
  by_cases h1 : (!cfg.domainsCrawl && S.depthCutOp.eval dnr (S.depthCut : Int)) = true
  · simp [h1]
  · simp only [h1, if_false]
    by_cases h2 : (!cfg.domainsCrawl && dnr == 1 && i.html) = true
    · simp [h2]
    · simp only [h2, if_false]
      by_cases h3 : (cfg.disableAssets && !cfg.domainsCrawl && (S.disableAssetsRule == "always" || cfg.maxHops == 0)) = true
      · simp [h3]
      · exfalso
        simp only [modelCompletesEarly, Bool.or_eq_true] at h
        rcases h with (h | h) | h
        · exact h1 h
        · exact h2 h
        · exact h3 h

end Zeno.Model.Scope
