import Zeno.Model.Stages
/-!
The scope tests of `preprocess()` as translated from the source (`Gen.Stages.facts.scopeGuards`, tools/facts/sec_scope.go): one guard per
place where the per-item loop rejects an item because of the include / exclude configuration. An item is rejected when some guard holds.
-/
namespace Zeno.Model.Scope
open Zeno Zeno.Model.Stages

def _root_.Zeno.SCond.eval (v : SAtom → Bool) : SCond → Bool
  | .atom a => v a
  | .not c => !c.eval v
  | .and a b => a.eval v && b.eval v
  | .or a b => a.eval v || b.eval v
  | .unknown _ => true            -- a test the translator does not understand may reject anything

def rejectsBy (gs : List SCond) (v : SAtom → Bool) : Bool := gs.any (fun g => g.eval v)

/-- the operator's scope as the property states it: with include filters, none of them matches; or an exclude host / string occurs; or an
exclusion regex matches -/
def specRejects (v : SAtom → Bool) : Bool :=
  ((v .anyIncludeHosts || v .anyIncludeStrings) && !v .hostInInclude && !v .textInInclude) ||
  v .hostInExclude || v .textInExclude || v .regexExcluded

/-- what the atoms mean for a configuration and a normalised URL -/
def atomsOf (cfg : Cfg) (r : NormRes) : SAtom → Bool
  | .anyIncludeHosts => !cfg.includeHosts.isEmpty
  | .anyIncludeStrings => !cfg.includeStrings.isEmpty
  | .hostInInclude => containsAny r.host cfg.includeHosts
  | .textInInclude => containsAny r.canon cfg.includeStrings
  | .hostInExclude => containsAny r.host cfg.excludeHosts
  | .textInExclude => containsAny r.canon cfg.excludeStrings
  | .regexExcluded => cfg.regexExcluded.contains r.canon

def valuation (b1 b2 b3 b4 b5 b6 b7 : Bool) : SAtom → Bool
  | .anyIncludeHosts => b1 | .anyIncludeStrings => b2 | .hostInInclude => b3 | .textInInclude => b4
  | .hostInExclude => b5 | .textInExclude => b6 | .regexExcluded => b7

theorem valuation_eta (v : SAtom → Bool) :
    v = valuation (v .anyIncludeHosts) (v .anyIncludeStrings) (v .hostInInclude) (v .textInInclude) (v .hostInExclude) (v .textInExclude)
      (v .regexExcluded) := by
  funext a; cases a <;> rfl

/-- the model's scope predicate is the negation of the specification's "rejected" -/
theorem passes_iff (cfg : Cfg) (r : NormRes) : passesFilters cfg r = !specRejects (atomsOf cfg r) := by
  simp only [passesFilters, specRejects, atomsOf]
  cases cfg.includeHosts.isEmpty <;> cases cfg.includeStrings.isEmpty <;> cases containsAny r.host cfg.includeHosts <;>
    cases containsAny r.canon cfg.includeStrings <;> cases containsAny r.host cfg.excludeHosts <;>
    cases containsAny r.canon cfg.excludeStrings <;> cases cfg.regexExcluded.contains r.canon <;> rfl

end Zeno.Model.Scope
