import Zeno.Model.RateProg
import Zeno.Model.Disk
import Zeno.Base.DiskProg
/-!
`checkThreshold(total, free uint64, minSpaceRequired float64) error` as translated statement by statement from the source
(`Gen.DiskProg.facts.checkThreshold`, tools/facts/sec_arith.go), run with the interpreter of `Model/RateProg.lean`.
Parameters are the locals 0, 1, 2. `some true` = an error is returned (refuse / pause), `some false` = nil, `none` = the
program contains something the translator did not understand, or a float → uint64 conversion is out of range.
-/
namespace Zeno.Model.DiskProg
open Zeno Zeno.Model.RateLimiter Zeno.Model.RateProg

abbrev Progs := Zeno.Base.DiskProg.Facts

def runCheck (P : Progs) (total free : Nat) (msr : Rat) : Option Bool :=
  let e : Env := { b := TB.new 0 0 0, now := 0, params := fun _ => none,
                   locals := fun i => if i = 0 then some (total : Rat) else if i = 1 then some (free : Rat) else if i = 2 then some msr else none }
  match P.checkThreshold.exec noCallee e with
  | .returned e' => e'.result
  | _ => none

end Zeno.Model.DiskProg
