import Zeno.Base.Item
/-!
Model of `pkg/models/item.go` and `item_dedupe.go`: the seed tree and its operations, as pure
functions. Parent/child symmetry is implicit in the inductive tree. Node ids are strings; `url`
is the canonical URL string (`URL.String()`), the key used by de-duplication.
-/
namespace Zeno.Model.Item
open Zeno

abbrev Facts := Zeno.Base.Item.Facts

inductive Status
  | fresh | preProcessed | archived | failed | completed | seen | gotRedirected | gotChildren
deriving DecidableEq, Repr, Inhabited

def Status.name : Status → String
  | .fresh => "Fresh" | .preProcessed => "PreProcessed" | .archived => "Archived" | .failed => "Failed"
  | .completed => "Completed" | .seen => "Seen" | .gotRedirected => "GotRedirected" | .gotChildren => "GotChildren"

def Status.ofName? (s : String) : Option Status :=
  [Status.fresh, .preProcessed, .archived, .failed, .completed, .seen, .gotRedirected, .gotChildren].find?
    (fun x => x.name == s)

structure Info where
  id : String
  url : String
  st : Status
  via : Bool := false     -- non-empty seedVia
  redirects : Nat := 0
  hops : Nat := 0
  -- fields used by the stage model (Model/Stages.lean)
  raw : String := ""      -- URL text as discovered (before normalisation)
  host : String := ""     -- host (with port) of the normalised URL
  path : String := ""     -- path of the normalised URL
  req : Bool := false     -- a request object is attached (only then the archiver fetches it)
  resp : Nat := 0         -- status code of the response (0 = none)
  loc : String := ""      -- Location header of the response
  html : Bool := false    -- the sniffed MIME type contains "html"
  body : Bool := false    -- ProcessBody kept the body for post-processing
deriving DecidableEq, Repr, Inhabited

mutual
inductive Tree | node (i : Info) (kids : Forest)
inductive Forest | nil | cons (t : Tree) (f : Forest)
end

def Tree.info : Tree → Info | .node i _ => i
def Tree.kids : Tree → Forest | .node _ k => k
def Tree.st (t : Tree) : Status := t.info.st

def Forest.toList : Forest → List Tree
  | .nil => []
  | .cons t f => t :: f.toList

def Forest.ofList : List Tree → Forest
  | [] => .nil
  | t :: ts => .cons t (Forest.ofList ts)

def Forest.length : Forest → Nat
  | .nil => 0
  | .cons _ f => f.length + 1

def Forest.append : Forest → Forest → Forest
  | .nil, g => g
  | .cons t f, g => .cons t (f.append g)

/-- `HasWork`: the statuses listed in the facts are the ones without work -/
def hasWork (F : Facts) (s : Status) : Bool := !(F.noWorkStatuses.contains s.name)

/-- pending = still awaits fetching or post-processing -/
def Status.pending : Status → Bool
  | .fresh | .preProcessed | .archived => true
  | _ => false

/-! ### CheckConsistency -/

inductive Bad
  | childHasVia | freshHasChildren | freshBadParent | redirectedManyChildren | childrenBadStatus
deriving DecidableEq, Repr

def Bad.name : Bad → String
  | .childHasVia => "child-has-via" | .freshHasChildren => "fresh-has-children"
  | .freshBadParent => "fresh-bad-parent" | .redirectedManyChildren => "redirected-many-children"
  | .childrenBadStatus => "children-bad-status"

/-- a fresh non-seed node needs a parent whose status is one of `freshParentStatuses` -/
def badParent (F : Facts) : Option Status → Bool
  | none => false
  | some p => !(F.freshParentStatuses.contains p.name)

def c1 (parent : Option Status) (i : Info) : Bool := parent.isSome && i.via
def c2 (i : Info) (nkids : Nat) : Bool := i.st == .fresh && decide (nkids > 0)
def c3 (F : Facts) (parent : Option Status) (i : Info) : Bool := i.st == .fresh && badParent F parent
def c4 (i : Info) (nkids : Nat) : Bool := decide (nkids > 1) && i.st == .gotRedirected
def c5 (F : Facts) (i : Info) (nkids : Nat) : Bool := decide (nkids > 0) && !(F.withChildrenStatuses.contains i.st.name)

/-- the checks `CheckConsistency` performs on one node, in source order -/
def checkNode (F : Facts) (parent : Option Status) (i : Info) (nkids : Nat) : Option Bad :=
  if c1 parent i then some .childHasVia
  else if c2 i nkids then some .freshHasChildren
  else if c3 F parent i then some .freshBadParent
  else if c4 i nkids then some .redirectedManyChildren
  else if c5 F i nkids then some .childrenBadStatus
  else none

mutual
/-- first inconsistency in traversal order (node first, then children left to right) -/
def Tree.check (F : Facts) (parent : Option Status) : Tree → Option (String × Bad)
  | .node i k =>
    match checkNode F parent i k.length with
    | some b => some (i.id, b)
    | none => k.check F i.st
def Forest.check (F : Facts) (p : Status) : Forest → Option (String × Bad)
  | .nil => none
  | .cons t f =>
    match t.check F (some p) with
    | some e => some e
    | none => f.check F p
end

/-! ### depth queries -/

mutual
def Tree.maxDepth : Tree → Nat
  | .node _ k => match k with
    | .nil => 0
    | .cons t f => (Forest.cons t f).maxDepthKids + 1
def Forest.maxDepthKids : Forest → Nat
  | .nil => 0
  | .cons t f => Nat.max t.maxDepth f.maxDepthKids
end

mutual
def Tree.atLevel : Tree → Nat → List Info
  | .node i _, 0 => [i]
  | .node _ k, n + 1 => k.atLevel n
def Forest.atLevel : Forest → Nat → List Info
  | .nil, _ => []
  | .cons t f, n => t.atLevel n ++ f.atLevel n
end

mutual
/-- (id, depth, depth-without-redirections) of every node, preorder; `dnr` is the parent's value -/
def Tree.depths (d : Nat) (pdnr : Int) (isSeed : Bool) : Tree → List (String × Nat × Int)
  | .node i k =>
    let dnr : Int := if isSeed then (if i.st == .gotRedirected then -1 else 0)
      else (if i.st == .gotRedirected then pdnr else pdnr + 1)
    (i.id, d, dnr) :: k.depths (d + 1) dnr
def Forest.depths (d : Nat) (pdnr : Int) : Forest → List (String × Nat × Int)
  | .nil => []
  | .cons t f => t.depths d pdnr false ++ f.depths d pdnr
end

mutual
def Tree.flatten : Tree → List Info
  | .node i k => i :: k.flatten
def Forest.flatten : Forest → List Info
  | .nil => []
  | .cons t f => t.flatten ++ f.flatten
end

mutual
def Tree.anyPending : Tree → Bool
  | .node i k => i.st.pending || k.anyPending
def Forest.anyPending : Forest → Bool
  | .nil => false
  | .cons t f => t.anyPending || f.anyPending
end

/-! ### completion -/

/-- `allChildrenCompleted` -/
def Forest.allDone (F : Facts) : Forest → Bool
  | .nil => true
  | .cons t f => !hasWork F t.st && f.allDone F

mutual
/-- `markCompleted`: bottom-up; a node with status GotChildren/GotRedirected whose children all
have no work becomes Completed -/
def Tree.mark (F : Facts) : Tree → Tree
  | .node i k =>
    let k' := k.mark F
    if k'.allDone F && F.markableStatuses.contains i.st.name then .node { i with st := .completed } k'
    else .node i k'
def Forest.mark (F : Facts) : Forest → Forest
  | .nil => .nil
  | .cons t f => .cons (t.mark F) (f.mark F)
end

/-- `CompleteAndCheck` on a seed -/
def completeAndCheck (F : Facts) (t : Tree) : Tree × Bool :=
  if !hasWork F t.st then (t, true)
  else
    let t' := t.mark F
    (t', !hasWork F t'.st)

/-! ### mutation -/

mutual
def Tree.mapNode (id : String) (g : Info → Forest → Tree) : Tree → Tree
  | .node i k => if i.id == id then g i k else .node i (k.mapNode id g)
def Forest.mapNode (id : String) (g : Info → Forest → Tree) : Forest → Forest
  | .nil => .nil
  | .cons t f => .cons (t.mapNode id g) (f.mapNode id g)
end

def Tree.setStatus (t : Tree) (id : String) (s : Status) : Tree :=
  t.mapNode id (fun i k => .node { i with st := s } k)

/-- `AddChild(child, from)`: parent gets status `from`, the child is appended as Fresh -/
def Tree.addChild (t : Tree) (pid : String) (c : Info) (from' : Status) : Tree :=
  t.mapNode pid (fun i k => .node { i with st := from' } (k.append (.cons (.node { c with st := .fresh } .nil) .nil)))

def Forest.removeFirst (cid : String) : Forest → Forest
  | .nil => .nil
  | .cons t f => if t.info.id == cid then f else .cons t (f.removeFirst cid)

/-- `RemoveChild`: removes the first child of `pid` whose id is `cid` -/
def Tree.removeChild (t : Tree) (pid cid : String) : Tree :=
  t.mapNode pid (fun i k => .node i (k.removeFirst cid))

/-! ### DedupeItems -/

structure DState where
  seen : List (String × Info)   -- url ↦ current holder (latest binding first)
  removed : List String         -- ids on which RemoveChild was called

def DState.lookup (s : DState) (u : String) : Option Info := (s.seen.find? (fun p => p.1 == u)).map (·.2)

/-- one iteration of the loop over the flattened (non-seed) nodes -/
def dedupeStep (F : Facts) (s : DState) (n : Info) : DState :=
  match s.lookup n.url with
  | some e =>
    -- which duplicate is dropped: "completed" = keep a Completed later node over a non-completed
    -- earlier one (pinned tree); "processed" = keep a non-fresh later node over a fresh earlier one
    if (F.dedupePrefers == "completed" && e.st != .completed && n.st == .completed) ||
       (F.dedupePrefers == "processed" && e.st == .fresh && n.st != .fresh) then
      { seen := (n.url, n) :: s.seen, removed := e.id :: s.removed }
    else { s with removed := n.id :: s.removed }
  | none => { s with seen := (n.url, n) :: s.seen }

def dedupeRemoved (F : Facts) (nodes : List Info) : List String :=
  (nodes.foldl (dedupeStep F) { seen := [], removed := [] }).removed

mutual
/-- drop every subtree whose root id is in `rm` (the seed itself is never in `rm`) -/
def Tree.prune (rm : List String) : Tree → Tree
  | .node i k => .node i (k.prune rm)
def Forest.prune (rm : List String) : Forest → Forest
  | .nil => .nil
  | .cons t f => if rm.contains t.info.id then f.prune rm else .cons (t.prune rm) (f.prune rm)
end

/-- `DedupeItems` on a seed: every non-seed node of the flattened tree is visited (also those
whose ancestor has been detached meanwhile — they still register their URL), then `markCompleted` -/
def dedupe (F : Facts) (t : Tree) : Tree :=
  let rm := dedupeRemoved F t.kids.flatten
  (t.prune rm).mark F

end Zeno.Model.Item
