import Zeno.Base.Html
/-!
`extractor.HTMLAssets` and `extractor.HTMLOutlinks` on a parsed document. The HTML parser (goquery / x/net/html) is an
oracle: the model works on the list of elements in document order, each with its tag, attributes and text.
Resolution of the raw references against the page URL is the normaliser's job (C09).
-/
namespace Zeno.Model.Html
open Zeno

abbrev HF := Zeno.Base.Html.Facts

structure El where
  tag : String
  attrs : List (String × String) := []
  text : String := ""
deriving Repr, DecidableEq

def El.attr (e : El) (k : String) : Option String := e.attrs.lookup k

structure Cfg where
  disabledTags : List String := []
  captureAlternate : Bool := false
deriving Repr

/-! ### small string tools -/

def isInfix (needle hay : List Char) : Bool :=
  match hay with
  | [] => needle.isEmpty
  | _ :: rest => needle.isPrefixOf hay || isInfix needle rest

def contains (s sub : String) : Bool := isInfix sub.toList s.toList
def startsWith (s p : String) : Bool := p.toList.isPrefixOf s.toList

def splitOn (c : Char) (s : List Char) : List (List Char) :=
  s.foldr (fun x acc => if x == c then [] :: acc else match acc with | [] => [[x]] | a :: as => (x :: a) :: as) [[]]

def trimSpaces (s : List Char) : List Char :=
  let isSp := fun (c : Char) => c == ' ' || c == '\t' || c == '\n' || c == '\r'
  ((s.dropWhile isSp).reverse.dropWhile isSp).reverse

/-- `srcset` / `data-srcset`: split at commas, trim, keep what precedes the first space -/
def srcsetURLs (v : String) : List String :=
  (splitOn ',' v.toList).map (fun cand => String.ofList ((splitOn ' ' (trimSpaces cand)).headD []))

/-- everything up to (not including) the first `)`; `none` when a newline comes first or there is no `)` -/
def upToParen : List Char → Option (List Char × List Char)
  | [] => none
  | c :: rest =>
    if c == ')' then some ([], rest)
    else if c == '\n' then none
    else match upToParen rest with
      | some (g, after) => some (c :: g, after)
      | none => none

/-- all matches of `url\((.*?)\)` (group 1), scanning left to right -/
def urlFuncs : (fuel : Nat) → List Char → List (List Char)
  | 0, _ => []
  | _, [] => []
  | fuel + 1, s@(_ :: rest) =>
    if "url(".toList.isPrefixOf s then
      match upToParen (s.drop 4) with
      | some (g, after) => g :: urlFuncs fuel after
      | none => urlFuncs fuel rest
    else urlFuncs fuel rest

def stripQuotes (s : List Char) : List Char := s.filter (fun c => c != '\'' && c != '"')

/-- all matches of `(?:\(['"]?)(.*?)(?:['"]?\))` (group 1) -/
def parenGroups : (fuel : Nat) → List Char → List (List Char)
  | 0, _ => []
  | _, [] => []
  | fuel + 1, c :: rest =>
    if c == '(' then
      let body := match rest with
        | q :: r => if q == '\'' || q == '"' then r else rest
        | [] => rest
      match upToParen body with
      | some (g, after) =>
        let g' := match g.getLast? with
          | some q => if q == '\'' || q == '"' then g.dropLast else g
          | none => g
        g' :: parenGroups fuel after
      | none => parenGroups fuel rest
    else parenGroups fuel rest

/-! ### assets -/

def enabled (cfg : Cfg) (tag : String) : Bool := !cfg.disabledTags.contains tag

def optL (o : Option String) : List String := match o with | some v => [v] | none => []

def styleAttrAssets (e : El) : List String :=
  match e.attr "style" with
  | none => []
  | some st =>
    ((parenGroups st.length st.toList).map String.ofList).filter (fun m =>
      !(contains m "%" || startsWith m "0." || startsWith m "--font" || startsWith m "--size" || startsWith m "--color" ||
        startsWith m "--shreddit" || startsWith m "100vh"))

def assetPaths : List String := ["static/", "assets/", "asset/", "images/", "image/", "img/"]
def anchorAssetAttrs : List String := ["href", "data-href", "data-src", "data-srcset", "data-lazy-src", "data-srcset", "src", "srcset"]

/-- what a `url(...)` found in a `<style>` element becomes -/
def styleURL (H : HF) (m : List Char) : String :=
  let s := String.ofList (stripQuotes m)
  if H.styleSchemeRelative == "forcesHttp" && !contains s "http" then String.ofList (replaceAll s.toList)
  else s
where
  replaceAll : List Char → List Char
    | '/' :: '/' :: rest => "http://".toList ++ replaceAll rest
    | c :: rest => c :: replaceAll rest
    | [] => []

/-- the strict URL pattern applied to the script element's outer HTML, de-duplicated, `http…` matches only. Oracle
approximation for script elements without inline text: the distinct attribute values that are absolute http(s) URLs -/
def scriptRegexLinks (e : El) : List String :=
  ((e.attrs.map (·.2)).filter (fun v => startsWith v "http://" || startsWith v "https://")).eraseDups

def htmlAssets (H : HF) (cfg : Cfg) (els : List El) : List String :=
  -- [data-item], [style], [data-preview] (data-item JSON is an oracle the generator does not use)
  (els.flatMap (fun e => styleAttrAssets e ++ (match e.attr "data-preview" with | some v => if startsWith v "http" then [v] else [] | none => []))) ++
  (if enabled cfg "a" then (els.filter (·.tag == "a")).flatMap (fun e =>
      anchorAssetAttrs.flatMap (fun a => match e.attr a with | some v => if assetPaths.any (contains v) then [v] else [] | none => [])) else []) ++
  (if enabled cfg "img" then (els.filter (·.tag == "img")).flatMap (fun e =>
      optL (e.attr "src") ++ optL (e.attr "data-src") ++ optL (e.attr "data-lazy-src") ++
      (match e.attr "data-srcset" with | some v => srcsetURLs v | none => []) ++
      (match e.attr "srcset" with | some v => srcsetURLs v | none => [])) else []) ++
  ((els.filter (fun e => (e.tag == "video" && enabled cfg "video" || e.tag == "audio" && enabled cfg "audio"))).flatMap (fun e => optL (e.attr "src"))) ++
  (if enabled cfg "style" then (els.filter (·.tag == "style")).flatMap (fun e =>
      ((urlFuncs e.text.length e.text.toList).map (styleURL H)).filter (fun u => !startsWith u "#wp-")) else []) ++
  (if enabled cfg "script" then (els.filter (·.tag == "script")).flatMap (fun e => optL (e.attr "src") ++ scriptRegexLinks e) else []) ++
  (if enabled cfg "link" then (els.filter (·.tag == "link")).flatMap (fun e =>
      if !cfg.captureAlternate && e.attr "rel" == some "alternate" then [] else optL (e.attr "href")) else []) ++
  (if enabled cfg "meta" then (els.filter (·.tag == "meta")).flatMap (fun e =>
      optL (e.attr "href") ++ (match e.attr "content" with | some v => if contains v "http" then [v] else [] | none => [])) else []) ++
  (if enabled cfg "source" then (els.filter (·.tag == "source")).flatMap (fun e =>
      optL (e.attr "src") ++ (match e.attr "srcset" with | some v => srcsetURLs v | none => []) ++
      (match e.attr "data-srcset" with | some v => srcsetURLs v | none => [])) else [])

/-! ### outlinks -/

def anchorLinkAttrs : List String := ["href", "data-href", "data-url", "data-link", "data-redirect-url", "ping", "router-link", "to"]

/-- raw anchor targets (the `onclick` heuristic is left to the oracle side: the generator does not use it) -/
def htmlOutlinks (cfg : Cfg) (els : List El) : List String :=
  if enabled cfg "a" then (els.filter (·.tag == "a")).flatMap (fun e =>
    anchorLinkAttrs.flatMap (fun a => match e.attr a with | some v => if v == "" then [] else [v] | none => []))
  else []

end Zeno.Model.Html
