import Zeno.Base.Queue
/-!
The local queue's consumer (`lq.consumerSender`): every URL it received from the claim buffer becomes an item and is either
inserted into the reactor (→ crawled) or, when its text cannot be parsed, sent straight to the finish channel (→ its row is
deleted without a fetch). Whether the "could not be parsed" flag belongs to one URL or survives from one URL to the next is a
fact read from the source (`lqDiscardFlagScope`); the model follows it.
-/
namespace Zeno.Model.Consumer
open Zeno

abbrev Facts := Zeno.Base.Queue.Facts

inductive Fate | inserted | finishedUnfetched
deriving DecidableEq, Repr

structure Claimed where
  id : String
  parsable : Bool
deriving DecidableEq, Repr

/-- the consumer loop over the URLs it takes from its buffer, with the state of the flag -/
def consume (F : Facts) : Bool → List Claimed → List (String × Fate)
  | _, [] => []
  | flag, u :: rest =>
    let start := if F.lqDiscardFlagScope == "perURL" then false else flag      -- a per-URL flag starts false for every URL
    let discard := start || !u.parsable
    let fate := if discard && F.lqUnparsableGoesToFinish then Fate.finishedUnfetched
                else if F.lqParsableGoesToReactor then Fate.inserted else Fate.finishedUnfetched
    (u.id, fate) :: consume F discard rest

end Zeno.Model.Consumer
