import Zeno.Base.Disk
/-!
Model of `checkThreshold` (internal/pkg/controler/watchers/disk.go), parameterised by the
facts extracted from the source.

Numbers: `total`, `free` are `uint64` in Go → `Nat` here; `minSpaceRequired` is a `float64` → the
exact rational it denotes. The float expressions of the function are exact on the ranges they
are used on (scalings by powers of two, a product of a < 2^39 integer by 25), which the
correspondence check validates; the model therefore computes the threshold in `Rat`.
`uint64(x)` for a float outside `[0, 2^64)` is implementation-defined in Go: modelled as `none`.
-/
namespace Zeno.Model.Disk
open Zeno

abbrev Facts := Zeno.Base.Disk.Facts

/-- the float threshold -/
def threshold (F : Facts) (total : Nat) (msr : Rat) : Rat :=
  if F.msrOp.eval msr 0 then msr * (F.msrScale : Rat)
  else if F.limitOp.eval total F.limitBytes then (F.smallNum : Rat) * ((total : Rat) / (F.smallDen : Rat))
  else (F.largeThreshold : Rat)

def two64 : Rat := 18446744073709551616

/-- `uint64(threshold)` resp. `uint64(math.Ceil(threshold))`; `none` when out of range -/
def toU64 (c : Conv) (x : Rat) : Option Nat :=
  if x < 0 ∨ two64 ≤ x then none else
  match c with
  | .trunc => some x.floor.toNat
  | .ceil => if two64 ≤ (x.ceil : Rat) then none else some x.ceil.toNat
  | .unknown => none

/-- `some true` = error returned (refuse / pause), `some false` = nil; `none` = conversion out of range -/
def refuse (F : Facts) (total free : Nat) (msr : Rat) : Option Bool :=
  match toU64 F.conv (threshold F total msr) with
  | none => none
  | some t => some (F.refuseInBranch && F.freeOp.eval free t)

/-- `low` = the decision of `checkThreshold` on the volume's current numbers (through
`CheckDiskUsage`, which passes statfs' block counts and the configured setting). One tick of
`WatchDiskSpace`: returns the new `paused` flag. -/
def tick (F : Facts) (paused low : Bool) : Bool :=
  if F.usageUsesConfigMsr && F.watchPausesOnErr && low && !paused then true
  else if F.usageUsesConfigMsr && F.watchResumesOnOk && !low && paused then false
  else paused

/-- the watcher over a sequence of observations (one per tick), starting unpaused -/
def watch (F : Facts) (lows : List Bool) : List Bool :=
  (lows.foldl (fun (acc : Bool × List Bool) low => let p := tick F acc.1 low; (p, acc.2 ++ [p])) (false, [])).2

/-! ### from the command line to the setting

`--min-space-required` is a float flag (cmd/get.go); `config.InitConfig` runs `handleFlagsAliases` on the
bound keys before unmarshalling. `given` is what the key holds then: the operator's value (flag, `ZENO_`
environment variable or config file) or the flag's declared default. -/

/-- `viper.GetInt` / `viper.GetFloat64` on the text of a float setting: `cast` turns an integral text
into that integer and any other decimal into 0 -/
def getAs (getter : String) (q : Rat) : Rat :=
  if getter == "GetFloat64" then q else if q.isInt then q else 0

/-- `handleFlagsAliases` on the key; `alias` is what the alias key ("msr") holds -/
def afterAliases (F : Facts) (given alias : Rat) : Rat :=
  if F.msrAliasRule == "copyAlias" then
    if getAs F.msrAliasGetter alias != F.msrAliasUnsetConst && getAs F.msrAliasGetter given == F.msrAliasKeyConst
    then getAs F.msrAliasGetter alias else given
  else given

/-- the setting that reaches `CheckDiskUsage` when the operator gives `v` (`none`: nothing given) and
does not use the alias key -/
def configured (F : Facts) (v : Option Rat) : Rat :=
  afterAliases F (v.getD F.msrFlagDefault) F.msrAliasDefault

end Zeno.Model.Disk
