import Zeno.Facts
/-!
`archiver.ProcessBody`, as translated statement by statement from the source (`Gen.Archiver.facts.processBody`): what happens to
the bytes of a response body. The WARC library records an exchange from what the crawler reads of it, so a response is captured
byte for byte only if `ProcessBody` has read the body to its end by the time it returns successfully.

`exec` runs a translated program on a body of `len` bytes without read errors; `drains` is the syntactic check "every way to a
successful return passes through a read-to-the-end, and nothing is opaque"; `drains_sound` (Proofs/Body.lean) connects the two.
-/
namespace Zeno.Model.Body
open Zeno

structure Env where
  noPost : Bool                      -- assets capture off, domains crawl off, max-hops 0
  mimePost : Bool                    -- the sniffed MIME type needs post-processing
  other : String → Bool              -- any other condition in the source
  len : Nat                          -- length of the body

/-- how a run of a block ends: fell through its end, returned nil, returned an error; with the bytes read so far and whether
the body was kept for post-processing. `none` = an opaque statement was met. -/
inductive Out
  | fell (read : Nat) (kept : Bool)
  | ok (read : Nat) (kept : Bool)
  | err
  | unknown
deriving DecidableEq, Repr

def BCond.eval (e : Env) : BCond → Bool
  | .noPostProcessing => e.noPost
  | .mimeNeedsPost => e.mimePost
  | .other s => e.other s

mutual
def _root_.Zeno.BStmt.exec (e : Env) (read : Nat) (kept : Bool) : BStmt → Out
  | .drain => .fell e.len kept
  | .spool => .fell e.len kept
  | .sniff n => .fell (min e.len (read + n)) kept
  | .keep => .fell read true
  | .skip _ => .fell read kept
  | .ret => .ok read kept
  | .retErr => .err
  | .opaque _ => .unknown
  | .ite c t f => if BCond.eval e c then t.exec e read kept else f.exec e read kept
def _root_.Zeno.BBlock.exec (e : Env) (read : Nat) (kept : Bool) : BBlock → Out
  | .nil => .fell read kept
  | .cons s rest =>
    match s.exec e read kept with
    | .fell r k => rest.exec e r k
    | o => o
end

/-- the whole function: falling off the end of the body is `return nil` -/
def run (p : BBlock) (e : Env) : Out :=
  match p.exec e 0 false with
  | .fell r k => .ok r k
  | o => o

mutual
/-- `s.drains d` : starting with "already read to the end" = `d`, is "read to the end" guaranteed at every successful return
inside `s`, is nothing opaque — and, third component, is it guaranteed after falling through `s` -/
def _root_.Zeno.BStmt.drains (d : Bool) : BStmt → Bool × Bool
  | .drain => (true, true)
  | .spool => (true, true)
  | .sniff _ => (true, d)
  | .keep => (true, d)
  | .skip _ => (true, d)
  | .ret => (d, true)            -- after a return nothing falls through: vacuous
  | .retErr => (true, true)
  | .opaque _ => (false, false)
  | .ite _ t f => let a := t.drains d; let b := f.drains d; (a.1 && b.1, a.2 && b.2)
def _root_.Zeno.BBlock.drains (d : Bool) : BBlock → Bool × Bool
  | .nil => (true, d)
  | .cons s rest => let a := s.drains d; let b := rest.drains a.2; (a.1 && b.1, b.2)
end

/-- every successful way out of the function has read the body to its end -/
def allPathsDrain (p : BBlock) : Bool := let a := p.drains false; a.1 && a.2

end Zeno.Model.Body
