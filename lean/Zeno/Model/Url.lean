import Zeno.Base.Url
/-!
Byte-level model of the query canonicalisation in pkg/models/url.go (`URLToString` →
`encodeQuery`) and of the guard sequence of `NormalizeURL`. Bytes are `Nat`s (< 256).
`net/url`'s escaping rules are modelled from its documented behaviour (query-component mode);
URL parsing proper (ada, `net/url`) is an oracle: the guards work on the parsed record.
-/
namespace Zeno.Model.Url
open Zeno

abbrev Facts := Zeno.Base.Url.Facts
abbrev Bytes := List Nat

def unreserved (c : Nat) : Bool :=
  (48 ≤ c && c ≤ 57) || (65 ≤ c && c ≤ 90) || (97 ≤ c && c ≤ 122) || c == 45 || c == 95 || c == 46 || c == 126

/-- upper-case hex digit of `d < 16` -/
def hexDigit (d : Nat) : Nat := if d < 10 then 48 + d else 55 + d

def unhex (c : Nat) : Option Nat :=
  if 48 ≤ c ∧ c ≤ 57 then some (c - 48)
  else if 65 ≤ c ∧ c ≤ 70 then some (c - 55)
  else if 97 ≤ c ∧ c ≤ 102 then some (c - 87)
  else none

/-- `url.QueryEscape` on one byte: unreserved bytes stay, space becomes `+`, the rest `%XX` -/
def escape1 (c : Nat) : Bytes :=
  if unreserved c then [c] else if c = 32 then [43] else [37, hexDigit (c / 16), hexDigit (c % 16)]

def queryEscape (b : Bytes) : Bytes := b.flatMap escape1

/-- `url.QueryUnescape`: `+` → space, `%XX` → byte, a `%` not followed by two hex digits is an error -/
def queryUnescape : Bytes → Option Bytes
  | [] => some []
  | c :: rest =>
    if c = 37 then
      match rest with
      | h :: l :: rest' =>
        match unhex h, unhex l with
        | some a, some b => (queryUnescape rest').map (fun r => (a * 16 + b) :: r)
        | _, _ => none
      | _ => none
    else if c = 43 then (queryUnescape rest).map (fun r => 32 :: r)
    else (queryUnescape rest).map (fun r => c :: r)

/-- split on a separator byte (never returns `[]`) -/
def splitOn (sep : Nat) : Bytes → List Bytes
  | [] => [[]]
  | c :: rest =>
    if c = sep then [] :: splitOn sep rest
    else match splitOn sep rest with
      | [] => [[c]]
      | x :: xs => (c :: x) :: xs

/-- `strings.Cut` at the first separator -/
def cut (sep : Nat) : Bytes → Bytes × Bytes
  | [] => ([], [])
  | c :: rest => if c = sep then ([], rest) else let (a, b) := cut sep rest; (c :: a, b)

/-- one `key=value` segment as `url.ParseQuery` reads it (errors drop the pair) -/
def parseSeg (seg : Bytes) : Option (Bytes × Bytes) :=
  if seg = [] then none
  else if 59 ∈ seg then none                       -- a `;` makes the pair invalid
  else
    let (k, v) := cut 61 seg
    match queryUnescape k, queryUnescape v with
    | some k', some v' => some (k', v')
    | _, _ => none

/-- the pairs of a raw query, **in order** -/
def parsePairs (q : Bytes) : List (Bytes × Bytes) := (splitOn 38 q).filterMap parseSeg

def encodePair (p : Bytes × Bytes) : Bytes := queryEscape p.1 ++ [61] ++ queryEscape p.2

def join (sep : Nat) : List Bytes → Bytes
  | [] => []
  | [x] => x
  | x :: y :: rest => x ++ sep :: join sep (y :: rest)

/-- `encodeQuery` walking the pairs in order -/
def encodePairs (ps : List (Bytes × Bytes)) : Bytes := join 38 (ps.map encodePair)

/-- the canonical query string of a raw query -/
def canonQuery (q : Bytes) : Bytes := encodePairs (parsePairs q)

/-! What ranging over a Go map does instead: keys come out in *some* order, the values of one key
stay together in order. `MapOrder ps qs` = `qs` is such a regrouping of `ps`. -/
def groupBy (ps : List (Bytes × Bytes)) (keys : List Bytes) : List (Bytes × Bytes) :=
  keys.flatMap (fun k => ps.filter (fun p => p.1 == k))

def MapOrder (ps qs : List (Bytes × Bytes)) : Prop :=
  ∃ keys : List Bytes, keys.Nodup ∧ (∀ p ∈ ps, p.1 ∈ keys) ∧ (∀ k ∈ keys, ∃ p ∈ ps, p.1 = k) ∧ qs = groupBy ps keys

/-! ### the guards of `NormalizeURL` on the parsed record (ada: protocol with colon, hostname) -/

inductive Verdict | ok | unsupportedScheme | unsupportedHost
deriving DecidableEq, Repr

def guard (F : Facts) (protocol hostname : String) : Verdict :=
  if !(F.schemes.contains protocol) then .unsupportedScheme
  else if F.rejectedHosts.contains hostname then .unsupportedHost
  else if F.requiresDot && !(hostname.toList.contains '.') then .unsupportedHost
  else .ok

end Zeno.Model.Url
