import Zeno.Base.Stats
/-!
Interleaving semantics of the translated stats primitives. A *thread* is the list of micro-ops it
still has to run (method calls already instantiated with their arguments and concatenated); a
*schedule* is the list of thread indices that take the next step. Cells hold `uint64` values
(arithmetic modulo 2^64).
-/
namespace Zeno.Model.Stats
open Zeno

abbrev Facts := Zeno.Base.Stats.Facts

def M : Nat := 18446744073709551616

/-- instantiated micro-op -/
inductive Instr
  | add (cell : String) (v : Nat)
  | read (cell : String)
  | set (cell : String) (v : Nat)
  | setLocal (cell : String)
  | swap (cell : String) (v : Nat)
  | rawRead (cell : String)
  | rawWrite (cell : String) (delta : Nat)
deriving DecidableEq, Repr

def _root_.Zeno.Val.eval (arg : Nat) : Val → Nat
  | .const n => n % M
  | .arg => arg % M
  | .negArg => (M - arg % M) % M

/-- instantiate one templated micro-op with the method's argument -/
def inst1 (arg : Nat) : TInstr → Instr
  | .add c v => .add c (v.eval arg)
  | .read c => .read c
  | .set c v => .set c (v.eval arg)
  | .setLocal c => .setLocal c
  | .swap c v => .swap c (v.eval arg)
  | .rawRead c => .rawRead c
  | .rawWrite c => .rawWrite c (arg % M)

/-- instantiate a method body with its argument (cells are the fields of one metric object) -/
def inst (arg : Nat) (prog : List TInstr) : List Instr := prog.map (inst1 arg)

abbrev Cells := String → Nat

def Cells.upd (m : Cells) (c : String) (v : Nat) : Cells := fun x => if x = c then v else m x

structure Thread where
  code : List Instr
  reg : Nat := 0        -- last value loaded (non-atomic reads, values kept for setLocal)
deriving Repr

structure St where
  cells : Cells
  threads : List Thread

/-- one micro-op -/
def exec (cells : Cells) (reg : Nat) : Instr → Cells × Nat
  | .add c v => (cells.upd c ((cells c + v) % M), reg)
  | .read c => (cells, cells c)
  | .set c v => (cells.upd c v, reg)
  | .setLocal c => (cells.upd c reg, reg)
  | .swap c v => (cells.upd c v, cells c)
  | .rawRead c => (cells, cells c)
  | .rawWrite c d => (cells.upd c ((reg + d) % M), reg)

/-- thread `i` takes its next step (no-op when it has finished or does not exist) -/
def step (s : St) (i : Nat) : St :=
  match s.threads[i]? with
  | some { code := ins :: rest, reg } =>
    let (cells', reg') := exec s.cells reg ins
    { cells := cells', threads := s.threads.set i { code := rest, reg := reg' } }
  | _ => s

def run (s : St) (sched : List Nat) : St := sched.foldl step s

def St.finished (s : St) : Bool := s.threads.all (fun t => t.code.isEmpty)

/-- does the instruction write cell `c`, and if so is it an atomic add? -/
def Instr.writes (c : String) : Instr → Bool
  | .add x _ | .set x _ | .setLocal x | .swap x _ | .rawWrite x _ => x == c
  | _ => false

def Instr.addTo (c : String) : Instr → Nat
  | .add x v => if x == c then v else 0
  | _ => 0

def Instr.isAddTo (c : String) : Instr → Bool
  | .add x _ => x == c
  | _ => false

/-- sum (mod-free) of the adds to `c` in a piece of code -/
def addsTo (c : String) (code : List Instr) : Nat := (code.map (Instr.addTo c)).sum

/-- every write to `c` in the code is an atomic add -/
def addOnly (c : String) (code : List Instr) : Bool := code.all (fun i => !i.writes c || i.isAddTo c)

/-- sequential execution of one thread's code (used by the driver: by the theorem, the final value of
an add-only cell does not depend on the interleaving) -/
def runSeq (cells : Cells) (code : List Instr) : Cells :=
  (code.foldl (fun (acc : Cells × Nat) i => exec acc.1 acc.2 i) (cells, 0)).1

/-! ### the calls goroutines make on the three kinds of metric -/

inductive RateCall | incr (n : Nat) | get | getTotal | reset
deriving Repr, DecidableEq
inductive CounterCall | incr (n : Nat) | decr (n : Nat) | get
deriving Repr, DecidableEq
inductive MeanCall | add (v : Nat) | get
deriving Repr, DecidableEq

def RateCall.code (F : Facts) : RateCall → List Instr
  | .incr n => inst n F.rate_incr
  | .get => inst 0 F.rate_get
  | .getTotal => inst 0 F.rate_getTotal
  | .reset => inst 0 F.rate_reset
def CounterCall.code (F : Facts) : CounterCall → List Instr
  | .incr n => inst n F.counter_incr
  | .decr n => inst n F.counter_decr
  | .get => inst 0 F.counter_get
def MeanCall.code (F : Facts) : MeanCall → List Instr
  | .add v => inst v F.mean_add
  | .get => inst 0 F.mean_get

/-- one goroutine per list of calls -/
def threadsOf {α} (code : α → List Instr) (ws : List (List α)) : List Thread :=
  ws.map (fun calls => { code := calls.flatMap code })

end Zeno.Model.Stats
