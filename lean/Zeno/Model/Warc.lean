import Zeno.Base.Archiver
import Zeno.Base.Queue
/-!
Ordering model for "finished implies captured" (C02 / C04) and the discard / retry decision tables
of the archiver (C02, C06).

Events of one job, in the order they become durable or observable. `written u` = the WARC library
has put the records of exchange `u` on disk and signalled the request's feedback channel (library
contract, validated end to end); the other events are Zeno's own steps, each with a guard that is a
*fact* read from the source.
-/
namespace Zeno.Model.Warc
open Zeno

abbrev AF := Zeno.Base.Archiver.Facts
abbrev QF := Zeno.Base.Queue.Facts

inductive Ev
  | written (u : Nat)       -- records of exchange u on disk (feedback signalled)
  | archived (u : Nat)      -- archive() set ItemArchived on the node of exchange u
  | settled (u : Nat)       -- archive() left the attempt u that got a response but ends in "retry" or "retries exceeded"
  | notify (seed : Nat)     -- the finisher handed the seed to the source's finish channel
  | deleted (seed : Nat)    -- the queue row of the seed was deleted (finish acknowledged)
deriving DecidableEq, Repr

/-- `fetched s` = the exchanges of seed `s` that got a response the discard policy accepts: the final,
successful attempt of a node (ends with `archived`) and the attempts that end in a retry or in "retries
exceeded" (end with `settled`). Guards:
* `archived u` needs `written u` before it — when the source waits on the feedback channel before
  `SetStatus(ItemArchived)` and WARC writing is synchronous;
* `settled u` needs `written u` before it — when the retry / give-up exits wait on the feedback channel too;
* `notify s` needs every exchange of `s` archived or settled (archive() returns only when all its goroutines
  are done; the finisher notifies only a complete seed, after `MarkAsFinished`);
* `deleted s` needs `notify s` (the queue's finisher deletes what arrives on the finish channel). -/
def guard (A : AF) (Q : QF) (sync : Bool) (fetched : Nat → List Nat) (pre : List Ev) : Ev → Bool
  | .written _ => true
  | .archived u => if sync && A.feedbackChanUnlessAsync && A.feedbackAwaitedBeforeArchived then pre.contains (.written u) else true
  | .settled u => if sync && A.feedbackChanUnlessAsync && A.failedAttemptsAwaitFeedback then pre.contains (.written u) else true
  | .notify s => if Q.finishNotifiesAfterMark then (fetched s).all (fun u => pre.contains (.archived u) || pre.contains (.settled u)) else true
  | .deleted s => pre.contains (.notify s)

/-- every event of the log satisfied its guard when it happened -/
def admissible (A : AF) (Q : QF) (sync : Bool) (fetched : Nat → List Nat) (pre : List Ev) : List Ev → Bool
  | [] => true
  | e :: rest => guard A Q sync fetched pre e && admissible A Q sync fetched (pre ++ [e]) rest

/-! ### decision tables of the archiver -/

/-- is the response discarded (never written)? first matching hook wins -/
def discarded (A : AF) (status : Nat) (cfMitigatedChallenge : Bool) (discardList : List Nat) : Bool :=
  A.discardHookWired &&
  ((A.cloudflareRule && status == 403 && cfMitigatedChallenge) ||
   (A.discardStatusRule && !discardList.isEmpty && discardList.contains status))

def isChallenge (A : AF) (status : Nat) (cfMitigatedChallenge : Bool) : Bool :=
  A.discardHookWired && A.cloudflareRule && status == 403 && cfMitigatedChallenge

/-- is the attempt retried (or, on the last attempt, failed)? -/
def retried (A : AF) (status : Nat) (cfMitigatedChallenge : Bool) : Bool :=
  A.badStatusFromOp.eval status 500 || A.badStatusList.contains status ||
  (A.challengePagesRetried && isChallenge A status cfMitigatedChallenge)

/-- number of attempts for a URL whose every attempt is retried: the loop `for retry := 0; retry OP MaxRetry; retry++` -/
def attempts (A : AF) (maxRetry : Nat) : Nat :=
  ((List.range (maxRetry + 2)).filter (fun r => A.retryLoopOp.eval r maxRetry)).length

/-! ### one visit of a URL: the retry loop of `archive()` -/

/-- what the site does on one attempt -/
inductive Attempt
  | netErr                                      -- no response (reset, timeout, DNS, …)
  | resp (status : Nat) (challenge : Bool)      -- a response
deriving DecidableEq, Repr

inductive VisitEnd
  | failed                      -- retries exhausted: the node is Failed
  | ok (status : Nat)           -- a response that is kept: the node goes on to body processing
  | fellThrough                 -- the loop ended by its own condition (never happens with consistent operators)
deriving DecidableEq, Repr

/-- `for retry := 0; retry LOOPOP MaxRetry; retry++ { one request; on error or bad status: if retry INNEROP MaxRetry
{ continue } else { Failed; return } ; break }`; `n` counts the requests sent. -/
def visitFrom (A : AF) (maxRetry : Nat) (site : Nat → Attempt) : (fuel r n : Nat) → Nat × VisitEnd
  | 0, _, n => (n, .fellThrough)
  | fuel + 1, r, n =>
    if !(A.retryLoopOp.eval r maxRetry) then (n, .fellThrough) else
    let again := A.retryInnerOp.eval r maxRetry
    match site n with
    | .netErr => if again then visitFrom A maxRetry site fuel (r + 1) (n + 1) else (n + 1, .failed)
    | .resp st ch =>
      if retried A st ch then (if again then visitFrom A maxRetry site fuel (r + 1) (n + 1) else (n + 1, .failed))
      else (n + 1, .ok st)

def visit (A : AF) (maxRetry : Nat) (site : Nat → Attempt) : Nat × VisitEnd :=
  if A.retryStartsAtZero && A.retryIncrements && A.retryCounterOnlyInHeader && A.oneRequestPerIteration
  then visitFrom A maxRetry site (maxRetry + 2) 0 0
  else (0, .fellThrough)

end Zeno.Model.Warc
