import Zeno.Base.Containment
import Zeno.Base.Stages
/-!
Containment of whatever a server-controlled body, header or URL makes a parser do. A library call on such input
returns normally, returns an error, or panics; the model says what that costs, according to shapes of the source.
-/
namespace Zeno.Model.Contain
open Zeno

abbrev CF := Zeno.Base.Containment.Facts
abbrev SF := Zeno.Base.Stages.Facts

/-- what a parser does with the input it is given -/
inductive Raised | nothing | error | panic
deriving DecidableEq, Repr

/-- what it costs -/
inductive Cost
  | none                 -- links extracted, the URL goes on
  | thisURL (what : String)   -- an error is logged / the node fails or is dropped: fewer links, nothing else
  | crawler (what : String)   -- the process dies
deriving DecidableEq, Repr

/-- a dispatcher (`extractAssets` / `extractOutlinks`) around the parsers it calls -/
def dispatcher (recovers errLogged : Bool) (name : String) : Raised → Cost
  | .nothing => .none
  | .error => if errLogged then .thisURL (name ++ ": error logged, no links") else .crawler (name ++ ": error is fatal")
  | .panic => if recovers then (if errLogged then .thisURL (name ++ ": panic turned into an error") else .crawler (name ++ ": error is fatal"))
              else .crawler (name ++ ": panic not recovered")

def worst : Cost → Cost → Cost
  | .crawler w, _ => .crawler w
  | _, .crawler w => .crawler w
  | .thisURL w, _ => .thisURL w
  | _, .thisURL w => .thisURL w
  | .none, .none => .none

/-- `postprocessItem` on one fetched URL: asset extraction, then outlink extraction -/
def postprocessItem (C : CF) (assets outlinks : Raised) : Cost :=
  worst (dispatcher C.assetsRecover C.assetsErrorLoggedNotFatal "assets" assets)
        (dispatcher C.outlinksRecover C.outlinksErrorLoggedNotFatal "outlinks" outlinks)

/-- body processing in the archiver and URL normalisation in the preprocessor only ever return errors (no panic site);
an error fails the item / removes the child -/
def processBody (C : CF) : Raised → Cost
  | .nothing => .none
  | .error => if C.processBodyErrorFailsItem then .thisURL "item Failed" else .crawler "error is fatal"
  | .panic => .crawler "panic not recovered"

def normalise (C : CF) (S : SF) : Raised → Cost
  | .nothing => .none
  | .error => if C.normaliserReturnsErrors && S.preSeedNormErrorFails && S.preChildNormErrorRemoves then .thisURL "seed Failed / child removed"
              else .crawler "error is fatal"
  | .panic => .crawler "panic not recovered"

end Zeno.Model.Contain
