import Zeno.Base.Archiver
import Zeno.Base.Stages
import Zeno.Base.Pause
import Zeno.Base.Pipeline
/-!
The graceful stop as decision logic: `controler.Stop()` runs the stop functions of the components in a
fixed order; each one either returns, crashes (a nil dereference on a path a configuration makes
reachable) or hangs (a worker blocked where a stop request cannot reach it). Which of these happens
in which configuration is determined by shapes of the source, read as facts. Also the start-up path
that a configuration switch makes crash (`--disable-seencheck`), because "a stop returns without
crashing" presupposes that the crawler survived until the stop.
-/
namespace Zeno.Model.Stop
open Zeno

abbrev AF := Zeno.Base.Archiver.Facts
abbrev SF := Zeno.Base.Stages.Facts
abbrev UF := Zeno.Base.Pause.Facts
abbrev PF := Zeno.Base.Pipeline.Facts

/-- the configuration matrix of the property -/
structure Cfg where
  proxy : Bool := false
  asyncWarc : Bool := false
  rateLimit : Bool := false
  seencheck : Bool := true
  useHQ : Bool := false
  workers : Nat := 1
  poolSize : Nat := 1
deriving Repr, DecidableEq

/-- the moment the stop request arrives -/
inductive Moment
  | idle | beforeFirstFetch | midFetch | betweenStages | paused | drained
  | pausedByDiskWatcher       -- the crawler's own disk watcher holds the pipeline paused and the volume is still full
  | pausedByWarcWatcher       -- the WARC-queue watcher holds the pipeline paused
  | sourceBlockedOnInsert     -- every token is in use and the source is blocked handing the next seed to the reactor
deriving Repr, DecidableEq

def Moment.isPaused : Moment → Bool
  | .paused | .pausedByDiskWatcher | .pausedByWarcWatcher => true
  | _ => false

inductive Outcome
  | returned                -- every component stopped, WARC clients closed
  | crash (what : String)
  | hang (what : String)
deriving Repr, DecidableEq

/-- processing the first seed: `preprocess` consults the local seen-store, which start-up opens only when
seencheck is enabled and HQ is not used -/
def firstSeed (S : SF) (c : Cfg) : Outcome :=
  let opened := c.seencheck && !c.useHQ
  let consulted := !c.useHQ && (S.preSeencheckGuard == "always" || c.seencheck)
  if consulted && !opened then .crash "nil seen-store in preprocess" else .returned

/-- a stage worker at the moment of the stop: blocked in the pause handshake it honours the stop only if the
handshake is a select with the context; blocked on a hand-over nobody takes any more (the next stage is paused or
already stopped) it honours the stop only if that send is a select with the context -/
def workerStop (ack : String) (sendsCancellable : Bool) (m : Moment) : Outcome :=
  if m.isPaused && ack != "cancellable" then .hang "worker blocked on the resume channel"
  else if (m.isPaused || m == .betweenStages || m == .midFetch || m == .sourceBlockedOnInsert) && !sendsCancellable then .hang "worker blocked on a send the stop cannot reach"
  else .returned

/-- `archiver.Stop()`: cancel, wait for the workers, wait for the WARC writers of each client, close it -/
def archiverStop (A : AF) (U : UF) (P : PF) (c : Cfg) (m : Moment) : Outcome :=
  match workerStop U.archiverAck P.archSendsCancellable m with
  | .returned =>
    if !A.stopCancelsThenWaits then .hang "waits before cancelling" else
    if m == .midFetch && !P.archiveWaitsForItsCaptures then .crash "the WARC client is closed under captures archive() did not wait for" else
    if A.stopClients == "nilSafe" then (if A.stopClosesAfterWriters then .returned else .crash "closes a client that is still writing")
    else if A.stopClients == "derefsDirectClient" then
      (if c.proxy then .crash "nil dereference of the direct client (only the proxied one exists)" else
       if A.stopClosesAfterWriters then .returned else .crash "closes a client that is still writing")
    else .crash "unknown Stop shape"
  | o => o

def andThen (a : Outcome) (b : Outcome) : Outcome := match a with | .returned => b | o => o

/-- does a watcher goroutine of this shape return once its context is cancelled? `returns`: at once; `returnsSecondRound`: the cancelled
context fires a second time and that round returns; anything else may wait for the condition it paused the pipeline for -/
def watcherReturns (shape : String) : Bool := shape == "returns" || shape == "returnsSecondRound"

/-- `StopDiskWatcher()` and `StopWARCWritingQueueWatcher()`: cancel, then wait for the goroutine -/
def watchersStop (P : PF) (m : Moment) : Outcome :=
  if m == .pausedByDiskWatcher && !watcherReturns P.diskWatcherOnStop then
    .hang "the disk watcher holds the pipeline paused and waits for free space before it returns"
  else if m == .pausedByWarcWatcher && !watcherReturns P.warcWatcherOnStop then
    .hang "the WARC-queue watcher holds the pipeline paused and waits for the queue to shrink before it returns"
  else if P.diskWatcherOnStop == "missing" || P.warcWatcherOnStop == "missing" then .hang "watcher shape not recognised"
  else .returned

/-- the source (`lq.Stop()` / `hq.Stop()`) waits for its consumer, which may sit in `reactor.ReceiveInsert` waiting for a token: only
`Freeze()` (called before) can wake it, and only if that wait also listens to the freeze context -/
def sourceStop (P : PF) (m : Moment) : Outcome :=
  if m == .sourceBlockedOnInsert && !P.insertWaitWokenByFreeze then .hang "the source's consumer is blocked in ReceiveInsert and Freeze does not wake it"
  else .returned

/-- `stopPipeline()`: stop the watchers, freeze the reactor, stop the four stages, the seen-store, the source, the reactor -/
def stopPipeline (A : AF) (U : UF) (P : PF) (c : Cfg) (m : Moment) : Outcome :=
  if !P.stopOrderFreezeStagesSourceReactor then .hang "a stage is stopped after the component it hands its seeds to" else
  andThen (watchersStop P m) <|
  andThen (workerStop U.preprocessorAck P.preSendsCancellable m) <|
  andThen (archiverStop A U P c m) <|
  andThen (workerStop U.postprocessorAck P.postSendsCancellable m) <|
  andThen (workerStop U.finisherAck true m) <|
  sourceStop P m

/-- a whole run that survives until the stop request and then stops -/
def runAndStop (A : AF) (S : SF) (U : UF) (P : PF) (c : Cfg) (m : Moment) : Outcome :=
  andThen (if m == .idle then .returned else firstSeed S c) (stopPipeline A U P c m)

end Zeno.Model.Stop
