/-!
Reference resolution as the URL standard prescribes it for http(s) URLs (RFC 3986 §5.2, which the WHATWG
parser agrees with on the grammar used here): a reference — absolute, scheme-relative, path-absolute,
path-relative with dot segments, query-only, empty — is resolved against an absolute base.

This is the *reference* the real normaliser (ada behind `NormalizeURL`) is compared with on generated
inputs; the theorems say what "as the URL standard prescribes" means structurally. Paths are kept as the
list of their `/`-separated segments: `""` ↦ `[""]`, `"/a/b"` ↦ `["", "a", "b"]`, `"a/"` ↦ `["a", ""]`.
-/
namespace Zeno.Model.Resolve

structure Ref where
  scheme : Option String := none
  auth : Option String := none
  path : List String := [""]
  query : Option String := none
deriving DecidableEq, Repr

/-! ### dot segments -/

/-- drop the last segment of the output, never the root marker -/
def pop (out : List String) : List String := if out.length ≤ 1 then out else out.dropLast

/-- RFC 3986 §5.2.4 on segments: `out` is the output buffer (it starts with the root marker `""`) -/
def rdGo : List String → List String → List String
  | out, [] => out
  | out, [s] => if s == "." then out ++ [""] else if s == ".." then pop out ++ [""] else out ++ [s]
  | out, s :: t :: rest =>
    if s == "." then rdGo out (t :: rest)
    else if s == ".." then rdGo (pop out) (t :: rest)
    else rdGo (out ++ [s]) (t :: rest)

/-- `remove_dot_segments` of an absolute path; a relative path is left alone (it never reaches a request) -/
def removeDots : List String → List String
  | "" :: rest => if rest.isEmpty then [""] else rdGo [""] rest
  | p => p

/-! ### merge and resolve (RFC 3986 §5.2.2, §5.2.3) -/

/-- all but the last segment of the base path, then the reference's path -/
def merge (base : Ref) (rpath : List String) : List String :=
  if base.auth.isSome && (base.path == [""] ) then "" :: rpath
  else base.path.dropLast ++ rpath

/-- an http(s) URL never has an empty path -/
def rootIfEmpty (p : List String) : List String := if p == [""] then ["", ""] else p

def resolve (b r : Ref) : Ref :=
  if r.scheme.isSome then { r with path := rootIfEmpty (removeDots r.path) }
  else if r.auth.isSome then { scheme := b.scheme, auth := r.auth, path := rootIfEmpty (removeDots r.path), query := r.query }
  else if r.path == [""] then
    { scheme := b.scheme, auth := b.auth, path := rootIfEmpty (removeDots b.path), query := if r.query.isSome then r.query else b.query }
  else if r.path.head? == some "" then
    { scheme := b.scheme, auth := b.auth, path := rootIfEmpty (removeDots r.path), query := r.query }
  else { scheme := b.scheme, auth := b.auth, path := rootIfEmpty (removeDots (merge b r.path)), query := r.query }

/-! ### text ↔ record, for the generated grammar (no userinfo, no fragment in results) -/

def splitOnChar (c : Char) : List Char → List (List Char)
  | [] => [[]]
  | x :: rest =>
    if x == c then [] :: splitOnChar c rest
    else match splitOnChar c rest with
      | [] => [[x]]
      | y :: ys => (x :: y) :: ys

def cutAt (c : Char) : List Char → List Char × Option (List Char)
  | [] => ([], none)
  | x :: rest => if x == c then ([], some rest) else let (a, b) := cutAt c rest; (x :: a, b)

def isSchemeChar (c : Char) : Bool := c.isAlphanum || c == '+' || c == '-' || c == '.'

/-- `scheme:` at the start of a reference: a letter, then scheme characters, then `:` before any `/`, `?` -/
def takeScheme (s : List Char) : Option String × List Char :=
  match cutAt ':' s with
  | (pre, some rest) =>
    if !pre.isEmpty && pre.head!.isAlpha && pre.all isSchemeChar then (some (String.ofList pre).toLower, rest) else (none, s)
  | _ => (none, s)

def parse (text : String) : Ref :=
  let s := (cutAt '#' text.toList).1
  let (beforeQ, q) := cutAt '?' s
  let (scheme, rest) := takeScheme beforeQ
  let (auth, pathChars) :=
    match rest with
    | '/' :: '/' :: r =>
      let a := r.takeWhile (· != '/')
      (some (String.ofList a), r.dropWhile (· != '/'))
    | _ => (none, rest)
  { scheme := scheme, auth := auth, path := (splitOnChar '/' pathChars).map String.mk, query := q.map String.ofList }

def render (r : Ref) : String :=
  (match r.scheme with | some s => s ++ ":" | none => "") ++
  (match r.auth with | some a => "//" ++ a | none => "") ++
  "/".intercalate r.path ++
  (match r.query with | some q => "?" ++ q | none => "")

/-- what the normaliser should answer for reference `raw` found on page `base` -/
def resolveText (base raw : String) : String := render (resolve (parse base) (parse raw))

end Zeno.Model.Resolve
