import Zeno.Model.Stages
import Zeno.Base.Pipeline
/-!
The pipeline as a transition system over the seeds in flight: each accepted seed is in exactly one
place (waiting in the reactor, or held by the preprocessor, archiver, postprocessor or finisher); a
stage hands the seed on after transforming its tree in an arbitrary way; the finisher decides with
`Stages.finisher` (Fresh → produced as a new seed, incomplete → back to the reactor as feedback,
complete → marked finished and acknowledged to the queue). Every interleaving of the workers is a
sequence of events; every site behaviour is a choice of the trees in `advance`.
-/
namespace Zeno.Model.Pipeline
open Zeno Zeno.Model.Item Zeno.Model.Stages

abbrev PF := Zeno.Base.Pipeline.Facts

inductive Place | reactorQ | pre | arch | post | fin
deriving DecidableEq, Repr

def Place.next : Place → Place
  | .reactorQ => .pre | .pre => .arch | .arch => .post | .post => .fin | .fin => .fin

structure Item where
  id : String
  place : Place
  tree : Tree

structure State where
  items : List Item := []
  acks : List (String × Tree) := []       -- acknowledgements sent to the queue, with the tree as it was then
  produced : List String := []            -- fresh seeds handed to the queue as new URLs
  passes : List String := []              -- ids in the order they were sent round again (feedback)
  accepted : List String := []            -- ids in the order the reactor accepted them from the queue
  frozen : Bool := false                  -- the reactor was frozen (first step of a stop)
  parked : List String := []              -- seeds refused as feedback by the frozen reactor: they stay in its state
                                          -- table and are handed back to the queue (reset) when the source stops

inductive Ev
  | accept (id : String) (t : Tree)        -- the reactor accepts a seed from the queue
  | advance (id : String) (t' : Tree)      -- the stage holding the seed hands it on with its tree transformed
  | finish (id : String)                   -- a finisher worker handles the seed it received
  | freeze                                 -- `reactor.Freeze()`
deriving Inhabited

def ids (s : State) : List String := s.items.map (·.id)

/-- what the finisher worker does with a seed, according to the source facts -/
def finStep (P : PF) (I : IF) (s : State) (it : Item) (rest : List Item) : State :=
  match finisher I it.tree with
  | (t', .produce) =>
    if P.finFreshGoesToProduce then { s with items := rest, produced := it.id :: s.produced }
    else { s with items := rest }
  | (t', .feedback) =>
    if P.finIncompleteGoesToFeedback then
      if s.frozen then { s with items := rest, parked := it.id :: s.parked }    -- ErrReactorFrozen: neither fed back nor reported
      else { s with items := { it with place := .reactorQ, tree := t' } :: rest, passes := it.id :: s.passes }
    else { s with items := rest }
  | (t', .finish) =>
    if P.finCompleteMarksThenNotifies && P.finNotifyUnconditional then { s with items := rest, acks := (it.id, t') :: s.acks }
    else { s with items := rest }

def step (P : PF) (I : IF) (s : State) : Ev → State
  | .freeze => { s with frozen := true }
  | .accept id t =>
    if (ids s).contains id || s.frozen then s      -- the reactor refuses an id it already tracks, and everything once frozen
    else { s with items := { id := id, place := .reactorQ, tree := t } :: s.items, accepted := id :: s.accepted }
  | .advance id t' =>
    { s with items := s.items.map (fun it => if it.id == id && it.place != .fin then { it with place := it.place.next, tree := t' } else it) }
  | .finish id =>
    match s.items.find? (fun it => it.id == id && it.place == .fin) with
    | none => s
    | some it => finStep P I s it (s.items.filter (fun x => !(x.id == id)))

def run (P : PF) (I : IF) (s : State) (evs : List Ev) : State := evs.foldl (step P I) s

end Zeno.Model.Pipeline
