import Zeno.Model.Stages
/-!
The life of one seed: pass after pass through preprocess → archive → postprocess → finisher, each pass with
its own, arbitrary, oracles (what the normaliser, the site and the extractors answer then). This is the
composition the pipeline performs on a seed between its acceptance by the reactor and its acknowledgement
to the queue (`Model/Pipeline.lean` abstracts a stage to "hands the tree on, transformed"; here the
transformation is the stage model itself).
-/
namespace Zeno.Model.Life
open Zeno Zeno.Model.Item Zeno.Model.Stages

/-- everything external one pass depends on -/
structure Oracle where
  norm : String → Option NormRes := fun _ => none
  srv : String → Option Outcome := fun _ => none
  ex : String → Extract := fun _ => {}

structure PassOut where
  tree : Tree
  seen : Seen
  outlinks : List Outlink
  pre : PreOut
  act : FinAct

/-- one trip round the pipeline -/
def pass (S : SF) (I : IF) (cfg : Cfg) (o : Oracle) (seen : Seen) (t : Tree) : PassOut :=
  let p := preprocess S I cfg o.norm seen t
  let a := archive o.srv p.1
  let q := postprocess S cfg o.ex a
  let f := finisher I q.1
  { tree := f.1, seen := p.2.1, outlinks := q.2, pre := p.2.2, act := f.2 }

/-- the seed goes round until the finisher lets it go (or the list of oracles is exhausted):
number of passes made, and the final tree when the seed left the pipeline -/
def life (S : SF) (I : IF) (cfg : Cfg) : List Oracle → Seen → Tree → Nat × Option Tree
  | [], _, _ => (0, none)
  | o :: os, seen, t =>
    let r := pass S I cfg o seen t
    if r.act == .feedback then
      let rest := life S I cfg os r.seen r.tree
      (rest.1 + 1, rest.2)
    else (1, some r.tree)

end Zeno.Model.Life
