import Zeno.Model.RateLimiter
import Zeno.Base.RateProg
/-!
Executable semantics of the token-bucket methods *as translated from the source* (`Gen.RateProg.facts`, produced statement by
statement by tools/facts/sec_arith.go). `Proofs/RateProg.lean` proves that running the translated `refill`, `Wait` attempt,
`adjustOnFailure` and `onSuccess` gives exactly the hand-written model functions of `Model/RateLimiter.lean` for every bucket,
time and status, so the C13 theorems speak about the code as it is written now.

Numbers: `float64`, `time.Time` and `time.Duration` values are exact rationals (seconds), `int` values are integers.
`none` = the program contains something the translator did not understand, reads a name that does not exist, or stores a
negative failure count.
-/
namespace Zeno.Model.RateProg
open Zeno Zeno.Model.RateLimiter

abbrev Progs := Zeno.Base.RateProg.Facts

/-- truncation toward zero of a float holding nanoseconds, as `time.Duration(x)` does; out of the int64 range the
conversion is implementation-specific (amd64: the most negative value) -/
def truncNs (x : Rat) : Int :=
  let t : Int := if 0 ≤ x then x.floor else -((-x).floor)
  if t < -9223372036854775808 ∨ 9223372036854775808 ≤ t then -9223372036854775808 else t

def getF (b : TB) : Fld → Option Rat
  | .tokens => some b.tokens
  | .capacity => some b.cap
  | .refillRate => some b.rate
  | .idealRate => some b.ideal
  | .lastRefill => some b.last
  | .penaltyUntil => some b.pen
  | _ => none

def setF (b : TB) (f : Fld) (v : Rat) : Option TB :=
  match f with
  | .tokens => some { b with tokens := v }
  | .capacity => some { b with cap := v }
  | .refillRate => some { b with rate := v }
  | .idealRate => some { b with ideal := v }
  | .lastRefill => some { b with last := v }
  | .penaltyUntil => some { b with pen := v }
  | _ => none

def getI (b : TB) : Fld → Option Int
  | .failureCount => some (b.fails : Int)
  | _ => none

def setI (b : TB) (f : Fld) (v : Int) : Option TB :=
  match f with
  | .failureCount => if 0 ≤ v then some { b with fails := v.toNat } else none
  | _ => none

structure Env where
  b : TB
  now : Rat
  params : Nat → Option Int
  locals : Nat → Option Rat
  result : Option Bool := none     -- for methods returning `error`: `some true` = an error was returned

def _root_.Zeno.IExp.eval (e : Env) : IExp → Option Int
  | .lit n => some n
  | .fld f => getI e.b f
  | .param p => e.params p
  | .add a b => do let x ← a.eval e; let y ← b.eval e; pure (x + y)
  | .sub a b => do let x ← a.eval e; let y ← b.eval e; pure (x - y)
  | .unknown _ => none

def _root_.Zeno.RExp.eval (e : Env) : RExp → Option Rat
  | .lit q => some q
  | .fld f => getF e.b f
  | .loc x => e.locals x
  | .now => some e.now
  | .add a b => do let x ← a.eval e; let y ← b.eval e; pure (x + y)
  | .sub a b => do let x ← a.eval e; let y ← b.eval e; pure (x - y)
  | .mul a b => do let x ← a.eval e; let y ← b.eval e; pure (x * y)
  | .div a b => do let x ← a.eval e; let y ← b.eval e; pure (x / y)
  | .ceil a => do let x ← a.eval e; pure ((x.ceil : Int) : Rat)
  | .u64 a => do let x ← a.eval e; if x < 0 ∨ (18446744073709551616 : Rat) ≤ x then none else pure ((x.floor : Int) : Rat)
  | .min a b => do let x ← a.eval e; let y ← b.eval e; pure (min x y)
  | .max a b => do let x ← a.eval e; let y ← b.eval e; pure (max x y)
  | .pow base ie => do let n ← IExp.eval e ie; if 0 ≤ n then pure (base ^ n.toNat) else none
  | .ofInt ie => do let n ← IExp.eval e ie; pure (n : Rat)
  | .durOfNs a => do let x ← a.eval e; pure (nsToSec (truncNs x))
  | .unknown _ => none

def _root_.Zeno.CExp.eval (e : Env) : CExp → Option Bool
  | .cmpR op a b => do let x ← RExp.eval e a; let y ← RExp.eval e b; pure (op.eval x y)
  | .cmpI op a b => do let x ← IExp.eval e a; let y ← IExp.eval e b; pure (op.eval x y)
  | .and a b => do let x ← a.eval e; if x then b.eval e else pure false
  | .or a b => do let x ← a.eval e; if x then pure true else b.eval e
  | .not a => do let x ← a.eval e; pure (!x)
  | .unknown _ => none

/-- how a block ends -/
inductive Out
  | fell (e : Env)        -- reached its end
  | returned (e : Env)    -- executed `return`
  | bad                   -- opaque statement, unknown name, …

def setLocal (e : Env) (x : Nat) (v : Rat) : Env :=
  { e with locals := fun y => if y = x then some v else e.locals y }

mutual
/-- `callee b now` = what calling `refill` on the bucket does (given from outside: no recursion) -/
def _root_.Zeno.AStmt.exec (callee : TB → Rat → Option TB) (e : Env) : AStmt → Out
  | .setF f x => match RExp.eval e x with
    | some v => match setF e.b f v with
      | some b' => .fell { e with b := b' }
      | none => .bad
    | none => .bad
  | .setI f x => match IExp.eval e x with
    | some v => match setI e.b f v with
      | some b' => .fell { e with b := b' }
      | none => .bad
    | none => .bad
  | .setL x v => match RExp.eval e v with
    | some q => .fell (setLocal e x q)
    | none => .bad
  | .ite c t f => match CExp.eval e c with
    | some true => t.exec callee e
    | some false => f.exec callee e
    | none => .bad
  | .ret => .returned e
  | .retNil => .returned { e with result := some false }
  | .retErr => .returned { e with result := some true }
  | .lock => .fell e
  | .unlock => .fell e
  | .deferUnlock => .fell e
  | .sleep => .fell e
  | .callRefill => match callee e.b e.now with
    | some b' => .fell { e with b := b' }
    | none => .bad
  | .opaque _ => .bad
def _root_.Zeno.ABlock.exec (callee : TB → Rat → Option TB) (e : Env) : ABlock → Out
  | .nil => .fell e
  | .cons s rest =>
    match s.exec callee e with
    | .fell e' => rest.exec callee e'
    | o => o
end

def noCallee : TB → Rat → Option TB := fun _ _ => none

/-- run a method body on bucket `b` at time `now`: the bucket afterwards, and whether it ended by `return` -/
def runMethod (callee : TB → Rat → Option TB) (p : ABlock) (b : TB) (now : Rat) (params : Nat → Option Int) :
    Option (TB × Bool) :=
  match p.exec callee { b := b, now := now, params := params, locals := fun _ => none } with
  | .fell e => some (e.b, false)
  | .returned e => some (e.b, true)
  | .bad => none

def runRefill (P : Progs) (b : TB) (now : Rat) : Option TB := (runMethod noCallee P.refill b now (fun _ => none)).map (·.1)

/-- one attempt of `Wait()`: bucket afterwards, and whether the attempt returned (a request is released) -/
def runWaitAttempt (P : Progs) (b : TB) (now : Rat) : Option (TB × Bool) := runMethod (runRefill P) P.waitAttempt b now (fun _ => none)

def runOnFailure (P : Progs) (b : TB) (now : Rat) (status : Nat) : Option TB :=
  (runMethod (runRefill P) P.adjustOnFailure b now (fun i => if i = 0 then some (status : Int) else none)).map (·.1)

def runOnSuccess (P : Progs) (b : TB) (now : Rat) : Option TB := (runMethod (runRefill P) P.onSuccess b now (fun _ => none)).map (·.1)

/-- `newTokenBucket(capacity, refillRate)` at time `now` -/
def runNew (P : Progs) (cap rate now : Rat) : Option TB :=
  let e : Env := { b := TB.new 0 0 0, now := now, params := fun _ => none, locals := fun i => if i = 0 then some cap else if i = 1 then some rate else none }
  P.newBucket.foldl (fun acc (fv : Fld × RExp) => do
      let b ← acc
      let v ← RExp.eval e fv.2
      setF b fv.1 v) (some { (TB.new 0 0 0) with pen := now })

/-- one event at time `now`, executed by the translated methods; the Bool says whether a request was released -/
def stepProg (P : Progs) (b : TB) (now : Rat) : Ev → Option (TB × Bool)
  | .try => runWaitAttempt P b now
  | .fail st => (runOnFailure P b now st).map (·, false)
  | .ok => (runOnSuccess P b now).map (·, false)

/-- a timed event list executed by the translated methods: final bucket and number of releases -/
def runProg (P : Progs) : TB → List (Rat × Ev) → Option (TB × Nat)
  | b, [] => some (b, 0)
  | b, (t, e) :: rest =>
    match stepProg P b t e with
    | none => none
    | some (b', rel) =>
      match runProg P b' rest with
      | none => none
      | some (b'', n) => some (b'', n + (if rel then 1 else 0))

/-! ### lock discipline: every access to the bucket's fields happens while its mutex is held -/

def _root_.Zeno.IExp.touches : IExp → Bool
  | .fld _ => true
  | .add a b | .sub a b => a.touches || b.touches
  | _ => false

def _root_.Zeno.RExp.touches : RExp → Bool
  | .fld _ => true
  | .add a b | .sub a b | .mul a b | .div a b | .min a b | .max a b => a.touches || b.touches
  | .ceil a | .u64 a => a.touches
  | .pow _ e | .ofInt e => IExp.touches e
  | .durOfNs a => a.touches
  | _ => false

def _root_.Zeno.CExp.touches : CExp → Bool
  | .cmpR _ a b => RExp.touches a || RExp.touches b
  | .cmpI _ a b => IExp.touches a || IExp.touches b
  | .and a b | .or a b => a.touches || b.touches
  | .not a => a.touches
  | .unknown _ => true

/-- lock state: is the mutex held, has `defer Unlock` been registered -/
structure LS where
  held : Bool
  deferred : Bool
deriving DecidableEq, Repr

mutual
/-- `s.locked st` = (nothing wrong in `s`: no field touched without the mutex, no double lock, no sleep or return that keeps
the mutex; the lock state after falling through `s`, `none` when `s` always returns) -/
def _root_.Zeno.AStmt.locked (st : LS) : AStmt → Bool × Option LS
  | .setF _ _ => (st.held, some st)
  | .setI _ _ => (st.held, some st)
  | .setL _ x => (st.held || !RExp.touches x, some st)
  | .ite c t f =>
    let a := t.locked st; let b := f.locked st
    let ok := (st.held || !CExp.touches c) && a.1 && b.1
    match a.2, b.2 with
    | none, r => (ok, r)
    | r, none => (ok, r)
    | some x, some y => (ok && x == y, some x)
  | .ret | .retNil | .retErr => (!st.held || st.deferred, none)
  | .lock => (!st.held, some { st with held := true })      -- locking twice would block for ever
  | .unlock => (st.held && !st.deferred, some { st with held := false })
  | .deferUnlock => (st.held && !st.deferred, some { st with deferred := true })
  | .sleep => (!st.held, some st)                           -- never sleep with the mutex held
  | .callRefill => (st.held, some st)                         -- the callee (refill) expects the caller to hold the mutex
  | .opaque _ => (false, some st)
def _root_.Zeno.ABlock.locked (st : LS) : ABlock → Bool × Option LS
  | .nil => (true, some st)
  | .cons s rest =>
    let a := s.locked st
    match a.2 with
    | none => (a.1, none)                                   -- nothing after a return is reached
    | some st' => let b := rest.locked st'; (a.1 && b.1, b.2)
end

/-- a public method starts without the mutex and must not keep it; `refill` runs with the mutex held by its caller and
leaves it held -/
def publicOK (p : ABlock) : Bool :=
  let r := p.locked ⟨false, false⟩
  r.1 && (match r.2 with | none => true | some st => !st.held || st.deferred)
def innerOK (p : ABlock) : Bool :=
  let r := p.locked ⟨true, true⟩
  r.1 && (match r.2 with | none => true | some st => st.held)

def lockOK (P : Progs) : Bool := publicOK P.adjustOnFailure && publicOK P.onSuccess && publicOK P.waitAttempt && innerOK P.refill

end Zeno.Model.RateProg
