import Zeno.Model.Item
import Zeno.Base.Stages
/-!
Per-seed semantics of the stages on the seed tree (preprocessor.preprocess, what archive() leaves
on a node, postprocessor.postprocess, the finisher's decision), as pure functions parameterised by

* the facts extracted from the source (`SF`, `IF`),
* the crawl configuration `Cfg`,
* oracles for everything external: the URL normaliser (`norm`: node id ↦ canonical string, host,
  path, or `none` when it rejects), the exclusion regexes (as the set of canonical strings they
  match), the seen-store, the scripted server (`Outcome` per fetched node), the extractors (the
  raw assets / outlinks found in a body) and the domains-crawl matcher.
-/
namespace Zeno.Model.Stages
open Zeno Zeno.Model.Item

abbrev SF := Zeno.Base.Stages.Facts
abbrev IF := Zeno.Base.Item.Facts

structure Cfg where
  includeHosts : List String := []
  includeStrings : List String := []
  excludeHosts : List String := []
  excludeStrings : List String := []
  regexExcluded : List String := []      -- canonical strings matched by an exclusion regex
  disableAssets : Bool := false
  domainsCrawl : Bool := false
  dcMatch : List String := []            -- raw outlinks matched by --domains-crawl
  maxHops : Nat := 0
  maxRedirect : Nat := 20
  useSeencheck : Bool := true            -- seen-store opened at start-up (and HQ not used)
  useHQ : Bool := false                  -- crawl HQ is the queue and the seen-store
deriving Repr

structure NormRes where
  canon : String           -- `URL.String()`
  host : String            -- parsed host (with port)
  path : String            -- parsed path
  href : String := ""      -- what the normaliser leaves in `URL.Raw`
deriving Repr, DecidableEq

/-- `strings.Contains` -/
def isInfix (needle hay : List Char) : Bool :=
  match hay with
  | [] => needle.isEmpty
  | _ :: rest => needle.isPrefixOf hay || isInfix needle rest

def containsAny (target : String) (elems : List String) : Bool :=
  elems.any (fun e => isInfix e.toList target.toList)

/-- the operator's scope applied to a normalised URL (include filters first, then exclude) -/
def passesFilters (cfg : Cfg) (r : NormRes) : Bool :=
  let inc := (cfg.includeHosts.isEmpty && cfg.includeStrings.isEmpty) ||
    containsAny r.host cfg.includeHosts || containsAny r.canon cfg.includeStrings
  let exc := containsAny r.host cfg.excludeHosts || containsAny r.canon cfg.excludeStrings ||
    cfg.regexExcluded.contains r.canon
  inc && !exc

/-! ### preprocess -/

inductive Verdict
  | keep (r : NormRes)      -- normalised, in scope
  | remove                  -- child / redirect target rejected: removed from its parent
  | stop (st : Status)      -- the seed itself rejected: status set, preprocess returns
  | panic
deriving Repr

mutual
/-- status of the parent of node `id` (none for the seed / unknown ids) -/
def _root_.Zeno.Model.Item.Tree.parentStatus (id : String) : Tree → Option Status
  | .node i k => k.parentStatusIn i.st id
def _root_.Zeno.Model.Item.Forest.parentStatusIn (p : Status) (id : String) : Forest → Option Status
  | .nil => none
  | .cons t f => if t.info.id == id then some p else
      match t.parentStatus id with
      | some s => some s
      | none => f.parentStatusIn p id
end

/-- what the first loop of `preprocess` decides for one node at the working depth -/
def verdict (cfg : Cfg) (norm : String → Option NormRes) (t : Tree) (i : Info) : Verdict :=
  if i.st != .fresh then .panic else
  let parent := t.parentStatus i.id
  match norm i.id with
  | none => if parent.isNone then .stop .failed else .remove
  | some r =>
    let isChild := parent == some Status.gotChildren
    let isRedir := parent == some Status.gotRedirected
    if !passesFilters cfg r then (if isChild || isRedir then .remove else .stop .completed)
    else if isChild && (r.path == "" || r.path == "/") then .remove
    else .keep r

/-- scan the nodes in order: collect removals and normalisations until a `stop` -/
def scan (cfg : Cfg) (norm : String → Option NormRes) (t : Tree) :
    List Info → List String × List (String × NormRes) × Option Verdict
  | [] => ([], [], none)
  | i :: rest =>
    match verdict cfg norm t i with
    | .panic => ([], [], some .panic)
    | .stop st => ([], [], some (.stop st))
    | .remove => let (rm, ks, s) := scan cfg norm t rest; (i.id :: rm, ks, s)
    | .keep r => let (rm, ks, s) := scan cfg norm t rest; (rm, (i.id, r) :: ks, s)

mutual
def _root_.Zeno.Model.Item.Tree.setNorm (ks : List (String × NormRes)) : Tree → Tree
  | .node i k =>
    let i' := match ks.lookup i.id with
      | some r => { i with url := r.canon, host := r.host, path := r.path, raw := r.href }
      | none => i
    .node i' (k.setNorm ks)
def _root_.Zeno.Model.Item.Forest.setNorm (ks : List (String × NormRes)) : Forest → Forest
  | .nil => .nil
  | .cons t f => .cons (t.setNorm ks) (f.setNorm ks)
end

/-- the local seen-store: canonical URL ↦ "asset" | "seed" -/
abbrev Seen := List (String × Bool)    -- true = seed

/-- `SeencheckItem` on the nodes at the working depth (in order) -/
def seencheck (t : Tree) (items : List Info) (seen : Seen) : Seen × List String :=
  items.foldl (fun (acc : Seen × List String) i =>
    let asSeed := !(t.parentStatus i.id == some Status.gotChildren)
    match acc.1.lookup i.url with
    | none => ((i.url, asSeed) :: acc.1, acc.2)
    | some wasSeed =>
      if !wasSeed && asSeed then ((i.url, true) :: acc.1, acc.2)       -- promotion: seen as asset, now a seed / redirect target
      else (acc.1, i.id :: acc.2)) (seen, [])

/-! crawl HQ as the seen-store: the crawler sends one value per fresh non-seed node of the working depth,
HQ answers with the values it had not recorded (and records them); every node whose compared
value is absent from the answer is marked seen. Which field of the URL is sent and which is
compared are facts of the source. -/

def hqSendKey (S : SF) (i : Info) : String := if S.seenHQSends == "canonical" then i.url else i.raw
def hqCmpKey (S : SF) (i : Info) : String := if S.seenHQComparesCanonical then i.url else i.raw

/-- crawl HQ's seencheck endpoint -/
def hqAnswer (hq : Seen) (sent : List String) : Seen × List String :=
  sent.foldl (fun acc v => if (acc.1.lookup v).isSome then acc else ((v, false) :: acc.1, acc.2 ++ [v])) (hq, [])

def hqSent (S : SF) (items : List Info) : List String :=
  (items.filter (fun i => i.st == .fresh)).map (hqSendKey S)

/-- `hq.SeencheckItem`: new HQ state and the ids marked seen. The seed itself is never checked. -/
def hqSeencheck (S : SF) (t : Tree) (items : List Info) (hq : Seen) : Seen × List String :=
  if S.seenHQSeedNeverChecked && items.all (fun i => (t.parentStatus i.id).isNone) then (hq, [])
  else
    let r := hqAnswer hq (hqSent S items)
    (r.1, (items.filter (fun i => !(r.2.contains (hqCmpKey S i)))).map (·.id))

mutual
def _root_.Zeno.Model.Item.Tree.setStatuses (ids : List String) (s : Status) (req : Bool) : Tree → Tree
  | .node i k =>
    let i' := if ids.contains i.id then { i with st := s, req := i.req || req } else i
    .node i' (k.setStatuses ids s req)
def _root_.Zeno.Model.Item.Forest.setStatuses (ids : List String) (s : Status) (req : Bool) : Forest → Forest
  | .nil => .nil
  | .cons t f => .cons (t.setStatuses ids s req) (f.setStatuses ids s req)
end

def setRoot (t : Tree) (s : Status) : Tree := match t with | .node i k => .node { i with st := s } k

inductive PreOut | ok | panic | crash
deriving DecidableEq, Repr

/-- after the seencheck: seen nodes are marked, the remaining fresh nodes of the working depth are the
ones that will get a request; none left → the seed is completed -/
def finalStep (t2 : Tree) (sr : Seen × List String) (d : Nat) : Tree × Seen × List String × PreOut :=
  let t3 := t2.setStatuses sr.2 .seen false
  let fresh := (t3.atLevel d).filter (fun i => i.st == .fresh)
  if fresh.isEmpty then (setRoot t3 .completed, sr.1, [], .ok)
  else (t3, sr.1, fresh.map (·.id), .ok)

/-- after de-duplication. `crash` = nil dereference of a seen-store that start-up never opened. -/
def preTail (S : SF) (cfg : Cfg) (seen : Seen) (t2 : Tree) (d : Nat) : Tree × Seen × List String × PreOut :=
  if (t2.atLevel d).isEmpty then (setRoot t2 .completed, seen, [], .ok) else
  if cfg.useHQ then finalStep t2 (hqSeencheck S t2 (t2.atLevel d) seen) d else
  -- seencheck: guarded by the configuration or not, according to the source
  let consult := S.preSeencheckGuard == "always" || cfg.useSeencheck
  if consult && !cfg.useSeencheck then (t2, seen, [], .crash) else
  finalStep t2 (if consult then seencheck t2 (t2.atLevel d) seen else (seen, [])) d

/-- Everything `preprocess(seed)` does up to the final loop, plus the ids that final loop gives a
request to. -/
def preCore (S : SF) (I : IF) (cfg : Cfg) (norm : String → Option NormRes) (seen : Seen) (t : Tree) :
    Tree × Seen × List String × PreOut :=
  let d := t.maxDepth
  let sc := scan cfg norm t (t.atLevel d)
  let t1 := (t.setNorm sc.2.1).prune sc.1
  match sc.2.2 with
  | some .panic => (t1, seen, [], .panic)
  | some (.stop st) => (setRoot t1 st, seen, [], .ok)
  | some _ => (t1, seen, [], .ok)
  | none => preTail S cfg seen (dedupe I t1) d

/-- what `preprocess(seed)` sends to crawl HQ's seencheck endpoint (driver output only) -/
def preSent (S : SF) (I : IF) (cfg : Cfg) (norm : String → Option NormRes) (t : Tree) : List String :=
  let d := t.maxDepth
  let sc := scan cfg norm t (t.atLevel d)
  let t2 := dedupe I ((t.setNorm sc.2.1).prune sc.1)
  match sc.2.2 with
  | none =>
    let items := t2.atLevel d
    if !cfg.useHQ || items.isEmpty || (S.seenHQSeedNeverChecked && items.all (fun i => (t2.parentStatus i.id).isNone)) then []
    else hqSent S items
  | some _ => []

/-- `preprocess(seed)`: the listed nodes get a request object and become PreProcessed -/
def preprocess (S : SF) (I : IF) (cfg : Cfg) (norm : String → Option NormRes) (seen : Seen) (t : Tree) :
    Tree × Seen × PreOut :=
  let c := preCore S I cfg norm seen t
  (if c.2.2.1.isEmpty then c.1 else c.1.setStatuses c.2.2.1 .preProcessed true, c.2.1, c.2.2.2)

/-! ### archive (what it leaves on a node) -/

structure Outcome where
  fail : Bool := false          -- network error on every attempt, bad status on the last, or ProcessBody error
  status : Nat := 200
  loc : String := ""
  html : Bool := false
  body : Bool := false          -- ProcessBody keeps the body (text/*, pdf, …)
deriving Repr

mutual
def _root_.Zeno.Model.Item.Tree.archive (srv : String → Option Outcome) (d lvl : Nat) : Tree → Tree
  | .node i k =>
    if lvl == d then
      if i.st == .preProcessed then
        match srv i.id with
        | some o => if o.fail then .node { i with st := .failed } k
                    else .node { i with st := .archived, resp := o.status, loc := o.loc, html := o.html, body := o.body } k
        | none => .node { i with st := .failed } k
      else .node i k
    else .node i (k.archive srv d (lvl + 1))
def _root_.Zeno.Model.Item.Forest.archive (srv : String → Option Outcome) (d lvl : Nat) : Forest → Forest
  | .nil => .nil
  | .cons t f => .cons (t.archive srv d lvl) (f.archive srv d lvl)
end

def archive (srv : String → Option Outcome) (t : Tree) : Tree := t.archive srv t.maxDepth 0

/-! ### postprocess -/

structure Extract where
  assets : List (String × String) := []        -- (new node id, raw URL) found as page requisites
  assetOutlinks : List String := []            -- outlinks returned by the asset extractor (JSON / XML)
  outlinks : List String := []                 -- raw URLs found as outlinks
deriving Repr

structure Outlink where
  raw : String
  hops : Nat
  via : String
deriving Repr, DecidableEq

def isRedirect (S : SF) (code : Nat) : Bool := S.redirectStatuses.contains code

/-- the decision of `postprocessItem` for one Archived node whose depth-without-redirections is `dnr` -/
inductive PostAct
  | complete
  | redirect (child : Info)
  | extract (children : List Info) (outlinks : List Outlink)
deriving Repr

def postAct (S : SF) (cfg : Cfg) (ex : String → Extract) (i : Info) (dnr : Int) : PostAct :=
  if isRedirect S i.resp then
    if S.redirectLimitOp.eval i.redirects cfg.maxRedirect then .complete
    else .redirect { id := ((ex i.id).assets.headD ("", "")).1, url := "", st := .fresh, raw := i.loc,
                     redirects := i.redirects + 1, hops := i.hops }
  else if !cfg.domainsCrawl && S.depthCutOp.eval dnr (S.depthCut : Int) then .complete
  else if !cfg.domainsCrawl && dnr == 1 && i.html then .complete
  else if cfg.disableAssets && !cfg.domainsCrawl && (S.disableAssetsRule == "always" || cfg.maxHops == 0) then .complete
  else if i.resp == 200 then
    let e := ex i.id
    let extractAssets := !cfg.disableAssets && i.body
    let kids : List Info := if extractAssets then
        ((e.assets.filter (fun a => a.2 != i.url)).map (fun a => ({ id := a.1, url := "", st := .fresh, raw := a.2, hops := i.hops } : Info)))
      else []
    let fromAssets := if extractAssets then e.assetOutlinks else []
    let wantOut := (cfg.domainsCrawl && i.body) || (S.outlinkHopsOp.eval i.hops cfg.maxHops && i.body)
    let outs : List Outlink := if wantOut then
        ((e.outlinks ++ fromAssets).filterMap (fun raw =>
          if cfg.domainsCrawl && cfg.dcMatch.contains raw then some { raw := raw, hops := 0, via := i.url }
          else if cfg.domainsCrawl && !(cfg.dcMatch.contains raw) && i.hops ≥ cfg.maxHops then none
          else some { raw := raw, hops := i.hops + 1, via := i.url }))
      else []
    .extract kids outs
  else .extract [] []

/-- `GetDepthWithoutRedirections` of a node from its parent's: a redirected node does not count -/
def nodeDnr (isSeed : Bool) (st : Status) (pdnr : Int) : Int :=
  if isSeed then (if st == .gotRedirected then -1 else 0)
  else (if st == .gotRedirected then pdnr else pdnr + 1)

mutual
def _root_.Zeno.Model.Item.Tree.post (S : SF) (cfg : Cfg) (ex : String → Extract) (d lvl : Nat) (pdnr : Int) (isSeed : Bool) :
    Tree → Tree × List Outlink
  | .node i k =>
    let dnr : Int := nodeDnr isSeed i.st pdnr
    if lvl == d then
      if i.st == .archived then
        match postAct S cfg ex i dnr with
        | .complete => (.node { i with st := .completed, body := false } k, [])
        | .redirect c => (.node { i with st := .gotRedirected, body := false } (k.append (.cons (.node c .nil) .nil)), [])
        | .extract kids outs =>
          let k' := kids.foldl (fun acc c => acc.append (.cons (.node c .nil) .nil)) k
          let st := if kids.isEmpty && k.length == 0 then Status.completed else Status.gotChildren
          (.node { i with st := st, body := false } k', outs)
      else (.node { i with body := false } k, [])
    else
      let (k', outs) := k.post S cfg ex d (lvl + 1) dnr
      (.node { i with body := false } k', outs)
def _root_.Zeno.Model.Item.Forest.post (S : SF) (cfg : Cfg) (ex : String → Extract) (d lvl : Nat) (pdnr : Int) :
    Forest → Forest × List Outlink
  | .nil => (.nil, [])
  | .cons t f =>
    let (t', o1) := t.post S cfg ex d lvl pdnr false
    let (f', o2) := f.post S cfg ex d lvl pdnr
    (.cons t' f', o1 ++ o2)
end

/-- `postprocess(seed)` followed by `closeBodies(seed)` -/
def postprocess (S : SF) (cfg : Cfg) (ex : String → Extract) (t : Tree) : Tree × List Outlink :=
  t.post S cfg ex t.maxDepth 0 0 true

/-! ### finisher -/

inductive FinAct | produce | feedback | finish
deriving DecidableEq, Repr

def finisher (I : IF) (t : Tree) : Tree × FinAct :=
  if t.st == .fresh then (t, .produce)
  else
    let (t', done) := completeAndCheck I t
    (t', if done then .finish else .feedback)

end Zeno.Model.Stages
