import Zeno.Base.Extractors
/-!
Extractors for structured documents, as functions over already-parsed documents (the parsers — encoding/json,
encoding/xml, grafov/m3u8 — are oracles: the harness hands the model what they returned):

* JSON: every string value at any depth that is a URL, JSON embedded in strings included;
* XML: attribute values and text nodes;
* M3U8: segment, variant and alternative URIs;
* the asset / outlink split by "has a file extension";
* S3 bucket listings: a page's links, and the walk over all pages of a bucket.
-/
namespace Zeno.Model.Extract
open Zeno

abbrev EF := Zeno.Base.Extractors.Facts

/-! ### hasFileExtension -/

/-- everything before the first occurrence of `c` -/
def cutAt (c : Char) : List Char → List Char
  | [] => []
  | x :: xs => if x == c then [] else x :: cutAt c xs

/-- everything after the last occurrence of `c` (the whole list when there is none) -/
def afterLast (c : Char) (s : List Char) : List Char :=
  s.foldl (fun acc x => if x == c then [] else acc ++ [x]) []

/-- `hasFileExtension`: drop the fragment, then the query, keep what follows the last `/`; there must be a `.`
that is not the last character -/
def hasFileExtension (s : List Char) : Bool :=
  let name := afterLast '/' (cutAt '?' (cutAt '#' s))
  name.contains '.' && !(afterLast '.' name).isEmpty

/-! ### JSON -/

mutual
inductive J
  | null | bool (b : Bool) | num | str (s : String)
  | arr (xs : JList)
  | obj (kvs : JList)          -- values only: keys are never looked at
inductive JList | nil | cons (x : J) (rest : JList)
end

/-- oracles: `isURL` = fasturl parses it with a non-empty host; `embedded` = the string looks like JSON and
parses to this value -/
structure JOracle where
  isURL : String → Bool
  embedded : String → Option J

mutual
/-- all string values, at any depth -/
def J.strings : J → List String
  | .null | .bool _ | .num => []
  | .str s => [s]
  | .arr xs => xs.strings
  | .obj kvs => kvs.strings
def JList.strings : JList → List String
  | .nil => []
  | .cons x r => x.strings ++ r.strings
end

/-- `findURLs` with one level of JSON-in-a-string unfolded per unit of fuel -/
def findURLs (o : JOracle) : Nat → J → List String
  | 0, j => j.strings.flatMap (fun s => if o.isURL s then [s] else [])
  | fuel + 1, j =>
    j.strings.flatMap (fun s =>
      if o.isURL s then [s]
      else match o.embedded s with
        | some j' => findURLs o fuel j'
        | none => [])

structure Split where
  assets : List String := []
  outlinks : List String := []
deriving Repr, DecidableEq

/-- URLs with a file extension are assets, the others outlinks (order kept within each class) -/
def split (urls : List String) : Split :=
  { assets := urls.filter (fun u => hasFileExtension u.toList), outlinks := urls.filter (fun u => !hasFileExtension u.toList) }

/-! ### XML -/

/-- the token stream of encoding/xml's RawToken that matters: start elements with their attribute values, text -/
inductive XTok
  | start (attrs : List String)
  | text (t : String) (found : List String)     -- `found` = what the strict URL regex finds in `t` (oracle), de-duplicated
  | other

/-- `strings.HasPrefix(s, "http")` -/
def startsHttp (s : String) : Bool := "http".toList.isPrefixOf s.toList

def xmlURLs (toks : List XTok) : List String :=
  toks.flatMap (fun t => match t with
    | .start attrs => attrs.filter startsHttp
    | .text t found => if startsHttp t then [t] else found
    | .other => [])

/-! ### M3U8 -/

structure Variant where
  uri : String
  alternatives : List String

inductive Playlist
  | media (segments : List String)
  | master (variants : List Variant)

def m3u8URIs : Playlist → List String
  | .media segs => segs.filter (· != "")
  | .master vs => vs.flatMap (fun v => (if v.uri != "" then [v.uri] else []) ++ v.alternatives.filter (· != ""))

/-! ### S3 bucket listings -/

structure Obj where
  key : String
  size : Nat
deriving Repr, DecidableEq

/-- one page of a listing as the extractor sees it -/
structure Page where
  contents : List Obj := []
  prefixes : List String := []       -- CommonPrefixes
  truncated : Bool := false
  nextToken : String := ""
deriving Repr

inductive Link
  | object (key : String)
  | nextMarker (marker : String)
  | nextToken (token : String)
  | subfolder (pfx : String)
deriving Repr, DecidableEq

/-- `s3Legacy`: a next-page link whenever the page has objects, then every object of non-zero size -/
def s3Legacy (E : EF) (p : Page) : List Link :=
  (match p.contents.getLast? with
   | some o => if E.s3LegacyNextWhenNonEmpty then [.nextMarker o.key] else []
   | none => []) ++
  (p.contents.filter (fun o => !E.s3SkipsEmptyObjects || o.size > 0)).map (fun o => .object o.key)

/-- `s3V2`: subfolder links, objects of non-zero size — on a page that has common prefixes only when the source emits
both (the fact `s3V2MixedPages`) —, and the continuation link when the page is truncated -/
def s3V2 (E : EF) (p : Page) : List Link :=
  (p.prefixes.map .subfolder) ++
  (if p.prefixes.isEmpty || E.s3V2MixedPages == "both" then
     (p.contents.filter (fun o => !E.s3SkipsEmptyObjects || o.size > 0)).map (fun o => .object o.key) else []) ++
  (if p.truncated && p.nextToken != "" then [.nextToken p.nextToken] else [])

/-! a bucket with `/`-delimited folders: the objects directly in a folder and its sub-folders -/
mutual
inductive Dir | node (objs : List Obj) (subs : DirList)
inductive DirList | nil | cons (name : String) (d : Dir) (rest : DirList)
end

mutual
def Dir.allObjects : Dir → List Obj
  | .node objs subs => objs.filter (fun o => o.size > 0) ++ subs.allObjects
def DirList.allObjects : DirList → List Obj
  | .nil => []
  | .cons _ d r => d.allObjects ++ r.allObjects
end

def DirList.names : DirList → List String
  | .nil => []
  | .cons n _ r => n :: r.names

/-- the entries of one folder in listing order (objects and sub-folder names interleaved in any way the server likes:
`order` picks, entry by entry, whether the next entry is the next object or the next prefix), cut into pages of
`k` entries; S3's contract: the pages partition the entries -/
inductive Entry | obj (o : Obj) | pfx (name : String)
deriving Repr, DecidableEq

def chunk (k : Nat) : (fuel : Nat) → List Entry → List (List Entry)
  | 0, _ => []
  | _, [] => []
  | fuel + 1, es => es.take (k + 1) :: chunk k fuel (es.drop (k + 1))

def pageOf (es : List Entry) (more : Bool) (tok : String) : Page :=
  { contents := es.filterMap (fun e => match e with | .obj o => some o | _ => none),
    prefixes := es.filterMap (fun e => match e with | .pfx n => some n | _ => none),
    truncated := more, nextToken := tok }

def Link.isNextMarker : Link → Bool
  | .nextMarker _ => true
  | _ => false

def objectKeys (links : List Link) : List String :=
  links.filterMap (fun l => match l with | .object key => some key | _ => none)

/-- the object keys the crawler queues from all pages of one folder (list-type=2); it follows every continuation link,
so it sees every page (whether a page is the last one only decides whether such a link is on it) -/
def folderObjects (E : EF) (k : Nat) (entries : List Entry) : List String :=
  (chunk k entries.length entries).flatMap (fun es => objectKeys (s3V2 E (pageOf es true "t")))

mutual
/-- the whole walk: every folder page by page, then every sub-folder (each sub-folder link is followed) -/
def Dir.walk (E : EF) (k : Nat) (order : List Obj → List String → List Entry) : Dir → List String
  | .node objs subs => folderObjects E k (order objs subs.names) ++ subs.walk E k order
def DirList.walk (E : EF) (k : Nat) (order : List Obj → List String → List Entry) : DirList → List String
  | .nil => []
  | .cons _ d r => d.walk E k order ++ r.walk E k order
end

/-- legacy (marker) walk over a flat bucket: pages of `k+1` objects; the crawler follows the marker link of every
non-empty page (the page after the last one is empty and ends the walk) -/
def legacyWalk (E : EF) (k : Nat) : (fuel : Nat) → List Obj → List String
  | 0, _ => []
  | fuel + 1, rest =>
    let page : Page := { contents := rest.take (k + 1) }
    let links := s3Legacy E page
    objectKeys links ++
    (if links.any Link.isNextMarker then legacyWalk E k fuel (rest.drop (k + 1)) else [])

end Zeno.Model.Extract
