import Zeno.Base.Pause
/-!
Model of the pause protocol (internal/pkg/controler/pause + the pause case of the stage workers) as
a transition system over fine-grained actions, for any number of subscribed workers and any number
of controllers issuing `Pause` / `Resume` in any order.

* a subscriber is `running`, `acking` (blocked sending on its unbuffered `ResumeCh`) or `exited`
  (unsubscribed, channels closed); `token` = its 1-buffered `PauseCh` holds a signal;
* `pauses` = `Pause` calls past their successful CAS, each with the subscribers it still has to signal;
* `resumes` = `Resume` calls that are collecting acknowledgements, each with the subscribers it still
  waits for; `waiting` = `Resume` calls blocked on the serialising lock (only when the source has one).

Atomicity abstraction: the flag test and the `Range` snapshot of `Resume` are one step. Subscribers may join at any time
(`subscribe`): a stage worker subscribes from inside its own goroutine, so a pause can precede it (defect D27, repaired:
the newcomer gets the pause signal when the pipeline is paused, and joining is serialised with `Resume`).
-/
namespace Zeno.Model.Pause
open Zeno

abbrev Facts := Zeno.Base.Pause.Facts

inductive W | running | acking | exited
deriving DecidableEq, Repr

structure Sub where
  st : W := .running
  token : Bool := false
deriving DecidableEq, Repr

structure S where
  paused : Bool := false
  n : Nat := 0                          -- number of subscribers (registered before the first pause)
  subs : Nat → Sub := fun _ => {}       -- subscriber `i < n`
  pauses : List (List Nat) := []
  resumes : List (List Nat) := []
  waiting : Nat := 0
  stop : Bool := false

def S.init (n : Nat) : S := { n := n }

/-- subscriber `i`; anything out of range counts as exited (closed channels) -/
def S.sub (s : S) (i : Nat) : Sub := if i < s.n then s.subs i else { st := .exited }

def Sub.live (u : Sub) : Bool := u.st != .exited

def S.live (s : S) (i : Nat) : Bool := (s.sub i).live

/-- indices of the live subscribers (what `Range` yields) -/
def S.liveIdx (s : S) : List Nat := (List.range s.n).filter (fun i => s.live i)

def S.setSub (s : S) (i : Nat) (u : Sub) : S := { s with subs := fun j => if j = i then u else s.subs j }

/-- does the source serialise `Resume` and test the flag first (the D5 repair)? -/
def guarded (F : Facts) : Bool := F.resumeSerialised && F.resumeChecksFlagFirst

/-- can a worker that waits for resume leave when its stage is stopped (the D4 repair)? -/
def ackCancellable (F : Facts) : Bool :=
  F.preprocessorAck == "cancellable" && F.archiverAck == "cancellable" && F.postprocessorAck == "cancellable" &&
  F.finisherAck == "cancellable"

inductive Act
  | pauseCall | resumeCall | stopCall                     -- external: controllers / shutdown
  | subscribe                                              -- external: one more worker subscribes (a stage worker starting up)
  | pauseSend (k : Nat)                                    -- in-flight Pause k signals its next subscriber
  | resumeRecv (k i : Nat)                                 -- collecting Resume k receives from subscriber i (or sees it closed)
  | resumeFinish (k : Nat)                                 -- collecting Resume k has everything: clears the flag, returns
  | waiterProceed                                          -- a Resume blocked on the lock gets it
  | takeToken (i : Nat)                                    -- worker i takes its pause signal and starts acknowledging
  | exit (i : Nat)                                         -- worker i returns (stage context cancelled)
deriving DecidableEq, Repr

def Act.internal : Act → Bool
  | .pauseCall | .resumeCall | .stopCall | .subscribe => false
  | _ => true

def dropEmpty (l : List (List Nat)) : List (List Nat) := l.filter (fun x => !x.isEmpty)

/-- what a `Resume` does once it is past the lock (if any) -/
def startResume (F : Facts) (s : S) : S :=
  if guarded F && !s.paused then s                      -- nothing to resume: return at once
  else { s with resumes := s.resumes ++ [s.liveIdx] }

/-- `step F s a = some s'` when action `a` is enabled in `s` -/
def step (F : Facts) (s : S) : Act → Option S
  | .pauseCall =>
    if s.paused then some s                               -- CAS fails: swallowed
    else some { s with paused := true, pauses := dropEmpty (s.pauses ++ [s.liveIdx]) }
  | .resumeCall =>
    if guarded F && !s.resumes.isEmpty then some { s with waiting := s.waiting + 1 }
    else some (startResume F s)
  | .stopCall => some { s with stop := true }
  | .subscribe =>
    -- `Subscribe()` takes the lock `Resume` holds while it collects acknowledgements (fact `subscribeSerialised`), registers the
    -- channels, and hands the newcomer the pause signal when the pipeline is paused (fact `subscribeSignalsWhenPaused`)
    if F.subscribeSerialised && F.subscribeSignalsWhenPaused && guarded F then
      if s.resumes.isEmpty then
        some { s with n := s.n + 1, subs := fun j => if j = s.n then { st := .running, token := s.paused } else s.subs j }
      else none
    else none
  | .pauseSend k =>
    match s.pauses[k]? with
    | some (i :: rest) =>
      let u := s.sub i
      let s := if u.live then s.setSub i { u with token := true } else s
      some { s with pauses := dropEmpty (s.pauses.set k rest) }
    | _ => none
  | .resumeRecv k i =>
    match s.resumes[k]? with
    | some w =>
      if i ∈ w then
        let u := s.sub i
        if u.st == .acking then some { (s.setSub i { u with st := .running }) with resumes := s.resumes.set k (w.erase i) }
        else if u.st == .exited then some { s with resumes := s.resumes.set k (w.erase i) }
        else none
      else none
    | none => none
  | .resumeFinish k =>
    match s.resumes[k]? with
    | some [] => some { s with resumes := s.resumes.eraseIdx k, paused := false }
    | _ => none
  | .waiterProceed =>
    if guarded F && s.resumes.isEmpty && s.waiting > 0 then some (startResume F { s with waiting := s.waiting - 1 })
    else none
  | .takeToken i =>
    let u := s.sub i
    if u.st == .running && u.token then some (s.setSub i { st := .acking, token := false }) else none
  | .exit i =>
    let u := s.sub i
    if s.stop && i < s.n && (u.st == .running || (u.st == .acking && ackCancellable F)) then
      some (s.setSub i { st := .exited, token := false })
    else none

/-- all internal actions that could possibly be enabled in `s` -/
def candidates (s : S) : List Act :=
  (List.range s.pauses.length).map .pauseSend ++
  (List.range s.resumes.length).flatMap (fun k => (List.range s.n).map (fun i => .resumeRecv k i)) ++
  (List.range s.resumes.length).map .resumeFinish ++
  [.waiterProceed] ++
  (List.range s.n).map .takeToken ++
  (List.range s.n).map .exit

def enabled (F : Facts) (s : S) : List Act := (candidates s).filter (fun a => (step F s a).isSome)

/-- nothing internal can happen any more -/
def quiescent (F : Facts) (s : S) : Bool := (enabled F s).isEmpty

/-- run internal steps (first enabled first) until quiescence; `fuel` bounds the number of steps -/
def settle (F : Facts) : Nat → S → S
  | 0, s => s
  | n + 1, s =>
    match enabled F s with
    | [] => s
    | a :: _ => match step F s a with
      | some s' => settle F n s'
      | none => s

/-- run a list of actions, skipping those that are not enabled -/
def runActs (F : Facts) (s : S) : List Act → S
  | [] => s
  | a :: as => match step F s a with
    | some s' => runActs F s' as
    | none => runActs F s as

/-- calls that have been invoked and have not returned -/
def S.pendingCalls (s : S) : Nat := s.pauses.length + s.resumes.length + s.waiting

end Zeno.Model.Pause
