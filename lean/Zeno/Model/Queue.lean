import Zeno.Base.Queue
/-!
Models of the queue plumbing (internal/pkg/source/hq, internal/pkg/source/lq):
hop-count ↔ path encoding, the receive / batch / dispatch / send-with-retry pipeline used for
outlinks and finish acknowledgements, and the local queue's table with its crash / restart
behaviour.
-/
namespace Zeno.Model.Queue
open Zeno

abbrev Facts := Zeno.Base.Queue.Facts

/-! ### hops ↔ path -/

def letter (F : Facts) : Char := F.hopLetter.toList.headD 'L'

def hopsToPath (F : Facts) (h : Nat) : List Char := List.replicate h (letter F)
def pathToHops (F : Facts) (p : List Char) : Nat := p.count (letter F)

/-! ### the batcher -/

structure Batcher (α : Type) where
  size : Nat
  batch : List α := []               -- being filled by the receiver
  inflight : List (List α) := []     -- handed to the dispatcher / senders, not yet accepted by the queue
  delivered : List (List α) := []    -- accepted by the queue (status 2xx)

inductive BOp (α : Type)
  | recv (x : α)          -- an item arrives on the produce / finish channel
  | tick                  -- the 5 s timer fires
  | sendOk (k : Nat)      -- in-flight batch k is accepted by the queue
  | sendFail (k : Nat)    -- in-flight batch k is refused (5xx, reset, timeout): the sender sleeps and retries

def flush {α} (F : Facts) (b : Batcher α) : Batcher α :=
  if b.batch.isEmpty then b else { b with batch := [], inflight := b.inflight ++ [b.batch] }

def bstep {α} (F : Facts) (retryForever : Bool) (b : Batcher α) : BOp α → Batcher α
  | .recv x =>
    let b := { b with batch := b.batch ++ [x] }
    if b.batch.length ≥ b.size then flush F b else b
  | .tick => flush F b
  | .sendOk k =>
    match b.inflight[k]? with
    | some batch => { b with inflight := b.inflight.eraseIdx k, delivered := b.delivered ++ [batch] }
    | none => b
  | .sendFail k =>
    -- a sender that gives up would drop the batch here
    if retryForever then b else { b with inflight := b.inflight.eraseIdx k }

def brun {α} (F : Facts) (retryForever : Bool) (b : Batcher α) (ops : List (BOp α)) : Batcher α :=
  ops.foldl (bstep F retryForever) b

def received {α} : List (BOp α) → List α
  | [] => []
  | .recv x :: r => x :: received r
  | _ :: r => received r

/-- everything the batcher still holds or has delivered -/
def Batcher.all {α} (b : Batcher α) : List α := b.delivered.flatten ++ b.inflight.flatten ++ b.batch

/-! ### the local queue table -/

inductive RStatus | fresh | claimed
deriving DecidableEq, Repr

structure Row where
  id : String
  value : String
  via : String
  hops : Nat
  status : RStatus := .fresh
deriving DecidableEq, Repr

/-- `Add` in one transaction: a duplicate value is skipped (SQLite reports the violated UNIQUE index on
`value` first, also when the id collides too), a duplicate id alone aborts the whole batch -/
def lqAdd (F : Facts) (tbl : List Row) (urls : List Row) : Option (List Row) :=
  urls.foldlM (fun (t : List Row) (u : Row) =>
    if t.any (·.value == u.value) then (if F.lqAddSkipsDuplicateValue then some t else none)
    else if t.any (·.id == u.id) then none
    else some (t ++ [{ u with status := .fresh }])) tbl

/-- `Get(limit)`: the first `limit` FRESH rows are claimed in one transaction -/
def lqGet (tbl : List Row) (limit : Nat) : List Row × List Row :=
  let ids := ((tbl.filter (·.status == .fresh)).take limit).map (·.id)
  (tbl.map (fun r => if ids.contains r.id then { r with status := .claimed } else r),
   tbl.filter (fun r => ids.contains r.id))

def lqDelete (tbl : List Row) (ids : List String) : List Row := tbl.filter (fun r => !ids.contains r.id)

def lqReset (tbl : List Row) (id : String) : List Row :=
  tbl.map (fun r => if r.id == id then { r with status := .fresh } else r)

/-- (re)opening the job's database: claimed rows are handed back when the source does so -/
def lqInit (F : Facts) (tbl : List Row) : List Row :=
  if F.lqInitReclaims then tbl.map (fun r => { r with status := .fresh }) else tbl

end Zeno.Model.Queue
