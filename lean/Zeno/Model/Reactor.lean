import Zeno.Base.Reactor
/-!
Sequential (one API call at a time, each run to quiescence) model of internal/pkg/reactor.

State mirrors the Go struct: `tokens` = length of the token-pool channel, `table` = keys of the
state table, `queue` = the item in `run`'s hand followed by the content of the buffered `input`
channel (FIFO), `blockedIns` = `ReceiveInsert` calls parked on the token pool (Go wakes parked
senders in FIFO order). `held` is a ghost: seeds delivered on the output channel and not yet
fed back or finished. A duplicate insert panics in Go (the process dies): `crashed`. A send on a
full `input` channel that nothing will ever drain is `wedged` (only reachable when a client feeds
back seeds it does not hold).
-/
namespace Zeno.Model.Reactor
open Zeno

abbrev Facts := Zeno.Base.Reactor.Facts
abbrev Id := String

inductive Res
  | ok | frozen | shutdown | notinit | notpresent | notfound | blocked | panic | dead
  | empty | item (x : Id) | rejected
deriving DecidableEq, Repr

inductive Op
  | start (n : Nat) | insert (x : Id) | feedback (x : Id) | finish (x : Id)
  | freeze | stop | recv
deriving DecidableEq, Repr

structure R where
  started : Bool := false
  cap : Nat := 0
  tokens : Nat := 0
  table : List Id := []
  queue : List Id := []
  blockedIns : List Id := []
  held : List Id := []
  frozen : Bool := false
  dead : Bool := false      -- crashed (panic) or wedged
deriving DecidableEq, Repr

def R.init : R := {}

/-- room in `input` (capacity `cap`) given that `run` holds the head of `queue` -/
def R.room (r : R) : Bool := r.queue.length < r.cap + 1

/-- body of `ReceiveInsert` after the token was acquired -/
def insertBody (r : R) (x : Id) : R × Res :=
  let r := { r with tokens := r.tokens + 1 }
  if x ∈ r.table then ({ r with dead := true }, .panic)
  else if r.room then ({ r with table := r.table ++ [x], queue := r.queue ++ [x] }, .ok)
  else ({ r with table := r.table ++ [x], dead := true }, .blocked)

/-- one API call; second component: its result; third: calls that were parked and completed now -/
def step (F : Facts) (r : R) : Op → R × Res × List (Id × Res)
  | .start n =>
    if r.started then (r, .rejected, []) else ({ R.init with started := true, cap := n }, .ok, [])
  | op =>
    if r.dead then (r, .dead, []) else
    if !r.started then (r, .notinit, []) else
    match op with
    | .start _ => (r, .rejected, [])
    | .insert x =>
      -- frozen: with the priority check the call is rejected; without it Go's `select` chooses
      -- at random between the cancelled context and a free token — the model takes the
      -- accepting branch (a possible behaviour), so "frozen accepts nothing" is unprovable then
      if r.frozen && (F.insertChecksClosedFirst || !(decide (r.tokens < r.cap))) then (r, .frozen, [])
      else if r.tokens < r.cap then
        let (r', res) := insertBody r x
        (r', res, [])
      else ({ r with blockedIns := r.blockedIns ++ [x] }, .blocked, [])
    | .feedback x =>
      if F.feedbackChecksClosedFirst && r.frozen then (r, .frozen, []) else
      if x ∉ r.table then
        -- `Swap` stores the value even when the key was absent; `Load`+`CompareAndSwap` does not
        if F.feedbackUpdate == "swap" then ({ r with table := r.table ++ [x] }, .notpresent, [])
        else (r, .notpresent, [])
      else if r.frozen && (F.feedbackChecksClosedFirst || !r.room) then (r, .frozen, [])
      else if r.room then ({ r with queue := r.queue ++ [x], held := r.held.erase x }, .ok, [])
      else ({ r with dead := true }, .blocked, [])
    | .finish x =>
      if x ∈ r.table then
        if r.tokens = 0 then ({ r with table := r.table.erase x, dead := true }, .blocked, [])
        else
          let r := { r with table := r.table.erase x, tokens := r.tokens - 1, held := r.held.erase x }
          match r.blockedIns with
          | y :: rest =>
            let (r', res) := insertBody { r with blockedIns := rest } y
            (r', .ok, [(y, res)])
          | [] => (r, .ok, [])
      else (r, .notfound, [])
    | .freeze =>
      ({ r with frozen := true, blockedIns := [] }, .ok, r.blockedIns.map (·, .rejected))
    | .stop => ({ R.init with }, .ok, r.blockedIns.map (·, .rejected))
    | .recv =>
      match r.queue with
      | x :: q => ({ r with queue := q, held := r.held ++ [x] }, .item x, [])
      | [] => (r, .empty, [])

def run (F : Facts) (r : R) (ops : List Op) : R := ops.foldl (fun r o => (step F r o).1) r

end Zeno.Model.Reactor
