import Zeno.Base.RateLimiter
/-!
Model of internal/pkg/archiver/ratelimiter (token bucket with penalty and recovery, and the LFU
bucket table) over exact rationals. Times are seconds since an arbitrary origin. The Go code
computes in float64; the correspondence check compares decisions exactly and numbers with a
tolerance (DESIGN.md §4 C13).
-/
namespace Zeno.Model.RateLimiter
open Zeno

abbrev Facts := Zeno.Base.RateLimiter.Facts

/-- The bucket theorems are about the model with the two repaired expressions (cap before the conversion; floor = min(0.5, configured rate));
what ties that model to the source is the theorem that the methods *as translated from the source* compute it (`Proofs/RateProg.lean`) -
not a comparison of source text. The constants and the bucket-table shapes are the regenerated ones. -/
def Facts.modelled (F : Facts) : Facts :=
  { F with penaltyCap := "capBeforeConversion", rateFloor := "minOfConstantAndIdeal" }

structure TB where
  tokens : Rat
  cap : Rat
  rate : Rat
  ideal : Rat
  last : Rat
  pen : Rat
  fails : Nat
deriving Repr, DecidableEq

def TB.new (cap rate now : Rat) : TB :=
  { tokens := cap, cap := cap, rate := rate, ideal := rate, last := now, pen := now, fails := 0 }

/-- the later of the last refill and the end of the penalty -/
def TB.base (b : TB) : Rat := if b.last < b.pen then b.pen else b.last

/-- `refill()` at time `now` -/
def refill (b : TB) (now : Rat) : TB :=
  if now < b.pen then b
  else if 0 < now - b.base then { b with tokens := min b.cap (b.tokens + (now - b.base) * b.rate), last := now }
  else b

/-- one iteration of `Wait()`: refill, then take a token if there is one -/
def tryAcquire (F : Facts) (b : TB) (now : Rat) : TB × Bool :=
  let b := refill b now
  if F.acquireOp.eval b.tokens 1 then ({ b with tokens := b.tokens - 1 }, true) else (b, false)

def nsToSec (n : Int) : Rat := (n : Rat) / 1000000000

/-- the penalty after the `n`-th consecutive failure, in seconds. With the cap applied after the
float→int64 conversion (pinned tree) the conversion overflows once `5e9·2^(n-1) ≥ 2^63`; on amd64
the result is the most negative int64, and `min` keeps it. -/
def penalty (F : Facts) (n : Nat) : Rat :=
  let raw : Int := (F.basePenaltyNs : Int) * 2 ^ (n - 1)
  if F.penaltyCap == "capBeforeConversion" then nsToSec (min raw (F.maxPenaltyNs : Int))
  else if raw < 9223372036854775808 then nsToSec (min raw (F.maxPenaltyNs : Int))
  else nsToSec (-9223372036854775808)

def isPenalised (F : Facts) (status : Nat) : Bool := F.penalisedStatuses.contains status
def isServerError (F : Facts) (status : Nat) : Bool := F.serverErrorOp.eval status F.serverErrorFrom

def rateFloor (F : Facts) (b : TB) : Rat :=
  if F.rateFloor == "minOfConstantAndIdeal" then min F.minRefillRate b.ideal else F.minRefillRate

/-- `adjustOnFailure(status)` at time `now` -/
def onFailure (F : Facts) (b : TB) (now : Rat) (status : Nat) : TB :=
  if isPenalised F status then
    let n := b.fails + 1
    { b with fails := n, pen := now + penalty F n, tokens := 0 }
  else if isServerError F status then
    let n := b.fails + 1
    { b with fails := n, rate := max (b.rate * (1 / 2) ^ n) (rateFloor F b), tokens := 0 }
  else b

/-- `onSuccess()` at time `now` -/
def onSuccess (F : Facts) (b : TB) (now : Rat) : TB :=
  if b.pen < now then
    let r := if b.rate < b.ideal then
        let r' := b.rate + (b.ideal - b.rate) * F.recoveryFactor
        if b.ideal < r' then b.ideal else r'
      else b.rate
    { b with rate := r, fails := b.fails - 1 }
  else b

inductive Ev
  | try | fail (status : Nat) | ok
deriving Repr, DecidableEq

/-- one event at time `now`; the Bool says whether a request was released -/
def step (F : Facts) (b : TB) (now : Rat) : Ev → TB × Bool
  | .try => tryAcquire F b now
  | .fail st => (onFailure F b now st, false)
  | .ok => (onSuccess F b now, false)

/-- run a timed event list; returns the final bucket and the number of releases -/
def run (F : Facts) : TB → List (Rat × Ev) → TB × Nat
  | b, [] => (b, 0)
  | b, (t, e) :: rest =>
    let (b', rel) := step F b t e
    let (b'', n) := run F b' rest
    (b'', n + (if rel then 1 else 0))

/-! ### the bucket table -/

structure MB where
  host : String
  usage : Nat
deriving Repr, DecidableEq

/-- least frequently used entry: the first strict minimum below `MaxInt32` in iteration order.
Go ranges over a map (random order): among equal minima any may go; the model is used only for the
size bound, which does not depend on the choice. -/
def evictLFU (tbl : List MB) : List MB :=
  match tbl with
  | [] => []
  | _ =>
    let m := tbl.foldl (fun acc e => if e.usage < acc then e.usage else acc) 2147483647
    if m = 2147483647 then tbl
    else match tbl.findIdx? (fun e => e.usage == m) with
      | some i =>
        match tbl[i]? with
        | some e => if e.host == "" then tbl else tbl.eraseIdx i   -- `if lfuKey != ""`
        | none => tbl
      | none => tbl

/-- `getBucket(host)` -/
def getBucket (F : Facts) (maxBuckets : Nat) (tbl : List MB) (host : String) : List MB :=
  if tbl.any (·.host == host) then tbl.map (fun e => if e.host == host then { e with usage := e.usage + 1 } else e)
  else
    let tbl := if F.evictOp.eval tbl.length maxBuckets then evictLFU tbl else tbl
    tbl ++ [{ host := host, usage := 1 }]

end Zeno.Model.RateLimiter
