/-!
The pipeline as a flow of items through bounded channels and bounded worker pools — the part of the system where
"every interleaving of the stage workers" could wedge: a stage worker blocks when the next channel is full, the finisher
blocks when the reactor's input is full, the reactor blocks when no token is free.

Items are counted, not named (for whether *some* step is enabled only the counts matter):

    source ──insert──▶ q ──run──▶ c0 ─▶ [pre] ─▶ c1 ─▶ [arch] ─▶ c2 ─▶ [post] ─▶ c3 ─▶ [fin] ─┬─▶ cF ──▶ source (acks)
                       ▲                                              │ (outlinks)            ├─▶ cP ──▶ source (new URLs)
                       └──────────────────────── feedback ◀───────────┴────────────────────────┘

`q` is the reactor's input channel (capacity = number of tokens), `r` the seed the `run` goroutine holds between its
receive and its send, `c0..c3`, `cF`, `cP` the stage channels, `p a po` the stage workers holding a seed, `fs fo` the
finisher workers holding a seed / an outlink. Outlinks (`c3o`, `fo`, `cP`) are items the postprocessor sends to the
finisher besides the seed; they use no token.
-/
namespace Zeno.Model.Flow

structure Cfg where
  tokens : Nat      -- reactor tokens = capacity of its input channel
  cap : Nat         -- capacity of every stage channel
  workers : Nat     -- workers per stage
deriving Repr

structure S where
  used : Nat := 0   -- tokens in use
  q : Nat := 0
  r : Nat := 0
  c0 : Nat := 0
  p : Nat := 0
  c1 : Nat := 0
  a : Nat := 0
  c2 : Nat := 0
  po : Nat := 0
  c3s : Nat := 0
  c3o : Nat := 0
  fs : Nat := 0
  fo : Nat := 0
  cF : Nat := 0
  cP : Nat := 0
deriving Repr, DecidableEq

inductive Act
  | insert          -- the source inserts a seed: takes a token, enqueues
  | runTake | runSend
  | preTake | preSend | archTake | archSend | postTake | postSend
  | postOutlink     -- the postprocessor hands an outlink to the finisher
  | finTakeSeed | finTakeOutlink
  | finFeedback     -- incomplete seed back to the reactor (no token)
  | finFinish       -- complete seed: MarkAsFinished (token released), then the notification to the source
  | finProduce      -- outlink to the source
  | srcAck | srcNew -- the source consumes its two channels
deriving Repr, DecidableEq

def Act.isSource : Act → Bool
  | .insert | .srcAck | .srcNew => true
  | _ => false

def step (c : Cfg) (s : S) : Act → Option S
  | .insert => if s.used < c.tokens ∧ s.q < c.tokens then some { s with used := s.used + 1, q := s.q + 1 } else none
  | .runTake => if 0 < s.q ∧ s.r = 0 then some { s with q := s.q - 1, r := 1 } else none
  | .runSend => if s.r = 1 ∧ s.c0 < c.cap then some { s with r := 0, c0 := s.c0 + 1 } else none
  | .preTake => if 0 < s.c0 ∧ s.p < c.workers then some { s with c0 := s.c0 - 1, p := s.p + 1 } else none
  | .preSend => if 0 < s.p ∧ s.c1 < c.cap then some { s with p := s.p - 1, c1 := s.c1 + 1 } else none
  | .archTake => if 0 < s.c1 ∧ s.a < c.workers then some { s with c1 := s.c1 - 1, a := s.a + 1 } else none
  | .archSend => if 0 < s.a ∧ s.c2 < c.cap then some { s with a := s.a - 1, c2 := s.c2 + 1 } else none
  | .postTake => if 0 < s.c2 ∧ s.po < c.workers then some { s with c2 := s.c2 - 1, po := s.po + 1 } else none
  | .postOutlink => if 0 < s.po ∧ s.c3s + s.c3o < c.cap then some { s with c3o := s.c3o + 1 } else none
  | .postSend => if 0 < s.po ∧ s.c3s + s.c3o < c.cap then some { s with po := s.po - 1, c3s := s.c3s + 1 } else none
  | .finTakeSeed => if 0 < s.c3s ∧ s.fs + s.fo < c.workers then some { s with c3s := s.c3s - 1, fs := s.fs + 1 } else none
  | .finTakeOutlink => if 0 < s.c3o ∧ s.fs + s.fo < c.workers then some { s with c3o := s.c3o - 1, fo := s.fo + 1 } else none
  | .finFeedback => if 0 < s.fs ∧ s.q < c.tokens then some { s with fs := s.fs - 1, q := s.q + 1 } else none
  | .finFinish => if 0 < s.fs ∧ 0 < s.used ∧ s.cF < c.cap then some { s with fs := s.fs - 1, used := s.used - 1, cF := s.cF + 1 } else none
  | .finProduce => if 0 < s.fo ∧ s.cP < c.cap then some { s with fo := s.fo - 1, cP := s.cP + 1 } else none
  | .srcAck => if 0 < s.cF then some { s with cF := s.cF - 1 } else none
  | .srcNew => if 0 < s.cP then some { s with cP := s.cP - 1 } else none

/-- seeds inside the pipeline -/
def S.seeds (s : S) : Nat := s.q + s.r + s.c0 + s.p + s.c1 + s.a + s.c2 + s.po + s.c3s + s.fs

/-- anything at all left to move -/
def S.busy (s : S) : Bool := decide (0 < s.seeds + s.c3o + s.fo + s.cF + s.cP)

def run (c : Cfg) (s : S) (acts : List Act) : S := acts.foldl (fun s a => (step c s a).getD s) s

/-- the steps that are enabled -/
def enabled (c : Cfg) (s : S) : List Act :=
  [Act.insert, .runTake, .runSend, .preTake, .preSend, .archTake, .archSend, .postTake, .postSend, .postOutlink, .finTakeSeed,
   .finTakeOutlink, .finFeedback, .finFinish, .finProduce, .srcAck, .srcNew].filter (fun a => (step c s a).isSome)

end Zeno.Model.Flow
