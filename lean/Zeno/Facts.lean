/-!
Vocabulary shared by the generated fact files (`Zeno/Base/*.lean`, `Zeno/Gen/*.lean`) and the
model. Core Lean only.
-/
namespace Zeno

/-- Comparison operator found in the source. -/
inductive Cmp | lt | le | gt | ge | eq | ne | unknown
deriving DecidableEq, Repr

/-- Numeric conversion applied to the float threshold before the comparison. -/
inductive Conv | trunc | ceil | unknown
deriving DecidableEq, Repr

/-- Evaluate a comparison over any linearly ordered decidable carrier; `unknown` is `false`. -/
def Cmp.eval {α} [LT α] [LE α] [DecidableEq α] [DecidableLT α] [DecidableLE α] (c : Cmp) (a b : α) : Bool :=
  match c with
  | .lt => decide (a < b)
  | .le => decide (a ≤ b)
  | .gt => decide (b < a)
  | .ge => decide (b ≤ a)
  | .eq => decide (a = b)
  | .ne => decide (a ≠ b)
  | .unknown => false

/-- argument of a micro-op in a translated stats method: a literal, the method's parameter, or its
two's complement (`^uint64(step-1)`, i.e. minus `step` modulo 2^64) -/
inductive Val | const (n : Nat) | arg | negArg
deriving DecidableEq, Repr

/-- micro-ops of the stats primitives, produced by the translator in /verif/tools/facts -/
inductive TInstr
  | add (cell : String) (v : Val)        -- atomic add
  | read (cell : String)                 -- atomic load
  | set (cell : String) (v : Val)        -- atomic store of a known value
  | setLocal (cell : String)             -- atomic store of a value computed earlier in the method
  | swap (cell : String) (v : Val)       -- atomic swap
  | rawRead (cell : String)              -- non-atomic load into the thread's register
  | rawWrite (cell : String)             -- non-atomic store of (register + the method's argument)
deriving DecidableEq, Repr


/-! ### `ProcessBody`, translated statement by statement (tools/facts/sec_body.go) -/

/-- the conditions the translator recognises -/
inductive BCond
  | noPostProcessing          -- disableAssetsCapture && !domainsCrawl && maxHops == 0
  | mimeNeedsPost             -- the test on the sniffed MIME type
  | other (src : String)      -- any other condition: both branches are possible
deriving DecidableEq, Repr

mutual
/-- statements, as far as the response body is concerned -/
inductive BStmt
  | drain                     -- read the body to its end, discarding it
  | sniff (n : Nat)           -- read at most `n` bytes
  | spool                     -- read the body to its end into the spooled buffer
  | keep                      -- attach the spooled buffer to the URL
  | ite (c : BCond) (t e : BBlock)
  | ret                       -- return nil
  | retErr                    -- return an error
  | skip (src : String)       -- does not read the body, does not return
  | opaque (src : String)     -- not understood by the translator
inductive BBlock
  | nil
  | cons (s : BStmt) (rest : BBlock)
end

instance : Repr BStmt := ⟨fun _ _ => "<statement>"⟩
instance : Repr BBlock := ⟨fun _ _ => "<block>"⟩

end Zeno
