/-!
Vocabulary shared by the generated fact files (`Zeno/Base/*.lean`, `Zeno/Gen/*.lean`) and the
model. Core Lean only.
-/
namespace Zeno

/-- Comparison operator found in the source. -/
inductive Cmp | lt | le | gt | ge | eq | ne | unknown
deriving DecidableEq, Repr

/-- Numeric conversion applied to the float threshold before the comparison. -/
inductive Conv | trunc | ceil | unknown
deriving DecidableEq, Repr

/-- Evaluate a comparison over any linearly ordered decidable carrier; `unknown` is `false`. -/
def Cmp.eval {α} [LT α] [LE α] [DecidableEq α] [DecidableLT α] [DecidableLE α] (c : Cmp) (a b : α) : Bool :=
  match c with
  | .lt => decide (a < b)
  | .le => decide (a ≤ b)
  | .gt => decide (b < a)
  | .ge => decide (b ≤ a)
  | .eq => decide (a = b)
  | .ne => decide (a ≠ b)
  | .unknown => false

/-- argument of a micro-op in a translated stats method: a literal, the method's parameter, or its
two's complement (`^uint64(step-1)`, i.e. minus `step` modulo 2^64) -/
inductive Val | const (n : Nat) | arg | negArg
deriving DecidableEq, Repr

/-- micro-ops of the stats primitives, produced by the translator in /verif/tools/facts -/
inductive TInstr
  | add (cell : String) (v : Val)        -- atomic add
  | read (cell : String)                 -- atomic load
  | set (cell : String) (v : Val)        -- atomic store of a known value
  | setLocal (cell : String)             -- atomic store of a value computed earlier in the method
  | swap (cell : String) (v : Val)       -- atomic swap
  | rawRead (cell : String)              -- non-atomic load into the thread's register
  | rawWrite (cell : String)             -- non-atomic store of (register + the method's argument)
deriving DecidableEq, Repr


/-! ### `ProcessBody`, translated statement by statement (tools/facts/sec_body.go) -/

/-- the conditions the translator recognises -/
inductive BCond
  | noPostProcessing          -- disableAssetsCapture && !domainsCrawl && maxHops == 0
  | mimeNeedsPost             -- the test on the sniffed MIME type
  | other (src : String)      -- any other condition: both branches are possible
deriving DecidableEq, Repr

mutual
/-- statements, as far as the response body is concerned -/
inductive BStmt
  | drain                     -- read the body to its end, discarding it
  | sniff (n : Nat)           -- read at most `n` bytes
  | spool                     -- read the body to its end into the spooled buffer
  | keep                      -- attach the spooled buffer to the URL
  | ite (c : BCond) (t e : BBlock)
  | ret                       -- return nil
  | retErr                    -- return an error
  | skip (src : String)       -- does not read the body, does not return
  | opaque (src : String)     -- not understood by the translator
inductive BBlock
  | nil
  | cons (s : BStmt) (rest : BBlock)
end

instance : Repr BStmt := ⟨fun _ _ => "<statement>"⟩
instance : Repr BBlock := ⟨fun _ _ => "<block>"⟩

/-! ### arithmetic methods (token bucket), translated statement by statement (tools/facts/sec_arith.go)

Go `int` expressions become `IExp`, `float64` / `time.Time` / `time.Duration` expressions become `RExp` (times and durations in
seconds), conditions `CExp`. Field and variable names are the ones of the source. -/

/-- the fields of `tokenBucket` the methods compute with -/
inductive Fld | tokens | capacity | refillRate | idealRate | lastRefill | penaltyUntil | failureCount | other (name : String)
deriving DecidableEq, Repr

/-- local variables and parameters are numbered in order of first appearance in the method (their names are identifiers
without meaning; facts.json keeps them) -/
inductive IExp
  | lit (n : Int)
  | fld (f : Fld)                     -- tb.<f>, an int field
  | param (p : Nat)                   -- an int parameter of the method
  | add (a b : IExp)
  | sub (a b : IExp)
  | unknown (src : String)
deriving DecidableEq, Repr

inductive RExp
  | lit (q : Rat)                     -- a literal or a named constant (a Duration constant: its nanoseconds)
  | fld (f : Fld)                     -- tb.<f>, a float or time field
  | loc (x : Nat)                     -- a local variable
  | now                               -- tb.nowFunc()
  | add (a b : RExp)                  -- also t.Add(d)
  | sub (a b : RExp)                  -- also t.Sub(u).Seconds()
  | mul (a b : RExp)
  | div (a b : RExp)
  | ceil (a : RExp)                    -- math.Ceil
  | u64 (a : RExp)                     -- uint64(<float expression>): truncated; undefined outside [0, 2^64)
  | min (a b : RExp)
  | max (a b : RExp)
  | pow (base : Rat) (e : IExp)       -- math.Pow(<constant>, float64(<int expression>))
  | ofInt (e : IExp)                  -- float64(<int expression>)
  | durOfNs (e : RExp)                -- time.Duration(<float expression>): nanoseconds, truncated, as a duration
  | unknown (src : String)
deriving DecidableEq, Repr

inductive CExp
  | cmpR (op : Cmp) (a b : RExp)      -- also t.Before(u) (lt) and t.After(u) (gt)
  | cmpI (op : Cmp) (a b : IExp)
  | and (a b : CExp)
  | or (a b : CExp)
  | not (a : CExp)
  | unknown (src : String)
deriving DecidableEq, Repr

mutual
inductive AStmt
  | setF (f : Fld) (e : RExp)         -- tb.<f> = e   (also += -= ++ --)
  | setI (f : Fld) (e : IExp)         -- tb.<f> = e for an int field
  | setL (x : Nat) (e : RExp)         -- x := e / x = e
  | ite (c : CExp) (t e : ABlock)     -- if / else, switch { case … }
  | ret                               -- return
  | retNil                            -- return nil
  | retErr                            -- return <an error>
  | lock                              -- tb.mu.Lock()
  | unlock                            -- tb.mu.Unlock()
  | deferUnlock                       -- defer tb.mu.Unlock()
  | sleep                             -- time.Sleep(…)
  | callRefill                        -- tb.refill() on the same bucket
  | opaque (src : String)             -- not understood by the translator
inductive ABlock
  | nil
  | cons (s : AStmt) (rest : ABlock)
end

instance : Repr AStmt := ⟨fun _ _ => "<statement>"⟩
instance : Repr ABlock := ⟨fun _ _ => "<block>"⟩

/-! ### the scope tests of `preprocess()`, translated (tools/facts/sec_scope.go) -/

/-- what the tests look at: are include filters configured at all; does the URL's host / text contain an include / exclude entry; does an
exclusion regex match -/
inductive SAtom | anyIncludeHosts | anyIncludeStrings | hostInInclude | textInInclude | hostInExclude | textInExclude | regexExcluded
deriving DecidableEq, Repr

inductive SCond
  | atom (a : SAtom)
  | not (c : SCond)
  | and (a b : SCond)
  | or (a b : SCond)
  | unknown (src : String)
deriving DecidableEq, Repr

/-! ### the "nothing to extract here" tests of `postprocessItem()`, translated (tools/facts/sec_scope.go) -/

inductive PAtom
  | domainsCrawl                         -- domainscrawl.Enabled()
  | depthCmp (op : Cmp) (n : Int)        -- item.GetDepthWithoutRedirections() <op> n
  | mimeHtml                             -- the sniffed MIME type contains "html"
  | disableAssets                        -- config.Get().DisableAssetsCapture
  | maxHopsCmp (op : Cmp) (n : Nat)      -- config.Get().MaxHops <op> n
  | hasBody                              -- item.GetURL().GetBody() != nil
  | hopsCmpMaxHops (op : Cmp)            -- item.GetURL().GetHops() <op> config.Get().MaxHops
deriving DecidableEq, Repr

inductive PCond
  | const (b : Bool)
  | atom (a : PAtom)
  | not (c : PCond)
  | and (a b : PCond)
  | or (a b : PCond)
  | unknown (src : String)
deriving DecidableEq, Repr

end Zeno
