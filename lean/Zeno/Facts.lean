/-!
Vocabulary shared by the generated fact files (`Zeno/Base/*.lean`, `Zeno/Gen/*.lean`) and the
model. Core Lean only.
-/
namespace Zeno

/-- Comparison operator found in the source. -/
inductive Cmp | lt | le | gt | ge | eq | ne | unknown
deriving DecidableEq, Repr

/-- Numeric conversion applied to the float threshold before the comparison. -/
inductive Conv | trunc | ceil | unknown
deriving DecidableEq, Repr

/-- Evaluate a comparison over any linearly ordered decidable carrier; `unknown` is `false`. -/
def Cmp.eval {α} [LT α] [LE α] [DecidableEq α] [DecidableLT α] [DecidableLE α] (c : Cmp) (a b : α) : Bool :=
  match c with
  | .lt => decide (a < b)
  | .le => decide (a ≤ b)
  | .gt => decide (b < a)
  | .ge => decide (b ≤ a)
  | .eq => decide (a = b)
  | .ne => decide (a ≠ b)
  | .unknown => false

end Zeno
