import Zeno.Proofs.RateLimiter
import Zeno.Proofs.RateProg
import Zeno.Gen.RateLimiter
import Zeno.Gen.Archiver
/-!
# C13 — per-host politeness: bounded request rate and honoured back-off penalties

Statements only. `G` = facts regenerated from the ratelimiter package. The bucket is modelled over
exact rationals; an event list is a list of (time, event) with non-decreasing times (`Timed`).
-/
namespace Zeno.Props.C13
open Zeno Zeno.Model.RateLimiter

abbrev G : Facts := Facts.modelled Zeno.Gen.RateLimiter.facts

theorem facts_ok : ok G = true := by decide +kernel

/-- a fresh bucket satisfies the invariant (capacity ≥ 0, configured rate ≥ 0) -/
theorem c13_new_inv (cap rate now : Rat) (hc : 0 ≤ cap) (hr : 0 ≤ rate) : Inv (TB.new cap rate now) := by
  refine ⟨hc, Rat.le_refl, hr, ?_, Rat.le_refl, ?_⟩ <;> simp only [TB.new] <;> grind

/-- Token count stays within [0, capacity]; refill rate never exceeds the configured rate nor falls
below the lower of 0.5/s and that rate — after every event, at any time. -/
theorem c13_range (b : TB) (now : Rat) (e : Ev) (h : Inv b) :
    let b' := (step G b now e).1
    0 ≤ b'.tokens ∧ b'.tokens ≤ b'.cap ∧ min (1 / 2) b'.ideal ≤ b'.rate ∧ b'.rate ≤ b'.ideal ∧ Inv b' := by
  have := step_inv G (ok_consts facts_ok) (ok_fixes facts_ok) b now e h
  exact ⟨this.t0, this.tc, this.rlo, this.rhi, this⟩

/-- Over any window of length T the limiter releases at most capacity + T × configured-rate
requests: for every bucket state reachable before the window, every event sequence and timing. -/
theorem c13_window_bound (evs : List (Rat × Ev)) (b : TB) (a T : Rat) (h : Inv b) (hl : b.last ≤ a)
    (hT : 0 ≤ T) (ht : Timed a (a + T) evs) : ((run G b evs).2 : Rat) ≤ b.cap + T * b.ideal :=
  window_bound G (ok_consts facts_ok) (ok_fixes facts_ok) evs b a T h hl hT ht

/-- After a 429, 403, 408 or 425 at time `t0` (the bucket's `n`-th consecutive failure, `n = fails + 1`)
no request is released at any time in `[t0, t0 + min(5·2^(n-1), 30) s)`, whatever happens meanwhile. -/
theorem c13_penalty_honoured (b : TB) (t0 : Rat) (st : Nat) (hst : st = 429 ∨ st = 403 ∨ st = 408 ∨ st = 425)
    (evs : List (Rat × Ev)) (ht : TimedLt t0 (t0 + penalty G (b.fails + 1)) evs) :
    (run G (onFailure G b t0 st) evs).2 = 0 := by
  have hp : isPenalised G st = true := by
    rcases hst with h | h | h | h <;> subst h <;> decide
  exact penalty_honoured G (ok_consts facts_ok) (ok_fixes facts_ok) b t0 st hp evs ht

/-- the penalty is 5 s, doubling with every further failure, capped at 30 s — for every `n` -/
theorem c13_penalty_value (n : Nat) :
    penalty G n = nsToSec (min ((5000000000 : Int) * 2 ^ (n - 1)) 30000000000) :=
  penalty_eq G (ok_consts facts_ok) (ok_fixes facts_ok) n

example : penalty G 1 = 5 ∧ penalty G 2 = 10 ∧ penalty G 3 = 20 ∧ penalty G 4 = 30 ∧ penalty G 64 = 30 := by
  refine ⟨?_, ?_, ?_, ?_, ?_⟩ <;> rw [c13_penalty_value] <;> decide +kernel

/-- 5xx responses only lower the rate (a 429-class failure leaves it alone) … -/
theorem c13_failure_only_lowers (b : TB) (now : Rat) (st : Nat) (h : Inv b) : (onFailure G b now st).rate ≤ b.rate :=
  failure_rate G (ok_consts facts_ok) (ok_fixes facts_ok) b now st h

/-- … and successes only raise it back toward, never above, the configured rate. -/
theorem c13_success_only_raises (b : TB) (now : Rat) (h : Inv b) :
    b.rate ≤ (onSuccess G b now).rate ∧ (onSuccess G b now).rate ≤ b.ideal :=
  success_rate G (ok_consts facts_ok) b now h

/-- The per-host limiter table never holds more than max(maxBuckets, 1) buckets, for every access
sequence of non-empty hosts shorter than 2^31 − 1 (C16 uses this). -/
theorem c13_table_bounded (m : Nat) (hosts : List String) (hh : ∀ x ∈ hosts, x ≠ "")
    (hk : hosts.length < 2147483647) : (hosts.foldl (getBucket G m) []).length ≤ max m 1 :=
  table_bounded G (ok_table facts_ok) m hosts [] 0 hh (by omega) (by intro e he; cases he) (by simp)

/-- non-vacuity: a concrete run that releases, refuses, is penalised and recovers -/
example : (run G (TB.new 1 1 0) [(0, .try), (0, .try), (1, .fail 429), (3, .try), (6, .try), (7, .try)]).2 = 2 := by
  decide +kernel

/-- the one place that uses the limiter, `archive()`, addresses a host's bucket by the same key when it waits, when it reports a
failure and when it reports a success (so the penalties proved above land on the bucket the next request waits on) -/
theorem call_sites_ok : Zeno.Gen.Archiver.facts.limiterKeysAgree = true := by decide

/-! ### the code as written now

`Gen.RateProg.facts` holds `refill`, one attempt of `Wait`, `adjustOnFailure`, `onSuccess` and `newTokenBucket` translated statement
by statement from the source on every run (tools/facts/sec_arith.go); `Model/RateProg.lean` gives the translated statements their
meaning. The theorems below say that these programs compute exactly the model functions used above — so every statement of this
file is also a statement about the translated code — and restate the two headline bounds directly over the translated programs. -/

open Zeno.Model.RateProg in
/-- nothing in the translated methods is opaque to the translator, and each computes the model function: for every bucket, time, status -/
theorem c13_code_is_model (b : TB) (now : Rat) (st : Nat) (cap rate : Rat) :
    runRefill P b now = some (refill b now) ∧
    runWaitAttempt P b now = some (tryAcquire G b now) ∧
    runOnFailure P b now st = some (onFailure G b now st) ∧
    runOnSuccess P b now = some (onSuccess G b now) ∧
    runNew P cap rate now = some (TB.new cap rate now) :=
  ⟨refill_translated b now, wait_translated b now, failure_translated b now st, success_translated b now, new_translated cap rate now⟩

open Zeno.Model.RateProg in
/-- every field access of the translated methods happens with the bucket's mutex held; no method sleeps or returns holding it -/
theorem c13_lock_discipline : lockOK P = true := by decide

open Zeno.Model.RateProg in
/-- the window bound, over the translated programs: a bucket made by the translated constructor and driven by the translated
methods releases at most capacity + T × configured-rate requests in any window of length T -/
theorem c13_window_bound_code (evs : List (Rat × Ev)) (b : TB) (a T : Rat) (h : Inv b) (hl : b.last ≤ a)
    (hT : 0 ≤ T) (ht : Timed a (a + T) evs) :
    ∃ b' n, runProg P b evs = some (b', n) ∧ (n : Rat) ≤ b.cap + T * b.ideal :=
  ⟨_, _, run_translated evs b, c13_window_bound evs b a T h hl hT ht⟩

open Zeno.Model.RateProg in
/-- the penalty, over the translated programs: after the translated `adjustOnFailure` ran with a 429 / 403 / 408 / 425 at `t0`,
the translated `Wait` releases nothing before `t0 + min(5·2^(n-1), 30) s` -/
theorem c13_penalty_honoured_code (b : TB) (t0 : Rat) (st : Nat) (hst : st = 429 ∨ st = 403 ∨ st = 408 ∨ st = 425)
    (evs : List (Rat × Ev)) (ht : TimedLt t0 (t0 + penalty G (b.fails + 1)) evs) :
    ∃ b1 b2, runOnFailure P b t0 st = some b1 ∧ runProg P b1 evs = some (b2, 0) := by
  refine ⟨onFailure G b t0 st, (run G (onFailure G b t0 st) evs).1, failure_translated b t0 st, ?_⟩
  rw [run_translated]
  have h := c13_penalty_honoured b t0 st hst evs ht
  have e : run G (onFailure G b t0 st) evs = ((run G (onFailure G b t0 st) evs).1, (run G (onFailure G b t0 st) evs).2) := rfl
  rw [e, h]

end Zeno.Props.C13
