import Zeno.Proofs.Flow
import Zeno.Props.C12
import Zeno.Props.C13
import Zeno.Proofs.Stages
import Zeno.Proofs.Pipeline
import Zeno.Gen.Stages
import Zeno.Gen.Pipeline
import Zeno.Gen.Item
/-!
# C16 — resource use does not grow with the number of seeds processed

Statements only; every statement is about all histories / all trees, and each is the part of the property that is
logic: the reactor's token accounting (C12's model), the limiter table's bound (C13's model), `closeBodies` at the
end of `postprocess` (stage model), and "nothing stays in flight" (pipeline model). Goroutine and file-descriptor
counts are runtime facts: they are measured on whole crawls of N and 4N seeds.
-/
namespace Zeno.Props.C16
open Zeno Zeno.Model.Item Zeno.Model.Stages

theorem facts_ok :
    Zeno.Model.Reactor.ok Zeno.Gen.Reactor.facts = true ∧ Zeno.Model.RateLimiter.ok Zeno.Gen.RateLimiter.facts = true ∧
    okPost Zeno.Gen.Stages.facts = true ∧ Zeno.Model.Pipeline.okFin Zeno.Gen.Pipeline.facts = true ∧
    Zeno.Gen.Stages.facts.postWorkerClosesBodies = true :=
  ⟨Zeno.Props.C12.facts_ok, Zeno.Props.C13.facts_ok, by decide, by decide, by decide⟩

/-- **The reactor tracks no seed and all tokens are free once everything was finished**: for every history of API
calls, tokens in use equal the number of tracked seeds (so an empty table means zero tokens in use). -/
theorem c16_tokens_free_when_nothing_tracked (ops : List Zeno.Model.Reactor.Op) :
    let r := Zeno.Model.Reactor.run Zeno.Gen.Reactor.facts Zeno.Model.Reactor.R.init ops
    r.dead = true ∨ (r.table = [] → r.tokens = 0) := by
  rcases Zeno.Props.C12.c12_tokens_eq_tracked ops with h | h
  · exact Or.inl h
  · exact Or.inr (fun he => by rw [h.1, he]; rfl)

/-- **The per-host limiter table stays within its configured bound**, however many hosts are contacted. -/
theorem c16_limiter_table_bounded (m : Nat) (hosts : List String) (hh : ∀ x ∈ hosts, x ≠ "") (hk : hosts.length < 2147483647) :
    (hosts.foldl (Zeno.Model.RateLimiter.getBucket Zeno.Gen.RateLimiter.facts m) []).length ≤ max m 1 :=
  Zeno.Props.C13.c13_table_bounded m hosts hh hk

/-- **No response body stays open**: after `postprocess` (which ends with `closeBodies`) no node of the tree, down to
the working depth, holds its body — whatever was fetched and extracted. -/
theorem c16_bodies_closed (cfg : Cfg) (ex : String → Extract) (t : Tree) (n : Nat) (hn : n ≤ t.maxDepth) :
    ∀ i ∈ ((postprocess Zeno.Gen.Stages.facts cfg ex t).1).atLevel n, i.body = false :=
  postprocess_closes_bodies Zeno.Gen.Stages.facts cfg ex t n hn

/-- **Nothing accumulates in the pipeline**: after any interleaving, every accepted seed is in flight at most once, so
the seeds in flight never outnumber the distinct ids accepted and not yet reported. -/
theorem c16_in_flight_bounded (evs : List Zeno.Model.Pipeline.Ev)
    (he : ∀ e ∈ evs, Zeno.Model.Pipeline.Shaped Zeno.Gen.Item.facts e) (x : String) :
    (Zeno.Model.Pipeline.ids (Zeno.Model.Pipeline.run Zeno.Gen.Pipeline.facts Zeno.Gen.Item.facts {} evs)).count x ≤ 1 :=
  List.nodup_iff_count.1
    (Zeno.Model.Pipeline.inv_run _ _ (by decide) (by decide) evs {} (Zeno.Model.Pipeline.inv_init _) he).nodup x

/-- **Back to idle.** In the flow through the channels and worker pools (Model/Flow.lean, any `--workers`, any interleaving): once
nothing is left inside the pipeline — no seed in a channel or held by a worker, no outlink or acknowledgement waiting for the
source — no token is in use. -/
theorem c16_idle_means_all_tokens_free (w : Nat) (acts : List Zeno.Model.Flow.Act)
    (hidle : (Zeno.Model.Flow.run ⟨w, w, w⟩ {} acts).busy = false) : (Zeno.Model.Flow.run ⟨w, w, w⟩ {} acts).used = 0 := by
  have h := Zeno.Model.Flow.inv_run ⟨w, w, w⟩ acts {} (Zeno.Model.Flow.inv_init _)
  have hb : ¬ (0 < (Zeno.Model.Flow.run ⟨w, w, w⟩ {} acts).seeds + (Zeno.Model.Flow.run ⟨w, w, w⟩ {} acts).c3o +
      (Zeno.Model.Flow.run ⟨w, w, w⟩ {} acts).fo + (Zeno.Model.Flow.run ⟨w, w, w⟩ {} acts).cF + (Zeno.Model.Flow.run ⟨w, w, w⟩ {} acts).cP) := by
    intro hp
    have : (Zeno.Model.Flow.run ⟨w, w, w⟩ {} acts).busy = true := by simp [Zeno.Model.Flow.S.busy, hp]
    rw [this] at hidle; cases hidle
  have := h.acct
  omega

end Zeno.Props.C16
