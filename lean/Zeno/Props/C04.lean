import Zeno.Proofs.Queue
import Zeno.Proofs.Warc
import Zeno.Proofs.Consumer
import Zeno.Gen.Queue
import Zeno.Gen.Archiver
/-!
# C04 — a stopped or killed job resumes all unfinished seeds; finished implies captured

Statements only. `Q` / `A` = facts regenerated from source/lq (SQL statements, transaction
boundaries, what `Init` and `Stop` reset), finisher.go and archiver.go. The local queue table is the
model of Model/Queue.lean (rows FRESH / CLAIMED / deleted); a kill simply drops all volatile state
(reactor table, consumer buffer, finish batches) — the table, being one SQLite transaction per
operation, is whatever the last committed operation left. The event log is that of Model/Warc.lean.
-/
namespace Zeno.Props.C04
open Zeno Zeno.Model.Queue Zeno.Model.Warc

abbrev Q : Zeno.Model.Queue.Facts := Zeno.Gen.Queue.facts
abbrev A : Zeno.Model.Warc.AF := Zeno.Gen.Archiver.facts

theorem facts_ok : (okLQ Q && Q.lqInitReclaims && okOrder A Q) = true := by decide

/-- **Nothing stays stranded**: whatever the table looks like when the process stops or dies — any mix
of FRESH and CLAIMED rows left by any history of adds, claims, deletes and resets — after the job is
started again every remaining row is FRESH, i.e. will be handed out again. -/
theorem c04_no_stranded_after_restart (tbl : List Row) : ∀ r ∈ lqInit Q tbl, r.status = .fresh :=
  restart_all_fresh Q (by decide) tbl

/-- … and restarting neither loses nor duplicates rows (ids, values, via and hops are untouched) -/
theorem c04_restart_keeps_rows (tbl : List Row) :
    (lqInit Q tbl).map (fun r => (r.id, r.value, r.via, r.hops)) = tbl.map (fun r => (r.id, r.value, r.via, r.hops)) := by
  have h : Q.lqInitReclaims = true := by decide
  simp [lqInit, h, List.map_map, Function.comp_def]

/-- Without the reset at `Init` (pinned tree, defect D9) a claimed row stays claimed across a restart. -/
theorem c04_d9_counterexample :
    let tbl : List Row := [{ id := "s1", value := "http://site.example/1", via := "", hops := 0, status := .claimed }]
    (lqInit { Q with lqInitReclaims := false } tbl).any (fun r => r.status == .claimed) = true := by decide

/-- **Finished implies captured**, also after a crash at any point: in every admissible log of durable /
observable events (synchronous WARC writing) and in every prefix of it, a seed's queue row is deleted
— and the seed reported finished — only after every exchange fetched for it was written to the WARC. -/
theorem c04_finished_implies_captured (fetched : Nat → List Nat) (a b : List Ev) (s : Nat) (e : Ev)
    (he : e = .deleted s ∨ e = .notify s) (h : admissible A Q true fetched [] (a ++ e :: b) = true) :
    ∀ u ∈ fetched s, Ev.written u ∈ a :=
  finished_implies_captured A Q (by decide) fetched a b s e he h

/-- what is on disk after a crash is itself an admissible log (so the theorem above applies to it) -/
theorem c04_crash_prefix (fetched : Nat → List Nat) (a b : List Ev)
    (h : admissible A Q true fetched [] (a ++ b) = true) : admissible A Q true fetched [] a = true :=
  admissible_prefix A Q true fetched [] a b h

/-- non-vacuity: a concrete admissible log -/
example : admissible A Q true (fun s => if s = 1 then [10, 11] else []) []
    [.written 10, .archived 10, .written 11, .archived 11, .notify 1, .deleted 1] = true := by decide

/-! ## every URL the queue hands out is crawled -/
open Zeno.Model.Consumer in
theorem consumer_facts_ok : okConsumer Q = true := by decide

open Zeno.Model.Consumer in
/-- **Handed out means crawled.** Of the URLs the consumer takes from the claim buffer — any number, in any order, parsable or
not — every one whose text can be parsed is inserted into the reactor, whatever came before it; only an unparsable URL is
sent to the finish channel without a fetch; and every URL gets exactly one of the two fates. -/
theorem c04_claimed_url_is_crawled (urls : List Claimed) (flag : Bool) :
    (∀ u ∈ urls, u.parsable = true → (u.id, Fate.inserted) ∈ consume Q flag urls) ∧
    (∀ x ∈ consume Q flag urls, x.2 = Fate.finishedUnfetched → ∃ u ∈ urls, u.id = x.1 ∧ u.parsable = false) ∧
    (consume Q flag urls).map Prod.fst = urls.map (·.id) := by
  rw [consume_eq Q consumer_facts_ok]
  refine ⟨?_, ?_, ?_⟩
  · intro u hu hp
    exact List.mem_map.2 ⟨u, hu, by simp [hp]⟩
  · intro x hx hf
    obtain ⟨u, hu, rfl⟩ := List.mem_map.1 hx
    refine ⟨u, hu, rfl, ?_⟩
    cases hp : u.parsable with
    | false => rfl
    | true => simp [hp] at hf
  · simp [List.map_map, Function.comp_def]

open Zeno.Model.Consumer in
/-- with the flag declared outside the loop (seeded change C04-1) one malformed URL sends every later URL of the run to the
finish channel unfetched -/
theorem c04_hoisted_flag_counterexample :
    consume { Q with lqDiscardFlagScope := "hoisted" } false [⟨"bad", false⟩, ⟨"good", true⟩] =
      [("bad", .finishedUnfetched), ("good", .finishedUnfetched)] := by decide

end Zeno.Props.C04
