import Zeno.Model.Stop
import Zeno.Gen.Archiver
import Zeno.Gen.Stages
import Zeno.Gen.Pause
import Zeno.Gen.Pipeline
/-!
# C03 — graceful stop always terminates and finalises the WARC output

Statements only. `runAndStop` (Model/Stop.lean) is the outcome of a run that receives the stop request at a given
moment under a given configuration, as decision logic over shapes of the source (facts regenerated from
archiver.go `Stop`, the four stage workers' pause handshakes, `stopPipeline`, `preprocess`). That the WARC
library's `Close()` finalises the files (rename from `.open`, complete members) is its contract, validated by
reading every file back after each stop.
-/
namespace Zeno.Props.C03
open Zeno Zeno.Model.Stop

abbrev A : AF := Zeno.Gen.Archiver.facts
abbrev S : SF := Zeno.Gen.Stages.facts
abbrev U : UF := Zeno.Gen.Pause.facts
abbrev P : PF := Zeno.Gen.Pipeline.facts

theorem facts_ok :
    (A.stopClients == "nilSafe" && A.stopCancelsThenWaits && A.stopClosesAfterWriters && S.preSeencheckGuard == "guarded" &&
     U.preprocessorAck == "cancellable" && U.archiverAck == "cancellable" && U.postprocessorAck == "cancellable" &&
     U.finisherAck == "cancellable" && P.stopOrderFreezeStagesSourceReactor && P.preSendsCancellable && P.archSendsCancellable &&
     P.postSendsCancellable && P.archiveWaitsForItsCaptures && watcherReturns P.diskWatcherOnStop && watcherReturns P.warcWatcherOnStop &&
     P.insertWaitWokenByFreeze) = true := by decide

/-- **Every stop moment × every configuration**: the run reaches the stop and the stop returns — no crash, no hang. -/
theorem c03_stop_returns (c : Cfg) (m : Moment) : runAndStop A S U P c m = .returned := by
  have h1 : A.stopClients = "nilSafe" := by decide
  have h2 : A.stopCancelsThenWaits = true := by decide
  have h3 : A.stopClosesAfterWriters = true := by decide
  have h4 : S.preSeencheckGuard = "guarded" := by decide
  have h5 : U.preprocessorAck = "cancellable" := by decide
  have h6 : U.archiverAck = "cancellable" := by decide
  have h7 : U.postprocessorAck = "cancellable" := by decide
  have h8 : U.finisherAck = "cancellable" := by decide
  have h9 : P.stopOrderFreezeStagesSourceReactor = true := by decide
  have h10 : P.preSendsCancellable = true := by decide
  have h11 : P.archSendsCancellable = true := by decide
  have h12 : P.postSendsCancellable = true := by decide
  have h13 : P.archiveWaitsForItsCaptures = true := by decide
  have h14 : watcherReturns P.diskWatcherOnStop = true := by decide
  have h15 : watcherReturns P.warcWatcherOnStop = true := by decide
  have h16 : P.insertWaitWokenByFreeze = true := by decide
  have h17 : (P.diskWatcherOnStop == "missing") = false := by decide
  have h18 : (P.warcWatcherOnStop == "missing") = false := by decide
  have hfs : firstSeed S c = .returned := by
    simp only [firstSeed, h4]
    cases c.seencheck <;> cases c.useHQ <;> simp
  simp only [runAndStop, stopPipeline, archiverStop, workerStop, watchersStop, sourceStop, andThen, hfs, h1, h2, h3, h5, h6, h7, h8, h9, h10,
    h11, h12, h13, h14, h15, h16, h17, h18]
  cases m <;> simp [Moment.isPaused]

/-- what the two shapes found in the pinned tree did: with `--proxy` only the proxied client exists and `Stop`
dereferenced the direct one; with `--disable-seencheck` the store was consulted although never opened -/
theorem c03_old_shapes_crash :
    archiverStop { A with stopClients := "derefsDirectClient" } U P { proxy := true } .drained =
      .crash "nil dereference of the direct client (only the proxied one exists)" ∧
    firstSeed { S with preSeencheckGuard := "always" } { seencheck := false } = .crash "nil seen-store in preprocess" := by
  have h2 : A.stopCancelsThenWaits = true := by decide
  have h6 : U.archiverAck = "cancellable" := by decide
  have h11 : P.archSendsCancellable = true := by decide
  constructor
  · simp [archiverStop, workerStop, h2, h6, h11]
  · simp [firstSeed]

/-- the shapes of two later seeded changes hang: a disk watcher that waits for free space before it returns (stop while it holds the
pipeline paused), and a `ReceiveInsert` whose wait for a token does not listen to the freeze context (stop while the source is blocked) -/
theorem c03_waiting_shapes_hang :
    stopPipeline A U { P with diskWatcherOnStop := "mayWait" } {} .pausedByDiskWatcher =
      .hang "the disk watcher holds the pipeline paused and waits for free space before it returns" ∧
    stopPipeline A U { P with insertWaitWokenByFreeze := false } {} .sourceBlockedOnInsert =
      .hang "the source's consumer is blocked in ReceiveInsert and Freeze does not wake it" := by
  constructor <;> decide

end Zeno.Props.C03
