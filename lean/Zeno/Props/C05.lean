import Zeno.Proofs.Stages
import Zeno.Model.Scope
import Zeno.Gen.Stages
import Zeno.Gen.Item
import Zeno.Gen.Archiver
/-!
# C05 — no request is ever sent for a URL outside the operator's scope

Statements only. `S`, `I`, `A` = facts regenerated from preprocessor.go, config.go, item*.go and
archiver.go. `preCore` (Model/Stages.lean) is `preprocess()` up to its final loop together with the
list of node ids that final loop attaches a request to; `norm` is the URL normaliser as an oracle
(its own guarantees — http/https, dotted non-loopback host — are C09's `c09_shape`);
`passesFilters` is the operator's scope: include filters (if any) then exclude host / string / regex.
-/
namespace Zeno.Props.C05
open Zeno Zeno.Model.Item Zeno.Model.Stages

abbrev S : SF := Zeno.Gen.Stages.facts
abbrev I : IF := Zeno.Gen.Item.facts

/-- the shapes of `preprocess` the model mirrors (the include / exclude tests themselves are translated: `c05_scope_tests_translated`), the default excluded hosts, and the only fetch site
fetching nothing but PreProcessed nodes -/
theorem facts_ok :
    (S.preWorksAtMaxDepth && S.prePanicsOnNonFresh && S.preSeedNormErrorFails && S.preChildNormErrorRemoves &&
     S.preRejectRemovesChildCompletesSeed &&
     S.preEmptyPathChildRemoved && S.preDedupeThenSeencheckThenRequests && S.preNoWorkCompletesSeed && S.preOnlyFreshGetRequests &&
     S.defaultExcludedHosts == ["archive.org", "archive-it.org"] &&
     Zeno.Gen.Archiver.facts.onlyPreProcessedFetched && Zeno.Gen.Archiver.facts.workAtMaxDepth) = true := by decide

/-- **No request outside the scope**, in every tree position (seed, redirect target, asset): for every
seed tree, configuration, normaliser and seen-store, each node that `preprocess` gives a request to was
accepted by the normaliser and passes the include / exclude filters with its normalised URL. -/
theorem c05_request_only_in_scope (cfg : Cfg) (norm : String → Option NormRes) (seen : Seen) (t : Tree) :
    ∀ x ∈ (preCore S I cfg norm seen t).2.2.1, ∃ r, norm x = some r ∧ passesFilters cfg r = true := by
  match t with
  | .node i .nil => exact requests_in_scope_seed S I cfg norm seen i
  | .node i (.cons c f) =>
    exact requests_in_scope S I cfg norm seen _ (by simp [Tree.maxDepth])

/-- what the scope means: with include filters, one of them must match (host or whole URL); no exclude
host / string may occur in it and no exclusion regex may match it -/
theorem c05_scope_meaning (cfg : Cfg) (r : NormRes) (h : passesFilters cfg r = true) :
    ((cfg.includeHosts = [] ∧ cfg.includeStrings = []) ∨ containsAny r.host cfg.includeHosts = true ∨
      containsAny r.canon cfg.includeStrings = true) ∧
    containsAny r.host cfg.excludeHosts = false ∧ containsAny r.canon cfg.excludeStrings = false ∧
    r.canon ∉ cfg.regexExcluded := by
  simp only [passesFilters, Bool.and_eq_true, Bool.or_eq_true, Bool.not_eq_true', Bool.or_eq_false_iff,
    List.isEmpty_iff, List.contains_eq_mem, decide_eq_false_iff_not] at h
  obtain ⟨hinc, ⟨hh, hs⟩, hr⟩ := h
  refine ⟨?_, hh, hs, hr⟩
  rcases hinc with (⟨h1, h2⟩ | h1) | h1
  · exact Or.inl ⟨h1, h2⟩
  · exact Or.inr (Or.inl h1)
  · exact Or.inr (Or.inr h1)

/-! ### the scope tests as written now

`S.scopeGuards` = the places where the per-item loop of `preprocess()` rejects an item because of the include / exclude configuration,
translated from the source on every run (the conjunction of the enclosing conditions of each). -/

open Zeno.Model.Scope in
/-- every test was understood by the translator, and the translated tests reject exactly what the property says is out of scope, for **every** valuation of what they look at (are include
filters configured; does the host / text contain an include or exclude entry; does an exclusion regex match) … -/
theorem c05_scope_tests_known : (S.scopeGuards.all SCond.known && !S.scopeGuards.isEmpty) = true := by decide

open Zeno.Model.Scope in
theorem c05_scope_tests_translated (v : SAtom → Bool) : rejectsBy S.scopeGuards v = specRejects v := by
  have h : ∀ b1 b2 b3 b4 b5 b6 b7, rejectsBy S.scopeGuards (valuation b1 b2 b3 b4 b5 b6 b7) = specRejects (valuation b1 b2 b3 b4 b5 b6 b7) := by
    decide
  rw [valuation_eta v]; exact h _ _ _ _ _ _ _

open Zeno.Model.Scope in
/-- … so the model's scope predicate, which `c05_request_only_in_scope` is about, is the negation of "some translated test rejects" -/
theorem c05_scope_is_the_code (cfg : Cfg) (r : NormRes) : passesFilters cfg r = !rejectsBy S.scopeGuards (atomsOf cfg r) := by
  rw [c05_scope_tests_translated, passes_iff]

/-- the two archive hosts are excluded by default -/
theorem c05_default_excludes : S.defaultExcludedHosts = ["archive.org", "archive-it.org"] := by decide

/-- non-vacuity: a seed with three assets, one excluded, one rejected by the normaliser -/
example :
    let t : Tree := .node { id := "s", url := "http://site.example/", st := .gotChildren }
      (.cons (.node { id := "a", url := "", st := .fresh } .nil)
       (.cons (.node { id := "b", url := "", st := .fresh } .nil)
        (.cons (.node { id := "c", url := "", st := .fresh } .nil) .nil)))
    let norm : String → Option NormRes := fun id =>
      if id == "a" then some { canon := "http://site.example/a.png", host := "site.example", path := "/a.png" }
      else if id == "b" then some { canon := "http://archive.org/x", host := "archive.org", path := "/x" }
      else none
    (preCore S I { excludeHosts := ["archive.org"] } norm [] t).2.2.1 = ["a"] := by decide

end Zeno.Props.C05
