import Zeno.Proofs.Pipeline
import Zeno.Proofs.Life
import Zeno.Proofs.LifeDone
import Zeno.Proofs.Flow
import Zeno.Gen.Reactor
import Zeno.Gen.Stages
import Zeno.Gen.Pipeline
import Zeno.Gen.Item
/-!
# C01 — each accepted seed is finished exactly once, only after its whole tree is done

Statements only. `P` = facts regenerated from controler/pipeline.go, the stage workers and finisher.go;
`I` from item*.go. `run` (Model/Pipeline.lean) executes an arbitrary sequence of events — the reactor
accepting a seed, a stage handing a seed on with its tree transformed in any way, a finisher worker
handling a seed — i.e. every interleaving of the workers and every behaviour of the site.
`Shaped` = the trees entering the system and handed on by the stages have the closure shape that the
item operations maintain (C11).
-/
namespace Zeno.Props.C01
open Zeno Zeno.Model.Item Zeno.Model.Stages Zeno.Model.Pipeline

abbrev P : PF := Zeno.Gen.Pipeline.facts
abbrev I : IF := Zeno.Gen.Item.facts

theorem facts_ok : (okFin P && okSets I && P.finChecksConsistency) = true := by decide

theorem fin_ok : okFin P = true := by decide
theorem sets_ok : okSets I = true := by decide

/-- **Never dropped, never reported twice.** After any sequence of events, each id is tracked at most once, and
the number of times it was accepted equals the number of times it is in flight, plus the number of times it
was reported back to the queue (acknowledged as finished or produced as a new URL), plus the number of times
a frozen reactor refused it as feedback (it then stays in the reactor's state table, which the source hands
back to the queue when it stops — not finished, not lost). -/
theorem c01_conservation (evs : List Ev) (he : ∀ e ∈ evs, Shaped I e) (x : String) :
    let s := run P I {} evs
    (ids s).count x ≤ 1 ∧ s.accepted.count x = (ids s).count x + reported s x + handedBack s x := by
  have h := inv_run P I fin_ok sets_ok evs {} (inv_init I) he
  exact ⟨List.nodup_iff_count.1 h.nodup x, h.conserve x⟩

/-- **Exactly once.** When nothing is in flight any more (and no stop intervened), every seed that was accepted
once has been reported back exactly once. -/
theorem c01_exactly_once (evs : List Ev) (he : ∀ e ∈ evs, Shaped I e) (x : String)
    (hdrained : (run P I {} evs).items = []) (hacc : (run P I {} evs).accepted.count x = 1)
    (hnostop : (run P I {} evs).parked = []) :
    reported (run P I {} evs) x = 1 := by
  have h := (inv_run P I fin_ok sets_ok evs {} (inv_init I) he).conserve x
  simp only [Zeno.Model.Pipeline.ids, hdrained, List.map_nil, List.count_nil, Nat.zero_add, handedBack, hnostop] at h
  omega

/-- nothing is reported back that was not accepted: the queue never gets an acknowledgement for a seed it did not hand out -/
theorem c01_reported_was_accepted (evs : List Ev) (he : ∀ e ∈ evs, Shaped I e) (x : String)
    (h : 0 < reported (run P I {} evs) x) : x ∈ (run P I {} evs).accepted := by
  have hc := (inv_run P I fin_ok sets_ok evs {} (inv_init I) he).conserve x
  exact List.count_pos_iff.1 (by omega)

/-- **Only after the whole tree is done.** Whenever a seed is acknowledged as finished, no node of its tree
is still waiting to be fetched or post-processed (Fresh, PreProcessed, Archived, …): every URL of the tree
has been fetched, skipped or has failed for good. -/
theorem c01_ack_only_when_tree_done (evs : List Ev) (he : ∀ e ∈ evs, Shaped I e) :
    ∀ a ∈ (run P I {} evs).acks, a.2.anyPending = false :=
  (inv_run P I fin_ok sets_ok evs {} (inv_init I) he).done

/-- non-vacuity: a seed goes round twice (page, then its asset) and is acknowledged once, with nothing pending -/
example :
    let leaf (st : Status) : Tree := .node { id := "a", url := "http://x.example/a.png", st := st } .nil
    let t0 : Tree := .node { id := "s", url := "http://x.example/", st := .fresh } .nil
    let t1 : Tree := .node { id := "s", url := "http://x.example/", st := .gotChildren } (.cons (leaf .fresh) .nil)
    let t2 : Tree := .node { id := "s", url := "http://x.example/", st := .gotChildren } (.cons (leaf .completed) .nil)
    let evs : List Ev := [.accept "s" t0, .advance "s" t0, .advance "s" t0, .advance "s" t0, .advance "s" t1, .finish "s",
                          .advance "s" t1, .advance "s" t1, .advance "s" t1, .advance "s" t2, .finish "s", .finish "s"]
    let s := run P I {} evs
    (s.items.length, s.acks.map Prod.fst, s.passes, s.accepted) = (0, ["s"], ["s"], ["s"]) ∧
    -- … and with a stop in between: the unfinished seed is neither acknowledged nor dropped
    (let s' := run P I {} [.accept "s" t0, .advance "s" t0, .advance "s" t0, .advance "s" t0, .advance "s" t1, .freeze, .finish "s"]
     (s'.acks.length, s'.parked) = (0, ["s"])) := by decide

/-! ## never dropped: every seed is eventually let go by the finisher

The events above leave open *how often* a seed is sent round again. `Model/Life.lean` composes the stage models themselves
(`preprocess`, `archive`, `postprocess`, the finisher's decision) into the life of one seed, with arbitrary oracles for the
normaliser, the site and the extractors in every pass. -/

/-- **A seed cannot circulate for ever** (domains-crawl off): whatever the site serves in whichever pass, the finisher lets
the seed go — acknowledges it — after at most `4 · max-redirect + 4` passes, and no pass makes `preprocess` panic. -/
theorem c01_seed_is_let_go (cfg : Cfg) (hdc : cfg.domainsCrawl = false) (os : List Zeno.Model.Life.Oracle) (seen : Seen) (i : Info)
    (hf : i.st = .fresh) (hr : i.redirects = 0)
    (hids : Zeno.Model.Life.idsOK Zeno.Gen.Stages.facts I cfg os seen (.node i .nil) = true)
    (hlen : 4 * cfg.maxRedirect + 4 ≤ os.length) :
    (Zeno.Model.Life.life Zeno.Gen.Stages.facts I cfg os seen (.node i .nil)).2.isSome = true := by
  have := Zeno.Model.Life.life_bounded Zeno.Gen.Stages.facts (by decide) (by decide) I (by decide) cfg hdc os seen 0 _
    (Zeno.Model.Life.start_seed cfg.maxRedirect i hf hr) hids (by omega)
  exact this.1

/-- **Only after the whole tree is done — for the stages themselves.** One pass of a seed through the stage models, started
from the shape a pass starts in (`Start`: depth `d`, pending nodes Fresh and on level `d`, ranked; `wp`: every node with a
descendant on level `d` is GotChildren / GotRedirected): the finisher lets the seed go only if no node of the resulting tree
is still Fresh, PreProcessed or Archived; otherwise the seed is sent round again, one level deeper, in the same shape. No
assumption on the trees the stages hand on: they are computed by `preprocess`, `archive`, `postprocess`. -/
theorem c01_pass_acknowledges_only_done_trees (cfg : Cfg) (hdc : cfg.domainsCrawl = false) (o : Zeno.Model.Life.Oracle) (seen : Seen)
    (d : Nat) (t : Tree) (h : Zeno.Model.Life.Start cfg.maxRedirect d t) (hw : t.wp d = true)
    (hid : Zeno.Model.Life.passIds Zeno.Gen.Stages.facts I cfg o seen t = true) :
    let r := Zeno.Model.Life.pass Zeno.Gen.Stages.facts I cfg o seen t
    (r.act = .finish ∧ r.tree.anyPending = false) ∨
    (r.act = .feedback ∧ Zeno.Model.Life.Start cfg.maxRedirect (d + 1) r.tree ∧ r.tree.wp (d + 1) = true) :=
  Zeno.Model.Life.pass_progressW Zeno.Gen.Stages.facts (by decide) (by decide) I (by decide) cfg hdc o seen h hw hid

/-- … and over a whole life: the tree with which a seed finally leaves the pipeline (and is acknowledged to the queue) has
nothing pending, whatever the site served in whichever pass. -/
theorem c01_acknowledged_tree_is_done (cfg : Cfg) (hdc : cfg.domainsCrawl = false) (os : List Zeno.Model.Life.Oracle) (seen : Seen) (i : Info)
    (hf : i.st = .fresh) (hr : i.redirects = 0)
    (hids : Zeno.Model.Life.idsOK Zeno.Gen.Stages.facts I cfg os seen (.node i .nil) = true) (t' : Tree)
    (hfin : (Zeno.Model.Life.life Zeno.Gen.Stages.facts I cfg os seen (.node i .nil)).2 = some t') : t'.anyPending = false :=
  Zeno.Model.Life.life_done Zeno.Gen.Stages.facts (by decide) (by decide) I (by decide) cfg hdc os seen 0 _
    (Zeno.Model.Life.start_seed cfg.maxRedirect i hf hr) (Zeno.Model.Life.Tree.wp_zero _) hids t' hfin

/-! ## no interleaving of the workers wedges the pipeline

`Model/Flow.lean`: the reactor's input channel and token pool, the `run` goroutine, the four stage channels with their worker
pools, the finisher's two channels to the source — as counters, with every receive and every send a separate step that is
enabled only when the channel has an item / has room and a worker is free. The capacities are facts: every stage channel is
buffered with `--workers`, the reactor has `--workers` tokens and an input channel of that size, every stage starts `--workers`
workers. -/

theorem flow_facts_ok :
    (P.stageChannelsBufferedWithWorkers && P.makeStageChannelUsesItsSize && P.reactorTokensAreWorkers &&
     P.everyStageStartsWorkersCountWorkers && Zeno.Gen.Reactor.facts.tokenCapIsMax && Zeno.Gen.Reactor.facts.inputCapIsMax &&
     Zeno.Gen.Reactor.facts.feedbackTakesNoToken) = true := by decide

open Zeno.Model.Flow in
/-- **Bounded in flight.** In every reachable state of the flow, the seeds inside the pipeline are exactly the tokens in use, and
never more than `--workers`. -/
theorem c01_in_flight_eq_tokens (w : Nat) (acts : List Act) :
    (Zeno.Model.Flow.run ⟨w, w, w⟩ {} acts).seeds = (Zeno.Model.Flow.run ⟨w, w, w⟩ {} acts).used ∧
    (Zeno.Model.Flow.run ⟨w, w, w⟩ {} acts).used ≤ w :=
  let h := inv_run ⟨w, w, w⟩ acts {} (inv_init _)
  ⟨h.acct, h.bound⟩

open Zeno.Model.Flow in
/-- **The finisher's feedback never blocks.** In every reachable state in which a finisher worker holds a seed, the reactor's input
channel has room for it (the seed still has its token, and the channel is as large as the token pool). -/
theorem c01_feedback_never_blocks (w : Nat) (acts : List Act) (hf : 0 < (Zeno.Model.Flow.run ⟨w, w, w⟩ {} acts).fs) :
    (Zeno.Model.Flow.step ⟨w, w, w⟩ (Zeno.Model.Flow.run ⟨w, w, w⟩ {} acts) .finFeedback).isSome = true :=
  feedback_enabled _ _ (inv_run ⟨w, w, w⟩ acts {} (inv_init _)) hf

open Zeno.Model.Flow in
/-- **No deadlock.** After any interleaving of receives and sends of any of the workers (`--workers` ≥ 1), as long as anything is
left inside the pipeline some step other than a new insert is enabled: a worker can receive or send, `run` can forward, the
finisher can hand its seed back / on, or the source can consume an acknowledgement or a new URL. -/
theorem c01_no_deadlock (w : Nat) (hw : 1 ≤ w) (acts : List Act) (hb : (Zeno.Model.Flow.run ⟨w, w, w⟩ {} acts).busy = true) :
    ∃ a, a ≠ Act.insert ∧ (Zeno.Model.Flow.step ⟨w, w, w⟩ (Zeno.Model.Flow.run ⟨w, w, w⟩ {} acts) a).isSome = true :=
  progress ⟨w, w, w⟩ hw hw _ (inv_run ⟨w, w, w⟩ acts {} (inv_init _)) hb

open Zeno.Model.Flow in
/-- … and every such step except the finisher's feedback (bounded per seed by `c01_seed_is_let_go`) and the hand-over of an outlink
moves an item strictly closer to the exit: the flow cannot spin. -/
theorem c01_steps_make_progress (w : Nat) (s s' : S) (a : Act) (hs : Zeno.Model.Flow.step ⟨w, w, w⟩ s a = some s')
    (ha : a ≠ .insert ∧ a ≠ .finFeedback ∧ a ≠ .postOutlink) : s'.weight < s.weight :=
  weight_decreases _ s s' a hs ha

/-- non-vacuity: two workers, three inserts (the third waits for a token), one seed goes round twice, everything drains -/
example :
    let acts : List Zeno.Model.Flow.Act := [.insert, .insert, .insert, .runTake, .runSend, .preTake, .preSend, .archTake, .archSend, .postTake, .postOutlink,
      .postSend, .finTakeOutlink, .finProduce, .finTakeSeed, .finFeedback, .srcNew, .runTake, .runSend, .runTake, .runSend, .preTake, .preTake]
    let s := Zeno.Model.Flow.run ⟨2, 2, 2⟩ {} acts
    (s.used, s.seeds, s.p, s.busy) = (2, 2, 2, true) ∧ (Zeno.Model.Flow.enabled ⟨2, 2, 2⟩ s) = [.preSend] := by
  decide +kernel

end Zeno.Props.C01
