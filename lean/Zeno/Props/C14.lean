import Zeno.Proofs.Pause
import Zeno.Proofs.PauseTerm
import Zeno.Gen.Pause
/-!
# C14 — pause stops all stages, resume wakes them all, the protocol never deadlocks

Statements only. `G` = facts regenerated from pause.go and from the pause case of the four stage
workers. The model is a transition system over fine-grained actions (Model/Pause.lean): any number
`n` of subscribed workers, any number of `Pause` / `Resume` / stop invocations from any controllers
in any order, further workers subscribing at any moment (a stage worker subscribes from inside its own
goroutine), interleaved arbitrarily with the internal steps (signalling, acknowledging, collecting,
exiting). `Reachable G n s` = `s` is reachable from `n` initial subscribers by any such history.
-/
namespace Zeno.Props.C14
open Zeno Zeno.Model.Pause

abbrev G : Facts := Zeno.Gen.Pause.facts

theorem facts_ok : ok G = true := by decide

/-- **No deadlock**, for every history and every number of workers: in any reachable state in which
nothing more can happen by itself, every invoked `Pause` / `Resume` has returned (none is signalling,
collecting or queued on the lock), a worker waits for resume only while the manager is paused, and
after a stop request every worker has exited. -/
theorem c14_no_deadlock (n : Nat) (s : S) (hr : Reachable G n s) (hq : Quiescent G s) :
    s.pendingCalls = 0 ∧ (∀ i, (s.sub i).st = .acking → s.paused = true) ∧
    (s.stop = true → ∀ i, i < s.n → (s.sub i).st = .exited) := by
  have h := quiescent_facts G (ok_guarded facts_ok) (ok_ack facts_ok) s (reachable_inv G (ok_guarded facts_ok) n s hr) hq
  exact ⟨by simp [S.pendingCalls, h.1, h.2.1, h.2.2.1], h.2.2.2.1, h.2.2.2.2⟩

/-- **No livelock**: every internal step strictly decreases the measure `mu` (blocked Resumes, collecting Resumes and their
outstanding workers, pause signals still to be sent, tokens, live workers), so whatever the interleaving, at most `mu s`
internal steps can follow a state `s` … -/
theorem c14_internal_steps_bounded (s s' : S) (acts : List Act) (h : Run G s acts s') : acts.length + mu s' ≤ mu s :=
  run_bounded G s s' acts h

/-- … and together with "no deadlock": from any reachable state, any schedule of internal steps that runs until nothing more
can happen is finite (at most `mu s` steps) and ends with every `Pause` and `Resume` call returned. -/
theorem c14_every_call_returns (n : Nat) (s s' : S) (acts : List Act) (hr : Reachable G n s) (h : Run G s acts s')
    (hq : Quiescent G s') : acts.length ≤ mu s ∧ s'.pendingCalls = 0 := by
  have hb := run_bounded G s s' acts h
  exact ⟨by omega, (c14_no_deadlock n s' (run_reachable G n s s' acts hr h) hq).1⟩

/-- **Pause stops all stages**: in every reachable paused state with no `Resume` in progress, every live
worker has the pause signal on its way or in its channel, or is already waiting — and a waiting
worker takes no work (its goroutine is blocked in the pause case: `takeToken` turns `running` into
`acking`, and only a collecting `Resume` or a stop turns it back). -/
theorem c14_pause_reaches_all (n : Nat) (s : S) (hr : Reachable G n s) (hp : s.paused = true) (hres : s.resumes = [])
    (i : Nat) (hl : s.live i = true) : busy s i :=
  (reachable_inv G (ok_guarded facts_ok) n s hr).p0 hp hres i hl

/-- **Resume wakes all**: when a `Resume` that found the pipeline paused returns, the flag is cleared,
every live worker runs again and no pause signal is left behind for a later epoch. -/
theorem c14_resume_wakes_all (n : Nat) (s s' : S) (k : Nat) (hr : Reachable G n s)
    (hs : step G s (.resumeFinish k) = some s') :
    s'.paused = false ∧ ∀ i, s'.live i = true → (s'.sub i).st = .running ∧ (s'.sub i).token = false :=
  resume_wakes_all G s s' k (reachable_inv G (ok_guarded facts_ok) n s hr) hs

/-- unmatched calls are harmless: `Resume` with nothing paused returns at once, a repeated `Pause` is swallowed -/
theorem c14_unmatched_calls_return (s : S) :
    (s.paused = false → s.resumes = [] → step G s .resumeCall = some s) ∧
    (s.paused = true → step G s .pauseCall = some s) :=
  ⟨resume_unpaused_noop G (ok_guarded facts_ok) s, pause_paused_noop G s⟩

/-- a worker waiting for resume can always leave once its stage is stopped -/
theorem c14_stop_releases_waiting_worker (s : S) (i : Nat) (hi : i < s.n) (hstop : s.stop = true)
    (hack : (s.sub i).st = .acking) : (step G s (.exit i)).isSome = true := by
  simp [step, hstop, hi, hack, ok_ack facts_ok]

/-- The pinned tree (no flag test, no serialisation: defect D5) did deadlock: one running worker, one
unmatched `Resume` — nothing can happen and the call never returns. -/
theorem c14_d5_counterexample :
    let F := { G with resumeSerialised := false, resumeChecksFlagFirst := false }
    let s := runActs F (S.init 1) [.resumeCall]
    quiescent F s = true ∧ s.pendingCalls = 1 := by
  decide

/-- … and a worker waiting for resume could not leave on stop (defect D4) -/
theorem c14_d4_counterexample :
    let F := { G with preprocessorAck := "bare" }
    let s := runActs F (S.init 1) [.pauseCall, .pauseSend 0, .takeToken 0, .stopCall]
    quiescent F s = true ∧ (s.sub 0).st = .acking := by
  decide

/-- **Late subscribers** (defect D27, repaired): a worker may subscribe at any moment at which no `Resume` is collecting
(the two are serialised by the lock); when the pipeline is paused it is handed the pause signal at once, so
`c14_pause_reaches_all` and `c14_no_deadlock` above cover it like every other worker. -/
theorem c14_late_subscriber (n : Nat) (s : S) (hr : Reachable G n s) (hres : s.resumes = []) :
    ∃ s', step G s .subscribe = some s' ∧ Reachable G n s' ∧ s'.n = s.n + 1 ∧ s'.live s.n = true ∧
      (s.paused = true → busy s' s.n) := by
  have hst : step G s .subscribe = some { s with n := s.n + 1, subs := fun j => if j = s.n then { st := .running, token := s.paused } else s.subs j } := by
    simp [step, hres, ok_guarded facts_ok]
    decide
  refine ⟨_, hst, Reachable.step s _ .subscribe hr hst, rfl, ?_, ?_⟩
  · simp [S.live, S.sub, Sub.live]
  · intro hp
    right; left
    simp [S.sub, hp]

/-- without the repair (`Subscribe` only registers the channels) the newcomer of a paused pipeline would never be signalled, and the
next `Resume` would wait for it for ever: the model simply has no `subscribe` step then, i.e. the theorems would not cover it -/
theorem c14_d27_not_covered :
    step { G with subscribeSignalsWhenPaused := false } (runActs G (S.init 1) [.pauseCall]) .subscribe = none := by
  decide

/-- non-vacuity: one worker, pause, a second worker subscribes while paused and is stopped too, resume wakes both -/
example :
    let s := runActs G (S.init 1) [.pauseCall, .pauseSend 0, .takeToken 0, .subscribe, .takeToken 1, .resumeCall,
      .resumeRecv 0 0, .resumeRecv 0 1, .resumeFinish 0]
    s.n = 2 ∧ s.pendingCalls = 0 ∧ s.paused = false ∧ (s.sub 0).st = .running ∧ (s.sub 1).st = .running := by
  decide

/-- non-vacuity: a reachable history with two workers, a swallowed second pause and an unmatched resume -/
example : (runActs G (S.init 2) [.pauseCall, .pauseCall, .pauseSend 0, .takeToken 0, .pauseSend 0, .resumeCall,
    .takeToken 1, .resumeRecv 0 0, .resumeRecv 0 1, .resumeFinish 0, .resumeCall]).pendingCalls = 0 := by
  decide

end Zeno.Props.C14
