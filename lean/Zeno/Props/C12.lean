import Zeno.Proofs.Reactor
import Zeno.Proofs.ReactorFine
import Zeno.Gen.Reactor
/-!
# C12 — reactor: bounded in-flight seeds, exact token accounting, no deadlock

Statements only. `G` = facts regenerated from reactor.go; `step G`/`run G` = the sequential model
(every API call runs to quiescence; calls parked on the token pool are woken in FIFO order).
`Good r` = the process crashed (duplicate insert panics) / wedged, or the accounting invariant
holds; `Disc`/`DiscRun` = the client discipline of the pipeline (the consumer feeds back or
finishes only seeds it holds, the source never inserts a tracked or waiting id).
-/
namespace Zeno.Props.C12
open Zeno Zeno.Model.Reactor

abbrev G : Facts := Zeno.Gen.Reactor.facts

theorem facts_ok : ok G = true := by decide

/-- For every history of API calls (any ids, any order, any token count): tokens in use equal the
number of tracked seeds, the table holds no id twice, and tokens never exceed the configured count. -/
theorem c12_tokens_eq_tracked (ops : List Op) :
    let r := run G R.init ops
    r.dead = true ∨ (r.tokens = r.table.length ∧ r.table.Nodup ∧ r.tokens ≤ r.cap) := by
  have := run_good G (ok_tokens facts_ok) R.init ops (Or.inr inv_init)
  rcases this with h | h
  · exact Or.inl h
  · exact Or.inr ⟨h.tok, h.nodup, h.le⟩

/-- Under the pipeline's client discipline no history ever crashes or wedges the reactor, and each
tracked seed is in exactly one place: queued for delivery or held by the consumer. -/
theorem c12_disciplined_no_deadlock (ops : List Op) (hd : DiscRun G R.init ops) :
    let r := run G R.init ops
    r.dead = false ∧ r.tokens = r.table.length ∧ r.tokens ≤ r.cap ∧
      (∀ a, r.queue.count a + r.held.count a = r.table.count a) := by
  have := run_full G (ok_tokens facts_ok) R.init ops inv_init lin_init hd
  exact ⟨this.2.alive, this.1.tok, this.1.le, this.2.cnt⟩

/-- Feeding a held seed back never blocks (and costs no token: `tokens = |table|` is kept by
`c12_tokens_eq_tracked`). -/
theorem c12_feedback_nonblocking (ops : List Op) (hd : DiscRun G R.init ops) (x : Id)
    (hx : x ∈ (run G R.init ops).held) :
    (step G (run G R.init ops) (.feedback x)).2.1 ≠ .blocked := by
  have := run_full G (ok_tokens facts_ok) R.init ops inv_init lin_init hd
  exact (feedback_held G _ x this.1 this.2 hx).1

/-- Feedback for an unknown seed is rejected without side effects (in every state). -/
theorem c12_unknown_feedback_rejected (r : R) (x : Id) (hx : x ∉ r.table) :
    (step G r (.feedback x)).1 = r ∧ (step G r (.feedback x)).2.1 ≠ .ok :=
  feedback_unknown G (ok_tokens facts_ok) r x hx

/-- Finishing an unknown seed is rejected without side effects (in every state) … -/
theorem c12_unknown_finish_rejected (r : R) (x : Id) (hx : x ∉ r.table) :
    (step G r (.finish x)).1 = r ∧ (step G r (.finish x)).2.1 ≠ .ok :=
  finish_unknown G r x hx

/-- … and after a successful finish the seed is unknown, so a repeated finish is rejected. -/
theorem c12_double_finish_rejected (ops : List Op) (x : Id)
    (hlive : Live (run G R.init ops)) (hx : x ∈ (run G R.init ops).table)
    (hp : (run G R.init ops).blockedIns.head? ≠ some x) :
    let r' := (step G (run G R.init ops) (.finish x)).1
    (step G r' (.finish x)).1 = r' ∧ (step G r' (.finish x)).2.1 ≠ .ok := by
  have hg := run_good G (ok_tokens facts_ok) R.init ops (Or.inr inv_init)
  rcases hg with h | h
  · rw [hlive.1] at h; cases h
  · exact finish_unknown G _ x (finish_removes G _ x h hlive hx hp).2

/-- Once frozen the reactor accepts nothing further: inserts and feedback are rejected, state unchanged. -/
theorem c12_frozen_accepts_nothing (r : R) (x : Id) (hfz : r.frozen = true) :
    ((step G r (.insert x)).1 = r ∧ (step G r (.insert x)).2.1 ≠ .ok) ∧
    ((step G r (.feedback x)).1 = r ∧ (step G r (.feedback x)).2.1 ≠ .ok) :=
  ⟨frozen_insert G (by decide) r x hfz, frozen_feedback G (by decide) r x hfz⟩

/-- Once stopped the reactor is gone: every call is rejected. -/
theorem c12_stopped_accepts_nothing (r : R) (x : Id) :
    let r' := (step G r .stop).1
    (step G r' (.insert x)).2.1 ≠ .ok ∧ (step G r' (.feedback x)).2.1 ≠ .ok := by
  simp only [step]
  split
  · simp [*]
  · split
    · simp_all
    · simp [R.init]

/-- Every accepted seed reaches the output as long as a consumer reads: a seed at position `k` of
the queue has been delivered after `k + 1` receives; and a tracked seed is queued or held. -/
theorem c12_every_accepted_reaches_output (r : R) (hl : Live r) (pre post : List Id) (x : Id)
    (hq : r.queue = pre ++ x :: post) : x ∈ (recvN G r (pre.length + 1)).held :=
  recv_reaches G r hl pre post x hq

theorem c12_tracked_is_queued_or_held (ops : List Op) (hd : DiscRun G R.init ops) (x : Id)
    (hx : x ∈ (run G R.init ops).table) :
    x ∈ (run G R.init ops).queue ∨ x ∈ (run G R.init ops).held :=
  tracked_somewhere _ (run_full G (ok_tokens facts_ok) R.init ops inv_init lin_init hd).2 x hx

/-- non-vacuity: a disciplined history that fills the pool, parks an insert, and wakes it -/
def sampleOps : List Op :=
  [Op.start 1, .insert "a", .insert "b", .recv, .feedback "a", .recv, .finish "a", .recv]
example : DiscRun G R.init sampleOps ∧ (run G R.init sampleOps).held = ["b"] ∧
    (run G R.init sampleOps).tokens = 1 := by
  decide

/-! ## under concurrent callers

`ReactorFine` (Model/ReactorFine.lean) splits each API call into the operations the source performs, in the order read from
the source (`G.insertSeq`, `G.finishSeq`), and lets any number of calls interleave between them (`Act.step i` = the i-th call
in flight performs its next operation; `Act.call` = another goroutine enters; `Act.deliver` = `run` forwards a seed). -/
open Zeno.Model.ReactorFine

theorem seq_ok : okSeq G = true := by decide

/-- **Every interleaving.** After any schedule of any number of concurrent inserts, finishes and feedbacks — as long as no
caller inserted a seed that was already tracked — the tokens in use equal the tracked seeds plus the calls that are between
their two operations (an insert holding its token but not yet stored; a finish that removed the entry but has not yet given
the token back); they never exceed the configured number, and no seed is tracked twice. -/
theorem c12_tokens_under_any_interleaving (cap : Nat) (acts : List Act) (hd : (Zeno.Model.ReactorFine.run G { cap := cap } acts).dead = false) :
    let s := Zeno.Model.ReactorFine.run G { cap := cap } acts
    s.tokens = s.table.length + extra G s ∧ s.tokens ≤ cap ∧ s.table.Nodup ∧ s.table.length ≤ cap := by
  have h := inv_run G seq_ok acts { cap := cap } (inv_init G cap) hd
  have hc : (Zeno.Model.ReactorFine.run G { cap := cap } acts).cap = cap := run_cap G acts _
  have hb := h.bound
  rw [hc] at hb
  exact ⟨h.acct, hb, h.nodup, by have := h.acct; omega⟩

/-- … so at every moment when no call is in flight, the tokens in use are exactly the tracked seeds. -/
theorem c12_quiescent_tokens_eq_tracked (cap : Nat) (acts : List Act) (hd : (Zeno.Model.ReactorFine.run G { cap := cap } acts).dead = false)
    (hq : (Zeno.Model.ReactorFine.run G { cap := cap } acts).calls = []) :
    (Zeno.Model.ReactorFine.run G { cap := cap } acts).tokens = (Zeno.Model.ReactorFine.run G { cap := cap } acts).table.length := by
  have h := (c12_tokens_under_any_interleaving cap acts hd).1
  simp only [extra, hq, List.countP_nil, Nat.add_zero] at h
  exact h

/-- non-vacuity, and the two orders the source must not have: two overlapping finishes of one seed are harmless with
`LoadAndDelete` — and give a token back twice with a separate `Load` and `Delete`; storing the seed before holding a token
lets more seeds be tracked than there are tokens. -/
theorem c12_fine_examples :
    let ins2 : List Act := [.call (.ins "a" 0), .call (.ins "b" 0), .step 0, .step 1, .step 0, .step 1, .step 0, .step 1, .step 0, .step 0]
    let fin2 : List Act := [.call (.fin "a" 0 false), .call (.fin "a" 0 false), .step 0, .step 1, .step 0, .step 1, .step 0, .step 1, .step 0, .step 0]
    let good := Zeno.Model.ReactorFine.run G { cap := 2 } (ins2 ++ fin2)
    let bad := Zeno.Model.ReactorFine.run { G with finishSeq := ["load", "delete", "release"] } { cap := 2 } (ins2 ++ fin2)
    let early := Zeno.Model.ReactorFine.run { G with insertSeq := ["loadOrStore", "acquire", "enqueue"] } { cap := 1 }
      [.call (.ins "a" 0), .call (.ins "b" 0), .step 0, .step 1, .step 0]
    (good.tokens, good.table, good.calls) = (1, ["b"], []) ∧
    (bad.tokens, bad.table, bad.calls) = (0, ["b"], []) ∧
    (early.tokens, early.table.length, early.cap) = (1, 2, 1) := by
  decide +kernel

end Zeno.Props.C12
