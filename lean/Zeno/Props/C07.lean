import Zeno.Proofs.Html
import Zeno.Gen.Html
/-!
# C07 — page requisites in standard HTML attributes are all fetched, correctly resolved

Statements only. `H` = facts regenerated from extractor/html.go. `htmlAssets` / `htmlOutlinks` (Model/Html.lean) work on
the parsed document (the HTML parser is an oracle); they return the references as written. Resolving them against the
page URL is done by the normaliser when the children are preprocessed (C09 proves its properties; the end of the
chain — "is requested, with the browser's absolute URL" — is checked on generated documents through the real stages).
-/
namespace Zeno.Props.C07
open Zeno Zeno.Model.Html

abbrev H : HF := Zeno.Gen.Html.facts

theorem facts_ok :
    (H.guard_a && H.guard_img && H.guard_video && H.guard_audio && H.guard_style && H.guard_script && H.guard_link && H.guard_meta &&
     H.guard_source && H.imgAttrs && H.srcsetSplit && H.videoAudioSrc && H.scriptSrc && H.linkHrefUnlessAlternate && H.sourceAttrs &&
     H.styleElementURLs && H.styleAttrURLs && H.styleSchemeRelative == "keeps" && H.everyRawAssetReturned && H.anchorAttrs &&
     H.outlinksResolved && H.outlinkGuardA && H.regexes) = true := by decide

/-- **img**: `src`, and every candidate of `srcset`, of every `img` element anywhere in the document (unless the tag is disabled). -/
theorem c07_img (cfg : Cfg) (els : List El) (e : El) (he : e ∈ els) (ht : e.tag = "img") (hen : enabled cfg "img" = true) :
    (∀ v, e.attr "src" = some v → v ∈ htmlAssets H cfg els) ∧
    (∀ v, e.attr "srcset" = some v → ∀ u ∈ srcsetURLs v, u ∈ htmlAssets H cfg els) :=
  ⟨fun v hv => img_attr H cfg els e he ht hen "src" (Or.inl rfl) v hv,
   fun v hv => img_srcset H cfg els e he ht hen "srcset" (Or.inl rfl) v hv⟩

/-- **script src, video / audio src, source src / srcset**. -/
theorem c07_script_media_source (cfg : Cfg) (els : List El) (e : El) (he : e ∈ els) :
    (e.tag = "script" → enabled cfg "script" = true → ∀ v, e.attr "src" = some v → v ∈ htmlAssets H cfg els) ∧
    (e.tag = "video" → enabled cfg "video" = true → ∀ v, e.attr "src" = some v → v ∈ htmlAssets H cfg els) ∧
    (e.tag = "audio" → enabled cfg "audio" = true → ∀ v, e.attr "src" = some v → v ∈ htmlAssets H cfg els) ∧
    (e.tag = "source" → enabled cfg "source" = true → ∀ v, e.attr "src" = some v → v ∈ htmlAssets H cfg els) ∧
    (e.tag = "source" → enabled cfg "source" = true → ∀ v, e.attr "srcset" = some v → ∀ u ∈ srcsetURLs v, u ∈ htmlAssets H cfg els) :=
  ⟨fun ht hen v hv => script_src H cfg els e he ht hen v hv,
   fun ht hen v hv => media_src H cfg els e he "video" ht (Or.inl rfl) hen v hv,
   fun ht hen v hv => media_src H cfg els e he "audio" ht (Or.inr rfl) hen v hv,
   fun ht hen v hv => source_src H cfg els e he ht hen v hv,
   fun ht hen v hv => source_srcset H cfg els e he ht hen "srcset" (Or.inl rfl) v hv⟩

/-- **link href**, except `rel="alternate"` unless `--capture-alternate-pages`. -/
theorem c07_link (cfg : Cfg) (els : List El) (e : El) (he : e ∈ els) (ht : e.tag = "link") (hen : enabled cfg "link" = true)
    (hrel : cfg.captureAlternate = true ∨ e.attr "rel" ≠ some "alternate") (v : String) (hv : e.attr "href" = some v) :
    v ∈ htmlAssets H cfg els :=
  link_href H cfg els e he ht hen hrel v hv

/-- **url(...) in `<style>` elements**: every match is passed on exactly as written, quotes stripped (no rewriting of
scheme-relative references: they are resolved against the page like every other reference). -/
theorem c07_style_element (cfg : Cfg) (els : List El) (e : El) (he : e ∈ els) (ht : e.tag = "style") (hen : enabled cfg "style" = true)
    (m : List Char) (hm : m ∈ urlFuncs e.text.length e.text.toList) (hwp : startsWith (String.ofList (stripQuotes m)) "#wp-" = false) :
    String.ofList (stripQuotes m) ∈ htmlAssets H cfg els := by
  have hk := styleURL_keeps H (by decide) m
  rw [← hk]
  exact style_element H cfg els e he ht hen m hm (by rw [hk]; exact hwp)

/-- **url(...) in `style` attributes** of any element. -/
theorem c07_style_attr (cfg : Cfg) (els : List El) (e : El) (he : e ∈ els) (u : String) (hu : u ∈ styleAttrAssets e) :
    u ∈ htmlAssets H cfg els :=
  style_attr H cfg els e he u hu

/-- **anchors** are handed on as outlinks. -/
theorem c07_anchor (cfg : Cfg) (els : List El) (e : El) (he : e ∈ els) (ht : e.tag = "a") (hen : enabled cfg "a" = true)
    (v : String) (hv : e.attr "href" = some v) (hne : v ≠ "") : v ∈ htmlOutlinks cfg els :=
  anchor_href cfg els e he ht hen v hv hne

/-- non-vacuity: a small page -/
example :
    let els : List El := [
      { tag := "link", attrs := [("rel", "stylesheet"), ("href", "/s.css")] },
      { tag := "link", attrs := [("rel", "alternate"), ("href", "/feed.xml")] },
      { tag := "style", text := "body { background: url('//cdn.example/bg.png') } .x { src: url(f.woff) }" },
      { tag := "img", attrs := [("src", "a.png"), ("srcset", "a-1x.png 1x, a-2x.png 2x")] },
      { tag := "div", attrs := [("style", "background-image: url(\"d.jpg\")")] },
      { tag := "a", attrs := [("href", "page2")] } ]
    htmlAssets H {} els = ["d.jpg", "a.png", "a-1x.png", "a-2x.png", "//cdn.example/bg.png", "f.woff", "/s.css"] ∧
    htmlOutlinks {} els = ["page2"] := by decide

end Zeno.Props.C07
