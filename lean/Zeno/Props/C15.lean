import Zeno.Proofs.Queue
import Zeno.Gen.Queue
import Zeno.Proofs.Pipeline
import Zeno.Gen.Pipeline
import Zeno.Gen.Item
/-!
# C15 — outlinks and finish acks reach the queue intact, despite queue errors

Statements only. `G` = facts regenerated from source/hq, source/lq, finisher.go and
postprocessor/item.go. The batcher model (`Model/Queue.lean`) is the receive → batch → dispatch →
send-with-retry pipeline that both the outlink producer and the finish acknowledger use, for the
HQ and the local queue alike; `BOp` enumerates arrivals, timer ticks, accepted and refused sends.
-/
namespace Zeno.Props.C15
open Zeno Zeno.Model.Queue

abbrev G : Facts := Zeno.Gen.Queue.facts

/-- facts the HQ side rests on: the `L` letter, the fields sent / read back, size- and timer-triggered
flushes, senders that never give up, notification only after `MarkAsFinished`, via = parent URL -/
theorem facts_ok_hq : okHQ G = true := by decide

theorem facts_ok_lq : okLQ G = true := by decide

/-- the hop count survives the round trip through the queue, for every hop count -/
theorem c15_hops_roundtrip (h : Nat) : pathToHops G (hopsToPath G h) = h := hops_roundtrip G h

/-- **Transient queue errors delay but never drop deliveries**: for every sequence of arrivals, timer
ticks, accepted and refused sends — any number of failures of any kind, any batch size and fill
level — every item that arrived is delivered, in flight or being batched, exactly as often as it
arrived (senders retry for ever: facts `hq…RetriesForever`). -/
theorem c15_conservation {α} [DecidableEq α] (size : Nat) (ops : List (BOp α)) (a : α) :
    (brun G true { size := size } ops).all.count a = (received ops).count a := by
  have := conservation G { size := size } ops a
  simpa [Batcher.all] using this

/-- … and once the failures stop, one tick plus the pending sends leave nothing behind -/
theorem c15_drains {α} (b : Batcher α) :
    let b' := brun G true b (BOp.tick :: List.replicate (b.inflight.length + 1) (BOp.sendOk 0))
    b'.batch = [] ∧ b'.inflight = [] := drains G b

/-- a sender with a give-up branch would lose a batch (what the retry facts exclude) -/
theorem c15_giveup_would_lose : (brun (α := Nat) G false { size := 1 } [.recv 7, .sendFail 0]).all = [] := giveup_loses

/-- **A URL already waiting in the local queue is not queued twice**: through any sequence of
`Add` batches (duplicates inside a batch, across batches), claims, deletes, resets and restarts, no
two rows share a value. -/
theorem c15_lq_no_duplicate_value (tbl tbl' : List Row) (urls : List Row) (h : ValuesNodup tbl)
    (hs : lqAdd G tbl urls = some tbl') : ValuesNodup tbl' := lqAdd_nodup G tbl tbl' urls h hs

theorem c15_lq_other_ops_keep_unique (tbl : List Row) (h : ValuesNodup tbl) (n : Nat) (ids : List String) (id : String) :
    ValuesNodup (lqGet tbl n).1 ∧ ValuesNodup (lqDelete tbl ids) ∧ ValuesNodup (lqReset tbl id) ∧ ValuesNodup (lqInit G tbl) :=
  other_ops_nodup G tbl h n ids id

/-- non-vacuity: three arrivals with batch size 2, a refused send, a tick -/
example : (brun G true { size := 2 } [BOp.recv 1, .recv 2, .sendFail 0, .recv 3, .tick, .sendOk 0, .sendOk 0]).delivered
    = [[1, 2], [3]] := by decide

/-- the finisher's exits as the pipeline model has them (facts regenerated from finisher.go and pipeline.go) -/
theorem facts_ok_finisher : Zeno.Model.Pipeline.okFin Zeno.Gen.Pipeline.facts = true := by decide

/-- **Every finished seed is acknowledged to the queue by its id**: when a finisher worker finds the seed it holds
complete, the acknowledgement for exactly that id is emitted at that step and the seed leaves the pipeline —
whatever else is in flight, whatever source the seed came from and however many passes it took. -/
theorem c15_finished_seed_is_acknowledged (s : Zeno.Model.Pipeline.State) (id : String) (it : Zeno.Model.Pipeline.Item)
    (t' : Zeno.Model.Item.Tree)
    (hfind : s.items.find? (fun x => x.id == id && x.place == .fin) = some it)
    (hf : Zeno.Model.Stages.finisher Zeno.Gen.Item.facts it.tree = (t', .finish)) :
    (Zeno.Model.Pipeline.step Zeno.Gen.Pipeline.facts Zeno.Gen.Item.facts s (.finish id)).acks = (it.id, t') :: s.acks :=
  (Zeno.Model.Pipeline.finish_acks _ _ facts_ok_finisher s id it t' hfind hf).1

end Zeno.Props.C15
