import Zeno.Proofs.Disk
import Zeno.Proofs.DiskProg
import Zeno.Gen.Disk
/-!
# C18 — low-disk guard: threshold semantics are exact and monotone

Statements only. `G` is the fact record regenerated from `/repo` on every run; `refuse` is the
model of `checkThreshold` instantiated with it. `specThreshold` (Proofs/Disk.lean) is written
from the property text. `some true` = refuse / pause, `some false` = accept.
-/
namespace Zeno.Props.C18
open Zeno Zeno.Model.Disk

abbrev G : Facts := Zeno.Gen.Disk.facts

/-- the regenerated facts are the ones the theorems below rest on -/
theorem facts_ok : ok G = true := by decide

/-- Exactness, full strength: for every volume size, free space and operator setting whose
threshold fits `uint64`, the guard refuses exactly when free space is below the threshold. -/
theorem c18_exact (total free : Nat) (msr : Rat)
    (hr : specThreshold total msr ≤ 18446744073709551615) :
    refuse G total free msr = some (decide ((free : Rat) < specThreshold total msr)) :=
  refuse_exact G facts_ok total free msr hr

/-- Without an operator setting the range hypothesis is always met: exact for every volume. -/
theorem c18_exact_default (total free : Nat) (msr : Rat) (h : msr ≤ 0) :
    refuse G total free msr = some (decide ((free : Rat) < specThreshold total msr)) :=
  refuse_exact G facts_ok total free msr
    (Rat.le_trans (specThreshold_default_le total msr h) (by decide))

/-- The default threshold is 50 GiB scaled linearly up to 256 GiB, then 50 GiB. -/
theorem c18_default_threshold (total : Nat) (msr : Rat) (h : msr ≤ 0) :
    threshold G total msr =
      if total ≤ 256 * 2 ^ 30 then ((50 * 2 ^ 30 : Nat) : Rat) * ((total : Rat) / ((256 * 2 ^ 30 : Nat) : Rat))
      else ((50 * 2 ^ 30 : Nat) : Rat) := by
  have hb : okBase G = true := by decide
  rw [threshold_eq_spec G hb]
  have h' : ¬ (0 < msr) := Rat.not_lt.mpr h
  simp [specThreshold, h']

/-- the operator's setting, in GiB, when given -/
theorem c18_operator_threshold (total : Nat) (msr : Rat) (h : 0 < msr) :
    threshold G total msr = msr * ((2 ^ 30 : Nat) : Rat) := by
  have hb : okBase G = true := by decide
  rw [threshold_eq_spec G hb]
  simp [specThreshold, h]

/-- Monotone: with the same volume and setting, more free space never turns an accept into a refusal. -/
theorem c18_monotone (total free free' : Nat) (msr : Rat) (hle : free ≤ free')
    (hr : refuse G total free' msr = some true) : refuse G total free msr = some true :=
  refuse_mono G (by decide) total free free' msr hle hr

/-- "…and pauses while running": whatever the sequence of disk observations, after each watcher tick
the pipeline is paused exactly when the guard's decision on the current numbers is `refuse`. -/
theorem c18_watcher_tracks_guard (lows : List Bool) : watch G lows = lows :=
  watch_tracks G (by decide) lows

/-- The truncating comparison of the pinned tree (defect D13) is *not* exact: witness. -/
theorem c18_trunc_counterexample :
    refuse { G with conv := .trunc } 1000000000000 322122547 (3 / 10) = some false ∧
    ((322122547 : Nat) : Rat) < specThreshold 1000000000000 (3 / 10) := by
  constructor
  · have hb : okBase { G with conv := .trunc } = true := by decide
    rw [refuse_trunc _ hb rfl _ _ _ (by decide +kernel)]
    decide +kernel
  · decide +kernel

/-- non-vacuity: a concrete refusal and a concrete accept in range -/
example : refuse G (500 * 2 ^ 30) (10 * 2 ^ 30) 0 = some true ∧ refuse G (500 * 2 ^ 30) (60 * 2 ^ 30) 0 = some false := by
  rw [c18_exact_default _ _ _ (by decide), c18_exact_default _ _ _ (by decide)]
  decide

/-! ### "the operator's --min-space-required when given": from the command line to the guard -/

/-- the regenerated facts about the flag's default and `handleFlagsAliases` -/
theorem flag_facts_ok : okFlag G = true := by decide +kernel

/-- whatever positive value the operator gives is the setting the guard is called with -/
theorem c18_operator_setting_reaches_guard (v : Rat) (hv : 0 < v) : configured G (some v) = v :=
  configured_given G flag_facts_ok v hv

/-- … so the refusal is exactly `free < v GiB`, for every value whose threshold fits `uint64` -/
theorem c18_operator_setting_decides (total free : Nat) (v : Rat) (hv : 0 < v)
    (hr : specThreshold total v ≤ 18446744073709551615) :
    refuse G total free (configured G (some v)) = some (decide ((free : Rat) < v * 1073741824)) := by
  rw [c18_operator_setting_reaches_guard v hv, c18_exact total free v hr]
  simp [specThreshold, hv]

/-- nothing given: the scaled default decides -/
theorem c18_nothing_given_default (total free : Nat) :
    refuse G total free (configured G none) = some (decide ((free : Rat) < specThreshold total 0)) := by
  rw [configured_none G flag_facts_ok]
  exact c18_exact_default total free 0 (by decide)

/-- The alias rule of the pinned tree (defect D25: the key is compared, as an integer, with 20 although the
flag's default is 0) replaces an operator's 20 by the unset alias' 0: witness. -/
theorem c18_alias_counterexample :
    configured { G with msrAliasRule := "copyAlias", msrAliasGetter := "GetInt", msrAliasUnsetConst := 20,
                        msrAliasKeyConst := 20 } (some 20) = 0 := by
  decide +kernel

/-! ### the code as written now

`Gen.DiskProg.facts.checkThreshold` is `checkThreshold` translated statement by statement from the source on every run
(tools/facts/sec_arith.go), `Model/DiskProg.runCheck` runs it. -/

open Zeno.Model.DiskProg in
/-- the translated function computes exactly the model's decision, for every volume size, free space and setting
(including the cases where the float → uint64 conversion is out of range: both are undefined there) -/
theorem c18_code_is_model (total free : Nat) (msr : Rat) : runCheck P total free msr = refuse G total free msr :=
  check_translated total free msr

open Zeno.Model.DiskProg in
/-- exactness, stated over the translated function -/
theorem c18_exact_code (total free : Nat) (msr : Rat) (hr : specThreshold total msr ≤ 18446744073709551615) :
    runCheck P total free msr = some (decide ((free : Rat) < specThreshold total msr)) := by
  rw [check_translated]; exact c18_exact total free msr hr

open Zeno.Model.DiskProg in
/-- monotonicity, stated over the translated function -/
theorem c18_monotone_code (total free free' : Nat) (msr : Rat) (hle : free ≤ free')
    (hr : runCheck P total free' msr = some true) : runCheck P total free msr = some true := by
  rw [check_translated] at hr ⊢; exact c18_monotone total free free' msr hle hr

end Zeno.Props.C18
