import Zeno.Model.Contain
import Zeno.Gen.Containment
import Zeno.Gen.Stages
/-!
# C10 — no server-controlled input can crash or hang the crawler

Statements only. `C` = facts regenerated from assets.go, outlinks.go, item.go (postprocessor), archiver.go and
preprocessor/url.go; `S` from preprocessor.go. What a parser does on a given input — return, error, panic — is
outside any model of Zeno: the theorem says what each of the three costs; that the parsers neither panic outside the
two dispatchers nor spin is established by fuzzing them through the real call chain (labelled as testing).
-/
namespace Zeno.Props.C10
open Zeno Zeno.Model.Contain

abbrev C : CF := Zeno.Gen.Containment.facts
abbrev S : SF := Zeno.Gen.Stages.facts

theorem facts_ok :
    (C.assetsRecover && C.outlinksRecover && C.assetsErrorLoggedNotFatal && C.outlinksErrorLoggedNotFatal &&
     C.processBodyErrorFailsItem && C.normaliserReturnsErrors && S.preSeedNormErrorFails && S.preChildNormErrorRemoves &&
     C.postprocessItemPanics == 2) = true := by decide

/-- **Link and asset extraction**: whatever the parsers do with a body — return, fail, panic — post-processing the URL never
takes the crawler down; it costs at most that URL's links. -/
theorem c10_extraction_contained (assets outlinks : Raised) : ∀ w, postprocessItem C assets outlinks ≠ .crawler w := by
  have h1 : C.assetsRecover = true := by decide
  have h2 : C.outlinksRecover = true := by decide
  have h3 : C.assetsErrorLoggedNotFatal = true := by decide
  have h4 : C.outlinksErrorLoggedNotFatal = true := by decide
  intro w
  cases assets <;> cases outlinks <;> simp [postprocessItem, dispatcher, worst, h1, h2, h3, h4]

/-- a body that cannot be read, or a URL that cannot be normalised, costs that URL -/
theorem c10_errors_cost_one_url :
    (∀ w, processBody C .error ≠ .crawler w) ∧ (∀ w, normalise C S .error ≠ .crawler w) := by
  have h1 : C.processBodyErrorFailsItem = true := by decide
  have h2 : C.normaliserReturnsErrors = true := by decide
  have h3 : S.preSeedNormErrorFails = true := by decide
  have h4 : S.preChildNormErrorRemoves = true := by decide
  constructor <;> intro w <;> simp [processBody, normalise, h1, h2, h3, h4]

/-- the shape found in the pinned tree: a panic inside a parser was not recovered -/
theorem c10_unrecovered_panic_counterexample :
    postprocessItem { C with assetsRecover := false } .panic .nothing = .crawler "assets: panic not recovered" := by
  simp [postprocessItem, dispatcher, worst]

end Zeno.Props.C10
