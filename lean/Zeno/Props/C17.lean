import Zeno.Proofs.Stats
import Zeno.Gen.Stats
/-!
# C17 — operational counters are exact under concurrency

Statements only. `G` holds the micro-op programs *translated* from internal/pkg/stats on every run
(one list per method of `counter`, `mean`, `rate`), the lock discipline of `rateBucket`, the wiring
of the exported entry points and the gauge pattern of the stage workers. Goroutines are lists of
calls; `run … sched` executes micro-ops in the order the schedule `sched` picks threads — any
number of threads, any interleaving. Values are `uint64`: equalities are modulo `M = 2^64`.
-/
namespace Zeno.Props.C17
open Zeno Zeno.Model.Stats

abbrev G : Facts := Zeno.Gen.Stats.facts

/-- what the theorems need from the translated programs (checked by evaluation) -/
def ok (F : Facts) : Bool :=
  -- rate: `total` is written only by the atomic add of `incr`; incr adds its argument
  addOnlyT "total" F.rate_incr && addOnlyT "total" F.rate_get && addOnlyT "total" F.rate_getTotal &&
  addOnlyT "total" F.rate_reset && F.rate_incr.contains (.add "total" .arg) &&
  (F.rate_incr.filter (TInstr.writesT "total")).length == 1 &&
  -- counter: incr adds, decr subtracts (two's complement), get does not write
  F.counter_incr == [.add "count" .arg] && F.counter_decr == [.add "count" .negArg] &&
  addOnlyT "count" F.counter_get &&
  -- mean: add bumps count by one and sum by the value, atomically each; get does not write
  F.mean_add == [.add "count" (.const 1), .add "sum" .arg] && addOnlyT "count" F.mean_get && addOnlyT "sum" F.mean_get &&
  -- per-status buckets: every method body is under the mutex, missing keys are created under it
  F.rateBucketAllLocked && F.rateBucketIncrShape &&
  -- wiring of the entry points the pipeline calls
  F.wiring.contains "URLsCrawledIncr=URLsCrawled.incr(1)" && F.wiring.contains "SeedsFinishedIncr=SeedsFinished.incr(1)" &&
  F.wiring.contains "HTTPReturnCodesIncr=HTTPReturnCodes.incr(key,1)" &&
  F.wiring.contains "URLsCrawledGet=URLsCrawled.get()" && F.wiring.contains "SeedsFinishedGet=SeedsFinished.get()" &&
  F.wiring.contains "PreprocessorRoutinesIncr=PreprocessorRoutines.incr(1)" &&
  F.wiring.contains "PreprocessorRoutinesDecr=PreprocessorRoutines.decr(1)" &&
  F.wiring.contains "ArchiverRoutinesIncr=ArchiverRoutines.incr(1)" && F.wiring.contains "ArchiverRoutinesDecr=ArchiverRoutines.decr(1)" &&
  F.wiring.contains "PostprocessorRoutinesIncr=PostprocessorRoutines.incr(1)" &&
  F.wiring.contains "PostprocessorRoutinesDecr=PostprocessorRoutines.decr(1)" &&
  F.wiring.contains "MeanHTTPRespTimeAdd=MeanHTTPResponseTime.add(uint64(value.Milliseconds()))" &&
  -- gauges: Incr when the worker starts, deferred Decr
  F.preprocessorGaugeIncrDeferDecr && F.archiverGaugeIncrDeferDecr && F.postprocessorGaugeIncrDeferDecr

theorem facts_ok : ok G = true := by decide

/-- events a call contributes to the total of a rate metric -/
def RateCall.events : RateCall → Nat
  | .incr n => n % M
  | _ => 0

theorem rate_addOnly (x : RateCall) : addOnly "total" (x.code G) = true := by
  cases x <;> exact addOnly_inst _ _ _ (by decide)

theorem rate_adds (x : RateCall) : addsTo "total" (x.code G) = RateCall.events x := by
  cases x <;> simp only [RateCall.code, addsTo_inst, RateCall.events] <;>
    simp [addsToT, G, Zeno.Gen.Stats.facts, Val.eval]

/-- **Totals are exact** (URLs crawled, seeds finished, each per-status-code count is such a metric):
after any concurrent burst of `incr` / `get` / `getTotal` / `reset` calls from any number of
goroutines, under every interleaving, the total equals the number of events. -/
theorem c17_totals_exact (ws : List (List RateCall)) (init : Cells) (sched : List Nat)
    (hf : (run { cells := init, threads := threadsOf (RateCall.code G) ws } sched).finished = true) :
    (run { cells := init, threads := threadsOf (RateCall.code G) ws } sched).cells "total" % M =
      (init "total" + (ws.map (fun calls => (calls.map RateCall.events).sum)).sum) % M := by
  have := calls_exact "total" (RateCall.code G) ws init sched rate_addOnly hf
  simpa [rate_adds] using this

/-- what a call contributes to a gauge / counter -/
def CounterCall.delta : CounterCall → Nat
  | .incr n => n % M
  | .decr n => (M - n % M) % M
  | .get => 0

theorem counter_addOnly (x : CounterCall) : addOnly "count" (x.code G) = true := by
  cases x <;> exact addOnly_inst _ _ _ (by decide)

theorem counter_adds (x : CounterCall) : addsTo "count" (x.code G) = CounterCall.delta x := by
  cases x <;> simp only [CounterCall.code, addsTo_inst, CounterCall.delta] <;> simp [addsToT, G, Zeno.Gen.Stats.facts, Val.eval]

/-- counters: value = initial + increments − decrements (mod 2^64), for every interleaving -/
theorem c17_counter_exact (ws : List (List CounterCall)) (init : Cells) (sched : List Nat)
    (hf : (run { cells := init, threads := threadsOf (CounterCall.code G) ws } sched).finished = true) :
    (run { cells := init, threads := threadsOf (CounterCall.code G) ws } sched).cells "count" % M =
      (init "count" + (ws.map (fun calls => (calls.map CounterCall.delta).sum)).sum) % M := by
  have := calls_exact "count" (CounterCall.code G) ws init sched counter_addOnly hf
  simpa [counter_adds] using this

theorem sum_replicate (n a : Nat) : (List.replicate n a).sum = n * a := by
  induction n with
  | zero => simp
  | succ k ih => simp [List.replicate_succ, ih, Nat.succ_mul, Nat.add_comm]

/-- `live` workers that have started, `exited` workers that have started and returned -/
def workers (live exited : Nat) : List (List CounterCall) :=
  List.replicate live [.incr 1] ++ List.replicate exited [.incr 1, .decr 1]

/-- **Worker gauges equal the number of live workers** — `live` workers have started (Incr) and
`exited` workers have started and finished (Incr, deferred Decr): the gauge reads `live`; in
particular **zero after stop** (`live = 0`). -/
theorem c17_gauge_eq_live_workers (live exited : Nat) (hl : live < M) (sched : List Nat)
    (hf : (run { cells := fun _ => 0, threads := threadsOf (CounterCall.code G) (workers live exited) } sched).finished = true) :
    (run { cells := fun _ => 0, threads := threadsOf (CounterCall.code G) (workers live exited) } sched).cells "count" % M
      = live := by
  rw [c17_counter_exact _ _ _ hf]
  have h1 : 1 % M = 1 := by decide
  have h2 : (M - 1) % M = M - 1 := by decide
  have h3 : 1 + (M - 1) = M := by decide
  simp only [workers, List.map_append, List.map_replicate, List.sum_append, List.map_cons, List.map_nil,
    List.sum_cons, List.sum_nil, CounterCall.delta, Nat.zero_add, Nat.add_zero, h1, h2, h3, sum_replicate]
  rw [Nat.mul_one, Nat.add_mul_mod_self_right, Nat.mod_eq_of_lt hl]

def MeanCall.cnt : MeanCall → Nat | .add _ => 1 | .get => 0
def MeanCall.val : MeanCall → Nat | .add v => v % M | .get => 0

theorem mean_addOnly_count (x : MeanCall) : addOnly "count" (x.code G) = true := by
  cases x <;> exact addOnly_inst _ _ _ (by decide)
theorem mean_addOnly_sum (x : MeanCall) : addOnly "sum" (x.code G) = true := by
  cases x <;> exact addOnly_inst _ _ _ (by decide)
theorem mean_adds_count (x : MeanCall) : addsTo "count" (x.code G) = MeanCall.cnt x := by
  cases x <;> simp only [MeanCall.code, addsTo_inst, MeanCall.cnt] <;>
    simp [addsToT, G, Zeno.Gen.Stats.facts, Val.eval, M]
theorem mean_adds_sum (x : MeanCall) : addsTo "sum" (x.code G) = MeanCall.val x := by
  cases x <;> simp only [MeanCall.code, addsTo_inst, MeanCall.val] <;> simp [addsToT, G, Zeno.Gen.Stats.facts, Val.eval]

/-- **Means equal sum over count at quiescence**: after any burst of `add` / `get` calls the count
cell holds the number of samples and the sum cell their sum (so `get` returns sum / count). -/
theorem c17_mean_exact_at_quiescence (ws : List (List MeanCall)) (init : Cells) (sched : List Nat)
    (hf : (run { cells := init, threads := threadsOf (MeanCall.code G) ws } sched).finished = true) :
    let s := run { cells := init, threads := threadsOf (MeanCall.code G) ws } sched
    s.cells "count" % M = (init "count" + (ws.map (fun calls => (calls.map MeanCall.cnt).sum)).sum) % M ∧
    s.cells "sum" % M = (init "sum" + (ws.map (fun calls => (calls.map MeanCall.val).sum)).sum) % M := by
  constructor
  · have := calls_exact "count" (MeanCall.code G) ws init sched mean_addOnly_count hf
    simpa [mean_adds_count] using this
  · have := calls_exact "sum" (MeanCall.code G) ws init sched mean_addOnly_sum hf
    simpa [mean_adds_sum] using this

/-- a non-atomic increment (load, then store of load + step) *does* lose updates: two threads,
schedule 0 1 0 1 — this is what the translator would emit for `c.count += step` -/
theorem c17_nonatomic_loses_updates :
    (run { cells := fun _ => 0, threads := [{ code := [.rawRead "count", .rawWrite "count" 1] },
        { code := [.rawRead "count", .rawWrite "count" 1] }] } [0, 1, 0, 1]).cells "count" = 1 := by
  decide

/-- non-vacuity: a concrete interleaved burst on the translated programs -/
example : (run { cells := fun _ => 0, threads := threadsOf (RateCall.code G) [[.incr 1, .get, .incr 1], [.incr 1, .reset]] }
    [1, 0, 0, 1, 0, 1, 0, 0, 0, 0, 1, 0, 0, 1, 0, 0, 1]).cells "total" = 3 := by
  decide

end Zeno.Props.C17
