import Zeno.Proofs.Warc
import Zeno.Gen.Archiver
import Zeno.Gen.Queue
/-!
# C02 — accepted responses are in the WARC, byte-exact, before the seed is finished

Statements only. `A` = facts regenerated from archiver.go, body.go, warc.go and the discard hooks; `Q` from the
queue sources and finisher.go. The log model (Model/Warc.lean): `written u` = the WARC library has put the
records of exchange `u` on disk and signalled the request's feedback channel (library contract, validated end to
end: every record is read back from disk and compared with what the origin sent); `archived u` / `settled u` =
archive() is done with the successful / the failing attempt `u`; `notify s` = the finisher reports seed `s`
finished. `fetched s` = all exchanges of `s` whose response the discard policy accepts.
-/
namespace Zeno.Props.C02
open Zeno Zeno.Model.Warc

abbrev A : AF := Zeno.Gen.Archiver.facts
abbrev Q : QF := Zeno.Gen.Queue.facts

/-- synchronous writing is awaited on every exit of an attempt that got a response (success, retry, retries
exceeded), bodies are drained so that the library can complete the record, the discard chain is wired -/
theorem facts_ok :
    (okOrder A Q && A.discardHookWired && A.cloudflareRule && A.discardStatusRule && A.discardChainFirstWins &&
     A.challengePagesRetried && A.bodyClosesResponse && A.bodyKeptDrains && A.bodyDiscardedDrains) = true := by decide

theorem order_ok : okOrder A Q = true := by decide

/-- **Stored before finished.** In every admissible log with synchronous WARC writing, when a seed is reported
finished (and when its queue entry is deleted) every exchange fetched for it — including attempts that were
retried or ended in "retries exceeded" — was written earlier; the same holds for every prefix of the log. -/
theorem c02_stored_before_finished (fetched : Nat → List Nat) (a b : List Ev) (s : Nat) (e : Ev)
    (he : e = .deleted s ∨ e = .notify s) (h : admissible A Q true fetched [] (a ++ e :: b) = true) :
    ∀ u ∈ fetched s, Ev.written u ∈ a :=
  finished_implies_captured A Q order_ok fetched a b s e he h

/-- **The discard policy.** A response is discarded exactly when it is a Cloudflare challenge page (403 with
`cf-mitigated: challenge`) or its status is listed in `--warc-discard-status`. -/
theorem c02_discard_table (status : Nat) (cf : Bool) (list : List Nat) :
    discarded A status cf list = true ↔ ((status = 403 ∧ cf = true) ∨ (list ≠ [] ∧ status ∈ list)) := by
  have h1 : A.discardHookWired = true := by decide
  have h2 : A.cloudflareRule = true := by decide
  have h3 : A.discardStatusRule = true := by decide
  simp only [discarded, h1, h2, h3, Bool.true_and, Bool.or_eq_true, Bool.and_eq_true, beq_iff_eq, Bool.not_eq_true',
    List.isEmpty_eq_false_iff, List.contains_eq_mem, decide_eq_true_eq, ne_eq]

/-- a discarded challenge page is retried like a bad status; other discarded responses are not retried for that reason -/
theorem c02_challenge_retried (status : Nat) (cf : Bool) (h : status = 403 ∧ cf = true) : retried A status cf = true := by
  have h1 : A.discardHookWired = true := by decide
  have h2 : A.cloudflareRule = true := by decide
  have h3 : A.challengePagesRetried = true := by decide
  simp [retried, isChallenge, h1, h2, h3, h.1, h.2]

/-- non-vacuity: a log in which a seed with one retried attempt and one successful attempt is finished -/
example :
    admissible A Q true (fun _ => [1, 2]) [] [.written 1, .settled 1, .written 2, .archived 2, .notify 0, .deleted 0] = true ∧
    admissible A Q true (fun _ => [1, 2]) [] [.settled 1, .written 2, .archived 2, .notify 0] = false := by decide

end Zeno.Props.C02
