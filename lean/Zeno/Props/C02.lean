import Zeno.Proofs.Warc
import Zeno.Proofs.Body
import Zeno.Gen.Archiver
import Zeno.Gen.Queue
/-!
# C02 — accepted responses are in the WARC, byte-exact, before the seed is finished

Statements only. `A` = facts regenerated from archiver.go, body.go, warc.go and the discard hooks; `Q` from the
queue sources and finisher.go. The log model (Model/Warc.lean): `written u` = the WARC library has put the
records of exchange `u` on disk and signalled the request's feedback channel (library contract, validated end to
end: every record is read back from disk and compared with what the origin sent); `archived u` / `settled u` =
archive() is done with the successful / the failing attempt `u`; `notify s` = the finisher reports seed `s`
finished. `fetched s` = all exchanges of `s` whose response the discard policy accepts.
-/
namespace Zeno.Props.C02
open Zeno Zeno.Model.Warc

abbrev A : AF := Zeno.Gen.Archiver.facts
abbrev Q : QF := Zeno.Gen.Queue.facts

/-- synchronous writing is awaited on every exit of an attempt that got a response (success, retry, retries
exceeded), bodies are drained so that the library can complete the record, the discard chain is wired -/
theorem facts_ok :
    (okOrder A Q && A.discardHookWired && A.cloudflareRule && A.discardStatusRule && A.discardChainFirstWins &&
     A.challengePagesRetried && A.bodyClosesResponse && A.bodyKeptDrains && A.bodyDiscardedDrains) = true := by decide

theorem order_ok : okOrder A Q = true := by decide

/-- **Stored before finished.** In every admissible log with synchronous WARC writing, when a seed is reported
finished (and when its queue entry is deleted) every exchange fetched for it — including attempts that were
retried or ended in "retries exceeded" — was written earlier; the same holds for every prefix of the log. -/
theorem c02_stored_before_finished (fetched : Nat → List Nat) (a b : List Ev) (s : Nat) (e : Ev)
    (he : e = .deleted s ∨ e = .notify s) (h : admissible A Q true fetched [] (a ++ e :: b) = true) :
    ∀ u ∈ fetched s, Ev.written u ∈ a :=
  finished_implies_captured A Q order_ok fetched a b s e he h

/-- **The discard policy.** A response is discarded exactly when it is a Cloudflare challenge page (403 with
`cf-mitigated: challenge`) or its status is listed in `--warc-discard-status`. -/
theorem c02_discard_table (status : Nat) (cf : Bool) (list : List Nat) :
    discarded A status cf list = true ↔ ((status = 403 ∧ cf = true) ∨ (list ≠ [] ∧ status ∈ list)) := by
  have h1 : A.discardHookWired = true := by decide
  have h2 : A.cloudflareRule = true := by decide
  have h3 : A.discardStatusRule = true := by decide
  simp only [discarded, h1, h2, h3, Bool.true_and, Bool.or_eq_true, Bool.and_eq_true, beq_iff_eq, Bool.not_eq_true',
    List.isEmpty_eq_false_iff, List.contains_eq_mem, decide_eq_true_eq, ne_eq]

/-- a discarded challenge page is retried like a bad status; other discarded responses are not retried for that reason -/
theorem c02_challenge_retried (status : Nat) (cf : Bool) (h : status = 403 ∧ cf = true) : retried A status cf = true := by
  have h1 : A.discardHookWired = true := by decide
  have h2 : A.cloudflareRule = true := by decide
  have h3 : A.challengePagesRetried = true := by decide
  simp [retried, isChallenge, h1, h2, h3, h.1, h.2]

/-- non-vacuity: a log in which a seed with one retried attempt and one successful attempt is finished -/
example :
    admissible A Q true (fun _ => [1, 2]) [] [.written 1, .settled 1, .written 2, .archived 2, .notify 0, .deleted 0] = true ∧
    admissible A Q true (fun _ => [1, 2]) [] [.settled 1, .written 2, .archived 2, .notify 0] = false := by decide

/-! ## the payload is read to its last byte

`A.processBody` is `archiver.ProcessBody` translated statement by statement from the source on every run (tools/facts/sec_body.go):
reads of the response body (`drain`, `sniff n`, `spool`), returns, and the branch conditions; anything else that touches the body or
returns is `opaque`. The WARC library records what the crawler reads of an exchange, so "byte-identical payload" needs the body read
to its end whenever `ProcessBody` succeeds. -/

theorem body_translated : (Zeno.Model.Body.allPathsDrain A.processBody && A.copyWithTimeoutReadsToEOF && A.copyWithTimeoutNReadsN) = true := by
  decide

/-- **Every successful `ProcessBody` has read the whole body** — for every combination of the capture flags, every MIME class, every
other condition in the function and every body length; and the translation contains no statement the translator failed to
understand. -/
theorem c02_body_read_to_the_end (e : Zeno.Model.Body.Env) :
    (∀ r k, Zeno.Model.Body.run A.processBody e = .ok r k → r = e.len) ∧ Zeno.Model.Body.run A.processBody e ≠ .unknown :=
  Zeno.Model.Body.drains_sound A.processBody (by decide) e

/-- a body is kept for post-processing exactly when its MIME type asks for it (and then it was read to the end into the spool) -/
theorem c02_body_kept_iff (e : Zeno.Model.Body.Env) (he : e.other = fun _ => true) :
    Zeno.Model.Body.run A.processBody e = .ok e.len e.mimePost := by
  obtain ⟨np, mp, o, l⟩ := e
  simp only at he
  subst he
  cases np <;> cases mp <;> simp [Zeno.Model.Body.run, A, Zeno.Gen.Archiver.facts, BBlock.exec, BStmt.exec, Zeno.Model.Body.BCond.eval] <;> omega

/-- the two shapes seeded changes gave it: a drain under a content-length condition, and an early return for redirects -/
theorem c02_body_counterexamples :
    Zeno.Model.Body.allPathsDrain (.cons (.sniff 2048) (.cons (.ite (.other "resp.ContentLength > 2048") (.cons .drain .nil) .nil) (.cons .ret .nil))) = false ∧
    Zeno.Model.Body.allPathsDrain (.cons (.ite (.other "isRedirect") (.cons .ret .nil) .nil) (.cons .drain (.cons .ret .nil))) = false := by
  decide

end Zeno.Props.C02
