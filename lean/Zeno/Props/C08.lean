import Zeno.Proofs.LifeFetch
import Zeno.Proofs.Stages
import Zeno.Proofs.Item
import Zeno.Gen.Stages
import Zeno.Gen.Item
/-!
# C08 — seen URLs are not refetched; nothing is skipped as seen unless the store said so

Statements only. `S` = facts regenerated from seencheck.go, hq/seencheck.go and preprocessor.go, `I` from
item*.go. `seencheck` (Model/Stages.lean) is the local `SeencheckItem` over the nodes of the working depth with
the store as a value (canonical URL ↦ seed?); `hqAnswer` is crawl HQ's endpoint (answers with the values it had
not recorded, and records them); `finalStep` is what `preprocess` does with the verdicts (nodes marked seen
get no request). The canonical URL string being a function of the URL text is C09's.
-/
namespace Zeno.Props.C08
open Zeno Zeno.Model.Item Zeno.Model.Stages

abbrev S : SF := Zeno.Gen.Stages.facts
abbrev I : IF := Zeno.Gen.Item.facts

/-- the source has the shapes the model mirrors: the store is keyed by the canonical string, the asset / seed
rule, dedupe → seencheck → requests order, and crawl HQ is sent the very field that is compared afterwards -/
theorem facts_ok :
    (S.seenLocalRule && S.seenLocalKeyCanonical && S.preDedupeThenSeencheckThenRequests && S.preOnlyFreshGetRequests &&
     S.seenStoreOpenedIfEnabledAndNoHQ && S.seenHQSeedNeverChecked && S.seenHQOnlyFreshSent && S.seenHQAbsentMarkedSeen &&
     S.seenHQComparesCanonical && S.seenHQSends == "canonical") = true := by decide

/-- **Recorded ⇒ skipped** (local store). If the store holds the URL of a node of the working depth when
`SeencheckItem` starts, the node is marked seen — unless it is the seed or a redirect target and the URL had only
been recorded as an asset. Holds for every store content, tree and node list. -/
theorem c08_recorded_is_skipped (t : Tree) (seen : Seen) (items : List Info) (i : Info) (hi : i ∈ items) (w : Bool)
    (hw : seen.lookup i.url = some w) (hex : w = true ∨ checkedAsSeed t i = false) :
    i.id ∈ (seencheck t items seen).2 := by
  rw [seencheck_eq]
  exact fold_must_skip t seen items (seen, []) (Ext.refl _) i hi w hw hex

/-- **Skipped ⇒ the store said so** (local store). A node is marked seen only if its URL was in the store when it
was looked up: recorded before this call, or by an earlier node of this call. -/
theorem c08_skipped_only_if_recorded (t : Tree) (seen : Seen) (items : List Info) (x : String)
    (h : x ∈ (seencheck t items seen).2) :
    ∃ pre i suf, items = pre ++ i :: suf ∧ i.id = x ∧ (i.url ∈ seen.map Prod.fst ∨ i.url ∈ pre.map (·.url)) := by
  rw [seencheck_eq] at h
  rcases fold_skip_only_reported t items (seen, []) x h with h | h
  · cases h
  · exact h

/-- **The store only grows**: what was recorded stays recorded, across any number of checks, and a "seed" record is
never downgraded. -/
theorem c08_store_monotone (t : Tree) (seen : Seen) (items : List Info) (u : String) (b : Bool) (h : seen.lookup u = some b) :
    ∃ b', (seencheck t items seen).1.lookup u = some b' ∧ (b = true → b' = true) := by
  rw [seencheck_eq]
  exact fold_ext t items (seen, []) u b h

/-- every checked URL is recorded afterwards -/
theorem c08_checked_is_recorded (t : Tree) (seen : Seen) (items : List Info) (i : Info) (hi : i ∈ items) :
    ∃ b, (seencheck t items seen).1.lookup i.url = some b := by
  rw [seencheck_eq]
  exact fold_records t items (seen, []) i hi

/-- **Marked seen ⇒ no request**, whichever store answered: the final loop of `preprocess` builds requests only for
nodes not in the list of verdicts. -/
theorem c08_seen_gets_no_request (t2 : Tree) (sr : Seen × List String) (d : Nat) :
    ∀ x ∈ (finalStep t2 sr d).2.2.1, x ∉ sr.2 :=
  finalStep_skips_seen t2 sr d

/-- … and so, in `preprocess` itself (local store, seencheck enabled): whatever the seencheck of this pass marks seen is not
among the nodes a request is built for. -/
theorem c08_preprocess_skips_seen (cfg : Cfg) (seen : Seen) (t2 : Tree) (d : Nat) (hq : cfg.useHQ = false) (hs : cfg.useSeencheck = true) :
    ∀ x ∈ (preTail S cfg seen t2 d).2.2.1, x ∉ (seencheck t2 (t2.atLevel d) seen).2 :=
  preTail_seen_not_requested S cfg seen t2 d hq hs

/-- **crawl HQ**: the value sent for a node is the value compared with HQ's answer (both the canonical string) -/
theorem c08_hq_fields_agree (i : Info) : hqSendKey S i = hqCmpKey S i := by
  have h1 : S.seenHQSends = "canonical" := by decide
  have h2 : S.seenHQComparesCanonical = true := by decide
  simp [hqSendKey, hqCmpKey, h1, h2]

/-- **crawl HQ**: a fresh node is treated as seen exactly when HQ had recorded the value sent for it; HQ answers
with exactly the values it had not recorded. -/
theorem c08_hq_skipped_iff_reported (items : List Info) (hq : Seen) (i : Info) (hi : i ∈ items) (hf : i.st = .fresh) :
    (hqCmpKey S i ∉ (hqAnswer hq (hqSent S items)).2) ↔ (hq.lookup (hqSendKey S i)).isSome = true :=
  hq_marked_iff S c08_hq_fields_agree items hq i hi hf

/-- within one tree, after `DedupeItems`, no URL is carried by two non-seed nodes (node ids being unique) -/
theorem c08_one_node_per_url (i : Info) (k : Forest) (hid : (k.flatten.map (·.id)).Nodup) :
    ((dedupe I (.node i k)).kids.flatten.map (·.url)).Nodup :=
  dedupe_nodup I i k hid

/-- non-vacuity: the same URL as asset, again as asset (skipped), then as a seed (promotion), then as a seed again (skipped) -/
example :
    let a : Info := { id := "a", url := "http://x.example/i.png", st := .fresh }
    let t : Tree := .node { id := "s", url := "http://x.example/", st := .gotChildren } (.cons (.node a .nil) .nil)
    let seedT : Tree := .node { id := "a", url := "http://x.example/i.png", st := .fresh } .nil
    let s1 := seencheck t [a] []
    let s2 := seencheck t [a] s1.1
    let s3 := seencheck seedT [a] s2.1
    let s4 := seencheck seedT [a] s3.1
    (s1.2, s2.2, s3.2, s4.2) = ([], ["a"], [], ["a"]) := by decide

/-! ## across all the passes of a seed

`lifeReqs` (Proofs/LifeFetch.lean) lists, pass after pass of a seed's life through the stage models (Model/Life.lean), the non-seed
nodes that get a request, as (id, canonical URL). -/

theorem life_facts_ok : (okPost S && okSets I && okDedupe I && !(S.preSeencheckGuard == "always")) = true := by decide

/-- **Within one seed's tree no URL is fetched by two different non-seed nodes — in any pass, nor across passes.** Whatever the
normaliser, the site and the extractors answer in whichever pass (domains-crawl off, node ids distinct): the canonical URLs of all
the requests made for non-seed nodes during the seed's life are pairwise distinct. (De-duplication makes the URLs below the seed
distinct before any request is built; a node that was processed once is never removed — the filters and the de-duplication drop
Fresh nodes only — so it is still there, with its URL, when a later duplicate shows up, and wins.) -/
theorem c08_no_url_fetched_twice (cfg : Cfg) (hdc : cfg.domainsCrawl = false) (os : List Zeno.Model.Life.Oracle) (seen : Seen) (i : Info)
    (hf : i.st = .fresh) (hr : i.redirects = 0)
    (hids : Zeno.Model.Life.idsOK S I cfg os seen (.node i .nil) = true) :
    ((Zeno.Model.Life.lifeReqs S I cfg os seen (.node i .nil)).map Prod.snd).Nodup := by
  have h := Zeno.Model.Life.life_fetch S (by decide) (by decide) I (by decide) (by decide) cfg hdc os seen 0 (.node i .nil) []
    (Zeno.Model.Life.start_seed cfg.maxRedirect i hf hr) (Zeno.Model.Life.Tree.wp_zero _)
    (by intro a ha; simp [Zeno.Model.Life.NS, Tree.kids, Forest.flatten] at ha) hids ⟨List.nodup_nil, by intro p hp; cases hp⟩
  simpa using h

/-- non-vacuity: a page with two images, the second of which redirects to the first one's URL — fetched once -/
example :
    let seed : Tree := .node { id := "s", url := "", st := .fresh, raw := "r" } .nil
    let nr (u : String) : Option NormRes := some { canon := u, host := "h.x", path := "/x" }
    let o1 : Zeno.Model.Life.Oracle :=
      { norm := fun id => if id == "s" then nr "u" else if id == "k1" then nr "a" else if id == "k2" then nr "b" else nr "a",
        srv := fun id => if id == "s" then some { status := 200, html := true, body := true } else if id == "k2" then some { status := 302, loc := "a" } else some { status := 200 },
        ex := fun id => if id == "s" then { assets := [("k1", "a"), ("k2", "b")] } else if id == "k2" then { assets := [("k3", "a")] } else {} }
    Zeno.Model.Life.lifeReqs S I {} [o1, o1, o1, o1] [] seed = [("k1", "a"), ("k2", "b")] ∧
    Zeno.Model.Life.idsOK S I {} [o1, o1, o1, o1] [] seed = true := by
  decide +kernel

end Zeno.Props.C08
