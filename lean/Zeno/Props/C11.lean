import Zeno.Proofs.LifeCheck
import Zeno.Gen.Stages
import Zeno.Proofs.Item
import Zeno.Gen.Item
/-!
# C11 — the item tree stays well-formed and completion is detected exactly

Statements only. `G` = facts regenerated from pkg/models/item.go and item_dedupe.go. Trees are the
mutual inductive `Tree`/`Forest` (parent/child symmetry is by construction); `flatten` lists the
nodes in the traversal order `DedupeItems` uses; `Tree.nwc` ("no-work closed") says a node that
has no work has no pending descendant — the shape every tree has between pipeline stages.
-/
namespace Zeno.Props.C11
open Zeno Zeno.Model.Item

abbrev G : Facts := Zeno.Gen.Item.facts

theorem facts_ok : ok G = true := by decide

/-- A seed is declared complete if and only if no node of its tree still awaits fetching or
post-processing (Fresh / PreProcessed / Archived). -/
theorem c11_complete_iff (t : Tree) (hw : t.nwc G = true) :
    (completeAndCheck G t).2 = true ↔ (completeAndCheck G t).1.anyPending = false :=
  complete_iff G (ok_sets facts_ok) t hw

/-- … and completion marking keeps the closure shape, so the tree can go round the pipeline again. -/
theorem c11_complete_keeps_shape (t : Tree) (hw : t.nwc G = true) : (completeAndCheck G t).1.nwc G = true :=
  complete_nwc G (ok_sets facts_ok) t hw

/-- Completion marking changes no pending status: nothing that awaits work is ever marked done. -/
theorem c11_mark_changes_nothing_pending (t : Tree) : (t.mark G).anyPending = t.anyPending :=
  Tree.mark_pending G (ok_sets facts_ok) t

/-- De-duplication leaves exactly one node per URL below the seed (ids unique). -/
theorem c11_dedupe_nodup (i : Info) (k : Forest) (hid : (k.flatten.map (·.id)).Nodup) :
    ((dedupe G (.node i k)).kids.flatten.map (·.url)).Nodup :=
  dedupe_nodup G i k hid

/-- De-duplication never discards a URL altogether: for every tree whose fresh nodes are leaves (as
consistency demands) and whose processed nodes have pairwise distinct URLs (as de-duplication at
every pass maintains), each URL below the seed is still present afterwards. -/
theorem c11_dedupe_keeps_urls (i : Info) (k : Forest) (hid : (k.flatten.map (·.id)).Nodup)
    (hfl : k.freshLeaf = true) (hu : ProcessedUnique k.flatten) :
    ∀ u ∈ k.flatten.map (·.url), u ∈ (dedupe G (.node i k)).kids.flatten.map (·.url) :=
  dedupe_keeps_urls G (ok_dedupe facts_ok) i k hid hfl hu

/-! ## Well-formedness (everything `CheckConsistency` demands) is kept by every operation the
stages perform on a seed's tree — hence, by induction, by every pipeline-shaped sequence. -/

/-- a stage giving a childless node a non-fresh status (Fresh→PreProcessed/Seen/Completed/Failed,
PreProcessed→Archived/Failed, Archived→Completed/Failed) -/
theorem c11_wf_status_change (t : Tree) (id : String) (s : Status) (hs : s ≠ .fresh)
    (hleaf : ∀ (i : Info) (k : Forest), i.id = id → k = .nil) (h : t.check G none = none) :
    (t.setStatus id s).check G none = none :=
  setStatus_leaf_consistent G t id s hs hleaf h

/-- the postprocessor adding an asset (any number) or a redirect target (to a childless node) -/
theorem c11_wf_add_child (t : Tree) (pid : String) (c : Info) (from' : Status)
    (hfrom : from' = .gotChildren ∨ from' = .gotRedirected) (hvia : c.via = false)
    (hred : from' = .gotRedirected → ∀ (i : Info) (k : Forest), i.id = pid → k = .nil)
    (h : t.check G none = none) : (t.addChild pid c from').check G none = none :=
  addChild_consistent G (ok_check facts_ok) t pid c from' hfrom hvia hred h

/-- the preprocessor removing a rejected child -/
theorem c11_wf_remove_child (t : Tree) (pid cid : String) (h : t.check G none = none) :
    (t.removeChild pid cid).check G none = none :=
  removeChild_consistent G t pid cid h

/-- de-duplication -/
theorem c11_wf_dedupe (t : Tree) (h : t.check G none = none) : (dedupe G t).check G none = none :=
  dedupe_consistent G (ok_sets facts_ok) (ok_check facts_ok) t h

/-- completion marking -/
theorem c11_wf_complete (t : Tree) (h : t.check G none = none) : (completeAndCheck G t).1.check G none = none :=
  complete_consistent G (ok_sets facts_ok) (ok_check facts_ok) t h

/-- The preference of the pinned tree (keep a Completed later node, else drop the later node) did
discard URLs (defect D12, repaired): the processed node `b` is dropped with its child `d` in favour
of the fresh duplicate `c`. -/
def d12Witness : Tree :=
  .node { id := "s", url := "root", st := .gotChildren }
    (.cons (.node { id := "a", url := "u1", st := .gotChildren }
              (.cons (.node { id := "c", url := "u2", st := .fresh } .nil) .nil))
     (.cons (.node { id := "b", url := "u2", st := .gotChildren }
              (.cons (.node { id := "d", url := "u3", st := .fresh } .nil) .nil)) .nil))

theorem c11_d12_counterexample :
    d12Witness.check G none = none ∧
    "u3" ∈ d12Witness.kids.flatten.map (·.url) ∧
    "u3" ∉ (dedupe { G with dedupePrefers := "completed" } d12Witness).kids.flatten.map (·.url) ∧
    "u3" ∈ (dedupe G d12Witness).kids.flatten.map (·.url) := by
  decide

/-- non-vacuity of the hypotheses of `c11_dedupe_keeps_urls` and `c11_complete_iff` -/
example : (d12Witness.kids.flatten.map (·.id)).Nodup ∧ d12Witness.kids.freshLeaf = true ∧ d12Witness.nwc G = true := by
  decide

/-! ## through the stages themselves

The theorems above are about the single operations of `pkg/models`. `Model/Life.lean` composes the stage models, which perform
those operations by the hundred; every stage worker runs `CheckConsistency` on the seed it receives and panics when it fails. -/

/-- **No worker's consistency check ever fails on a seed's tree**: started from a consistent tree in start-of-pass shape, the trees
that `preprocess` hands to the archiver, `archive` to the postprocessor, `postprocess` to the finisher, and the finisher back to
the reactor all pass `CheckConsistency` — whatever the normaliser, the site and the extractors answer. -/
theorem c11_stages_hand_on_consistent_trees (cfg : Zeno.Model.Stages.Cfg) (o : Zeno.Model.Life.Oracle) (seen : Zeno.Model.Stages.Seen)
    (R d : Nat) (t : Tree) (h : Zeno.Model.Life.Start R d t) (hw : t.wp d = true) (hk : t.check G none = none) :
    let p := Zeno.Model.Stages.preprocess Zeno.Gen.Stages.facts G cfg o.norm seen t
    let a := Zeno.Model.Stages.archive o.srv p.1
    let q := Zeno.Model.Stages.postprocess Zeno.Gen.Stages.facts cfg o.ex a
    p.1.check G none = none ∧ a.check G none = none ∧ q.1.check G none = none ∧
      (Zeno.Model.Life.pass Zeno.Gen.Stages.facts G cfg o seen t).tree.check G none = none :=
  Zeno.Model.Life.pass_consistent Zeno.Gen.Stages.facts (by decide) (by decide) G (ok_sets facts_ok) (ok_check facts_ok) cfg o seen h hw hk

/-- … and over a whole life (domains-crawl off): the tree with which the seed finally leaves the pipeline is consistent too. -/
theorem c11_life_is_consistent (cfg : Zeno.Model.Stages.Cfg) (hdc : cfg.domainsCrawl = false) (os : List Zeno.Model.Life.Oracle)
    (seen : Zeno.Model.Stages.Seen) (i : Info) (hf : i.st = .fresh) (hr : i.redirects = 0) (hv : i.via = false)
    (hids : Zeno.Model.Life.idsOK Zeno.Gen.Stages.facts G cfg os seen (.node i .nil) = true) (t' : Tree)
    (hfin : (Zeno.Model.Life.life Zeno.Gen.Stages.facts G cfg os seen (.node i .nil)).2 = some t') : t'.check G none = none := by
  refine Zeno.Model.Life.life_consistent Zeno.Gen.Stages.facts (by decide) (by decide) G (ok_sets facts_ok) (ok_check facts_ok) cfg hdc os seen 0 _
    (Zeno.Model.Life.start_seed cfg.maxRedirect i hf hr) (Zeno.Model.Life.Tree.wp_zero _) ?_ hids t' hfin
  simp [Tree.check, Forest.length, Forest.check, checkNode, c1, c2, c3, c4, c5, hf, hv, badParent]

end Zeno.Props.C11
