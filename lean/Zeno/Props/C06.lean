import Zeno.Proofs.Stages
import Zeno.Proofs.Depth
import Zeno.Proofs.Life
import Zeno.Proofs.Warc
import Zeno.Gen.Stages
import Zeno.Model.Scope
import Zeno.Gen.Item
import Zeno.Gen.Archiver
/-!
# C06 — the work per seed is bounded: redirects, asset depth, retries and hops

Statements only. `S` = facts regenerated from postprocessor/item.go, outlinks.go, assets.go;
`A` = facts regenerated from archiver.go. `postAct` (Model/Stages.lean) is the decision of
`postprocessItem` for one Archived node whose depth-without-redirections is `dnr`; `postprocess`
applies it to every node at the working depth; `ex` is an arbitrary extractor result (whatever
the site serves).
-/
namespace Zeno.Props.C06
open Zeno Zeno.Model.Item Zeno.Model.Stages Zeno.Model.Warc Zeno.Model.Life

abbrev S : SF := Zeno.Gen.Stages.facts
abbrev A : AF := Zeno.Gen.Archiver.facts

theorem facts_ok : okPost S = true := by decide

theorem facts_retry_ok :
    (A.retryStartsAtZero && A.retryIncrements && A.retryCounterOnlyInHeader && A.retryLoopOp == .le &&
     A.retryInnerOp == .lt && A.oneRequestPerIteration &&
     A.failedStatusOnExhaustion && A.onlyPreProcessedFetched && A.workAtMaxDepth) = true := by decide

/-- **Redirect chains.** A redirect is followed only from a node that has fewer than `--max-redirect`
redirects behind it; the target carries exactly one more, so never more than `--max-redirect`; it
inherits the page's hops. Server behaviour (`ex`, the response in `i`) is arbitrary. -/
theorem c06_redirect_bound (cfg : Cfg) (ex : String → Extract) (i : Info) (dnr : Int) (c : Info)
    (h : postAct S cfg ex i dnr = .redirect c) :
    i.redirects < cfg.maxRedirect ∧ c.redirects = i.redirects + 1 ∧ c.redirects ≤ cfg.maxRedirect ∧ c.hops = i.hops :=
  let ⟨a, b, c', d, _⟩ := redirect_child S facts_ok cfg ex i dnr c h
  ⟨a, b, c', d⟩

/-- **Asset depth.** Without `--domains-crawl`, a node more than two levels below the page (redirections
not counted) is completed without looking at its body: it gets no children and yields no outlinks.
So the deepest node that can be created by extraction is three levels below the page. -/
theorem c06_no_extraction_below_depth_two (cfg : Cfg) (ex : String → Extract) (i : Info) (dnr : Int)
    (hdc : cfg.domainsCrawl = false) (hd : 2 < dnr) :
    postAct S cfg ex i dnr = .complete ∨ ∃ c, postAct S cfg ex i dnr = .redirect c :=
  no_extraction_beyond_depth S facts_ok cfg ex i dnr hdc hd

/-- … read the other way round: whenever extraction produces asset children or outlinks (domains-crawl off), the node sits
at most two levels below the page, so a child is at most three levels below it. -/
theorem c06_children_only_down_to_level_three (cfg : Cfg) (ex : String → Extract) (i : Info) (dnr : Int) (kids : List Info)
    (outs : List Outlink) (hdc : cfg.domainsCrawl = false) (h : postAct S cfg ex i dnr = .extract kids outs) : dnr + 1 ≤ 3 := by
  have hh : ¬ (2 < dnr) := by
    intro hd
    rcases no_extraction_beyond_depth S facts_ok cfg ex i dnr hdc hd with h' | ⟨c, h'⟩ <;> rw [h] at h' <;> cases h'
  omega

/-- **Asset depth as an invariant of the whole tree.** `levelsOK` = every node that still has pending work in its
subtree (itself Fresh / PreProcessed / Archived, or a descendant) sits at most three levels below the page, redirections
not counted. A lone seed satisfies it; `archive` keeps it; `postprocess` — the only place where nodes are created — keeps
it whenever domains-crawl is off, whatever the site served. (`preprocess` only removes nodes and changes Fresh into Seen /
PreProcessed; completion marking relabels finished subtrees only. Both are covered by the stage-level runs, where the depth
of every fetch is judged, not by a theorem.) -/
theorem c06_depth_invariant (cfg : Cfg) (hdc : cfg.domainsCrawl = false) (ex : String → Extract) (srv : String → Option Outcome) (t : Tree)
    (h : t.levelsOK 0 true = true) :
    (postprocess S cfg ex t).1.levelsOK 0 true = true ∧ (archive srv t).levelsOK 0 true = true ∧
    (∀ i : Info, (Tree.node i .nil).levelsOK 0 true = true) :=
  ⟨Tree.post_levelsOK S facts_ok cfg hdc ex _ _ 0 true t h, Tree.archive_levelsOK srv _ _ 0 true t h, seed_levelsOK⟩

/-- **Hops.** Assets inherit the page's hops. An outlink matching `--domains-crawl` is queued with hops 0;
any other outlink is queued only from a page with fewer than `--max-hops` hops, with the page's hops + 1.
Every outlink names the page as its via. -/
theorem c06_hops (cfg : Cfg) (ex : String → Extract) (i : Info) (dnr : Int) (kids : List Info) (outs : List Outlink)
    (h : postAct S cfg ex i dnr = .extract kids outs) :
    (∀ k ∈ kids, k.hops = i.hops ∧ k.redirects = 0) ∧
    (∀ o ∈ outs, o.via = i.url ∧
      ((cfg.domainsCrawl = true ∧ o.raw ∈ cfg.dcMatch ∧ o.hops = 0) ∨ (o.hops = i.hops + 1 ∧ i.hops < cfg.maxHops))) := by
  obtain ⟨h1, h2⟩ := extraction_hops S facts_ok cfg ex i dnr kids outs h
  exact ⟨fun k hk => ⟨(h1 k hk).1, (h1 k hk).2.1⟩, h2⟩

/-- **Whole tree, every pass.** If every node of a seed's tree has at most `--max-redirect` redirects and the
seed's hops, the same is true after `postprocess` — whatever was archived and whatever the extractors found.
(Preprocessing and archiving create no nodes; a seed starts with 0 redirects.) -/
theorem c06_tree_bounded (cfg : Cfg) (ex : String → Extract) (hops : Nat) (t : Tree)
    (h : ∀ j ∈ t.flatten, j.redirects ≤ cfg.maxRedirect ∧ j.hops = hops) :
    ∀ j ∈ (postprocess S cfg ex t).1.flatten, j.redirects ≤ cfg.maxRedirect ∧ j.hops = hops :=
  postprocess_bounded S facts_ok cfg ex hops t h

/-- **Retries.** A URL whose every attempt fails is attempted exactly `--max-retry + 1` times per visit. -/
theorem c06_attempts (maxRetry : Nat) : attempts A maxRetry = maxRetry + 1 :=
  attempts_le A (by decide) maxRetry

/-- **Retries, any site.** One visit of a URL sends at most `--max-retry + 1` requests, whatever the site does on
each attempt (no response, bad status, challenge page, good response, in any order). `visit` is the retry loop
of `archive()` with its operators, start value and step read from the source. -/
theorem c06_visit_bound (maxRetry : Nat) (site : Nat → Attempt) : (visit A maxRetry site).1 ≤ maxRetry + 1 :=
  visit_bound A (by decide) maxRetry site

/-- … and the visit always ends with a verdict: the node is Failed, or a response is kept. -/
theorem c06_visit_ends (maxRetry : Nat) (site : Nat → Attempt) : (visit A maxRetry site).2 ≠ .fellThrough := by
  have h : visit A maxRetry site = visitFrom A maxRetry site (maxRetry + 2) 0 0 := by
    unfold visit
    have : (A.retryStartsAtZero && A.retryIncrements && A.retryCounterOnlyInHeader && A.oneRequestPerIteration) = true := by decide
    rw [if_pos this]
  rw [h]
  exact visitFrom_ends A (by decide) (by decide) maxRetry site _ 0 0 (by omega) (by omega)

/-- non-vacuity of the visit model: reset, 503, then 200 with max-retry 2 → three requests, kept; with max-retry 1 → two, Failed -/
example :
    let site : Nat → Attempt := fun n => if n == 0 then .netErr else if n == 1 then .resp 503 false else .resp 200 false
    visit A 2 site = (3, .ok 200) ∧ visit A 1 site = (2, .failed) ∧ visit A 0 site = (1, .failed) := by decide

/-- non-vacuity: a redirect at the limit is not followed, one below is; an asset found three levels down is not expanded -/
example :
    let i : Info := { id := "n", url := "http://a.example/", st := .archived, resp := 302, loc := "/x", redirects := 2, hops := 1 }
    (match postAct S { maxRedirect := 3 } (fun _ => { assets := [("c1", "/x")] }) i 0 with | .redirect c => c.redirects == 3 && c.hops == 1 | _ => false) = true ∧
    (match postAct S { maxRedirect := 2 } (fun _ => {}) i 0 with | .complete => true | _ => false) = true ∧
    (match postAct S {} (fun _ => { assets := [("c1", "/y")] }) { i with resp := 200, body := true } 3 with | .complete => true | _ => false) = true ∧
    (match postAct S { maxHops := 2 } (fun _ => { assets := [("c1", "/y")], outlinks := ["http://b.example/"] }) { i with resp := 200, body := true } 0 with
      | .extract kids outs => kids.length == 1 && outs == [{ raw := "http://b.example/", hops := 2, via := "http://a.example/" }] | _ => false) = true := by
  decide

/-! ## every seed leaves the pipeline after a bounded number of passes

`pass` (Model/Life.lean) is one trip of a seed's tree through the stage models — `preprocess`, `archive`, `postprocess`,
the finisher's decision — with arbitrary oracles (`Oracle`: what the normaliser accepts, what the site answers, what the
extractors find); `life` repeats it until the finisher lets the seed go. `idsOK` says that the nodes created along the way
get ids not yet used in the tree (they are UUIDs). `Start R d t` (Proofs/Life.lean) is the shape of a tree at the start of a
pass: depth `d`, all pending nodes Fresh and on level `d`, ranked (chains of at most `R` redirects, at most three asset
levels). -/

abbrev I : IF := Zeno.Gen.Item.facts

theorem facts_life_ok : (okPost S && okSets I && !(S.preSeencheckGuard == "always")) = true := by decide

/-- **One pass either ends the seed's life or deepens its tree by exactly one level** (domains-crawl off); and
`preprocess` never meets a node it would panic on. Whatever the site and the extractors return. -/
theorem c06_pass_finishes_or_deepens (cfg : Cfg) (hdc : cfg.domainsCrawl = false) (o : Oracle) (seen : Seen) (d : Nat) (t : Tree)
    (h : Start cfg.maxRedirect d t) (hid : passIds S I cfg o seen t = true) :
    (pass S I cfg o seen t).pre = .ok ∧
      ((pass S I cfg o seen t).act = .finish ∨
       ((pass S I cfg o seen t).act = .feedback ∧ (pass S I cfg o seen t).tree.maxDepth = d + 1 ∧
         Start cfg.maxRedirect (d + 1) (pass S I cfg o seen t).tree)) := by
  obtain ⟨h1, h2⟩ := pass_progress S (by decide) (by decide) I (by decide) cfg hdc o seen h hid
  refine ⟨h1, ?_⟩
  rcases h2 with h2 | ⟨h2, h3⟩
  · exact Or.inl h2
  · exact Or.inr ⟨h2, h3.depth, h3⟩

/-- **No tree in start-of-pass shape is deeper than `4 · max-redirect + 3`**: at most three asset levels below the page,
each reached through at most `max-redirect` redirects, and as many before the page itself. -/
theorem c06_depth_le (R d : Nat) (t : Tree) (h : Start R d t) : t.maxDepth ≤ 4 * R + 3 := by
  rw [h.depth]; exact start_depth_le h

/-- **Every seed finishes after a bounded number of pipeline passes.** A seed entering the pipeline (a lone Fresh node) is
let go by the finisher after at most `4 · max-redirect + 4` passes — for every site behaviour, every extractor result and
every normaliser verdict in every pass (domains-crawl off). -/
theorem c06_seed_finishes_within (cfg : Cfg) (hdc : cfg.domainsCrawl = false) (os : List Oracle) (seen : Seen) (i : Info)
    (hf : i.st = .fresh) (hr : i.redirects = 0) (hids : idsOK S I cfg os seen (.node i .nil) = true)
    (hlen : 4 * cfg.maxRedirect + 4 ≤ os.length) :
    (life S I cfg os seen (.node i .nil)).2.isSome = true ∧ (life S I cfg os seen (.node i .nil)).1 ≤ 4 * cfg.maxRedirect + 4 := by
  have := life_bounded S (by decide) (by decide) I (by decide) cfg hdc os seen 0 _ (start_seed cfg.maxRedirect i hf hr) hids (by omega)
  exact ⟨this.1, by omega⟩

/-- non-vacuity: a page with one image (two passes), and a redirect chain cut at `--max-redirect 1` (two passes, the second hop is
not followed); ids stay distinct -/
example :
    let seed : Tree := .node { id := "s", url := "", st := .fresh, raw := "r" } .nil
    let nr (u : String) : Option NormRes := some { canon := u, host := "h.x", path := "/x" }
    let o1 : Oracle := { norm := fun id => if id == "s" then nr "u" else nr "v",
                         srv := fun id => if id == "s" then some { status := 200, html := true, body := true } else some { status := 200 },
                         ex := fun id => if id == "s" then { assets := [("k", "/i")] } else {} }
    let o2 : Oracle := { norm := fun id => nr id, srv := fun _ => some { status := 302, loc := "/n" },
                         ex := fun id => { assets := [(id ++ "r", "/n")] } }
    (life S I {} [o1, o1, o1] [] seed).1 = 2 ∧ (life S I {} [o1, o1, o1] [] seed).2.isSome = true ∧
    idsOK S I {} [o1, o1, o1] [] seed = true ∧
    (life S I { maxRedirect := 1 } [o2, o2, o2, o2] [] seed).1 = 2 ∧ idsOK S I { maxRedirect := 1 } [o2, o2, o2, o2] [] seed = true := by
  decide +kernel

/-! ### the depth and capture tests as written now

`S.postEarlyGuards` = the arms of the `if / else if` chain of `postprocessItem()` that complete an archived item without extracting anything
from it, translated from the source on every run (an arm reached through `else if` carries the negation of the arms before it). -/

open Zeno.Model.Scope in
/-- every condition of the chain and of the two extraction guards was understood by the translator (an opaque sub-condition would make the
equalities below say nothing about the code), and then: the translated chain takes the decision the model's `postAct` takes, for **every** depth, hop limit and flag combination: an item more
than two levels below the page (redirections not counted), an HTML document found as a requisite, or anything when assets capture is off and
no hop is allowed - unless domains crawl is active -/
theorem c06_depth_tests_known :
    (S.postEarlyGuards.all PCond.known && S.wantAssetsCond.known && S.wantOutlinksCond.known && !S.postEarlyGuards.isEmpty) = true := by decide

open Zeno.Model.Scope in
theorem c06_depth_tests_translated (e : PEnv) : completesEarly S.postEarlyGuards e = modelCompletesEarly S e := by
  obtain ⟨dc, depth, html, da, mh⟩ := e
  have hcut : S.depthCut = 2 := by decide
  have hop : S.depthCutOp = .gt := by decide
  have hrule : S.disableAssetsRule = "whenNoHops" := by decide
  simp only [modelCompletesEarly, hcut, hop, hrule]
  simp only [completesEarly, S, Zeno.Gen.Stages.facts, List.any_cons, List.any_nil, PCond.eval, PAtom.eval, Cmp.eval, Bool.or_false]
  cases dc <;> cases html <;> cases da <;> by_cases h1 : (2 : Int) < depth <;> by_cases h2 : depth = 1 <;> by_cases h3 : mh = 0 <;>
    simp [h1, h2, h3] <;> omega

open Zeno.Model.Scope in
/-- `shouldExtractAssets` and `shouldExtractOutlinks`, translated the same way, are the two guards the model's `postAct` uses: requisites are
extracted when assets capture is on and the body was kept; outlinks when domains crawl is active or the page has fewer hops than `--max-hops`
(and the body was kept) - for every hop count and hop limit -/
theorem c06_extraction_guards_translated (e : PEnv) :
    S.wantAssetsCond.eval e = (!e.disableAssets && e.body) ∧
    S.wantOutlinksCond.eval e = ((e.domainsCrawl && e.body) || (S.outlinkHopsOp.eval e.hops e.maxHops && e.body)) := by
  obtain ⟨dc, depth, html, da, mh, body, hops⟩ := e
  have hop : S.outlinkHopsOp = .lt := by decide
  simp only [S, Zeno.Gen.Stages.facts, PCond.eval, PAtom.eval, Cmp.eval, hop]
  constructor
  · cases da <;> cases body <;> simp
  · cases dc <;> cases body <;> by_cases h : hops < mh <;> simp [h]

end Zeno.Props.C06
