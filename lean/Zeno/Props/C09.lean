import Zeno.Proofs.Url
import Zeno.Gen.Url
/-!
# C09 — URL canonicalisation is deterministic, idempotent, yields only http(s) URLs

Statements only. `G` = facts regenerated from preprocessor/url.go and models/url.go. What is proved
is Zeno's own part: the byte-level escaping and the (ordered) query re-encoding of `URLToString`,
and the guard sequence of `NormalizeURL` over the record the URL parser returns. Parsing and
reference resolution (ada, net/url, idna) are oracles, checked by the correspondence stream only.
Bytes are naturals `< 256`.
-/
namespace Zeno.Props.C09
open Zeno Zeno.Model.Url

abbrev G : Facts := Zeno.Gen.Url.facts

theorem facts_ok : ok G = true := by decide

/-- `QueryUnescape (QueryEscape b) = b` for every byte string -/
theorem c09_unescape_escape (b : Bytes) (hb : ∀ c ∈ b, c < 256) : queryUnescape (queryEscape b) = some b :=
  unescape_escape b hb

/-- **Well-formed query parameters keep their order and multiplicity**: re-encoding any list of
(key, value) pairs and parsing it again gives back exactly that list (repeated keys, empty keys,
empty values, any bytes). -/
theorem c09_query_order_multiplicity (ps : List (Bytes × Bytes)) (h : ∀ p ∈ ps, WfPair p) :
    parsePairs (encodePairs ps) = ps :=
  parse_encode ps h

/-- **Idempotent**: canonicalising a canonical query string leaves it unchanged, for every raw query
(malformed pairs included: they are dropped the first time). -/
theorem c09_idempotent_query (q : Bytes) (hq : ∀ c ∈ q, c < 256) : canonQuery (canonQuery q) = canonQuery q :=
  canon_idem q hq

/-- **Deterministic**: with the ordered encoder the canonical query is a function of the raw query
(it is a Lean function; the fact `encodeOrder = "ordered"` ties it to the source). With an encoder
that ranges over a Go map it is not: two admissible outputs for the same two-key query differ
(defect D1, repaired). -/
theorem c09_map_order_not_deterministic :
    let ps : List (Bytes × Bytes) := [([97], [49]), ([98], [50])]      -- a=1&b=2
    MapOrder ps (groupBy ps [[97], [98]]) ∧ MapOrder ps (groupBy ps [[98], [97]]) ∧
    encodePairs (groupBy ps [[97], [98]]) ≠ encodePairs (groupBy ps [[98], [97]]) := by
  refine ⟨⟨[[97], [98]], by decide, by decide, by decide, rfl⟩, ⟨[[98], [97]], by decide, by decide, by decide, rfl⟩, by decide⟩

/-- **Shape**: whatever the parser returned, a URL that passes the guards has protocol http or https
and a host that contains a dot and is neither `localhost` nor `127.0.0.1` (the fragment is cleared
before the guards: fact `hashCleared`). -/
theorem c09_shape (protocol hostname : String) (h : guard G protocol hostname = .ok) :
    (protocol = "http:" ∨ protocol = "https:") ∧ hostname ≠ "localhost" ∧ hostname ≠ "127.0.0.1" ∧
    '.' ∈ hostname.toList :=
  guard_ok G facts_ok protocol hostname h

/-- non-vacuity: `b=2&a=1&b=3&bad=%zz&x` canonicalises to `b=2&a=1&b=3&x=` -/
example : canonQuery [98,61,50,38,97,61,49,38,98,61,51,38,98,97,100,61,37,122,122,38,120]
    = [98,61,50,38,97,61,49,38,98,61,51,38,120,61] := by decide

end Zeno.Props.C09
