import Zeno.Proofs.Url
import Zeno.Proofs.Resolve
import Zeno.Gen.Url
/-!
# C09 — URL canonicalisation is deterministic, idempotent, yields only http(s) URLs

Statements only. `G` = facts regenerated from preprocessor/url.go and models/url.go. What is proved
is Zeno's own part: the byte-level escaping and the (ordered) query re-encoding of `URLToString`,
and the guard sequence of `NormalizeURL` over the record the URL parser returns. Parsing (ada, net/url,
idna) is an oracle. Reference resolution is done by ada as well; `Model/Resolve.lean` is the resolver of
the URL standard (RFC 3986 §5.2 on http(s) URLs) that the real normaliser is compared with on generated
(page, reference) pairs, and the `c09_resolve_*` theorems say what that reference guarantees.
Bytes are naturals `< 256`.
-/
namespace Zeno.Props.C09
open Zeno Zeno.Model.Url

abbrev G : Facts := Zeno.Gen.Url.facts

theorem facts_ok : ok G = true := by decide

/-- `QueryUnescape (QueryEscape b) = b` for every byte string -/
theorem c09_unescape_escape (b : Bytes) (hb : ∀ c ∈ b, c < 256) : queryUnescape (queryEscape b) = some b :=
  unescape_escape b hb

/-- **Well-formed query parameters keep their order and multiplicity**: re-encoding any list of
(key, value) pairs and parsing it again gives back exactly that list (repeated keys, empty keys,
empty values, any bytes). -/
theorem c09_query_order_multiplicity (ps : List (Bytes × Bytes)) (h : ∀ p ∈ ps, WfPair p) :
    parsePairs (encodePairs ps) = ps :=
  parse_encode ps h

/-- **Idempotent**: canonicalising a canonical query string leaves it unchanged, for every raw query
(malformed pairs included: they are dropped the first time). -/
theorem c09_idempotent_query (q : Bytes) (hq : ∀ c ∈ q, c < 256) : canonQuery (canonQuery q) = canonQuery q :=
  canon_idem q hq

/-- **Deterministic**: with the ordered encoder the canonical query is a function of the raw query
(it is a Lean function; the fact `encodeOrder = "ordered"` ties it to the source). With an encoder
that ranges over a Go map it is not: two admissible outputs for the same two-key query differ
(defect D1, repaired). -/
theorem c09_map_order_not_deterministic :
    let ps : List (Bytes × Bytes) := [([97], [49]), ([98], [50])]      -- a=1&b=2
    MapOrder ps (groupBy ps [[97], [98]]) ∧ MapOrder ps (groupBy ps [[98], [97]]) ∧
    encodePairs (groupBy ps [[97], [98]]) ≠ encodePairs (groupBy ps [[98], [97]]) := by
  refine ⟨⟨[[97], [98]], by decide, by decide, by decide, rfl⟩, ⟨[[98], [97]], by decide, by decide, by decide, rfl⟩, by decide⟩

/-- **Shape**: whatever the parser returned, a URL that passes the guards has protocol http or https
and a host that contains a dot and is neither `localhost` nor `127.0.0.1` (the fragment is cleared
before the guards: fact `hashCleared`). -/
theorem c09_shape (protocol hostname : String) (h : guard G protocol hostname = .ok) :
    (protocol = "http:" ∨ protocol = "https:") ∧ hostname ≠ "localhost" ∧ hostname ≠ "127.0.0.1" ∧
    '.' ∈ hostname.toList :=
  guard_ok G facts_ok protocol hostname h

/-- non-vacuity: `b=2&a=1&b=3&bad=%zz&x` canonicalises to `b=2&a=1&b=3&x=` -/
example : canonQuery [98,61,50,38,97,61,49,38,98,61,51,38,98,97,100,61,37,122,122,38,120]
    = [98,61,50,38,97,61,49,38,98,61,51,38,120,61] := by decide

/-! ## relative references, as the URL standard prescribes -/
open Zeno.Model.Resolve in
/-- **Dot segments.** Resolving any reference (absolute, scheme-relative, path-absolute, path-relative, query-only, empty)
against a page with a host leaves a path that starts at the root and contains neither `.` nor `..`. -/
theorem c09_resolve_no_dot_segments (b r : Ref) (hb : b.auth.isSome = true) (hbp : b.path.head? = some "") (hr : WfRef r) :
    NoDots (resolve b r).path ∧ (resolve b r).path.head? = some "" := resolve_path b r hb hbp hr

open Zeno.Model.Resolve in
/-- **What a relative reference inherits**: without a scheme it keeps the page's scheme; without an authority the page's host;
with one (`//host/…`) that host. -/
theorem c09_resolve_inherits (b r : Ref) (hs : r.scheme = none) :
    (resolve b r).scheme = b.scheme ∧ (r.auth = none → (resolve b r).auth = b.auth) ∧ (∀ a, r.auth = some a → (resolve b r).auth = some a) :=
  resolve_inherits b r hs

open Zeno.Model.Resolve in
/-- **Query-only and empty references** keep the page's path; the former replaces the query, the latter keeps it. -/
theorem c09_resolve_query_only (b r : Ref) (hs : r.scheme = none) (ha : r.auth = none) (hp : r.path = [""]) :
    (resolve b r).path = rootIfEmpty (removeDots b.path) ∧
    (∀ q, r.query = some q → (resolve b r).query = some q) ∧ (r.query = none → (resolve b r).query = b.query) :=
  ⟨(by unfold resolve; simp [hs, ha, hp]), fun q hq => (resolve_query_only b r hs ha hp q hq).2, fun hq => (resolve_empty b r hs ha hp hq).2⟩

open Zeno.Model.Resolve in
/-- **Path-absolute references** keep nothing of the page's path or query. -/
theorem c09_resolve_path_absolute (b r : Ref) (hs : r.scheme = none) (ha : r.auth = none) (hp : r.path.head? = some "") (hne : r.path ≠ [""]) :
    (resolve b r).path = rootIfEmpty (removeDots r.path) ∧ (resolve b r).query = r.query := resolve_path_absolute b r hs ha hp hne

open Zeno.Model.Resolve in
/-- **Idempotent**: removing dot segments twice, or resolving a resolved URL again, changes nothing. -/
theorem c09_resolve_idempotent (b r : Ref) (hb : b.auth.isSome = true) (hbs : b.scheme.isSome = true) (hbp : b.path.head? = some "") (hr : WfRef r) :
    resolve b (resolve b r) = resolve b r ∧ removeDots (removeDots b.path) = removeDots b.path :=
  ⟨resolve_idem b r hb hbs hbp hr, removeDots_idem b.path hbp⟩

/-- non-vacuity: the standard's own examples (RFC 3986 §5.4) on an http page -/
example :
    let base := "http://a.example/b/c/d;p?q"
    Zeno.Model.Resolve.resolveText base "g" = "http://a.example/b/c/g" ∧
    Zeno.Model.Resolve.resolveText base "./g/" = "http://a.example/b/c/g/" ∧
    Zeno.Model.Resolve.resolveText base "/g" = "http://a.example/g" ∧
    Zeno.Model.Resolve.resolveText base "//g.example" = "http://g.example/" ∧
    Zeno.Model.Resolve.resolveText base "?y" = "http://a.example/b/c/d;p?y" ∧
    Zeno.Model.Resolve.resolveText base "" = "http://a.example/b/c/d;p?q" ∧
    Zeno.Model.Resolve.resolveText base "../../../g" = "http://a.example/g" ∧
    Zeno.Model.Resolve.resolveText base "../g/./h/../i#frag" = "http://a.example/b/g/i" ∧
    Zeno.Model.Resolve.resolveText base "g;x=1/../y" = "http://a.example/b/c/y" := by
  decide +kernel

end Zeno.Props.C09
